import LitexModel.Generated.ClockRanges
namespace Litex.C20
end Litex.C20
