import LitexProofs.Clock.Params
import LitexProofs.Clock.IntelGowin
import LitexProofs.Clock.QRat
import LitexProofs.Clock.Emit
import LitexProofs.Clock.GowinComplete
import LitexProofs.Clock.Gw5a
import LitexProofs.Clock.Efinix
import LitexModel.Clock.EmitB
import LitexModel.Generated.ClockRangesB
import LitexModel.Generated.ClockRanges
/-
  C20 — Computed PLL/clock configurations meet the request and the device limits.

  Models (LitexModel/Clock/*): the `compute_config` searches of the clocking helpers as nested `List.findSome?`
  loops in the Python iteration order, over exact rationals (`Q`), parametrised by a device range table
  (`XDev`, `EDev`, `IDev`, `NDev`; the tables of the real classes are regenerated into
  `LitexModel/Generated/ClockRanges.lean` on every run).  `…Valid dev req cfg` (LitexModel/Clock/Spec.lean) is the
  conclusion of the property, stated on the returned configuration only.

  Every theorem quantifies over ALL device tables (hence all vendors' classes, speed grades and any future change of
  a range), all input frequencies and all lists of (frequency, phase, margin) requests.
  Covered by theorems: Xilinx generic search (S6PLL, S6DCM, S7PLL, S7MMCM, USPLL, USMMCM, USPPLL) and USPMMCM,
  ECP5, iCE40, NX, Intel (ALTPLL best-of search), Gowin GW1N/GW2A, NXOSCA and GW1NOSC divider choices.
  GW5A (best-of search, LitexModel/Clock/Gw5a.lean) and Efinix Trion (feedback-mode search, LitexModel/Clock/Efinix.lean),
  the complete emitted Instance of every helper (LitexModel/Clock/Emit.lean, EmitB.lean) and the CologneChip CC_PLL
  request check (session 2).
-/
namespace Litex.C20
open Litex.Clock

/-! ## Meaning of the atoms of `Valid` over ℚ -/

/-- The margin test used by every search and by `Valid` is `|clk − f| ≤ f·m` over the rationals. -/
theorem within_is_margin_test (clk : Q) (o : Out) (hc : 0 < clk.den) (hf : 0 < o.freq.den) (hm : 0 < o.margin.den) :
    within clk o = true ↔ |clk.toRat - o.freq.toRat| ≤ o.freq.toRat * o.margin.toRat :=
  within_iff_rat clk o hc hf hm

/-- The window test is `lo ≤ x ≤ hi` over the rationals. -/
theorem inRange_is_window_test (lo hi x : Q) (h1 : 0 < lo.den) (h2 : 0 < hi.den) (h3 : 0 < x.den) :
    inRange lo hi x = true ↔ lo.toRat ≤ x.toRat ∧ x.toRat ≤ hi.toRat :=
  inRange_iff_rat lo hi x h1 h2 h3

/-- `clkdiv_range(start, stop, step)` yields exactly the values `start + i·step` below `stop`. -/
theorem clkdiv_range_enumerates (r : DivRange) (hs : 0 < r.s) (q : Q) :
    q ∈ r.toList ↔ ∃ i, r.a + i * r.s < r.b ∧ q = ⟨r.a + i * r.s, r.k⟩ :=
  DivRange.mem_toList hs

/-! ## Xilinx (`XilinxClocking.compute_config`, `USPMMCM.compute_config`) -/

/-- search_sound: a returned configuration is valid. -/
theorem xilinx_search_sound (d : XDev) (r : XReq) (c : XCfg) (h : xSearch d r = some c) : XValid d r c :=
  xSearch_sound h

/-- search_complete: "No PLL config found" only if no configuration of the declared grid is valid. -/
theorem xilinx_search_complete (d : XDev) (r : XReq) (h : xSearch d r = none) : ∀ c, ¬ XValid d r c :=
  xSearch_complete h

/-- search_first: the returned (input divider, multiplier) is the first valid pair in iteration order, and the
    dividers are exactly the per-output scan at that VCO. -/
theorem xilinx_search_first (d : XDev) (r : XReq) (c : XCfg) (h : xSearch d r = some c) :
    ∃ dcs₁ dcs₂ ms₁ ms₂, d.divclks = dcs₁ ++ c.divclk :: dcs₂ ∧ d.multList = ms₁ ++ c.mult :: ms₂ ∧
      (∀ c', XValid d r c' → c'.divclk ∉ dcs₁) ∧
      (∀ c', XValid d r c' → c'.divclk = c.divclk → c'.mult ∉ ms₁) ∧
      xOuts d (c.vco r) 0 r.outs = some c.ds :=
  xSearch_first h

/-- … and for an output with a single declared divider range the divider is the first acceptable one. -/
theorem xilinx_divider_first (d : XDev) (vco : Q) (n : Nat) (o : Out) (rg : List Q) (dv : Q)
    (h : d.rangesFor n = [rg]) (hs : xOut d vco n o = some dv) :
    ∃ pre suf, rg = pre ++ dv :: suf ∧ d.ok vco o dv = true ∧ ∀ x ∈ pre, d.ok vco o x = false :=
  xOut_single_first h hs

/-- Shape of the regenerated tables: positive steps everywhere, and every output has a single divider range except
    output 0 of S7MMCM (integer range + fractional 1/8 range). -/
theorem xilinx_tables_shape :
    ∀ e ∈ Gen.xilinx, 0 < e.2.2.mults.s ∧ 0 < e.2.2.mults.k ∧ 0 < e.2.2.common.s ∧ 0 < e.2.2.common.k ∧
      ∀ n ∈ List.range e.2.2.nmax, ((e.2.2.rangesFor n).length = 1 ∨ (e.1.startsWith "S7MMCM" ∧ n = 0)) := by
  decide +kernel

/-- params_match (PLL/MMCM): the primitive's output `clkin·CLKFBOUT_MULT/(DIVCLK_DIVIDE·CLKOUTn_DIVIDE)` is the
    configured `vco/dₙ`; the placed numbers are the configuration's. -/
theorem xilinx_params_match (r : XReq) (c : XCfg) :
    (xParams .pll r c).take 2 = [("CLKFBOUT_MULT", c.mult.toSQ), ("DIVCLK_DIVIDE", (Q.ofNat c.divclk).toSQ)] ∧
    (xParams .mmcm r c).take 2 = [("CLKFBOUT_MULT_F", c.mult.toSQ), ("DIVCLK_DIVIDE", (Q.ofNat c.divclk).toSQ)] ∧
    ∀ dn : Q, ((r.clkin.mul c.mult).div ((Q.ofNat c.divclk).mul dn)).beq ((c.vco r).div dn) = true :=
  ⟨rfl, rfl, pll_freq r c⟩

/-- params_match (S6DCM): `CLKFX_MULTIPLY = mult`, `CLKFX_DIVIDE = d₀·divclk`, and
    `clkin·CLKFX_MULTIPLY/CLKFX_DIVIDE` is the configured output frequency. -/
theorem s6dcm_params_match (r : XReq) (c : XCfg) (d0 : Q) (ds : List Q) (h : c.ds = d0 :: ds) :
    xParams .s6dcm r c = [("CLKFX_MULTIPLY", c.mult.toSQ), ("CLKFX_DIVIDE", (d0.mulNat c.divclk).toSQ)] ∧
    ((r.clkin.mul c.mult).div (d0.mulNat c.divclk)).beq ((c.vco r).div d0) = true := by
  refine ⟨?_, s6dcm_freq r c d0⟩
  simp [xParams, h]

/-! non-vacuity: S7MMCM speed grade -1, 100 MHz in, 125 MHz (margin 0) and 200 MHz@90° (margin 1e-2) out. -/
def s7mmcm : XDev := ((Gen.xilinx.find? (·.1 == "S7MMCM:-1")).map (·.2.2)).getD default
def reqX : XReq := ⟨⟨100000000, 1⟩, ⟨0, 1⟩, [⟨⟨125000000, 1⟩, ⟨0, 1⟩, ⟨0, 1⟩⟩, ⟨⟨200000000, 1⟩, ⟨90, 1⟩, ⟨1, 100⟩⟩]⟩
example : xSearch s7mmcm reqX = some ⟨1, ⟨10, 1⟩, [⟨8, 1⟩, ⟨5, 1⟩]⟩ := by decide +kernel
/-- a refusal: 100 MHz → 123.456789 MHz exactly (margin 0) is impossible on an S6DCM. -/
def s6dcm : XDev := ((Gen.xilinx.find? (·.1 == "S6DCM:-1")).map (·.2.2)).getD default
example : xSearch s6dcm ⟨⟨100000000, 1⟩, ⟨0, 1⟩, [⟨⟨123456789, 1⟩, ⟨0, 1⟩, ⟨0, 1⟩⟩]⟩ = none := by decide +kernel

/-! range ends of a helper with its OWN search: the USPMMCM multiplier / CLKOUT0-divider lists are literals inside
    `USPMMCM.compute_config`; they are regenerated from the source of the tree under test (`c20lib.usp_code_ranges`), so a
    shortened list changes the table and breaks these kernel checks: both lists run 2.0 … 128.0 in steps of 1/8, and the
    request that ONLY the last multiplier serves (12.5 MHz in, 800 MHz exactly: VCO 1600 MHz = top of the window) is accepted. -/
def uspmmcm : XDev := ((Gen.xilinx.find? (·.1 == "USPMMCM:-1")).map (·.2.2)).getD default
example : uspmmcm.multList.head? = some ⟨1024, 8⟩ ∧ uspmmcm.multList.getLast? = some ⟨16, 8⟩ ∧ uspmmcm.mults.count = 1009 ∧
    uspmmcm.out0 = some ⟨16, 1025, 1, 8⟩ := by decide +kernel
/- stated on the FIRST grid point the search visits (divclk 1, head of the regenerated multiplier list) so that a broken
   table fails in one step instead of walking the whole grid in the kernel; `xSearch` returns this point when it is `some`. -/
example : (uspmmcm.multList.head?.bind fun m => xTry uspmmcm ⟨⟨12500000, 1⟩, ⟨0, 1⟩, [⟨⟨800000000, 1⟩, ⟨0, 1⟩, ⟨0, 1⟩⟩]⟩ 1 m)
    = some ⟨1, ⟨1024, 8⟩, [⟨16, 8⟩]⟩ ∧ uspmmcm.divclks.head? = some 1 := by
  decide +kernel

/-! ## Lattice ECP5 (`ECP5PLL.compute_config`, tree with the `clkfb is None` and spare-divider fixes) -/

/-- search_sound (requests never exceed the number of outputs: asserted by `create_clkout`). -/
theorem ecp5_search_sound (d : EDev) (r : EReq) (c : ECfg) (hn : r.outs.length ≤ d.nmax)
    (h : eSearch d r = some c) : EValid d r c :=
  eSearch_sound hn h

/-  Full statement (FALSE on the code, see the witness below):
      theorem ecp5_search_complete (d r) (h : eSearch d r = none) : ∀ c, ¬ EValid d r c
    With all `nmax` outputs requested the feedback must be an output whose FIRST matching divider equals the
    searched feedback divider; a valid setting that needs a later matching divider is refused
    (known finding C20-ecp5-4out-first-divider). -/
/-- search_complete, proved when a spare output is left for the feedback. -/
theorem ecp5_search_complete_partial (d : EDev) (r : EReq) (hsp : r.outs.length < d.nmax)
    (h : eSearch d r = none) : ∀ c, ¬ EValid d r c :=
  eSearch_complete_of_spare hsp h

/-- search_first (same hypothesis): no valid configuration uses an earlier CLKI divider. -/
theorem ecp5_search_first_partial (d : EDev) (r : EReq) (c : ECfg) (hsp : r.outs.length < d.nmax)
    (h : eSearch d r = some c) :
    ∃ is₁ is₂, d.clkis = is₁ ++ c.clkiDiv :: is₂ ∧ ∀ c', EValid d r c' → c'.clkiDiv ∉ is₁ :=
  eSearch_first_of_spare hsp h

/-- Negative witness in the excluded region (real ECP5 table, all 4 outputs requested): 10 MHz in, four outputs of
    10.13 MHz ± 1.3 % are refused although clki=1, clkfb_div=1, all dividers 40 (VCO 400 MHz, 10.0 MHz out,
    feedback from output 0) is valid. -/
def reqE4 : EReq :=
  let o : EOut := ⟨⟨⟨10130000, 1⟩, ⟨0, 1⟩, ⟨13, 1000⟩⟩, false⟩
  ⟨⟨10000000, 1⟩, false, [o, o, o, o]⟩
example : eSearch Gen.ecp5 reqE4 = none ∧ EValid Gen.ecp5 reqE4 ⟨1, 1, 0, [40, 40, 40, 40]⟩ := by decide +kernel

/-- Witness of the fixed finding C20-ecp5-clkfb0 (feedback from output 0 with all outputs used is accepted). -/
def reqEfb0 : EReq := ⟨⟨25000000, 1⟩, false,
  [⟨⟨⟨50000000, 1⟩, ⟨0, 1⟩, ⟨1, 1000⟩⟩, false⟩, ⟨⟨⟨800000000, 3⟩, ⟨0, 1⟩, ⟨1, 1000⟩⟩, false⟩,
   ⟨⟨⟨800000000, 7⟩, ⟨0, 1⟩, ⟨1, 1000⟩⟩, false⟩, ⟨⟨⟨800000000, 11⟩, ⟨0, 1⟩, ⟨1, 1000⟩⟩, false⟩]⟩
example : eSearch Gen.ecp5 reqEfb0 = some ⟨1, 2, 0, [16, 3, 7, 11]⟩ := by decide +kernel
/-- non-vacuity of the spare branch: one request, a spare output (index 1) carries the feedback divider. -/
example : eSearch Gen.ecp5 ⟨⟨100000000, 1⟩, false, [⟨⟨⟨950000000, 3⟩, ⟨0, 1⟩, ⟨1, 1000000000⟩⟩, false⟩]⟩ =
    some ⟨3, 19, 1, [2, 1]⟩ := by decide +kernel

/-- params_match: every enabled output gets its divider, and `CPHASE`/`FPHASE` recombine to
    `round(phase·div/45)` (`FPHASE` = low 3 bits, `CPHASE − (div−1)` = the rest). -/
theorem ecp5_params_match (r : EReq) (c : ECfg) :
    (eParams r c).length = c.divs.length ∧
    (∀ n (h : n < c.divs.length), ∃ fp cp, (eParams r c)[n]? = some ((c.divs[n] : Int), fp, cp)) ∧
    ∀ (p : SQ) (div : Nat), 8 * (eCPhase p div - ((div : Int) - 1)) + eFPhase p div = ePhaseWord p div ∧
      0 ≤ eFPhase p div ∧ eFPhase p div < 8 :=
  ⟨eParams_length r c, fun n h => ⟨_, _, eParams_getElem r c n h⟩, ePhase_split⟩

/-! ## Lattice iCE40 (`iCE40PLL.compute_config`) -/

theorem ice40_search_sound (d : IDev) (clkin : Q) (o : Out) (c : ICfg) (h : iSearch d clkin o = some c) :
    IValid d clkin o c := iSearch_sound h

theorem ice40_search_complete (d : IDev) (clkin : Q) (o : Out) (h : iSearch d clkin o = none) :
    ∀ c, ¬ IValid d clkin o c := iSearch_complete h

/-- search_first: (DIVR, DIVF, DIVQ) is lexicographically the first valid triple in iteration order. -/
theorem ice40_search_first (d : IDev) (clkin : Q) (o : Out) (c : ICfg) (h : iSearch d clkin o = some c) :
    ∃ rs₁ rs₂ fs₁ fs₂ qs₁ qs₂, pyRange d.divrLo d.divrHi = rs₁ ++ c.divr :: rs₂ ∧
      pyRange d.divfLo d.divfHi = fs₁ ++ c.divf :: fs₂ ∧ pyRange d.divqLo d.divqHi = qs₁ ++ c.divq :: qs₂ ∧
      (∀ c', IValid d clkin o c' → c'.divr ∉ rs₁) ∧
      (∀ c', IValid d clkin o c' → c'.divr = c.divr → c'.divf ∉ fs₁) ∧
      (∀ c', IValid d clkin o c' → c'.divr = c.divr → c'.divf = c.divf → c'.divq ∉ qs₁) :=
  iSearch_first h

example : iSearch Gen.ice40 ⟨12000000, 1⟩ ⟨⟨48000000, 1⟩, ⟨0, 1⟩, ⟨1, 100⟩⟩ = some ⟨0, 63, 4⟩ := by decide +kernel

/-! ## Lattice NX (`NXPLL.compute_config` / `do_finalize`) -/

/-- search_sound for everything the code checks (dividers, VCO window, margins). -/
theorem nx_search_sound_nopfd (d : NDev) (r : NReq) (c : NCfg) (h : nSearch d r = some c) : NValidNoPfd d r c :=
  nSearch_sound h

/-  Full statement (FALSE on the code):  nSearch d r = some c → NValid d r c.
    `compute_config` never checks the declared `vco_in_freq_range` (known finding C20-nx-pfd-range-unchecked). -/
/-- search_sound under the hypothesis that the chosen input divider keeps the PFD inside its declared window. -/
theorem nx_search_sound_partial (d : NDev) (r : NReq) (c : NCfg) (h : nSearch d r = some c)
    (hpfd : inRange d.pfdMin d.pfdMax (r.clkin.divNat c.clkiDiv) = true) : NValid d r c :=
  ⟨nSearch_sound h, hpfd⟩

/-- Negative witness (real NX table): 15 MHz in, 401.25 MHz out → clki_div = 2, PFD 7.5 MHz < 10 MHz. -/
def reqNpfd : NReq := ⟨⟨15000000, 1⟩, [⟨⟨401250000, 1⟩, ⟨0, 1⟩, ⟨0, 1⟩⟩]⟩
example : nSearch Gen.nx reqNpfd = some ⟨2, 107, [2]⟩ ∧ ¬ NValid Gen.nx reqNpfd ⟨2, 107, [2]⟩ := by decide +kernel

theorem nx_search_complete (d : NDev) (r : NReq) (h : nSearch d r = none) : ∀ c, ¬ NValidNoPfd d r c :=
  nSearch_complete h

theorem nx_search_first (d : NDev) (r : NReq) (c : NCfg) (h : nSearch d r = some c) :
    ∃ is₁ is₂ fs₁ fs₂, d.clkis = is₁ ++ c.clkiDiv :: is₂ ∧ d.clkfbs = fs₁ ++ c.clkfbDiv :: fs₂ ∧
      (∀ c', NValidNoPfd d r c' → c'.clkiDiv ∉ is₁) ∧
      (∀ c', NValidNoPfd d r c' → c'.clkiDiv = c.clkiDiv → c'.clkfbDiv ∉ fs₁) :=
  nSearch_first h

/-  Full statement (FALSE on the code): the placed input divider REF_MMD_DIG equals clki_div.
    `do_finalize` writes the literal "1" (known finding C20-nx-clki-div-not-placed). -/
/-- params_match: `DIVF = clkfb_div − 1`, `DIVx = div − 1`, `DELx = int((1+p/360)·div) − 1`; the input divider is
    right only when the search chose `clki_div = 1`. -/
theorem nx_params_match_partial (r : NReq) (c : NCfg) (h1 : c.clkiDiv = 1) :
    (nParams r c).1 = c.clkiDiv ∧ (nParams r c).2.1 + 1 = c.clkfbDiv ∧
    (nParams r c).2.2 = (c.divs.zip r.outs).map fun (dv, o) => ((dv : Int) - 1, nDel o.phase dv) := by
  obtain ⟨a, b, c'⟩ := nParams_spec r c
  exact ⟨by rw [a, h1], b, c'⟩

/-- Negative witness (real NX table): 100 MHz in, 425 MHz out → clki_div = 2 but REF_MMD_DIG = 1. -/
def reqNdiv : NReq := ⟨⟨100000000, 1⟩, [⟨⟨425000000, 1⟩, ⟨0, 1⟩, ⟨0, 1⟩⟩]⟩
example : nSearch Gen.nx reqNdiv = some ⟨2, 17, [2]⟩ ∧ (nParams reqNdiv ⟨2, 17, [2]⟩).1 ≠ 2 := by decide +kernel

/-! ## iCE40 FILTER_RANGE (`do_finalize`) -/

/-- The placed FILTER_RANGE `v` is in 1..6 and the PFD frequency is below the `v`-th threshold of the code's table. -/
theorem ice40_filter_range (clkin : Q) (divr v : Nat) (h : iFilterRange clkin divr = some v) :
    1 ≤ v ∧ v ≤ 6 ∧
    (clkin.divNat (divr + 1)).lt (Q.ofNat ([17000000, 26000000, 44000000, 66000000, 101000000, 133000000].getD (v - 1) 0)) = true :=
  iFilterRange_spec clkin divr v h

/-! ## Intel ALTPLL (`IntelClocking.compute_config` / `do_finalize`) -/

/-- search_sound: the best-of search only returns valid configurations (n, m inside the counter ranges, PFD and VCO
    inside their windows, every c inside its range with `vco/c` within the output's margin).
    Hypotheses: the PFD limits and the input frequency are positive rationals. -/
theorem intel_search_sound (d : ADev) (r : AReq) (c : ACfg) (h1 : 0 < r.clkin.den * d.pfdMax.num)
    (h2 : 0 < r.clkin.den * d.pfdMin.num) (h : aSearch d r = some c) : AValid d r c :=
  aSearch_sound h1 h2 h

/-- search_complete: "No PLL config found" only if no (n, m, c…) of the declared ranges is valid. -/
theorem intel_search_complete (d : ADev) (r : AReq) (h1 : 0 < r.clkin.den * d.pfdMax.num)
    (h2 : 0 < r.clkin.den * d.pfdMin.num) (h : aSearch d r = none) : ∀ c, ¬ AValid d r c :=
  aSearch_complete h1 h2 h

/-- a refusal on the reduced table: 50 MHz → 133.7 MHz exactly. -/
example : aSearch (⟨1, 3, 1, 41, ⟨1, 17, 1, 1⟩, ⟨5000000, 1⟩, ⟨325000000, 1⟩, ⟨600000000, 1⟩, ⟨1300000000, 1⟩, 5⟩ : ADev)
    ⟨⟨50000000, 1⟩, ⟨0, 1⟩, [⟨⟨133700000, 1⟩, ⟨0, 1⟩, ⟨0, 1⟩⟩]⟩ = none := by decide +kernel

/-- params_match: `CLKn_DIVIDE_BY = c·n`, `CLKn_MULTIPLY_BY = m`, `CLKn_PHASE_SHIFT` computed from THAT output's
    recomputed frequency `vco/c`; `clkin·MULTIPLY_BY/DIVIDE_BY` is that frequency. -/
theorem intel_params_match (r : AReq) (c : ACfg) :
    aParams r c = ((c.cs.zip r.outs).map fun (cv, o) => (cv.mulNat c.n, c.m, aPhasePs ((c.vco r).div cv) o.phase)) ∧
    ∀ cv : Q, ((r.clkin.mulNat c.m).div (cv.mulNat c.n)).beq ((c.vco r).div cv) = true :=
  ⟨aParams_spec r c, altpll_freq r c⟩

/-- Phase-shift formula: a 360° request is one period of the output itself (10¹²/f ps, truncated) — not of the
    input clock — and 0° is 0 ps. -/
theorem intel_phase_shift_formula (f : Q) (k : Nat) :
    aPhasePs f ⟨360, 1⟩ = ((10 ^ 12 * f.den / f.num : Nat) : Int) ∧ aPhasePs f ⟨0, k⟩ = 0 :=
  ⟨aPhasePs_full_turn f, aPhasePs_zero f k⟩

/-! non-vacuity (a reduced table keeps the kernel evaluation short: n 1..2, m 1..40, c 1..16, Cyclone windows):
    50 MHz in, 133 MHz ± 1 % at 90° → n = 2, m = 32, c = 6 (50·32/12 = 133.33 MHz), DIVIDE_BY 12, 1875 ps. -/
def smallA : ADev := ⟨1, 3, 1, 41, ⟨1, 17, 1, 1⟩, ⟨5000000, 1⟩, ⟨325000000, 1⟩, ⟨600000000, 1⟩, ⟨1300000000, 1⟩, 5⟩
def reqA : AReq := ⟨⟨50000000, 1⟩, ⟨0, 1⟩, [⟨⟨133000000, 1⟩, ⟨90, 1⟩, ⟨1, 100⟩⟩]⟩
example : aSearch smallA reqA = some ⟨2, 32, [⟨6, 1⟩]⟩ ∧
    aParams reqA ⟨2, 32, [⟨6, 1⟩]⟩ = [(⟨12, 1⟩, 32, 1875)] := by decide +kernel
example : aPhasePs ⟨100000000, 1⟩ ⟨90, 1⟩ = 2500 := by decide

/-! ## Gowin GW1N / GW2A (`GW1NPLL.compute_config` / `do_finalize`, tree with the freq_max fix) -/

/-- search_sound: an accepted request gives IDIV/FBDIV/ODIV inside the primitive's ranges, PFD and VCO inside the
    device windows, an even CLKOUTD divider, and every requested clock on a pin (CLKOUT/CLKOUTP: clkin·fdiv/idiv,
    CLKOUTD3: /3, CLKOUTD: /SDIV) whose frequency passes the helper's acceptance test — in particular a clock routed
    to CLKOUTD really needs the divider that was placed as SDIV.  (Which ClockDomain finally drives a pin when two
    clocks resolve to the same pin is the open finding C20-gw1n-same-pin-overwrite; the statement is per clock.) -/
theorem gw1n_search_sound (d : GDev) (r : GReq) (c : GCfg) (h : gSearch d r = .ok c) : GValid d r c :=
  gSearch_sound h

/-- params_match: (IDIV_SEL, FBDIV_SEL, ODIV_SEL, DYN_SDIV_SEL) = (idiv−1, fdiv−1, odiv, sdiv); the primitive's
    `clkin·(FBDIV_SEL+1)/(IDIV_SEL+1)` is the configured CLKOUT frequency. -/
theorem gw1n_params_match (d : GDev) (r : GReq) (c : GCfg) (h : gSearch d r = .ok c) :
    (gParams c).1 + 1 = c.idiv ∧ (gParams c).2.1 + 1 = c.fdiv ∧ (gParams c).2.2.1 = c.odiv ∧ (gParams c).2.2.2 = c.sdiv ∧
    gOutF r ((gParams c).1 + 1) ((gParams c).2.1 + 1) = gOutF r c.idiv c.fdiv := by
  obtain ⟨h1, h2, _⟩ := gSearch_sound h
  rw [mem_pyRange] at h1 h2
  exact gParams_spec r c h1.1 h2.1

/-  Full statement (FALSE on the code):  gSearch d r = .rejected → ∀ c, ¬ GValid d r c.
    Only the (idiv, fdiv) closest to the HIGHEST requested frequency is tried against the other clocks; a setting that
    serves every clock with a CLKOUT frequency further from (but within the margin of) the highest request is never
    looked at (finding candidate C20-gw1n-best-only-incomplete, witness below). -/
/-- search_complete for the stage that enumerates: "No PLL config found" (no candidate) only if NO (idiv, fdiv, odiv) of
    the primitive's ranges with PFD and VCO inside their windows brings CLKOUT within the margin of the highest
    requested frequency. -/
theorem gw1n_search_complete_partial (d : GDev) (r : GReq) (fm : Out) (h : gPick (gCandidates d r fm) = none)
    (idiv fdiv odiv : Nat) (hi : idiv ∈ pyRange 1 64) (hf : fdiv ∈ pyRange 1 64) (ho : odiv ∈ gOdivs)
    (hp1 : (r.clkin.divNat idiv).lt d.pfdMin = false) (hp2 : d.pfdMax.lt (r.clkin.divNat idiv) = false)
    (hv : inRangeM d.vcoMin d.vcoMax r.vcoMargin ((gOutF r idiv fdiv).mulNat odiv) = true) :
    ((gOutF r idiv fdiv).absDiff fm.freq).le (fm.freq.mul fm.margin) = false := by
  cases hd : ((gOutF r idiv fdiv).absDiff fm.freq).le (fm.freq.mul fm.margin) with
  | false => rfl
  | true =>
    have hm := gCandidates_mem (d := d) (r := r) (fm := fm) hi hf ho hp1 hp2 hv hd
    rw [gPick_none h] at hm
    cases hm

/-- Negative witness of the full statement (real GW1NR table; confirmed on the real code): 27 MHz in, 108 MHz ± 3 % and
    52.5 MHz ± 1e-4 are refused ("Can't obtain requested frequency": the best CLKOUT is 108 MHz, 108/2 ≠ 52.5), although
    idiv 9, fdiv 35, odiv 4 (CLKOUT 105 MHz, within 3 %; CLKOUTD = 105/2 = 52.5 MHz exactly; VCO 420 MHz) is valid —
    the same helper returns exactly that setting when 105 MHz is requested instead of 108 MHz. -/
def gw1nr : GDev := ((Gen.gowin.find? (·.1 == "GW1NR")).map (·.2)).getD default
def reqGinc : GReq := ⟨⟨27000000, 1⟩, ⟨0, 1⟩, [⟨⟨108000000, 1⟩, ⟨0, 1⟩, ⟨3, 100⟩⟩, ⟨⟨52500000, 1⟩, ⟨0, 1⟩, ⟨1, 10000⟩⟩]⟩
example : gSearch gw1nr reqGinc = .rejected := by decide +kernel
example : GValid gw1nr reqGinc ⟨9, 35, 4, 2, 0, [0, 3]⟩ := by unfold GValid; decide +kernel
example : gSearch gw1nr ⟨⟨27000000, 1⟩, ⟨0, 1⟩, [⟨⟨105000000, 1⟩, ⟨0, 1⟩, ⟨3, 100⟩⟩, ⟨⟨52500000, 1⟩, ⟨0, 1⟩, ⟨1, 10000⟩⟩]⟩ =
    .ok ⟨9, 35, 4, 2, 0, [0, 3]⟩ := by decide +kernel

/-! non-vacuity: GW1NR, 27 MHz in, 108 MHz on CLKOUT and 27 MHz (÷4) on CLKOUTD → SDIV = 4. -/
example : gSearch gw1nr ⟨⟨27000000, 1⟩, ⟨0, 1⟩,
    [⟨⟨108000000, 1⟩, ⟨0, 1⟩, ⟨1, 100⟩⟩, ⟨⟨27000000, 1⟩, ⟨0, 1⟩, ⟨1, 100⟩⟩]⟩ = .ok ⟨1, 4, 4, 4, 0, [0, 3]⟩ := by
  decide +kernel

/-! ## Oscillator dividers (`NXOSCA.compute_divisor`, `GW1NOSC`) -/

/-- NXOSCA: the divisor is in range, meets the request, and is the first such in `range(lo, hi)`. -/
theorem nxosc_divisor_sound_first (lo hi : Nat) (hf : Q) (o : Out) (dv : Nat) (h : nxOscDiv lo hi hf o = some dv) :
    dv ∈ pyRange lo hi ∧ within (hf.divNat (dv + 1)) o = true ∧
    ∃ pre suf, pyRange lo hi = pre ++ dv :: suf ∧ ∀ x ∈ pre, within (hf.divNat (x + 1)) o = false :=
  nxOscDiv_some h

/-- NXOSCA: "Bad OSC freq." only if no divisor of the declared range meets the request. -/
theorem nxosc_divisor_complete (lo hi : Nat) (hf : Q) (o : Out) (h : nxOscDiv lo hi hf o = none) :
    ∀ dv ∈ pyRange lo hi, within (hf.divNat (dv + 1)) o = false :=
  nxOscDiv_none h

/-- GW1NOSC: the divider is in range and `f(1−m) ≤ osc/div ≤ f(1+m)`; refusal only if no divider qualifies. -/
theorem gwosc_divider_sound_complete (lo hi : Nat) (osc : Q) (o : Out) :
    (∀ dv, gOscDiv lo hi osc o = some dv → dv ∈ pyRange lo hi ∧ gOscOk osc o dv = true) ∧
    (gOscDiv lo hi osc o = none → ∀ dv ∈ pyRange lo hi, gOscOk osc o dv = false) :=
  ⟨fun _ h => gOscDiv_some h, gOscDiv_none⟩

example : nxOscDiv Gen.nxoscLo Gen.nxoscHi Gen.nxoscHf ⟨⟨10000000, 1⟩, ⟨0, 1⟩, ⟨5, 100⟩⟩ = some 42 := by decide +kernel

/-! ## The emitted primitive: placed parameters, source selectors and port wiring = the configuration

  `…Emit` (LitexModel/Clock/Emit.lean) is the COMPLETE item list of the Instance `do_finalize` emits (every parameter,
  port connection and attribute); the harness reads all items back from the real Instance and compares the two
  dictionaries key by key.  The theorems below say, for ALL requests and configurations, which item carries which
  number of the configuration. -/

/-- params_match (rPLL / PLLVR, every configuration-carrying item by key): IDIV_SEL/FBDIV_SEL/ODIV_SEL/DYN_SDIV_SEL/
    PSDA_SEL, BOTH source selectors and all four output ports. -/
theorem gw1n_params_emitted (dn dv : String) (r : GReq) (c : GCfg) :
    (gEmit dn dv r c).get "p_IDIV_SEL" = some (.int ((c.idiv - 1 : Nat) : Int)) ∧
    (gEmit dn dv r c).get "p_FBDIV_SEL" = some (.int ((c.fdiv - 1 : Nat) : Int)) ∧
    (gEmit dn dv r c).get "p_ODIV_SEL" = some (.int (c.odiv : Int)) ∧
    (gEmit dn dv r c).get "p_DYN_SDIV_SEL" = some (.int (c.sdiv : Int)) ∧
    (gEmit dn dv r c).get "p_PSDA_SEL" = some (.str (bin4 c.psda)) ∧
    (gEmit dn dv r c).get "p_CLKOUTD_SRC" = some (.str (gSrc r c 3)) ∧
    (gEmit dn dv r c).get "p_CLKOUTD3_SRC" = some (.str (gSrc r c 2)) ∧
    (gEmit dn dv r c).get "o_CLKOUT" = some (gPortTok c 0) ∧
    (gEmit dn dv r c).get "o_CLKOUTP" = some (gPortTok c 1) ∧
    (gEmit dn dv r c).get "o_CLKOUTD" = some (gPortTok c 3) ∧
    (gEmit dn dv r c).get "o_CLKOUTD3" = some (gPortTok c 2) :=
  gEmit_get dn dv r c

/-- params_match (source selectors / wiring): the clock `i` recorded for a pin was put on that pin by the configuration,
    the pin's port is wired to clock `i`, and the pin's source selector is "CLKOUT" iff THAT clock was requested with
    phase 0 (else the PSDA-shifted "CLKOUTP" tap) — per pin, so CLKOUTD3 follows the /3 clock, not the CLKOUTD one. -/
theorem gw1n_params_source_selectors (r : GReq) (c : GCfg) (pin i : Nat) (o : Out)
    (h : gPinClock c.pins pin = some i) (ho : r.outs[i]? = some o) :
    c.pins[i]? = some pin ∧ gSrc r c pin = (if o.phase.num = 0 then "CLKOUT" else "CLKOUTP") ∧
    gPortTok c pin = .tok (clkTok i) :=
  gSrc_spec r c pin i o h ho

theorem gw1n_params_unused_pin (r : GReq) (c : GCfg) (pin : Nat) (h : gPinClock c.pins pin = none) :
    gSrc r c pin = "CLKOUT" ∧ gPortTok c pin = .tok "open" :=
  gSrc_unused r c pin h

/-! non-vacuity (the request of seeded change C20-r4m2): GW1NR, 27 MHz in, 90 MHz@0° + 30 MHz@90°: the /3 clock sits
    on CLKOUTD3 taken from the shifted tap while the unused CLKOUTD keeps the default. -/
example : gSearch gw1nr ⟨⟨27000000, 1⟩, ⟨0, 1⟩,
      [⟨⟨90000000, 1⟩, ⟨0, 1⟩, ⟨1, 100⟩⟩, ⟨⟨30000000, 1⟩, ⟨90, 1⟩, ⟨1, 100⟩⟩]⟩ = .ok ⟨3, 10, 8, 2, 4, [0, 2]⟩ := by
  decide +kernel
example : let r : GReq := ⟨⟨27000000, 1⟩, ⟨0, 1⟩, [⟨⟨90000000, 1⟩, ⟨0, 1⟩, ⟨1, 100⟩⟩, ⟨⟨30000000, 1⟩, ⟨90, 1⟩, ⟨1, 100⟩⟩]⟩
    let e := gEmit "GW1NR-9C" "GW1NR-LV9QN88PC6/I5" r ⟨3, 10, 8, 2, 4, [0, 2]⟩
    e.get "p_CLKOUTD3_SRC" = some (.str "CLKOUTP") ∧ e.get "p_CLKOUTD_SRC" = some (.str "CLKOUT") ∧
    e.get "o_CLKOUTD3" = some (.tok "clkout1") ∧ e.get "o_CLKOUTD" = some (.tok "open") ∧
    e.get "p_PSDA_SEL" = some (.str "0100") := by
  decide +kernel

/-- params_match (iCE40): DIVR/DIVF/DIVQ, the output port and the FILTER_RANGE chosen from the PFD frequency. -/
theorem ice40_params_emitted (pad : Bool) (clkin : Q) (c : ICfg) :
    (iEmit pad clkin c).get "p_DIVR" = some (.int (c.divr : Int)) ∧
    (iEmit pad clkin c).get "p_DIVF" = some (.int (c.divf : Int)) ∧
    (iEmit pad clkin c).get "p_DIVQ" = some (.int (c.divq : Int)) ∧
    (iEmit pad clkin c).get "o_PLLOUTGLOBAL" = some (.tok (clkTok 0)) ∧
    (∀ v, iFilterRange clkin c.divr = some v → (iEmit pad clkin c).get "p_FILTER_RANGE" = some (.int (v : Int))) :=
  iEmit_get pad clkin c

/-- params_match (ECP5): input/feedback dividers and feedback path by key; every enabled output `n` (requested or the
    spare feedback output) carries ITS divider, the FPHASE/CPHASE split of ITS phase word, and port CLKO<n> = clock n. -/
theorem ecp5_params_emitted (r : EReq) (c : ECfg) :
    (eEmit r c).get "p_CLKI_DIV" = some (.int (c.clkiDiv : Int)) ∧
    (eEmit r c).get "p_CLKFB_DIV" = some (.int (c.clkfbDiv : Int)) ∧
    (eEmit r c).get "p_FEEDBK_PATH" = some (.str ("INT_O" ++ n2l c.clkfb)) ∧
    ∀ n dv, c.divs[n]? = some dv → ∀ kv ∈ eOutItems r n dv, kv ∈ eEmit r c :=
  ⟨(eEmit_get r c).1, (eEmit_get r c).2.1, (eEmit_get r c).2.2, eEmit_outs r c⟩

/-- params_match (NX): feedback divider (DIVF = DELF = clkfb_div − 1 on the CLKOS5 feedback path) by key, the items of
    every output by membership.  (REF_MMD_DIG: see `nx_params_match_partial`.) -/
theorem nx_params_emitted (r : NReq) (c : NCfg) :
    (nEmit r c).get "p_DIVF" = some (.str (toString ((c.clkfbDiv : Int) - 1))) ∧
    (nEmit r c).get "p_DELF" = some (.str (toString ((c.clkfbDiv : Int) - 1))) ∧
    (nEmit r c).get "p_SEL_FBK" = some (.str "FBKCLK5") ∧
    ∀ n dv o, (c.divs.zip r.outs)[n]? = some (dv, o) → ∀ kv ∈ nOutItems n dv o, kv ∈ nEmit r c :=
  ⟨(nEmit_get r c).1, (nEmit_get r c).2.1, (nEmit_get r c).2.2.1, nEmit_outs r c⟩

/-- params_match (ALTPLL): every requested output `n` carries DIVIDE_BY = cₙ·n_div and MULTIPLY_BY = m under its own key. -/
theorem intel_params_emitted (nmax : Nat) (r : AReq) (c : ACfg) (n : Nat) (cv : Q) (o : Out)
    (h : (c.cs.zip r.outs)[n]? = some (cv, o)) :
    (s!"p_CLK{n}_DIVIDE_BY", pvDiv (cv.mulNat c.n)) ∈ aEmit nmax r c ∧
    (s!"p_CLK{n}_MULTIPLY_BY", PV.int (c.m : Int)) ∈ aEmit nmax r c :=
  ⟨aEmit_outs nmax r c n cv o h _ (aOutItems_spec r c n cv o).1, aEmit_outs nmax r c n cv o h _ (aOutItems_spec r c n cv o).2⟩

/-- params_match (Xilinx PLL_ADV / PLLE2_ADV / MMCME2_ADV / MMCME4_ADV): input divider and multiplier by key (under the
    primitive's own name), every output's divider (`CLKOUT0_DIVIDE_F` on an MMCM) and port CLKOUT<n> = clock n. -/
theorem xilinx_params_emitted (k : XKind) (of : String) (usp : Bool) (r : XReq) (c : XCfg) (hk : k ≠ .s6dcm) :
    (xEmit k of usp r c).get "p_DIVCLK_DIVIDE" = some (.int (c.divclk : Int)) ∧
    (xEmit k of usp r c).get "i_CLKFBIN" = (xEmit k of usp r c).get "o_CLKFBOUT" ∧
    ∀ n dv o, (c.ds.zip r.outs)[n]? = some (dv, o) →
      (s!"o_CLKOUT{n}", PV.tok (clkTok n)) ∈ xEmit k of usp r c ∧
      ((if k = .mmcm ∧ n = 0 then s!"p_CLKOUT{n}_DIVIDE_F" else s!"p_CLKOUT{n}_DIVIDE"),
        if usp ∧ n = 0 then PV.flt dv.toSQ else pvDiv dv) ∈ xEmit k of usp r c :=
  ⟨(xEmit_get k of usp r c hk).1, (xEmit_get k of usp r c hk).2.2, fun n dv o h =>
    ⟨xEmit_outs k of usp r c hk n dv o h _ (xOutItems_spec k usp n dv o).1,
     xEmit_outs k of usp r c hk n dv o h _ (xOutItems_spec k usp n dv o).2⟩⟩

theorem xilinx_params_multiplier (of : String) (usp : Bool) (r : XReq) (c : XCfg) :
    (xEmit .pll of usp r c).get "p_CLKFBOUT_MULT" = some (if usp then .flt c.mult.toSQ else pvDiv c.mult) ∧
    (xEmit .s6pll of usp r c).get "p_CLKFBOUT_MULT" = some (if usp then .flt c.mult.toSQ else pvDiv c.mult) ∧
    (xEmit .mmcm of usp r c).get "p_CLKFBOUT_MULT_F" = some (if usp then .flt c.mult.toSQ else pvDiv c.mult) ∧
    (xEmit .s6dcm of usp r c).get "p_CLKFX_MULTIPLY" = some (if usp then .flt c.mult.toSQ else pvDiv c.mult) ∧
    (xEmit .s6dcm of usp r c).get "p_CLKFX_DIVIDE" = some (pvDiv ((c.ds.headD Q.zero).mulNat c.divclk)) :=
  xEmit_mult of usp r c

/-- CologneChip CC_PLL (no search): an accepted request is realised — every requested clock runs at OUT_CLK, or at
    2·OUT_CLK on a 180°/270° output — and OUT_CLK / CLKxxx_DOUB carry exactly that. -/
theorem gatemate_params_emitted (r : MReq) (h : mLegal r = true) :
    (∃ base, mBase r.outs = some base ∧ ∀ o ∈ r.outs, o.1 ∈ [0, 90, 180, 270] ∧
      (o.2.beq base = true ∨ ((o.1 = 180 ∨ o.1 = 270) ∧ o.2.beq (base.mulNat 2) = true))) ∧
    (mEmit r).get "p_CLK180_DOUB" = some (.int (match mFreqOf r 180 with
      | some f => if f.beq (((mBase r.outs).getD Q.zero).mulNat 2) then 1 else 0 | none => 0)) ∧
    (mEmit r).get "p_CLK270_DOUB" = some (.int (match mFreqOf r 270 with
      | some f => if f.beq (((mBase r.outs).getD Q.zero).mulNat 2) then 1 else 0 | none => 0)) :=
  ⟨mLegal_spec r h, (mEmit_get r).2.1, (mEmit_get r).2.2⟩

example : mLegal ⟨⟨10000000, 1⟩, "speed", 1, 1, false, [(0, ⟨50000000, 1⟩), (180, ⟨100000000, 1⟩)]⟩ = true ∧
    (mEmit ⟨⟨10000000, 1⟩, "speed", 1, 1, false, [(0, ⟨50000000, 1⟩), (180, ⟨100000000, 1⟩)]⟩).get "p_CLK180_DOUB"
      = some (.int 1) := by decide +kernel

/-! ## Gowin GW5A (`GW5APLL.compute_config` / `do_finalize`) -/

/-- search_sound for everything the code checks: IDIV/FBDIV in 1..63, MDIV in 2..127, PFD and VCO inside their windows
    (VCO with `vco_margin`), and per requested output an ODIV ≥ 1 with `|vco/odiv − f| ≤ f·margin`, the phase error of the
    rounded phase step within the margin, and (pe, pe_fine) = (int(p·odiv/360), round(p·odiv·8/360) mod 8). -/
theorem gw5a_search_sound_noodiv (d : WDev) (r : WReq) (c : WCfg) (h : wSearch d r = .ok c) : WValidNoOdiv d r c :=
  wSearch_sound h

/-  Full statement (FALSE on the code):  wSearch d r = .ok c → WValid d r c   (WValid adds ODIVx_SEL ≤ 128).
    `odiv = round(vco/f)` is never checked against the primitive's range (known finding C20-gw5a-odiv-unchecked). -/
/-- search_sound under the hypothesis that every chosen output divider is inside the primitive's range 1..128. -/
theorem gw5a_search_sound_partial (d : WDev) (r : WReq) (c : WCfg) (h : wSearch d r = .ok c)
    (ho : ∀ o ∈ c.outs, o.odiv ≤ 128) : WValid d r c :=
  wSearch_sound_partial h ho

/-- Negative witness (real GW5A-25 table, full search): 50 MHz in, 5 MHz out ± 1 % → ODIV0 = 160 > 128. -/
example : wSearch gw5a25 wWitReq = .ok wWitCfg ∧ (wWitCfg.outs.map (·.odiv)) = [160] ∧ ¬ WValid gw5a25 wWitReq wWitCfg :=
  ⟨wSearch_witness, rfl, wWitness_not_valid⟩
/-- the tables used by the witnesses are the regenerated ones. -/
example : (Gen.gw5a.find? (·.1 == "GW5A")).map (·.2) = some gw5a25 ∧ (Gen.gw5a.find? (·.1 == "GW5AT")).map (·.2) = some gw5at ∧
    Gen.trion = trionDev := by decide
/-- non-vacuity: 50 MHz → 100 MHz is accepted with ODIV0 = 8 and that configuration is fully valid. -/
example : wSearch gw5a25 wOkReq = .ok wOkCfg ∧ WValid gw5a25 wOkReq wOkCfg :=
  ⟨wSearch_ok_example, wSearch_sound_partial wSearch_ok_example (by decide)⟩

/-- search_best: the returned configuration is a kept grid point and its sum of relative errors is ≤ that of every kept
    grid point (the best-of selection is optimal). -/
theorem gw5a_search_best (d : WDev) (r : WReq) (x : WCfg × Q) (hc : 0 < r.clkin.den)
    (ho : ∀ o ∈ r.outs, 0 < o.freq.num ∧ 0 < o.freq.den) (h : wSearchAcc d r = .ok x) :
    (∃ t ∈ wGrid d r, wTryT d r t = .ok x) ∧ ∀ t ∈ wGrid d r, ∀ y, wTryT d r t = .ok y → x.2.le y.2 = true :=
  wSearch_best hc ho h

/-- search_complete w.r.t. the code's own divider choice: "No PLL config found" only if at EVERY (idiv, fdiv, mdiv) of the
    declared ranges with PFD and VCO inside their windows some output fails its margin or phase test at
    `odiv = round(vco/f)` (the enumeration skips nothing). -/
theorem gw5a_search_complete (d : WDev) (r : WReq) (h : wSearch d r = .rejected) (idiv fdiv mdiv : Nat)
    (hi : idiv ∈ pyRange 1 64) (hf : fdiv ∈ pyRange 1 64) (hm : mdiv ∈ pyRange 2 128)
    (hp : inRange d.pfdMin d.pfdMax (r.clkin.divNat idiv) = true)
    (hv : inRangeM d.vcoMin d.vcoMax r.vcoMargin (wVco r.clkin idiv fdiv mdiv) = true) :
    (∀ o ∈ r.outs, 1 ≤ wOdiv (wVco r.clkin idiv fdiv mdiv) o.freq) ∧
    ∃ o ∈ r.outs,
      o.margin.lt (wPhaseErr o.phase (wOdiv (wVco r.clkin idiv fdiv mdiv) o.freq)) = true ∨
      within ((wVco r.clkin idiv fdiv mdiv).divNat (wOdiv (wVco r.clkin idiv fdiv mdiv) o.freq)) o = false :=
  wSearch_rejected_complete h hi hf hm hp hv

/-- the ZeroDivisionError of `vco/odiv` is raised exactly when some in-window grid point has an output with
    `round(vco/f) = 0` (an output above twice the VCO). -/
theorem gw5a_crash_iff (d : WDev) (r : WReq) :
    wSearch d r = .crash ↔
    ∃ t ∈ wGrid d r, inRangeM d.vcoMin d.vcoMax r.vcoMargin (wVco r.clkin t.1 t.2.1 t.2.2) = true ∧
      ∃ o ∈ r.outs, wOdiv (wVco r.clkin t.1 t.2.1 t.2.2) o.freq = 0 :=
  wSearch_crash_iff

/-- params_match (PLLA / PLL): IDIV_SEL/FBDIV_SEL/MDIV_SEL by key; every requested output `n` carries ITS ODIVn_SEL,
    PE_COARSE, PE_FINE, is enabled and drives port CLKOUT<n>. -/
theorem gw5a_params_emitted (device : String) (r : WReq) (c : WCfg) :
    (wEmit device r c).get "p_IDIV_SEL" = some (.int (c.idiv : Int)) ∧
    (wEmit device r c).get "p_FBDIV_SEL" = some (.int (c.fdiv : Int)) ∧
    (wEmit device r c).get "p_MDIV_SEL" = some (.int (c.mdiv : Int)) ∧
    ∀ n w, n < 7 → c.outs[n]? = some w →
      (s!"p_ODIV{n}_SEL", PV.int (w.odiv : Int)) ∈ wEmit device r c ∧
      (s!"p_CLKOUT{n}_PE_COARSE", PV.int w.pe) ∈ wEmit device r c ∧
      (s!"p_CLKOUT{n}_PE_FINE", PV.int w.peFine) ∈ wEmit device r c ∧
      (s!"p_CLKOUT{n}_EN", PV.str "TRUE") ∈ wEmit device r c ∧
      (s!"o_CLKOUT{n}", PV.tok (clkTok n)) ∈ wEmit device r c := by
  refine ⟨rfl, rfl, rfl, fun n w hn hw => ?_⟩
  have hs := wEmit_slots device r c n hn
  rw [hw] at hs
  obtain ⟨a, b, c', d', e⟩ := wSlotItems_spec n w
  exact ⟨hs _ a, hs _ b, hs _ c', hs _ d', hs _ e⟩

/-! ## Efinix Trion (`EFINIXPLL.compute_config`, feedback mode; tree with the fPLL-maximum fix) -/

/-- search_sound: N in 1..15, M in 1..255, O a legal post divider, PFD, VCO and PLL (= VCO/O) frequencies inside their
    declared windows, M·O·Cfbk ≤ 255, every output divider legal for the output's phase and `fPLL/C = f` EXACTLY, the
    feedback output's divider is Cfbk. -/
theorem trion_search_sound (d : TDev) (r : TReq) (c : TCfg) (hden : 0 < r.clkin.den) (hpfd : 0 < d.pfdMax.num)
    (hfd : ∀ o ∈ r.outs, 0 < o.freq.den) (h : tSearch d r = .ok c) : TValid d r c :=
  tSearch_sound hden hpfd hfd h

/-- search_complete: the AssertionError (`final_list` empty) is raised only if NO setting inside the declared ranges
    satisfies the request (well-formed table and request: positive numerators/denominators, positive dividers). -/
theorem trion_search_complete (d : TDev) (r : TReq) (wf : TWf d r) (h : tSearch d r = .assertion) :
    ∀ c, ¬ TValid d r c :=
  fun c => tSearch_complete wf h c

/-- the fixed finding C20-trion-fpll-max-unchecked, universally: a returned configuration keeps fPLL inside its window. -/
theorem trion_pll_window (d : TDev) (r : TReq) (c : TCfg) (hden : 0 < r.clkin.den) (hpfd : 0 < d.pfdMax.num)
    (hfd : ∀ o ∈ r.outs, 0 < o.freq.den) (h : tSearch d r = .ok c) :
    d.pllMin.le (c.pll r) = true ∧ (c.pll r).le d.pllMax = true :=
  tSearch_pll_in_window hden hpfd hfd h

/-! non-vacuity: 16 MHz in, 16 MHz feedback output (witness of the fixed finding): the pre-fix answer (fPLL 3600 MHz)
    is not valid, a valid setting exists, hence (completeness) the search does not refuse; kernel evaluation of the
    whole search on the table with the phase-0 divider range cut to 1..16. -/
example : ¬ TValid trionDev trionReq16to16 ⟨1, 1, 1, 225, [225]⟩ ∧ TValid trionDev trionReq16to16 ⟨1, 1, 8, 28, [28]⟩ ∧
    tSearch trionDev trionReq16to16 ≠ .assertion :=
  ⟨trion_invalid_16to16_pll3600, trion_valid_16to16, trion_16to16_ne_assertion⟩
example : tSearch { trionDev with c0Hi := 17 } trionReq50to100 = .ok ⟨1, 2, 4, 9, [9]⟩ := trion_search_50to100_c16

end Litex.C20
