import LitexProofs.Clock.Params
import LitexProofs.Clock.IntelGowin
import LitexProofs.Clock.QRat
import LitexModel.Generated.ClockRanges
/-
  C20 — Computed PLL/clock configurations meet the request and the device limits.

  Models (LitexModel/Clock/*): the `compute_config` searches of the clocking helpers as nested `List.findSome?`
  loops in the Python iteration order, over exact rationals (`Q`), parametrised by a device range table
  (`XDev`, `EDev`, `IDev`, `NDev`; the tables of the real classes are regenerated into
  `LitexModel/Generated/ClockRanges.lean` on every run).  `…Valid dev req cfg` (LitexModel/Clock/Spec.lean) is the
  conclusion of the property, stated on the returned configuration only.

  Every theorem quantifies over ALL device tables (hence all vendors' classes, speed grades and any future change of
  a range), all input frequencies and all lists of (frequency, phase, margin) requests.
  Covered by theorems: Xilinx generic search (S6PLL, S6DCM, S7PLL, S7MMCM, USPLL, USMMCM, USPPLL) and USPMMCM,
  ECP5, iCE40, NX, Intel (ALTPLL best-of search), Gowin GW1N/GW2A, NXOSCA and GW1NOSC divider choices.
  GW5A and Efinix Trion: oracle-only tie (no Lean model).
-/
namespace Litex.C20
open Litex.Clock

/-! ## Meaning of the atoms of `Valid` over ℚ -/

/-- The margin test used by every search and by `Valid` is `|clk − f| ≤ f·m` over the rationals. -/
theorem within_is_margin_test (clk : Q) (o : Out) (hc : 0 < clk.den) (hf : 0 < o.freq.den) (hm : 0 < o.margin.den) :
    within clk o = true ↔ |clk.toRat - o.freq.toRat| ≤ o.freq.toRat * o.margin.toRat :=
  within_iff_rat clk o hc hf hm

/-- The window test is `lo ≤ x ≤ hi` over the rationals. -/
theorem inRange_is_window_test (lo hi x : Q) (h1 : 0 < lo.den) (h2 : 0 < hi.den) (h3 : 0 < x.den) :
    inRange lo hi x = true ↔ lo.toRat ≤ x.toRat ∧ x.toRat ≤ hi.toRat :=
  inRange_iff_rat lo hi x h1 h2 h3

/-- `clkdiv_range(start, stop, step)` yields exactly the values `start + i·step` below `stop`. -/
theorem clkdiv_range_enumerates (r : DivRange) (hs : 0 < r.s) (q : Q) :
    q ∈ r.toList ↔ ∃ i, r.a + i * r.s < r.b ∧ q = ⟨r.a + i * r.s, r.k⟩ :=
  DivRange.mem_toList hs

/-! ## Xilinx (`XilinxClocking.compute_config`, `USPMMCM.compute_config`) -/

/-- search_sound: a returned configuration is valid. -/
theorem xilinx_search_sound (d : XDev) (r : XReq) (c : XCfg) (h : xSearch d r = some c) : XValid d r c :=
  xSearch_sound h

/-- search_complete: "No PLL config found" only if no configuration of the declared grid is valid. -/
theorem xilinx_search_complete (d : XDev) (r : XReq) (h : xSearch d r = none) : ∀ c, ¬ XValid d r c :=
  xSearch_complete h

/-- search_first: the returned (input divider, multiplier) is the first valid pair in iteration order, and the
    dividers are exactly the per-output scan at that VCO. -/
theorem xilinx_search_first (d : XDev) (r : XReq) (c : XCfg) (h : xSearch d r = some c) :
    ∃ dcs₁ dcs₂ ms₁ ms₂, d.divclks = dcs₁ ++ c.divclk :: dcs₂ ∧ d.multList = ms₁ ++ c.mult :: ms₂ ∧
      (∀ c', XValid d r c' → c'.divclk ∉ dcs₁) ∧
      (∀ c', XValid d r c' → c'.divclk = c.divclk → c'.mult ∉ ms₁) ∧
      xOuts d (c.vco r) 0 r.outs = some c.ds :=
  xSearch_first h

/-- … and for an output with a single declared divider range the divider is the first acceptable one. -/
theorem xilinx_divider_first (d : XDev) (vco : Q) (n : Nat) (o : Out) (rg : List Q) (dv : Q)
    (h : d.rangesFor n = [rg]) (hs : xOut d vco n o = some dv) :
    ∃ pre suf, rg = pre ++ dv :: suf ∧ d.ok vco o dv = true ∧ ∀ x ∈ pre, d.ok vco o x = false :=
  xOut_single_first h hs

/-- Shape of the regenerated tables: positive steps everywhere, and every output has a single divider range except
    output 0 of S7MMCM (integer range + fractional 1/8 range). -/
theorem xilinx_tables_shape :
    ∀ e ∈ Gen.xilinx, 0 < e.2.2.mults.s ∧ 0 < e.2.2.mults.k ∧ 0 < e.2.2.common.s ∧ 0 < e.2.2.common.k ∧
      ∀ n ∈ List.range e.2.2.nmax, ((e.2.2.rangesFor n).length = 1 ∨ (e.1.startsWith "S7MMCM" ∧ n = 0)) := by
  decide +kernel

/-- params_match (PLL/MMCM): the primitive's output `clkin·CLKFBOUT_MULT/(DIVCLK_DIVIDE·CLKOUTn_DIVIDE)` is the
    configured `vco/dₙ`; the placed numbers are the configuration's. -/
theorem xilinx_params_match (r : XReq) (c : XCfg) :
    (xParams .pll r c).take 2 = [("CLKFBOUT_MULT", c.mult.toSQ), ("DIVCLK_DIVIDE", (Q.ofNat c.divclk).toSQ)] ∧
    (xParams .mmcm r c).take 2 = [("CLKFBOUT_MULT_F", c.mult.toSQ), ("DIVCLK_DIVIDE", (Q.ofNat c.divclk).toSQ)] ∧
    ∀ dn : Q, ((r.clkin.mul c.mult).div ((Q.ofNat c.divclk).mul dn)).beq ((c.vco r).div dn) = true :=
  ⟨rfl, rfl, pll_freq r c⟩

/-- params_match (S6DCM): `CLKFX_MULTIPLY = mult`, `CLKFX_DIVIDE = d₀·divclk`, and
    `clkin·CLKFX_MULTIPLY/CLKFX_DIVIDE` is the configured output frequency. -/
theorem s6dcm_params_match (r : XReq) (c : XCfg) (d0 : Q) (ds : List Q) (h : c.ds = d0 :: ds) :
    xParams .s6dcm r c = [("CLKFX_MULTIPLY", c.mult.toSQ), ("CLKFX_DIVIDE", (d0.mulNat c.divclk).toSQ)] ∧
    ((r.clkin.mul c.mult).div (d0.mulNat c.divclk)).beq ((c.vco r).div d0) = true := by
  refine ⟨?_, s6dcm_freq r c d0⟩
  simp [xParams, h]

/-! non-vacuity: S7MMCM speed grade -1, 100 MHz in, 125 MHz (margin 0) and 200 MHz@90° (margin 1e-2) out. -/
def s7mmcm : XDev := ((Gen.xilinx.find? (·.1 == "S7MMCM:-1")).map (·.2.2)).getD default
def reqX : XReq := ⟨⟨100000000, 1⟩, ⟨0, 1⟩, [⟨⟨125000000, 1⟩, ⟨0, 1⟩, ⟨0, 1⟩⟩, ⟨⟨200000000, 1⟩, ⟨90, 1⟩, ⟨1, 100⟩⟩]⟩
example : xSearch s7mmcm reqX = some ⟨1, ⟨10, 1⟩, [⟨8, 1⟩, ⟨5, 1⟩]⟩ := by decide +kernel
/-- a refusal: 100 MHz → 123.456789 MHz exactly (margin 0) is impossible on an S6DCM. -/
def s6dcm : XDev := ((Gen.xilinx.find? (·.1 == "S6DCM:-1")).map (·.2.2)).getD default
example : xSearch s6dcm ⟨⟨100000000, 1⟩, ⟨0, 1⟩, [⟨⟨123456789, 1⟩, ⟨0, 1⟩, ⟨0, 1⟩⟩]⟩ = none := by decide +kernel

/-! ## Lattice ECP5 (`ECP5PLL.compute_config`, tree with the `clkfb is None` and spare-divider fixes) -/

/-- search_sound (requests never exceed the number of outputs: asserted by `create_clkout`). -/
theorem ecp5_search_sound (d : EDev) (r : EReq) (c : ECfg) (hn : r.outs.length ≤ d.nmax)
    (h : eSearch d r = some c) : EValid d r c :=
  eSearch_sound hn h

/-  Full statement (FALSE on the code, see the witness below):
      theorem ecp5_search_complete (d r) (h : eSearch d r = none) : ∀ c, ¬ EValid d r c
    With all `nmax` outputs requested the feedback must be an output whose FIRST matching divider equals the
    searched feedback divider; a valid setting that needs a later matching divider is refused
    (known finding C20-ecp5-4out-first-divider). -/
/-- search_complete, proved when a spare output is left for the feedback. -/
theorem ecp5_search_complete_partial (d : EDev) (r : EReq) (hsp : r.outs.length < d.nmax)
    (h : eSearch d r = none) : ∀ c, ¬ EValid d r c :=
  eSearch_complete_of_spare hsp h

/-- search_first (same hypothesis): no valid configuration uses an earlier CLKI divider. -/
theorem ecp5_search_first_partial (d : EDev) (r : EReq) (c : ECfg) (hsp : r.outs.length < d.nmax)
    (h : eSearch d r = some c) :
    ∃ is₁ is₂, d.clkis = is₁ ++ c.clkiDiv :: is₂ ∧ ∀ c', EValid d r c' → c'.clkiDiv ∉ is₁ :=
  eSearch_first_of_spare hsp h

/-- Negative witness in the excluded region (real ECP5 table, all 4 outputs requested): 10 MHz in, four outputs of
    10.13 MHz ± 1.3 % are refused although clki=1, clkfb_div=1, all dividers 40 (VCO 400 MHz, 10.0 MHz out,
    feedback from output 0) is valid. -/
def reqE4 : EReq :=
  let o : EOut := ⟨⟨⟨10130000, 1⟩, ⟨0, 1⟩, ⟨13, 1000⟩⟩, false⟩
  ⟨⟨10000000, 1⟩, false, [o, o, o, o]⟩
example : eSearch Gen.ecp5 reqE4 = none ∧ EValid Gen.ecp5 reqE4 ⟨1, 1, 0, [40, 40, 40, 40]⟩ := by decide +kernel

/-- Witness of the fixed finding C20-ecp5-clkfb0 (feedback from output 0 with all outputs used is accepted). -/
def reqEfb0 : EReq := ⟨⟨25000000, 1⟩, false,
  [⟨⟨⟨50000000, 1⟩, ⟨0, 1⟩, ⟨1, 1000⟩⟩, false⟩, ⟨⟨⟨800000000, 3⟩, ⟨0, 1⟩, ⟨1, 1000⟩⟩, false⟩,
   ⟨⟨⟨800000000, 7⟩, ⟨0, 1⟩, ⟨1, 1000⟩⟩, false⟩, ⟨⟨⟨800000000, 11⟩, ⟨0, 1⟩, ⟨1, 1000⟩⟩, false⟩]⟩
example : eSearch Gen.ecp5 reqEfb0 = some ⟨1, 2, 0, [16, 3, 7, 11]⟩ := by decide +kernel
/-- non-vacuity of the spare branch: one request, a spare output (index 1) carries the feedback divider. -/
example : eSearch Gen.ecp5 ⟨⟨100000000, 1⟩, false, [⟨⟨⟨950000000, 3⟩, ⟨0, 1⟩, ⟨1, 1000000000⟩⟩, false⟩]⟩ =
    some ⟨3, 19, 1, [2, 1]⟩ := by decide +kernel

/-- params_match: every enabled output gets its divider, and `CPHASE`/`FPHASE` recombine to
    `round(phase·div/45)` (`FPHASE` = low 3 bits, `CPHASE − (div−1)` = the rest). -/
theorem ecp5_params_match (r : EReq) (c : ECfg) :
    (eParams r c).length = c.divs.length ∧
    (∀ n (h : n < c.divs.length), ∃ fp cp, (eParams r c)[n]? = some ((c.divs[n] : Int), fp, cp)) ∧
    ∀ (p : SQ) (div : Nat), 8 * (eCPhase p div - ((div : Int) - 1)) + eFPhase p div = ePhaseWord p div ∧
      0 ≤ eFPhase p div ∧ eFPhase p div < 8 :=
  ⟨eParams_length r c, fun n h => ⟨_, _, eParams_getElem r c n h⟩, ePhase_split⟩

/-! ## Lattice iCE40 (`iCE40PLL.compute_config`) -/

theorem ice40_search_sound (d : IDev) (clkin : Q) (o : Out) (c : ICfg) (h : iSearch d clkin o = some c) :
    IValid d clkin o c := iSearch_sound h

theorem ice40_search_complete (d : IDev) (clkin : Q) (o : Out) (h : iSearch d clkin o = none) :
    ∀ c, ¬ IValid d clkin o c := iSearch_complete h

/-- search_first: (DIVR, DIVF, DIVQ) is lexicographically the first valid triple in iteration order. -/
theorem ice40_search_first (d : IDev) (clkin : Q) (o : Out) (c : ICfg) (h : iSearch d clkin o = some c) :
    ∃ rs₁ rs₂ fs₁ fs₂ qs₁ qs₂, pyRange d.divrLo d.divrHi = rs₁ ++ c.divr :: rs₂ ∧
      pyRange d.divfLo d.divfHi = fs₁ ++ c.divf :: fs₂ ∧ pyRange d.divqLo d.divqHi = qs₁ ++ c.divq :: qs₂ ∧
      (∀ c', IValid d clkin o c' → c'.divr ∉ rs₁) ∧
      (∀ c', IValid d clkin o c' → c'.divr = c.divr → c'.divf ∉ fs₁) ∧
      (∀ c', IValid d clkin o c' → c'.divr = c.divr → c'.divf = c.divf → c'.divq ∉ qs₁) :=
  iSearch_first h

example : iSearch Gen.ice40 ⟨12000000, 1⟩ ⟨⟨48000000, 1⟩, ⟨0, 1⟩, ⟨1, 100⟩⟩ = some ⟨0, 63, 4⟩ := by decide +kernel

/-! ## Lattice NX (`NXPLL.compute_config` / `do_finalize`) -/

/-- search_sound for everything the code checks (dividers, VCO window, margins). -/
theorem nx_search_sound_nopfd (d : NDev) (r : NReq) (c : NCfg) (h : nSearch d r = some c) : NValidNoPfd d r c :=
  nSearch_sound h

/-  Full statement (FALSE on the code):  nSearch d r = some c → NValid d r c.
    `compute_config` never checks the declared `vco_in_freq_range` (known finding C20-nx-pfd-range-unchecked). -/
/-- search_sound under the hypothesis that the chosen input divider keeps the PFD inside its declared window. -/
theorem nx_search_sound_partial (d : NDev) (r : NReq) (c : NCfg) (h : nSearch d r = some c)
    (hpfd : inRange d.pfdMin d.pfdMax (r.clkin.divNat c.clkiDiv) = true) : NValid d r c :=
  ⟨nSearch_sound h, hpfd⟩

/-- Negative witness (real NX table): 15 MHz in, 401.25 MHz out → clki_div = 2, PFD 7.5 MHz < 10 MHz. -/
def reqNpfd : NReq := ⟨⟨15000000, 1⟩, [⟨⟨401250000, 1⟩, ⟨0, 1⟩, ⟨0, 1⟩⟩]⟩
example : nSearch Gen.nx reqNpfd = some ⟨2, 107, [2]⟩ ∧ ¬ NValid Gen.nx reqNpfd ⟨2, 107, [2]⟩ := by decide +kernel

theorem nx_search_complete (d : NDev) (r : NReq) (h : nSearch d r = none) : ∀ c, ¬ NValidNoPfd d r c :=
  nSearch_complete h

theorem nx_search_first (d : NDev) (r : NReq) (c : NCfg) (h : nSearch d r = some c) :
    ∃ is₁ is₂ fs₁ fs₂, d.clkis = is₁ ++ c.clkiDiv :: is₂ ∧ d.clkfbs = fs₁ ++ c.clkfbDiv :: fs₂ ∧
      (∀ c', NValidNoPfd d r c' → c'.clkiDiv ∉ is₁) ∧
      (∀ c', NValidNoPfd d r c' → c'.clkiDiv = c.clkiDiv → c'.clkfbDiv ∉ fs₁) :=
  nSearch_first h

/-  Full statement (FALSE on the code): the placed input divider REF_MMD_DIG equals clki_div.
    `do_finalize` writes the literal "1" (known finding C20-nx-clki-div-not-placed). -/
/-- params_match: `DIVF = clkfb_div − 1`, `DIVx = div − 1`, `DELx = int((1+p/360)·div) − 1`; the input divider is
    right only when the search chose `clki_div = 1`. -/
theorem nx_params_match_partial (r : NReq) (c : NCfg) (h1 : c.clkiDiv = 1) :
    (nParams r c).1 = c.clkiDiv ∧ (nParams r c).2.1 + 1 = c.clkfbDiv ∧
    (nParams r c).2.2 = (c.divs.zip r.outs).map fun (dv, o) => ((dv : Int) - 1, nDel o.phase dv) := by
  obtain ⟨a, b, c'⟩ := nParams_spec r c
  exact ⟨by rw [a, h1], b, c'⟩

/-- Negative witness (real NX table): 100 MHz in, 425 MHz out → clki_div = 2 but REF_MMD_DIG = 1. -/
def reqNdiv : NReq := ⟨⟨100000000, 1⟩, [⟨⟨425000000, 1⟩, ⟨0, 1⟩, ⟨0, 1⟩⟩]⟩
example : nSearch Gen.nx reqNdiv = some ⟨2, 17, [2]⟩ ∧ (nParams reqNdiv ⟨2, 17, [2]⟩).1 ≠ 2 := by decide +kernel

/-! ## iCE40 FILTER_RANGE (`do_finalize`) -/

/-- The placed FILTER_RANGE `v` is in 1..6 and the PFD frequency is below the `v`-th threshold of the code's table. -/
theorem ice40_filter_range (clkin : Q) (divr v : Nat) (h : iFilterRange clkin divr = some v) :
    1 ≤ v ∧ v ≤ 6 ∧
    (clkin.divNat (divr + 1)).lt (Q.ofNat ([17000000, 26000000, 44000000, 66000000, 101000000, 133000000].getD (v - 1) 0)) = true :=
  iFilterRange_spec clkin divr v h

/-! ## Intel ALTPLL (`IntelClocking.compute_config` / `do_finalize`) -/

/-- search_sound: the best-of search only returns valid configurations (n, m inside the counter ranges, PFD and VCO
    inside their windows, every c inside its range with `vco/c` within the output's margin).
    Hypotheses: the PFD limits and the input frequency are positive rationals. -/
theorem intel_search_sound (d : ADev) (r : AReq) (c : ACfg) (h1 : 0 < r.clkin.den * d.pfdMax.num)
    (h2 : 0 < r.clkin.den * d.pfdMin.num) (h : aSearch d r = some c) : AValid d r c :=
  aSearch_sound h1 h2 h

/-- search_complete: "No PLL config found" only if no (n, m, c…) of the declared ranges is valid. -/
theorem intel_search_complete (d : ADev) (r : AReq) (h1 : 0 < r.clkin.den * d.pfdMax.num)
    (h2 : 0 < r.clkin.den * d.pfdMin.num) (h : aSearch d r = none) : ∀ c, ¬ AValid d r c :=
  aSearch_complete h1 h2 h

/-- a refusal on the reduced table: 50 MHz → 133.7 MHz exactly. -/
example : aSearch (⟨1, 3, 1, 41, ⟨1, 17, 1, 1⟩, ⟨5000000, 1⟩, ⟨325000000, 1⟩, ⟨600000000, 1⟩, ⟨1300000000, 1⟩, 5⟩ : ADev)
    ⟨⟨50000000, 1⟩, ⟨0, 1⟩, [⟨⟨133700000, 1⟩, ⟨0, 1⟩, ⟨0, 1⟩⟩]⟩ = none := by decide +kernel

/-- params_match: `CLKn_DIVIDE_BY = c·n`, `CLKn_MULTIPLY_BY = m`, `CLKn_PHASE_SHIFT` computed from THAT output's
    recomputed frequency `vco/c`; `clkin·MULTIPLY_BY/DIVIDE_BY` is that frequency. -/
theorem intel_params_match (r : AReq) (c : ACfg) :
    aParams r c = ((c.cs.zip r.outs).map fun (cv, o) => (cv.mulNat c.n, c.m, aPhasePs ((c.vco r).div cv) o.phase)) ∧
    ∀ cv : Q, ((r.clkin.mulNat c.m).div (cv.mulNat c.n)).beq ((c.vco r).div cv) = true :=
  ⟨aParams_spec r c, altpll_freq r c⟩

/-- Phase-shift formula: a 360° request is one period of the output itself (10¹²/f ps, truncated) — not of the
    input clock — and 0° is 0 ps. -/
theorem intel_phase_shift_formula (f : Q) (k : Nat) :
    aPhasePs f ⟨360, 1⟩ = ((10 ^ 12 * f.den / f.num : Nat) : Int) ∧ aPhasePs f ⟨0, k⟩ = 0 :=
  ⟨aPhasePs_full_turn f, aPhasePs_zero f k⟩

/-! non-vacuity (a reduced table keeps the kernel evaluation short: n 1..2, m 1..40, c 1..16, Cyclone windows):
    50 MHz in, 133 MHz ± 1 % at 90° → n = 2, m = 32, c = 6 (50·32/12 = 133.33 MHz), DIVIDE_BY 12, 1875 ps. -/
def smallA : ADev := ⟨1, 3, 1, 41, ⟨1, 17, 1, 1⟩, ⟨5000000, 1⟩, ⟨325000000, 1⟩, ⟨600000000, 1⟩, ⟨1300000000, 1⟩, 5⟩
def reqA : AReq := ⟨⟨50000000, 1⟩, ⟨0, 1⟩, [⟨⟨133000000, 1⟩, ⟨90, 1⟩, ⟨1, 100⟩⟩]⟩
example : aSearch smallA reqA = some ⟨2, 32, [⟨6, 1⟩]⟩ ∧
    aParams reqA ⟨2, 32, [⟨6, 1⟩]⟩ = [(⟨12, 1⟩, 32, 1875)] := by decide +kernel
example : aPhasePs ⟨100000000, 1⟩ ⟨90, 1⟩ = 2500 := by decide

/-! ## Gowin GW1N / GW2A (`GW1NPLL.compute_config` / `do_finalize`, tree with the freq_max fix) -/

/-- search_sound: an accepted request gives IDIV/FBDIV/ODIV inside the primitive's ranges, PFD and VCO inside the
    device windows, an even CLKOUTD divider, and every requested clock on a pin (CLKOUT/CLKOUTP: clkin·fdiv/idiv,
    CLKOUTD3: /3, CLKOUTD: /SDIV) whose frequency passes the helper's acceptance test — in particular a clock routed
    to CLKOUTD really needs the divider that was placed as SDIV.  (Which ClockDomain finally drives a pin when two
    clocks resolve to the same pin is the open finding C20-gw1n-same-pin-overwrite; the statement is per clock.) -/
theorem gw1n_search_sound (d : GDev) (r : GReq) (c : GCfg) (h : gSearch d r = .ok c) : GValid d r c :=
  gSearch_sound h

/-- params_match: (IDIV_SEL, FBDIV_SEL, ODIV_SEL, DYN_SDIV_SEL) = (idiv−1, fdiv−1, odiv, sdiv); the primitive's
    `clkin·(FBDIV_SEL+1)/(IDIV_SEL+1)` is the configured CLKOUT frequency. -/
theorem gw1n_params_match (d : GDev) (r : GReq) (c : GCfg) (h : gSearch d r = .ok c) :
    (gParams c).1 + 1 = c.idiv ∧ (gParams c).2.1 + 1 = c.fdiv ∧ (gParams c).2.2.1 = c.odiv ∧ (gParams c).2.2.2 = c.sdiv ∧
    gOutF r ((gParams c).1 + 1) ((gParams c).2.1 + 1) = gOutF r c.idiv c.fdiv := by
  obtain ⟨h1, h2, _⟩ := gSearch_sound h
  rw [mem_pyRange] at h1 h2
  exact gParams_spec r c h1.1 h2.1

/-! non-vacuity: GW1NR, 27 MHz in, 108 MHz on CLKOUT and 27 MHz (÷4) on CLKOUTD → SDIV = 4. -/
def gw1nr : GDev := ((Gen.gowin.find? (·.1 == "GW1NR")).map (·.2)).getD default
example : gSearch gw1nr ⟨⟨27000000, 1⟩, ⟨0, 1⟩,
    [⟨⟨108000000, 1⟩, ⟨0, 1⟩, ⟨1, 100⟩⟩, ⟨⟨27000000, 1⟩, ⟨0, 1⟩, ⟨1, 100⟩⟩]⟩ = .ok ⟨1, 4, 4, 4, 0, [0, 3]⟩ := by
  decide +kernel

/-! ## Oscillator dividers (`NXOSCA.compute_divisor`, `GW1NOSC`) -/

/-- NXOSCA: the divisor is in range, meets the request, and is the first such in `range(lo, hi)`. -/
theorem nxosc_divisor_sound_first (lo hi : Nat) (hf : Q) (o : Out) (dv : Nat) (h : nxOscDiv lo hi hf o = some dv) :
    dv ∈ pyRange lo hi ∧ within (hf.divNat (dv + 1)) o = true ∧
    ∃ pre suf, pyRange lo hi = pre ++ dv :: suf ∧ ∀ x ∈ pre, within (hf.divNat (x + 1)) o = false :=
  nxOscDiv_some h

/-- NXOSCA: "Bad OSC freq." only if no divisor of the declared range meets the request. -/
theorem nxosc_divisor_complete (lo hi : Nat) (hf : Q) (o : Out) (h : nxOscDiv lo hi hf o = none) :
    ∀ dv ∈ pyRange lo hi, within (hf.divNat (dv + 1)) o = false :=
  nxOscDiv_none h

/-- GW1NOSC: the divider is in range and `f(1−m) ≤ osc/div ≤ f(1+m)`; refusal only if no divider qualifies. -/
theorem gwosc_divider_sound_complete (lo hi : Nat) (osc : Q) (o : Out) :
    (∀ dv, gOscDiv lo hi osc o = some dv → dv ∈ pyRange lo hi ∧ gOscOk osc o dv = true) ∧
    (gOscDiv lo hi osc o = none → ∀ dv ∈ pyRange lo hi, gOscOk osc o dv = false) :=
  ⟨fun _ h => gOscDiv_some h, gOscDiv_none⟩

example : nxOscDiv Gen.nxoscLo Gen.nxoscHi Gen.nxoscHf ⟨⟨10000000, 1⟩, ⟨0, 1⟩, ⟨5, 100⟩⟩ = some 42 := by decide +kernel

end Litex.C20
