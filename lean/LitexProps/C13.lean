import LitexProofs.Soc.Finalize
import LitexProofs.Soc.LocInv
import LitexProofs.Soc.CmInv
import LitexProofs.Soc.CsrBanks
import LitexProofs.Soc.CmConstraints
import LitexProofs.Soc.BusRaw
import LitexProofs.Soc.AcceptedDisjoint
/-
  C13 — SoC resource allocation never hands out overlapping or out-of-range resources.

  Every theorem quantifies over an arbitrary call history `ops` (a list of requests) on a freshly created
  handler, with arbitrary parameters (address/data width, number of locations, IO table).  `run` skips rejected
  requests (the real code raises `SoCError`/`ConstraintError` and the build stops), so "a history of successful
  requests" is the special case in which nothing is skipped.  Names `ν` are arbitrary.
-/
namespace Litex.C13
open Litex.Soc
variable {ν : Type} [DecidableEq ν]

/-! ## Bus regions -/

/-- After any call history on a bus handler: region names are unique across `regions ∪ io_regions`, any two
    distinct non-linker regions have disjoint decoded (power-of-two) windows, likewise any two IO regions,
    slave names are unique and every slave has a region. -/
theorem regions_disjoint_inv [AutoNames ν] (aw dw : Nat) (ops : List (BusOp ν)) :
    let s := ({ aw := aw, dw := dw } : BusH ν).run ops
    (s.regions.map (·.1) ++ s.ioRegions.map (·.1)).Nodup ∧
    (∀ n0 r0 n1 r1, (n0, r0) ∈ s.regions → (n1, r1) ∈ s.regions → n0 ≠ n1 →
        r0.linker = false → r1.linker = false → WinDisjoint r0 r1) ∧
    (∀ n0 r0 n1 r1, (n0, r0) ∈ s.ioRegions → (n1, r1) ∈ s.ioRegions → n0 ≠ n1 →
        r0.linker = false → r1.linker = false → WinDisjoint r0 r1) ∧
    s.slaves.Nodup ∧ (∀ n ∈ s.slaves, n ∈ s.regions.map (·.1)) := by
  intro s
  have hi : BusH.Inv s := BusH.run_inv ops (BusH.inv_init aw dw)
  refine ⟨hi.names_nodup, ?_, ?_, hi.slaves_nodup, hi.slaves_have⟩
  · intro n0 r0 n1 r1 h0 h1 hne l0 l1
    exact (winDisjoint_iff r0 r1 l0 l1).1 (BusH.regions_pair_ok hi h0 h1 hne)
  · intro n0 r0 n1 r1 h0 h1 hne l0 l1
    have hp := (anyOverlap_eq_false_iff _).1 hi.ios_ok
    unfold BusH.ios at hp
    rw [List.pairwise_map] at hp
    exact (winDisjoint_iff r0 r1 l0 l1).1
      (pairwise_of_mem_ne (R := fun p q : ν × Region => overlapPair p.2 q.2 = false)
        (fun a b h => by rw [overlapPair_comm]; exact h) hp h0 h1 (fun e => hne (congrArg Prod.fst e)))


/-- Non-vacuity: a history with accepted fixed, allocated and IO regions and three rejected requests (duplicate
    name, overlap on the power-of-two window `[0x2000, 0x4000)`, uncached outside IO). -/
example :
    (({ aw := 32, dw := 32 } : BusH Nat).run
      [.addRegion 1 { origin := some 0x0, size := 0x1800 },
       .addRegion 1 { origin := some 0x10000, size := 0x1000 },
       .addRegion 2 { origin := some 0x2000, size := 0x1800 },
       .addRegion 3 { origin := some 0x3800, size := 0x800 },
       .addRegion 4 { io := true, origin := some 0x80000000, size := 0x10000, cached := false },
       .addRegion 5 { origin := some 0x4000, size := 0x100, cached := false },
       .addRegion 6 { origin := none, size := 0x1000 },
       .addSlave (some 7) (some { origin := none, size := 0x100, cached := false })]).regions
    = [(1, ⟨0x0, 0x1800, true, false, true⟩), (2, ⟨0x2000, 0x1800, true, false, true⟩),
       (6, ⟨0x4000, 0x1000, true, false, true⟩), (7, ⟨0x80000000, 0x100, false, false, true⟩)] := by
  decide +kernel

omit [DecidableEq ν] in
/-- `alloc_region` is sound in every state: the returned region has the requested size/cached flag, its origin is
    aligned on its decoded size, its window is disjoint from the window of every existing non-linker region,
    a cached region lies (window included) inside `[0, 2^address_width)`, and an uncached region lies inside
    the *power-of-two window* of some IO region. -/
theorem alloc_sound (s : BusH ν) (size : Nat) (cached : Bool) (r : Region)
    (h : s.allocRegion size cached = .ok r) :
    r.size = size ∧ r.cached = cached ∧ r.linker = false ∧ r.origin % r.p2 = 0 ∧
    (∀ a ∈ s.regs, a.linker = false → WinDisjoint a r) ∧
    (cached = true → r.origin + r.size < 2 ^ s.aw ∧ r.origin + r.p2 ≤ 2 ^ s.aw) ∧
    (cached = false → ∃ io ∈ s.ios, io.origin ≤ r.origin ∧ r.origin + r.size < io.origin + io.p2) := by
  obtain ⟨hpos, o, rfl, hal, hno, sr, hsr, h1, h2⟩ := BusH.allocRegion_ok h
  refine ⟨rfl, rfl, rfl, hal, ?_, ?_, ?_⟩
  · intro a ha hl
    exact (winDisjoint_iff a _ hl rfl).1 (hno a ha)
  · intro hc
    subst hc
    simp only [BusH.searchRegions, if_true, List.mem_singleton] at hsr
    subst hsr
    have hmain : (mainRegion s.aw).p2 ≤ 2 ^ s.aw := by
      unfold Region.p2 mainRegion
      exact pow2ceil_le_of_le_two_pow (Nat.sub_le _ _)
    have horg : (mainRegion s.aw).origin = 0 := rfl
    rw [horg, Nat.zero_add] at h2
    have hlt : o + size < 2 ^ s.aw := by omega
    refine ⟨hlt, ?_⟩
    show o + pow2ceil size ≤ 2 ^ s.aw
    exact aligned_add_le hal (pow2ceil_dvd_two_pow (by omega)) (by omega)
  · intro hc
    subst hc
    simp only [BusH.searchRegions, Bool.false_eq_true, if_false] at hsr
    exact ⟨sr, hsr, h1, h2⟩

omit [DecidableEq ν] in
/-- Full statement "an uncached allocation lies inside the *declared* size of an IO region" needs the IO sizes
    to be powers of two (`alloc_region` bounds its search by `size_pow2` of the IO region). -/
theorem alloc_in_io_partial (s : BusH ν) (size : Nat) (r : Region)
    (hpow2 : ∀ io ∈ s.ios, io.size = io.p2)
    (h : s.allocRegion size false = .ok r) :
    ∃ io ∈ s.ios, io.origin ≤ r.origin ∧ r.origin + r.size ≤ io.origin + io.size := by
  obtain ⟨_, _, _, _, _, _, hio⟩ := alloc_sound s size false r h
  obtain ⟨io, hm, h1, h2⟩ := hio rfl
  exact ⟨io, hm, h1, by rw [hpow2 io hm]; omega⟩

/-- Negative witness for the full statement (known finding C13-alloc-io-nonpow2): IO region
    `[0x80000000, +0x3000)`, two uncached `0x1800` allocations — the second lands at `0x80002000` and ends at
    `0x80003800`, beyond the declared end `0x80003000` of the only IO region. -/
example :
    let s := ({ aw := 32, dw := 32 } : BusH Nat).run
      [.addRegion 0 { io := true, origin := some 0x80000000, size := 0x3000, cached := false },
       .addRegion 1 { origin := none, size := 0x1800, cached := false }]
    s.allocRegion 0x1800 false = .ok (cand 0x80002000 0x1800 false) ∧
    ¬ (∃ io ∈ s.ios, io.origin ≤ 0x80002000 ∧ 0x80002000 + 0x1800 ≤ io.origin + io.size) := by
  decide +kernel

/-- Non-vacuity of `alloc_in_io_partial`: with a power-of-two IO region the same requests stay inside. -/
example :
    let s := ({ aw := 32, dw := 32 } : BusH Nat).run
      [.addRegion 0 { io := true, origin := some 0x80000000, size := 0x4000, cached := false },
       .addRegion 1 { origin := none, size := 0x1800, cached := false }]
    (∀ io ∈ s.ios, io.size = io.p2) ∧ s.allocRegion 0x1800 false = .ok (cand 0x80002000 0x1800 false) := by
  decide +kernel

omit [DecidableEq ν] in
/-- The model's fuel is never exhausted: for `size > 0` the first-fit loop terminates by itself
    (`Err.fuel` is unreachable; `size = 0` is the guard `Err.sizeZero`). -/
theorem alloc_terminates (s : BusH ν) (size : Nat) (cached : Bool) :
    s.allocRegion size cached ≠ .error .fuel := by
  unfold BusH.allocRegion
  split
  · simp
  · rename_i hs
    split
    · simp
    · rename_i e he
      intro hc
      injection hc with hc
      subst hc
      exact allocSearch_ne_fuel (by omega) _ he


/-! ## Masters and slaves: names unique, nobody silently replaced -/

/-- After any history (explicit names, automatic `master<N>` / `slave<N>` names under *any* naming scheme, in any
    mixture): master names are unique, slave names are unique, and every master/slave registered after a prefix
    of the history is still registered, at the same position, after the whole history — an automatically named
    master can never take the place of an earlier one. -/
theorem masters_names_unique_never_lost [AutoNames ν] (aw dw : Nat) (ops1 ops2 : List (BusOp ν)) :
    let s1 := ({ aw := aw, dw := dw } : BusH ν).run ops1
    let s2 := ({ aw := aw, dw := dw } : BusH ν).run (ops1 ++ ops2)
    s2.masters.Nodup ∧ s2.slaves.Nodup ∧ s1.masters <+: s2.masters ∧ s1.slaves <+: s2.slaves := by
  intro s1 s2
  have hi1 : BusH.Inv s1 := BusH.run_inv ops1 (BusH.inv_init aw dw)
  have hi2 : BusH.Inv s2 := BusH.run_inv (ops1 ++ ops2) (BusH.inv_init aw dw)
  have e : s2 = s1.run ops2 := BusH.run_append _ ops1 ops2
  rw [e]
  have hp := BusH.run_prefix ops2 hi1
  rw [← e]
  exact ⟨hi2.masters_nodup, hi2.slaves_nodup, e ▸ hp.1, e ▸ hp.2⟩

/-- Every accepted `add_master` registers exactly one more master under a name (explicit, or generated from the
    current number of masters) that no registered master carries; all earlier masters stay. -/
theorem add_master_grants_fresh_name [AutoNames ν] (s s' : BusH ν) (name : Option ν) (h : s.apply (.addMaster name) = .ok s') :
    s'.masters = s.masters ++ [name.getD (AutoNames.master s.masters.length)] ∧
    name.getD (AutoNames.master s.masters.length) ∉ s.masters ∧
    s'.masters.length = s.masters.length + 1 := by
  obtain ⟨a, b, _⟩ := BusH.addMaster_spec (show s.addMaster _ = .ok s' from h)
  exact ⟨a, b, by rw [a]; simp⟩

/-- Non-vacuity and the seeded-change scenario: `add_master()`, `add_master("master2")`, `add_master()` — the
    third call generates `master2` (= 1002 in the driver's encoding), which is taken, and is rejected; the
    three-master variant with a free generated name is accepted. -/
example :
    (({ aw := 32, dw := 32 } : BusH Nat).run [.addMaster none, .addMaster (some 1002), .addMaster none]).masters
      = [1000, 1002] ∧
    (({ aw := 32, dw := 32 } : BusH Nat).verdicts [.addMaster none, .addMaster (some 1002), .addMaster none])
      = [none, none, some .dupMaster] ∧
    (({ aw := 32, dw := 32 } : BusH Nat).run [.addMaster none, .addMaster (some 7), .addMaster none,
        .addSlave none (some { origin := none, size := 0x100 }), .addSlave none none]).masters = [1000, 7, 1002] := by
  decide +kernel

/-! ## Decoders -/

/-- For an origin aligned on `size_pow2`, a decoded region of at least one bus word: the predicate built by
    `SoCRegion.decoder` accepts word address `a` exactly when byte address `a·(dw/8)` lies in
    `[origin, origin + size_pow2)`.  (`_partial`: hypothesis `hword`, see the negative witness below.) -/
theorem region_decoder_exact_partial (aw dw sh : Nat) (r : Region) (a : Nat)
    (hdw : dw / 8 = 2 ^ sh) (hsh : sh ≤ aw) (ha : a < 2 ^ (aw - sh))
    (hdec : r.decode = true) (hal : r.aligned = true)
    (hword : dw / 8 ≤ r.p2) :
    decoderAccepts aw dw r a = true ↔ r.InWindow (a * (dw / 8)) :=
  decoderAccepts_iff aw dw sh r a hdw hsh hdec hal hword ha


/-- Non-vacuity: region `[0x1000, +0x1000)` on a 32-bit bus accepts word `0x400` (byte `0x1000`) and `0x7ff`,
    rejects `0x3ff` and `0x800`. -/
example :
    (decoderAccepts 32 32 ⟨0x1000, 0xc00, true, false, true⟩ 0x400, decoderAccepts 32 32 ⟨0x1000, 0xc00, true, false, true⟩ 0x7ff,
     decoderAccepts 32 32 ⟨0x1000, 0xc00, true, false, true⟩ 0x3ff, decoderAccepts 32 32 ⟨0x1000, 0xc00, true, false, true⟩ 0x800)
    = (true, true, false, false) := by decide +kernel

/-- Negative witness for the full statement without `hword` (known finding C13-decoder-subword): a one-byte
    region at `0x1001` on a 32-bit bus is aligned and decoded, yet its decoder accepts word `0x400`, whose byte
    address `0x1000` is outside `[0x1001, 0x1002)`. -/
example :
    let r : Region := ⟨0x1001, 1, true, false, true⟩
    r.aligned = true ∧ decoderAccepts 32 32 r 0x400 = true ∧ ¬ (r.origin ≤ 0x400 * (32 / 8)) := by decide +kernel

/-- Disjoint windows give disjoint decoders. -/
theorem disjoint_regions_disjoint_decoders_partial (aw dw sh : Nat) (r0 r1 : Region) (a : Nat)
    (hdw : dw / 8 = 2 ^ sh) (hsh : sh ≤ aw) (ha : a < 2 ^ (aw - sh))
    (hd0 : r0.decode = true) (hd1 : r1.decode = true) (hal0 : r0.aligned = true) (hal1 : r1.aligned = true)
    (hw0 : dw / 8 ≤ r0.p2) (hw1 : dw / 8 ≤ r1.p2) (hdis : WinDisjoint r0 r1) :
    ¬ (decoderAccepts aw dw r0 a = true ∧ decoderAccepts aw dw r1 a = true) :=
  decoders_disjoint aw dw sh r0 r1 a hdw hsh ha hd0 hd1 hal0 hal1 hw0 hw1 hdis

/-- An unaligned origin is refused at finalize: whenever `do_finalize` succeeds and builds a decoding
    interconnect (some master, some slave, not the point-to-point shortcut), every slave region is aligned on
    its decoded size. -/
theorem finalize_rejects_unaligned (s : BusH ν) (hfin : s.finalize = .ok ())
    (hm : s.masters ≠ []) (hs : s.slaves ≠ []) (hp : s.isP2P = false) :
    ∀ n r, n ∈ s.slaves → s.regionOf n = some r → r.origin % r.p2 = 0 := by
  intro n r hn hr
  have := (BusH.finalize_ok_aligned hfin hm hs hp).2 _ (BusH.mem_slaveRegions hn hr)
  simpa [Region.aligned] using this

/-- No word address selects two slaves: after any call history followed by a successful `do_finalize`, two
    different slaves with non-linker regions of at least one bus word never both decode the same address.
    (`_partial`: hypotheses `hw0 hw1`.) -/
theorem one_slave_per_address_partial [AutoNames ν] (aw dw sh : Nat) (ops : List (BusOp ν))
    (hdw : dw / 8 = 2 ^ sh) (hsh : sh ≤ aw) :
    let s := ({ aw := aw, dw := dw } : BusH ν).run ops
    s.finalize = .ok () → s.masters ≠ [] →
    ∀ n0 n1 r0 r1 a, n0 ∈ s.slaves → n1 ∈ s.slaves → n0 ≠ n1 →
      s.regionOf n0 = some r0 → s.regionOf n1 = some r1 → r0.linker = false → r1.linker = false →
      dw / 8 ≤ r0.p2 → dw / 8 ≤ r1.p2 → a < 2 ^ (aw - sh) →
      ¬ (decoderAccepts s.aw s.dw r0 a = true ∧ decoderAccepts s.aw s.dw r1 a = true) := by
  intro s hfin hm n0 n1 r0 r1 a hn0 hn1 hne hr0 hr1 hl0 hl1 hw0 hw1 ha
  have hi : BusH.Inv s := BusH.run_inv ops (BusH.inv_init aw dw)
  have hs : s.slaves ≠ [] := List.ne_nil_of_mem hn0
  have hlen : 2 ≤ s.slaves.length := BusH.two_le_length_of_mem_ne hn0 hn1 hne
  have hp : s.isP2P = false := by
    unfold BusH.isP2P
    have : (s.slaves.length == 1) = false := by simp; omega
    simp [this]
  obtain ⟨hdec, hal⟩ := BusH.finalize_ok_aligned hfin hm hs hp
  have m0 := BusH.regionOf_some hr0
  have m1 := BusH.regionOf_some hr1
  have hlen2 : 2 ≤ s.regions.length := BusH.two_le_length_of_mem_ne m0 m1 (fun e => hne (congrArg Prod.fst e))
  have hall : ∀ p ∈ s.regions, p.2.decode = true := by
    have : s.regions.any (fun p => !p.2.decode) = false := by
      have hd : decide (s.regions.length > 1) = true := by simp; omega
      simpa [hd] using hdec
    intro p hp
    have := List.any_eq_false.1 this p hp
    simpa using this
  have hdis : WinDisjoint r0 r1 := (winDisjoint_iff r0 r1 hl0 hl1).1 (BusH.regions_pair_ok hi m0 m1 hne)
  obtain ⟨haw, hdw'⟩ := BusH.run_widths ops ({ aw := aw, dw := dw } : BusH ν)
  show ¬ (decoderAccepts s.aw s.dw r0 a = true ∧ decoderAccepts s.aw s.dw r1 a = true)
  rw [haw, hdw']
  exact decoders_disjoint aw dw sh r0 r1 a hdw hsh ha (hall _ m0) (hall _ m1)
    (hal _ (BusH.mem_slaveRegions hn0 hr0)) (hal _ (BusH.mem_slaveRegions hn1 hr1)) hw0 hw1 hdis


/-- Every slave is selected by exactly the addresses of its window, whichever interconnect `do_finalize` builds
    (point-to-point: no decoder at all; shared/crossbar: `SoCRegion.decoder`): after any call history followed
    by a successful `do_finalize`, for every slave `n` with a decoded region `r` of at least one bus word, the
    built interconnect presents word address `a` to the slave iff byte address `a·(dw/8)` lies in
    `[origin, origin + size_pow2)`.
    (`_partial`: `hword` = open finding C13-decoder-subword; `hp2p` — a point-to-point bus is only exact when
    the slave's window covers the whole address space — = open finding C06-p2p-partial-region-origin0.) -/
theorem slave_selected_exactly_partial [AutoNames ν] (aw dw sh : Nat) (ops : List (BusOp ν))
    (hdw : dw / 8 = 2 ^ sh) (hsh : sh ≤ aw) :
    let s := ({ aw := aw, dw := dw } : BusH ν).run ops
    s.finalize = .ok () → s.masters ≠ [] →
    ∀ n r a, n ∈ s.slaves → s.regionOf n = some r → r.decode = true → dw / 8 ≤ r.p2 →
      (s.buildsP2P = true → 2 ^ aw ≤ r.p2) → a < 2 ^ (aw - sh) →
      (s.selects r a = true ↔ r.InWindow (a * (dw / 8))) := by
  intro s hfin hm n r a hn hr hdec hword hp2p ha
  have hs : s.slaves ≠ [] := List.ne_nil_of_mem hn
  obtain ⟨haw, hdw'⟩ := BusH.run_widths ops ({ aw := aw, dw := dw } : BusH ν)
  have e1 : (s.masters.isEmpty || s.slaves.isEmpty) = false := by
    cases hmm : s.masters <;> cases hss : s.slaves <;> simp_all
  have hb : s.buildsP2P = s.isP2P := by simp [BusH.buildsP2P, e1]
  cases hp : s.isP2P with
  | true =>
    -- point-to-point: the only slave is `n`, its region starts at 0 and (hypothesis) covers the address space
    have hsel : s.selects r a = true := by simp [BusH.selects, hb, hp]
    have horg : r.origin = 0 := by
      unfold BusH.isP2P at hp
      match hsl : s.slaves, hn with
      | [m], hn' =>
        simp only [List.mem_singleton] at hn'
        subst hn'
        simp only [hsl] at hp
        rw [hr] at hp
        have := hp
        simp at this
        exact this.2
      | [], hn' => cases hn'
      | _ :: _ :: _, _ => simp [hsl] at hp
    have hbig := hp2p (by rw [hb, hp])
    rw [hsel]
    simp only [true_iff]
    unfold Region.InWindow
    rw [horg, hdw]
    refine ⟨Nat.zero_le _, ?_⟩
    calc a * 2 ^ sh < 2 ^ (aw - sh) * 2 ^ sh := Nat.mul_lt_mul_of_pos_right ha (Nat.two_pow_pos sh)
      _ = 2 ^ aw := by rw [← Nat.pow_add]; congr 1; omega
      _ ≤ 0 + r.p2 := by omega
  | false =>
    have hal := (BusH.finalize_ok_aligned hfin hm hs hp).2 _ (BusH.mem_slaveRegions hn hr)
    have : s.selects r a = decoderAccepts aw dw r a := by
      have h1 : s.aw = aw := haw
      have h2 : s.dw = dw := hdw'
      simp [BusH.selects, hb, hp, h1, h2]
    rw [this]
    exact decoderAccepts_iff aw dw sh r a hdw hsh hdec hal hword ha

/-- Non-vacuity (point-to-point with a slave covering the 12-bit toy space, and a decoding bus) and the negative
    witness for `hp2p` (open finding C06-p2p-partial-region-origin0: one master, one slave `[0, 0x1000)` on a
    32-bit bus is wired point-to-point, word `0x800` = byte `0x2000` outside the window reaches the slave).
    The seeded-change scenario (a slave-less region at 0 declared first, the only slave at `0x10000000`): the
    code as it stands builds a decoding interconnect, and word `0` does not select the slave. -/
example :
    let p := ({ aw := 12, dw := 32 } : BusH Nat).run
      [.addSlave (some 1) (some { origin := some 0, size := 0x1000 }), .addMaster none]
    let q := ({ aw := 32, dw := 32 } : BusH Nat).run
      [.addSlave (some 1) (some { origin := some 0, size := 0x1000 }), .addMaster none]
    let t := ({ aw := 32, dw := 32 } : BusH Nat).run
      [.addRegion 1 { origin := some 0, size := 0x1000, linker := true },
       .addSlave (some 2) (some { origin := some 0x10000000, size := 0x1000 }), .addMaster none]
    p.finalize = .ok () ∧ p.buildsP2P = true ∧ p.selects ⟨0, 0x1000, true, false, true⟩ 0x3ff = true ∧
    q.finalize = .ok () ∧ q.buildsP2P = true ∧ q.selects ⟨0, 0x1000, true, false, true⟩ 0x800 = true ∧
      ¬ (0x800 * (32 / 8) < 0 + (⟨0, 0x1000, true, false, true⟩ : Region).p2) ∧
    t.finalize = .ok () ∧ t.buildsP2P = false ∧ t.selects ⟨0x10000000, 0x1000, true, false, true⟩ 0 = false ∧
      t.selects ⟨0x10000000, 0x1000, true, false, true⟩ 0x4000000 = true := by decide +kernel

/-- Non-vacuity: two slaves and a master, finalize succeeds, the hypotheses hold, and each decoder accepts
    addresses of its own window. -/
example :
    let s := ({ aw := 32, dw := 32 } : BusH Nat).run
      [.addSlave (some 1) (some { origin := some 0x0, size := 0x1000 }), .addMaster (some 9),
       .addSlave (some 2) (some { origin := some 0x2000, size := 0x1800 })]
    s.finalize = .ok () ∧ s.masters ≠ [] ∧ s.slaves = [1, 2] ∧
    s.regionOf 2 = some ⟨0x2000, 0x1800, true, false, true⟩ ∧
    decoderAccepts 32 32 ⟨0x2000, 0x1800, true, false, true⟩ 0xfff = true ∧
    decoderAccepts 32 32 ⟨0x0, 0x1000, true, false, true⟩ 0xfff = false := by decide +kernel

/-- Negative witness without `hw0 hw1` (known finding C13-decoder-subword): the disjoint one-byte regions at
    `0x1001` and `0x1002` are both accepted, finalize succeeds, and both decoders select word `0x400`. -/
example :
    let s := ({ aw := 32, dw := 32 } : BusH Nat).run
      [.addSlave (some 1) (some { origin := some 0x1001, size := 1 }), .addSlave (some 2) (some { origin := some 0x1002, size := 1 }),
       .addMaster (some 9)]
    s.finalize = .ok () ∧ s.slaves = [1, 2] ∧
    s.regionOf 1 = some ⟨0x1001, 1, true, false, true⟩ ∧ s.regionOf 2 = some ⟨0x1002, 1, true, false, true⟩ ∧
    decoderAccepts 32 32 ⟨0x1001, 1, true, false, true⟩ 0x400 = true ∧
    decoderAccepts 32 32 ⟨0x1002, 1, true, false, true⟩ 0x400 = true := by decide +kernel

/-- An unaligned slave origin is refused by finalize (and accepted once aligned). -/
example :
    (({ aw := 32, dw := 32 } : BusH Nat).run
      [.addSlave (some 1) (some { origin := some 0x800, size := 0x1000 }), .addSlave (some 2) (some { origin := some 0x4000, size := 0x1000 }),
       .addMaster (some 9)]).finalize = .error .unaligned := by decide +kernel

/-! ## The state a rejected request leaves behind (`RawH`: the real object used on after a caught `SoCError`) -/

/-- Full strength, code as it stands (after fix C13-rejected-region-left-registered): whatever a caller does
    after catching `SoCError` — any history on the real, NON-rolled-back object — names stay unique across
    `regions ∪ io_regions`, ANY two distinct non-linker regions keep disjoint decoded windows, every slave has
    a region, and the regions of any two different slaves are window-disjoint.  No "granted only" restriction:
    a refused request leaves no region behind. -/
theorem rejected_ops_keep_all_slave_regions_disjoint [AutoNames ν] (aw dw : Nat) (ops : List (BusOp ν)) :
    let s := ({ h := { aw := aw, dw := dw } } : RawH ν).run ops
    (s.h.regions.map (·.1) ++ s.h.ioRegions.map (·.1)).Nodup ∧
    (∀ n0 r0 n1 r1, (n0, r0) ∈ s.h.regions → (n1, r1) ∈ s.h.regions → n0 ≠ n1 →
        r0.linker = false → r1.linker = false → WinDisjoint r0 r1) ∧
    s.h.slaves.Nodup ∧ (∀ n ∈ s.h.slaves, n ∈ s.h.regions.map (·.1)) ∧
    (∀ n0 n1 r0 r1, n0 ∈ s.h.slaves → n1 ∈ s.h.slaves → n0 ≠ n1 →
        s.h.regionOf n0 = some r0 → s.h.regionOf n1 = some r1 →
        r0.linker = false → r1.linker = false → WinDisjoint r0 r1) ∧
    s.stale = [] := by
  intro s
  obtain ⟨hi, _, _, hst⟩ := RawH.run_full (s := ({ h := { aw := aw, dw := dw } } : RawH ν)) ops (BusH.inv_init aw dw)
  have hpair : ∀ n0 r0 n1 r1, (n0, r0) ∈ s.h.regions → (n1, r1) ∈ s.h.regions → n0 ≠ n1 →
      r0.linker = false → r1.linker = false → WinDisjoint r0 r1 := by
    intro n0 r0 n1 r1 h0 h1 hne l0 l1
    exact (winDisjoint_iff r0 r1 l0 l1).1 (BusH.regions_pair_ok hi h0 h1 hne)
  refine ⟨hi.names_nodup, hpair, hi.slaves_nodup, hi.slaves_have, ?_, hst⟩
  intro n0 n1 r0 r1 _ _ hne h0 h1 l0 l1
  exact hpair n0 r0 n1 r1 (BusH.regionOf_some h0) (BusH.regionOf_some h1) hne l0 l1

/-- And no address selects two slaves on the non-rolled-back object either: after any history with caught
    rejections followed by a successful `do_finalize`, two different slaves with non-linker regions of at least
    one bus word never both decode the same word address (`_partial`: `hw0 hw1`, C13-decoder-subword). -/
theorem rejected_ops_one_slave_per_address_partial [AutoNames ν] (aw dw sh : Nat) (ops : List (BusOp ν))
    (hdw : dw / 8 = 2 ^ sh) (hsh : sh ≤ aw) :
    let s := (({ h := { aw := aw, dw := dw } } : RawH ν).run ops).h
    s.finalize = .ok () → s.masters ≠ [] →
    ∀ n0 n1 r0 r1 a, n0 ∈ s.slaves → n1 ∈ s.slaves → n0 ≠ n1 →
      s.regionOf n0 = some r0 → s.regionOf n1 = some r1 → r0.linker = false → r1.linker = false →
      dw / 8 ≤ r0.p2 → dw / 8 ≤ r1.p2 → a < 2 ^ (aw - sh) →
      ¬ (decoderAccepts aw dw r0 a = true ∧ decoderAccepts aw dw r1 a = true) := by
  intro s hfin hm n0 n1 r0 r1 a hn0 hn1 hne hr0 hr1 hl0 hl1 hw0 hw1 ha
  obtain ⟨hi, _, _, _⟩ := RawH.run_full (s := ({ h := { aw := aw, dw := dw } } : RawH ν)) ops (BusH.inv_init aw dw)
  have hs : s.slaves ≠ [] := List.ne_nil_of_mem hn0
  have hlen : 2 ≤ s.slaves.length := BusH.two_le_length_of_mem_ne hn0 hn1 hne
  have hp : s.isP2P = false := by
    unfold BusH.isP2P
    have : (s.slaves.length == 1) = false := by simp; omega
    simp [this]
  obtain ⟨hdec, hal⟩ := BusH.finalize_ok_aligned hfin hm hs hp
  have m0 := BusH.regionOf_some hr0
  have m1 := BusH.regionOf_some hr1
  have hlen2 : 2 ≤ s.regions.length := BusH.two_le_length_of_mem_ne m0 m1 (fun e => hne (congrArg Prod.fst e))
  have hall : ∀ p ∈ s.regions, p.2.decode = true := by
    have : s.regions.any (fun p => !p.2.decode) = false := by
      have hd : decide (s.regions.length > 1) = true := by simp; omega
      simpa [hd] using hdec
    intro p hp
    have := List.any_eq_false.1 this p hp
    simpa using this
  have hdis : WinDisjoint r0 r1 := (winDisjoint_iff r0 r1 hl0 hl1).1 (BusH.regions_pair_ok hi m0 m1 hne)
  exact decoders_disjoint aw dw sh r0 r1 a hdw hsh ha (hall _ m0) (hall _ m1)
    (hal _ (BusH.mem_slaveRegions hn0 hr0)) (hal _ (BusH.mem_slaveRegions hn1 hr1)) hw0 hw1 hdis

/-- The method BEFORE the fix (`RawH.stepPreFix`: a fixed-origin region / IO region refused for overlap stayed
    in its dictionary): names stayed unique, and only the regions that were actually GRANTED (not left behind by
    a refusal, ghost list `stale`) kept disjoint decoded windows. -/
theorem rejected_ops_keep_granted_regions_disjoint [AutoNames ν] (aw dw : Nat) (ops : List (BusOp ν)) :
    let s := ({ h := { aw := aw, dw := dw } } : RawH ν).runPreFix ops
    (s.h.regions.map (·.1) ++ s.h.ioRegions.map (·.1)).Nodup ∧
    ∀ n0 r0 n1 r1, (n0, r0) ∈ s.h.regions → (n1, r1) ∈ s.h.regions → n0 ≠ n1 → n0 ∉ s.stale → n1 ∉ s.stale →
      r0.linker = false → r1.linker = false → WinDisjoint r0 r1 := by
  intro s
  have hi : RawH.Inv s := RawH.runPreFix_inv ops (RawH.inv_init aw dw)
  refine ⟨hi.names_nodup, ?_⟩
  intro n0 r0 n1 r1 h0 h1 hne s0 s1 l0 l1
  exact (winDisjoint_iff r0 r1 l0 l1).1 (hi.live_ok _ h0 _ h1 hne s0 s1)

/-- As long as nothing is refused, the real object and the transactional model `BusH.run` (about which all the
    theorems above speak) are the same, and nothing is stale. -/
theorem raw_eq_transactional_when_nothing_refused [AutoNames ν] (aw dw : Nat) (ops : List (BusOp ν))
    (hok : ∀ v ∈ ({ h := { aw := aw, dw := dw } } : RawH ν).verdicts ops, v = none) :
    (({ h := { aw := aw, dw := dw } } : RawH ν).run ops).h = ({ aw := aw, dw := dw } : BusH ν).run ops ∧
    (({ h := { aw := aw, dw := dw } } : RawH ν).run ops).stale = [] :=
  RawH.run_eq_of_all_ok _ ops hok

/-- Fixed finding C13-rejected-region-left-registered, negative witness of the PRE-FIX method and non-vacuity of
    the fixed one.  `add_slave("r2", region [0x1000,+0x1000))` is refused (overlaps `r1` = `[0,+0x2000)`).
    Pre-fix: its region stayed in `bus.regions`; `add_slave("r2")` then found it, `do_finalize` succeeded (both
    origins are aligned) and word `0x400` selected both slaves — the full-strength statement was false.
    Code as it stands: nothing is left behind, the third call is refused ("Region not found") exactly as in the
    transactional model, and only `r1` is a slave. -/
example :
    let ops : List (BusOp Nat) :=
      [.addSlave (some 1) (some { origin := some 0, size := 0x2000 }),
       .addSlave (some 2) (some { origin := some 0x1000, size := 0x1000 }),
       .addSlave (some 2) none, .addMaster none]
    let s := ({ h := { aw := 32, dw := 32 } } : RawH Nat).runPreFix ops
    let t := ({ h := { aw := 32, dw := 32 } } : RawH Nat).run ops
    ({ h := { aw := 32, dw := 32 } } : RawH Nat).verdictsPreFix ops = [none, some .overlap, none, none] ∧
    s.stale = [2] ∧ s.h.slaves = [1, 2] ∧ s.h.finalize = .ok () ∧
    s.h.regionOf 1 = some ⟨0, 0x2000, true, false, true⟩ ∧ s.h.regionOf 2 = some ⟨0x1000, 0x1000, true, false, true⟩ ∧
    s.h.selects ⟨0, 0x2000, true, false, true⟩ 0x400 = true ∧ s.h.selects ⟨0x1000, 0x1000, true, false, true⟩ 0x400 = true ∧
    ({ h := { aw := 32, dw := 32 } } : RawH Nat).verdicts ops = [none, some .overlap, some .noRegion, none] ∧
    t.h.slaves = [1] ∧ t.h.regions = [(1, ⟨0, 0x2000, true, false, true⟩)] ∧ t.stale = [] ∧
    ({ aw := 32, dw := 32 } : BusH Nat).verdicts ops = [none, some .overlap, some .noRegion, none] := by
  decide +kernel

/-! ## CSR pages and interrupt numbers -/

/-- Names and numbers are granted at most once, after any history on any handler (`n` locations, IRQ handlers
    start disabled, CSR handlers enabled). -/
theorem loc_injective (n : Nat) (enabled : Bool) (ops : List (LocOp ν)) :
    let s := ({ nLocs := n, enabled := enabled } : LocH ν).run ops
    (s.locs.map (·.1)).Nodup ∧ (s.locs.map (·.2)).Nodup := by
  intro s
  have hi := (LocH.run_inv ops (LocH.inv_empty (ν := ν) n enabled)).1
  exact ⟨hi.names_nodup, hi.locs_nodup⟩

/-- Every granted number lies in `[0, n_locs)` (this is the statement that failed before fix F1). -/
theorem loc_in_range (n : Nat) (enabled : Bool) (ops : List (LocOp ν)) :
    let s := ({ nLocs := n, enabled := enabled } : LocH ν).run ops
    ∀ p ∈ s.locs, 0 ≤ p.2 ∧ p.2 < (n : Int) := by
  intro s
  obtain ⟨hi, hn⟩ := LocH.run_inv ops (LocH.inv_empty (ν := ν) n enabled)
  intro p hp
  have := hi.in_range p hp
  rw [hn] at this
  exact this

/-- Non-vacuity and the fixed finding C13-loc-eq-nlocs: on a 32-entry handler, `31` and an automatic location are
    granted; `n = n_locs = 32`, `33`, `-1`, a used number and a used name are all rejected. -/
example :
    (({ nLocs := 32 } : LocH Nat).run
      [.add 1 (some 31) false, .add 2 none false, .add 3 (some 32) false, .add 4 (some 33) false,
       .add 5 (some (-1)) false, .add 6 (some 31) false, .add 1 (some 7) false, .add 1 (some 7) true]).locs
    = [(1, 31), (2, 0)] := by decide +kernel

example : ({ nLocs := 32 } : LocH Nat).add 7 (some 32) false = .error .tooHigh := by decide +kernel

example : (csrHandler Nat 32 14 32 0x800).map (·.nLocs) = .ok 32 := by decide +kernel

/-- The same with `reserved_csrs` / `reserved_irqs` passed to the constructor: whatever handler the constructor
    returns for a reserved list, after any further history names and numbers are unique and in `[0, n_locs)`. -/
theorem loc_unique_in_range_with_reserved (n : Nat) (enabled : Bool) (reserved : List (ν × Int)) (h : LocH ν)
    (ops : List (LocOp ν)) (hh : ({ nLocs := n, enabled := enabled } : LocH ν).addAll reserved = .ok h) :
    let s := h.run ops
    (s.locs.map (·.1)).Nodup ∧ (s.locs.map (·.2)).Nodup ∧ ∀ p ∈ s.locs, 0 ≤ p.2 ∧ p.2 < (n : Int) := by
  intro s
  obtain ⟨i1, e1⟩ := LocH.addAll_inv reserved (LocH.inv_empty (ν := ν) n enabled) hh
  obtain ⟨i2, e2⟩ := LocH.run_inv ops i1
  refine ⟨i2.names_nodup, i2.locs_nodup, ?_⟩
  intro p hp
  have := i2.in_range p hp
  rw [e2, e1] at this
  exact this

/-- Non-vacuity: reserved CSR pages are honoured; a reserved page `n_locs` makes the constructor fail; a
    non-empty `reserved_irqs` always fails (added while the handler is disabled). -/
example :
    ((csrHandlerR Nat 32 14 32 0x800 [(1, 3), (2, 0)]).map fun h => (h.run [.add 5 none false, .add 6 (some 3) false]).locs)
      = .ok [(1, 3), (2, 0), (5, 1)] ∧
    (csrHandlerR Nat 32 14 32 0x800 [(1, 32)]) = .error .tooHigh ∧
    (irqHandlerR Nat 32 [(1, 3)]) = .error .disabled := by decide +kernel

omit [DecidableEq ν] in
/-- The two concrete handlers are instances: a successfully constructed CSR/IRQ handler is empty, with
    `n_locs = alignment/8·2^address_width/paging` resp. `n_irqs ≤ 32`. -/
theorem handlers_start_empty (dwid awid al pg nIrqs : Nat) (h : LocH ν) :
    (csrHandler ν dwid awid al pg = .ok h → h = { nLocs := al / 8 * 2 ^ awid / pg, enabled := true }) ∧
    (irqHandler ν nIrqs = .ok h → h = { nLocs := nIrqs, enabled := false } ∧ nIrqs ≤ 32) := by
  constructor
  · intro hh
    unfold csrHandler at hh
    repeat (split at hh; · cases hh)
    injection hh with hh
    exact hh.symm
  · intro hh
    unfold irqHandler at hh
    split at hh
    · cases hh
    · injection hh with hh
      exact ⟨hh.symm, by omega⟩


/-! ## The CSR window on the bus (`SoC.add_csr_bridge`) contains every page the CSR handler can grant -/

omit [DecidableEq ν] in
/-- Page arithmetic with the real formulas: `n_locs = alignment//8 * 2**address_width // paging` (alignment 32)
    pages of `paging` bytes starting at `csr_base` all lie inside `[csr_base, csr_base + 2**(address_width+2))`,
    the extent of the `csr` bus region — for every paging (no divisibility needed) and address width. -/
theorem csr_page_inside_csr_region (awid pg base k x : Nat) (hk : k < 32 / 8 * 2 ^ awid / pg)
    (hx0 : base + pg * k ≤ x) (hx1 : x < base + pg * (k + 1)) :
    (csrRegion base awid).InExtent x ∧ (csrRegion base awid).InWindow x := by
  have h1 : pg * (k + 1) ≤ pg * (32 / 8 * 2 ^ awid / pg) := Nat.mul_le_mul_left pg hk
  have h2 : pg * (32 / 8 * 2 ^ awid / pg) ≤ 32 / 8 * 2 ^ awid := Nat.mul_div_le _ _
  have h3 : 32 / 8 * 2 ^ awid = 2 ^ (awid + 2) := by
    rw [Nat.pow_succ, Nat.pow_succ]; omega
  have hsz : (csrRegion base awid).size = 2 ^ (awid + 2) := rfl
  have horg : (csrRegion base awid).origin = base := rfl
  have hp2 := le_pow2ceil (csrRegion base awid).size
  have hk0 : base ≤ x := by
    have : 0 ≤ pg * k := Nat.zero_le _
    omega
  unfold Region.InExtent Region.InWindow Region.p2
  rw [horg, hsz] at *
  constructor <;> constructor <;> omega

/-- Every page granted by a CSR handler — any data width 8/32, address width 14..18, paging, `reserved_csrs`,
    any history of `add` / `address_map` requests with fixed, automatic and boundary locations — lies inside
    the `csr` bus region of `add_csr_bridge`, hence is reachable through the `csr` slave. -/
theorem csr_pages_inside_bus_region (dwid awid pg base : Nat) (reserved : List (ν × Int)) (h : LocH ν)
    (ops : List (LocOp ν)) (hh : csrHandlerR ν dwid awid 32 pg reserved = .ok h) :
    ∀ p ∈ (h.run ops).locs, ∃ k : Nat, p.2 = (k : Int) ∧
      ∀ x, base + pg * k ≤ x → x < base + pg * (k + 1) → (csrRegion base awid).InExtent x := by
  unfold csrHandlerR at hh
  cases h0e : csrHandler ν dwid awid 32 pg with
  | error e => simp [h0e] at hh
  | ok h0 =>
    simp only [h0e] at hh
    have e0 := (handlers_start_empty dwid awid 32 pg 0 h0).1 h0e
    subst e0
    obtain ⟨_, _, hr⟩ := loc_unique_in_range_with_reserved (32 / 8 * 2 ^ awid / pg) true reserved h ops hh
    intro p hp
    obtain ⟨h0', h1'⟩ := hr p hp
    obtain ⟨k, hk⟩ := Int.eq_ofNat_of_zero_le h0'
    refine ⟨k, hk, ?_⟩
    intro x a b
    have hkn : k < 32 / 8 * 2 ^ awid / pg := by
      rw [hk] at h1'
      exact_mod_cast h1'
    exact (csr_page_inside_csr_region awid pg base k x hkn a b).1

/-- … and in no other slave's region: in any bus built by any call history that contains the `csr` region of
    `add_csr_bridge`, no address of a grantable CSR page lies in the decoded window of another non-linker region
    (a slave requested inside the CSR window is refused). -/
theorem csr_pages_in_no_other_region [AutoNames ν] (aw dw : Nat) (ops : List (BusOp ν)) (awid pg base k x : Nat)
    (c n : ν) (r : Region) (hk : k < 32 / 8 * 2 ^ awid / pg) (hx0 : base + pg * k ≤ x) (hx1 : x < base + pg * (k + 1)) :
    let s := ({ aw := aw, dw := dw } : BusH ν).run ops
    (c, csrRegion base awid) ∈ s.regions → (n, r) ∈ s.regions → n ≠ c → r.linker = false → ¬ r.InWindow x := by
  intro s hc hn hne hl hin
  have hd := (regions_disjoint_inv aw dw ops).2.1 c (csrRegion base awid) n r hc hn (Ne.symm hne) rfl hl
  exact hd x ⟨(csr_page_inside_csr_region awid pg base k x hk hx0 hx1).2, hin⟩

/-- Non-vacuity and the seeded-change scenario (8-bit CSR bus, 14-bit CSR address, paging 0x800: 32 pages in a
    64 KiB window whatever the data width): page 31 is granted; with a RAM at `csr_base + 0x4000` (inside the window,
    behind a window that were computed as `2^14·8/8`) the `csr` slave of `add_csr_bridge` is refused at finalize;
    a RAM right behind the window is fine. -/
example :
    ((csrHandlerR Nat 8 14 32 0x800 [(1, 31)]).map fun h => (h.nLocs, h.locs)) = .ok (32, [(1, 31)]) ∧
    csrRegion 0xf0000000 14 = ⟨0xf0000000, 0x10000, false, false, true⟩ ∧
    (({ aw := 32, dw := 32 } : BusH Nat).verdicts (csrBus 0xf0000000 14 (some (0xf0004000, 0x1000))))
      = [none, none, some .overlap] ∧
    (({ aw := 32, dw := 32 } : BusH Nat).run (csrBus 0xe0000000 14 (some (0xe0010000, 0x1000)))).regionOf 0
      = some (csrRegion 0xe0000000 14) ∧
    (({ aw := 32, dw := 32 } : BusH Nat).verdicts (csrBus 0xe0000000 14 (some (0xe0010000, 0x1000))))
      = [none, none, none] := by decide +kernel

/-! ## CSR banks at `SoC.finalize` -/

/-- Whatever CSR handler a design has built up (any `n_locs`, reserved pages, any history of location requests),
    whatever banks it contains (any register widths, any CSR data width, any paging): if the finalize step
    succeeds, every bank has its own page `0 ≤ k < n_locs`, its `simpleCount` 32-bit aligned locations fit in
    that page (`4·simpleCount ≤ paging`), its byte range lies inside the page, and the byte ranges of two
    different banks never intersect. -/
theorem bank_fits_page_after_finalize (n : Nat) (enabled : Bool) (ops : List (LocOp ν)) (paging dataWidth base : Nat)
    (banks : List (Bank ν)) (h' : LocH ν) (l : List (Bank ν × Int))
    (hfin : (({ nLocs := n, enabled := enabled } : LocH ν).run ops).finalizeBanks paging dataWidth banks = .ok (h', l)) :
    l.map (·.1) = banks ∧
    (∀ p ∈ l, 0 ≤ p.2 ∧ p.2 < (n : Int) ∧ 4 * simpleCount dataWidth p.1.widths ≤ paging ∧
      ∀ x, bankRange base paging dataWidth p x →
        (base : Int) + paging * p.2 ≤ x ∧ x < (base : Int) + paging * (p.2 + 1)) ∧
    (∀ p ∈ l, ∀ q ∈ l, p.1.name ≠ q.1.name → ∀ x, ¬ (bankRange base paging dataWidth p x ∧ bankRange base paging dataWidth q x)) := by
  obtain ⟨hi0, hn0⟩ := LocH.run_inv ops (LocH.inv_empty (ν := ν) n enabled)
  unfold LocH.finalizeBanks at hfin
  split at hfin
  · cases hfin
  · rename_i h2 l2 hscan
    split at hfin
    · cases hfin
    · rename_i hbig
      injection hfin with hfin
      injection hfin with e1 e2
      subst e1 e2
      obtain ⟨hi, hn, _, hmem, hmap⟩ := LocH.scanBanks_spec banks hi0 hscan
      have hfit : ∀ p ∈ l2, 4 * simpleCount dataWidth p.1.widths ≤ paging := by
        intro p hp
        have hall : ∀ (x : Bank ν) (k : Int), (x, k) ∈ l2 → simpleCount dataWidth x.widths ≤ paging / 4 := by
          simpa using hbig
        have hle : simpleCount dataWidth p.1.widths ≤ paging / 4 := hall p.1 p.2 hp
        have := Nat.div_mul_le_self paging 4
        omega
      have hinpage : ∀ p ∈ l2, ∀ x, bankRange base paging dataWidth p x →
          (base : Int) + paging * p.2 ≤ x ∧ x < (base : Int) + paging * (p.2 + 1) := by
        intro p hp x hx
        have hf := hfit p hp
        unfold bankRange at hx
        refine ⟨hx.1, ?_⟩
        have : (4 : Int) * (simpleCount dataWidth p.1.widths : Int) ≤ (paging : Int) := by exact_mod_cast hf
        rw [Int.mul_add, Int.mul_one]
        omega
      refine ⟨hmap, ?_, ?_⟩
      · intro p hp
        have hr := hi.in_range _ (hmem p hp)
        rw [hn, hn0] at hr
        exact ⟨hr.1, hr.2, hfit p hp, hinpage p hp⟩
      · intro p hp q hq hne x ⟨hx, hy⟩
        have hk : p.2 ≠ q.2 := LocH.loc_ne_of_name_ne hi (hmem p hp) (hmem q hq) hne
        obtain ⟨a1, a2⟩ := hinpage p hp x hx
        obtain ⟨b1, b2⟩ := hinpage q hq x hy
        have hpg : (0 : Int) ≤ (paging : Int) := Int.natCast_nonneg _
        rcases Int.lt_or_gt_of_ne hk with hlt | hgt
        · have : (paging : Int) * (p.2 + 1) ≤ paging * q.2 := Int.mul_le_mul_of_nonneg_left (by omega) hpg
          omega
        · have : (paging : Int) * (q.2 + 1) ≤ paging * p.2 := Int.mul_le_mul_of_nonneg_left (by omega) hpg
          omega

/-- Non-vacuity and the seeded-change scenario: 8-bit CSR bus, paging 0x400 (256 locations per page).  64
    32-bit registers (256 simple CSRs) are accepted; 65 of them (260 simple CSRs) are refused although
    `paging / (data_width/8) = 1024` would let them through; on a 32-bit bus 256 registers pass and 257 fail. -/
example :
    (match ({ nLocs := 64 } : LocH Nat).finalizeBanks 0x400 8 [⟨0, List.replicate 64 32⟩, ⟨1, [32, 8]⟩] with
     | .ok (_, l) => l.map (fun p => (p.1.name, p.2, simpleCount 8 p.1.widths)) | .error _ => [])
      = [(0, 0, 256), (1, 1, 5)] ∧
    (({ nLocs := 64 } : LocH Nat).finalizeBanks 0x400 8 [⟨0, List.replicate 65 32⟩, ⟨1, [32, 8]⟩]).toOption = none ∧
    (({ nLocs := 64 } : LocH Nat).finalizeBanks 0x400 32 [⟨0, List.replicate 256 32⟩]).toOption.isSome = true ∧
    (({ nLocs := 64 } : LocH Nat).finalizeBanks 0x400 32 [⟨0, List.replicate 257 32⟩]).toOption = none := by
  decide +kernel

/-! ## Platform IO resources -/

/-- Table entries are conserved by every request/lookup history: what is available plus what has been granted is
    a permutation of the initial table plus all extensions.  Hence an entry is granted at most once. -/
theorem cm_request_once (io : List Res) (ops : List CmOp) :
    let s := ({ available := io } : Cm).run ops
    (s.available ++ s.matched).Perm (io ++ Cm.extensions ops) := by
  intro s
  simpa using Cm.run_perm { available := io } ops

/-- With distinct table entries: no entry is granted twice and a granted entry is no longer available. -/
theorem cm_granted_once (io : List Res) (ops : List CmOp) (hnd : ((io ++ Cm.extensions ops).map (·.uid)).Nodup) :
    let s := ({ available := io } : Cm).run ops
    (s.matched.map (·.uid)).Nodup ∧ ∀ r ∈ s.matched, ∀ r' ∈ s.available, r.uid ≠ r'.uid := by
  intro s
  have hp := (cm_request_once io ops).map (·.uid)
  have hn := hp.nodup_iff.2 hnd
  rw [List.map_append, List.nodup_append] at hn
  refine ⟨hn.2.1, ?_⟩
  intro r hr r' hr' e
  exact hn.2.2 r'.uid (List.mem_map_of_mem hr') r.uid (List.mem_map_of_mem hr) e.symm

/-- A grant comes from `available`, carries the requested name/number, and ends up in `matched`. -/
theorem cm_request_grants_available (s s' : Cm) (name : Nat) (num : Option Nat) (loose : Bool) (r : Res)
    (h : s.request name num loose = .ok (s', some r)) :
    r ∈ s.available ∧ r.name = name ∧ (∀ k, num = some k → r.num = k) ∧
      s'.available = s.available.erase r ∧ s'.matched = s.matched ++ [r] := by
  rcases Cm.request_spec h with ⟨h1, _⟩ | ⟨r', h1, hm, hn, hk, ha, hma⟩
  · cases h1
  · injection h1 with h1
    subst h1
    exact ⟨hm, hn, hk, ha, hma⟩

/-- `lookup_request` only returns granted entries (and only existing subsignals of them). -/
theorem cm_lookup_only_matched (s : Cm) (name : Nat) (num sub : Option Nat) (loose : Bool) (r : Res) (sb : Option Nat)
    (h : s.lookup name num sub loose = .ok (some (r, sb))) :
    r ∈ s.matched ∧ r.name = name ∧ (∀ k, num = some k → r.num = k) ∧ (∀ x, sb = some x → x ∈ r.subs) := by
  obtain ⟨h1, h2, h3, _, h5⟩ := Cm.lookup_spec h
  exact ⟨h1, h2, h3, h5⟩

/-- `get_sig_constraints` emits each (entry, subsignal) key at most once. -/
theorem cm_constraints_once (io : List Res) (ops : List CmOp)
    (hnd : ((io ++ Cm.extensions ops).map (·.uid)).Nodup) (hsubs : ∀ r ∈ io ++ Cm.extensions ops, r.subs.Nodup) :
    (({ available := io } : Cm).run ops).sigConstraints.Nodup := by
  have hp := cm_request_once io ops
  refine Cm.sigConstraints_nodup _ (cm_granted_once io ops hnd).1 ?_
  intro r hr
  exact hsubs r (hp.subset (List.mem_append_right _ hr))

/-- No two live requests share a pin: whatever pins the IO table assigns to its (entry, subsignal) signals, if
    different signals of the table have disjoint pin sets, then after any request/lookup/extension history the
    constraints emitted by `get_sig_constraints` for two different granted signals never mention a common pin. -/
theorem cm_no_shared_pin (io : List Res) (ops : List CmOp) (pins : Nat × Option Nat → List Nat)
    (hnd : ((io ++ Cm.extensions ops).map (·.uid)).Nodup) (hsubs : ∀ r ∈ io ++ Cm.extensions ops, r.subs.Nodup)
    (hpins : ∀ k1 k2 : Nat × Option Nat, k1 ≠ k2 → ∀ p, ¬ (p ∈ pins k1 ∧ p ∈ pins k2)) :
    (({ available := io } : Cm).run ops).sigConstraints.Pairwise (fun k1 k2 => ∀ p, ¬ (p ∈ pins k1 ∧ p ∈ pins k2)) := by
  have hn : (({ available := io } : Cm).run ops).sigConstraints.Nodup := by
    have hp := (Cm.run_perm { available := io } ops)
    have hp' : ((({ available := io } : Cm).run ops).available ++ (({ available := io } : Cm).run ops).matched).Perm
        (io ++ Cm.extensions ops) := by simpa using hp
    have hn0 := (hp'.map (·.uid)).nodup_iff.2 hnd
    rw [List.map_append, List.nodup_append] at hn0
    refine Cm.sigConstraints_nodup _ hn0.2.1 ?_
    intro r hr
    exact hsubs r (hp'.subset (List.mem_append_right _ hr))
  exact hn.imp (fun {a b} hab => hpins a b hab)

/-- Isolation of manager instances: two managers built from the same io list (`ConstraintManager.__init__`
    copies it) never influence each other — after any interleaved history, each instance is in the state its own
    calls alone produce.  (Trivial for a functional model; the point is the tie: the harness builds several real
    managers/platforms from ONE list object and compares each with this model and with a manager built alone.) -/
theorem cm_instances_isolated (a b : Cm) (ops : List (Bool × CmOp)) :
    (Cm.run2 a b ops).1 = a.run (Cm.callsOn false ops) ∧ (Cm.run2 a b ops).2 = b.run (Cm.callsOn true ops) := by
  induction ops generalizing a b with
  | nil => exact ⟨rfl, rfl⟩
  | cons t ops ih =>
    obtain ⟨i, op⟩ := t
    cases i with
    | true =>
      have := ih a (b.apply op).1
      simpa [Cm.run2, Cm.callsOn, Cm.run] using this
    | false =>
      have := ih (a.apply op).1 b
      simpa [Cm.run2, Cm.callsOn, Cm.run] using this

/-- Non-vacuity: the board-file scenario — the first platform extends its table and requests, the second one,
    built afterwards from the same list, still sees exactly the original table. -/
example :
    let io : List Res := [⟨0, 1, 0, []⟩, ⟨1, 1, 1, []⟩]
    let ops : List (Bool × CmOp) := [(false, .extend [⟨7, 1, 0, []⟩] false), (false, .request 1 (some 0) false),
      (true, .request 1 (some 0) false), (true, .request 1 (some 0) false)]
    ((Cm.run2 { available := io } { available := io } ops).1.available.map (·.uid),
     (Cm.run2 { available := io } { available := io } ops).2.available.map (·.uid),
     (Cm.run2 { available := io } { available := io } ops).2.matched.map (·.uid)) = ([1, 7], [1], [0]) := by
  decide +kernel

/-- Non-vacuity: a table with a duplicate-free `led` bank and a record resource; double requests fail, the
    loose one returns nothing, `request_all` takes what is left, lookups see only granted entries. -/
example :
    let io : List Res := [⟨0, 1, 0, []⟩, ⟨1, 1, 1, []⟩, ⟨2, 1, 2, []⟩, ⟨3, 3, 0, [5, 6]⟩]
    let ops : List CmOp := [.request 1 (some 1) false, .request 1 (some 1) false, .request 1 (some 1) true,
      .lookup 3 none none true, .request 3 none false, .lookup 3 (some 0) (some 6) false, .requestRemaining 1]
    (({ available := io } : Cm).outs ops).map (fun o => match o with
        | .granted l => l.map (·.uid) | .found r _ => [r.uid] | _ => [])
      = [[1], [], [], [], [3], [3], [0, 2]] ∧
    (({ available := io } : Cm).run ops).available = [] ∧
    (({ available := io } : Cm).run ops).sigConstraints = [(1, none), (3, some 5), (3, some 6), (0, none), (2, none)] := by
  decide +kernel

end Litex.C13
