import LitexModel.Soc.Bus
import LitexModel.Soc.Loc
import LitexModel.Soc.Cm
namespace Litex.C13
open Litex.Soc

/-- placeholder while the proofs are being built (M1) -/
theorem anyOverlap_nil : anyOverlap [] = false := rfl

end Litex.C13
