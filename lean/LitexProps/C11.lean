import LitexProofs.WaitTimer
import LitexProofs.Timeout.Wb
import LitexProofs.Timeout.Axi
/-
  C11 — A silent or absent slave cannot hang the bus.

  Reading of "within the configured number of cycles": the timer expires after exactly `t` consecutive waiting
  cycles; Wishbone terminates the request in that very cycle (the `(t+1)`-th cycle of the request), AXI/AXI-Lite
  raise `error` in that cycle, absorb the request in the next and offer the SLVERR response in the one after.
  All theorems quantify over every input history (`List` of per-cycle environment choices: what every master
  and every slave drives), every number of masters/slaves, every decoder and every `t`.
-/
namespace Litex.C11
open Litex Litex.Timeout

/-! ## WaitTimer -/

/-- `count` is `t` minus the number of consecutive waiting cycles so far (saturating at 0). -/
theorem waittimer_count (t : Nat) (ws : List Bool) :
    WaitTimer.run t ws = t - min t (WaitTimer.streak ws) :=
  WaitTimer.run_spec t ws

/-- `done` exactly when `wait` has been held for (at least) the `t` preceding cycles — for every history. -/
theorem waittimer_done_iff (t : Nat) (ws : List Bool) :
    WaitTimer.done (WaitTimer.run t ws) = true ↔ t ≤ WaitTimer.streak ws := by
  rw [WaitTimer.run_spec]
  simp only [WaitTimer.done, beq_iff_eq]
  omega

/-- The same with the streak spelled out: after any history, one idle cycle and then `n` waiting cycles,
    `done` holds iff `n ≥ t` (so: after exactly `t` waiting cycles, never before). -/
theorem waittimer_exact (t : Nat) (pre : List Bool) (n : Nat) :
    WaitTimer.done (WaitTimer.run t (pre ++ false :: List.replicate n true)) = true ↔ t ≤ n := by
  rw [waittimer_done_iff, WaitTimer.streak_false_trues]

/-- Any cycle with `wait = 0` reloads the timer. -/
theorem waittimer_reload (t : Nat) (ws : List Bool) : WaitTimer.run t (ws ++ [false]) = t := by
  rw [WaitTimer.run_spec]
  have : WaitTimer.streak (ws ++ [false]) = 0 := by
    simp [WaitTimer.streak, WaitTimer.streakFrom, List.foldl_append, WaitTimer.streakStep]
  omega

example : WaitTimer.done (WaitTimer.run 3 [true, false, true, true]) = false ∧
          WaitTimer.done (WaitTimer.run 3 [true, false, true, true, true]) = true ∧
          WaitTimer.run 3 [true, true, true, true, true, false] = 3 := by decide

/-! ## Wishbone: `Timeout` alone, any bus behaviour -/

/-- For every history on the watched bus: the module forces `ack`, all-ones `dat_r` and `error` exactly when the
    bus has carried an unacknowledged request for the `t` preceding cycles; otherwise it is transparent. -/
theorem wb_timeout_module_exact (t dw : Nat) (xs : List Wb.TIn) (x : Wb.TIn) :
    (Wb.timeout t dw).out ((Wb.timeout t dw).run xs) x =
      if t ≤ WaitTimer.streak (Wb.tWaits t dw t xs)
      then { ack := true, datR := Wb.ones dw, error := true }
      else { ack := x.ack, datR := x.datR, error := false } := by
  have h := Wb.timeout_runFrom_spec t dw xs t 0 (by simp)
  show Wb.tOut dw ((Wb.timeout t dw).runFrom t xs) x = _
  rw [h]
  unfold WaitTimer.streak
  have hiff : (t - min t (WaitTimer.streakFrom 0 (Wb.tWaits t dw t xs)) = 0) ↔
      t ≤ WaitTimer.streakFrom 0 (Wb.tWaits t dw t xs) := by omega
  simp only [Wb.tOut, WaitTimer.done, beq_iff_eq, hiff]

/-! ## Wishbone: `InterconnectShared` with `timeout_cycles = t` -/

section wbShared
open Wb Wb.Shared
variable (c : Wb.Cfg) {t : Nat}

/-- `Reduce("OR", slave acks)`: what the bus owner would see without a timeout. -/
def slavesAck (c : Wb.Cfg) (x : BusIn) : Bool := orAll c.k fun j => (x.ss j).ack

/-- **wb_timeout_exact.**  For every history `xs` from reset and every input `x` of the next cycle, with
    `w = waited c xs` the number of consecutive preceding cycles in which the bus owner had `cyc & stb` and saw
    no `ack`:  `w ≤ t`;  `error = 1` iff `w = t`;  in that case the owner sees `ack = 1` and all-ones `dat_r`
    (whatever the slaves do);  otherwise it sees exactly the slaves' `ack` — never a forced one. -/
theorem wb_timeout_exact (ht : c.t = some t) (xs : List BusIn) (x : BusIn) :
    let s := (machine c).run xs
    let o := out c s x
    waited c xs ≤ t ∧
    (o.error = true ↔ waited c xs = t) ∧
    (waited c xs = t → (o.toM s.grant).ack = true ∧ (o.toM s.grant).datR = ones c.dw) ∧
    (waited c xs < t → (o.toM s.grant).ack = slavesAck c x) := by
  intro s o
  have hc : s.count = t - min t (waited c xs) := run_count_spec c ht xs
  have hle : waited c xs ≤ t := by
    clear hc
    induction xs using snoc_induction with
    | nil => simp [waited, waits, WaitTimer.streak, WaitTimer.streakFrom]
    | snoc ys y ih =>
      rw [waited_step]
      have hc' := run_count_spec c ht ys
      have ih' := ih
      by_cases hlt : waited c ys < t
      · cases ownerWaits c ((machine c).run ys) y <;> simp [WaitTimer.streakStep] <;> omega
      · have heq : waited c ys = t := by omega
        have hdone : WaitTimer.done ((machine c).run ys).count = true := by
          rw [hc']; simp [WaitTimer.done]; omega
        have : ownerWaits c ((machine c).run ys) y = false := by
          rw [ownerWaits_eq c ht]
          simp [tWait, tOut, hdone]
        simp [this, WaitTimer.streakStep]
  refine ⟨hle, ?_, ?_, ?_⟩
  · show (tRes c s x).error = true ↔ _
    rw [tRes_some c ht, tOut]
    by_cases hd : WaitTimer.done s.count = true
    · simp only [hd, if_true, true_iff]
      simp [WaitTimer.done, hc] at hd; omega
    · simp only [hd, if_false, Bool.false_eq_true, false_iff]
      simp [WaitTimer.done, hc] at hd; omega
  · intro hw
    have hd : WaitTimer.done s.count = true := by simp [WaitTimer.done, hc]; omega
    show ((tRes c s x).ack && (s.grant == s.grant)) = true ∧ (tRes c s x).datR = _
    rw [tRes_some c ht, tOut]
    simp [hd]
  · intro hw
    have hd : WaitTimer.done s.count = false := by simp [WaitTimer.done, hc]; omega
    show ((tRes c s x).ack && (s.grant == s.grant)) = _
    rw [tRes_some c ht, tOut]
    simp [hd, tIn, slavesAck]

/-- **wb_timeout_undisturbed.**  While the owner has waited fewer than `t` cycles, every port of the
    interconnect (all masters, all slaves) carries exactly what it would carry without the `Timeout` module,
    and `error = 0`.  (`{c with t := none}` is `InterconnectShared(timeout_cycles=None)`.) -/
theorem wb_timeout_undisturbed (ht : c.t = some t) (xs : List BusIn) (x : BusIn)
    (hw : waited c xs < t) :
    let s := (machine c).run xs
    (∀ i, (out c s x).toM i = (out { c with t := none } s x).toM i) ∧
    (∀ j, (out c s x).toS j = (out { c with t := none } s x).toS j) ∧
    (out c s x).error = false := by
  intro s
  have hc : s.count = t - min t (waited c xs) := run_count_spec c ht xs
  have hd : WaitTimer.done s.count = false := by simp [WaitTimer.done, hc]; omega
  have hres : tRes c s x = tRes { c with t := none } s x := by
    rw [tRes_some c ht]
    simp [tRes, tOut, hd, tIn, selMux, sel]
  refine ⟨?_, ?_, ?_⟩
  · intro i; simp only [out, hres]
  · intro j; rfl
  · show (tRes c s x).error = false
    rw [tRes_some c ht]; simp [tOut, hd]

/-- The timeout has no influence on arbitration and decoding state: grant and registered select evolve as in
    the interconnect without a timeout, in every cycle (also in the expiry cycle). -/
theorem wb_timeout_arbitration_independent (s : State) (x : BusIn) :
    (next c s x).grant = (next { c with t := none } s x).grant ∧
    (next c s x).selR = (next { c with t := none } s x).selR := ⟨rfl, rfl⟩

/-- **Coincidence in the expiry cycle**, stated as the code behaves: a slave acknowledging in the very cycle
    the timer has expired is overridden — the owner gets one termination with all-ones data and `error = 1`. -/
theorem wb_timeout_coincidence (ht : c.t = some t) (xs : List BusIn) (x : BusIn)
    (hw : waited c xs = t) (_hack : slavesAck c x = true) :
    let s := (machine c).run xs
    (out c s x).error = true ∧ ((out c s x).toM s.grant).ack = true ∧
    ((out c s x).toM s.grant).datR = ones c.dw := by
  have h := wb_timeout_exact c ht xs x
  exact ⟨h.2.1.mpr hw, h.2.2.1 hw⟩

/-- **wb_timeout_recovers.**  The cycle after a forced acknowledge the timer is reloaded: the waiting streak is
    0 again, so by `wb_timeout_exact`/`wb_timeout_undisturbed` the next request gets the full `t` cycles and is
    served normally.  No other state is touched by the timeout (`wb_timeout_arbitration_independent`). -/
theorem wb_timeout_recovers (ht : c.t = some t) (xs : List BusIn) (x : BusIn)
    (hw : waited c xs = t) :
    waited c (xs ++ [x]) = 0 ∧ ((machine c).run (xs ++ [x])).count = t := by
  have hc' := run_count_spec c ht xs
  have hdone : WaitTimer.done ((machine c).run xs).count = true := by
    rw [hc']; simp [WaitTimer.done]; omega
  have h0 : ownerWaits c ((machine c).run xs) x = false := by
    rw [ownerWaits_eq c ht]; simp [tWait, tOut, hdone]
  have hz : waited c (xs ++ [x]) = 0 := by rw [waited_step, h0]; rfl
  refine ⟨hz, ?_⟩
  rw [run_count_spec c ht, hz]; omega

/-- Scenario form, spelling out `waited`: after a history whose last cycle was not a waiting one, let the owner
    keep `cyc & stb` for `ys.length ≤ t` cycles in which no slave acknowledges.  Then the streak is exactly
    `ys.length` and the owner still owns the bus. -/
theorem wb_waited_scenario (ht : c.t = some t) (hn : 0 < c.n) (xs : List BusIn) (hw : waited c xs = 0)
    (ys : List BusIn) (hlen : ys.length ≤ t)
    (hreq : ∀ y ∈ ys, (y.ms ((machine c).run xs).grant).cyc = true ∧
                      (y.ms ((machine c).run xs).grant).stb = true ∧ slavesAck c y = false) :
    waited c (xs ++ ys) = ys.length ∧
    ((machine c).run (xs ++ ys)).grant = ((machine c).run xs).grant := by
  induction ys using snoc_induction with
  | nil => simpa using hw
  | snoc zs z ih =>
    have hlen' : zs.length < t := by simp at hlen; omega
    have ih' := ih (by omega) (fun y hy => hreq y (by simp [hy]))
    have hz := hreq z (by simp)
    have hrun : (machine c).run (xs ++ (zs ++ [z])) = next c ((machine c).run (xs ++ zs)) z := by
      simp [Machine.run, ← List.append_assoc, Machine.runFrom_append, Machine.runFrom, machine]
    have hex := wb_timeout_exact c ht (xs ++ zs) z
    have hack : ((out c ((machine c).run (xs ++ zs)) z).toM ((machine c).run (xs ++ zs)).grant).ack = false := by
      rw [hex.2.2.2 (by omega)]; exact hz.2.2
    have hwait : ownerWaits c ((machine c).run (xs ++ zs)) z = true := by
      rw [ih'.2] at hack
      simp [ownerWaits, hack, ih'.2, hz.1, hz.2.1]
    refine ⟨?_, ?_⟩
    · rw [← List.append_assoc, waited_step, hwait, ih'.1]; simp [WaitTimer.streakStep]
    · rw [hrun]
      simp only [Shared.next]
      rw [RoundRobin.next_withdraw_keep _ _ (grant_lt c hn _) (by rw [ih'.2]; exact hz.1), ih'.2]

/-- **Exact latency.**  A request of the bus owner that no slave answers is left alone for `t` cycles
    (`ack = 0`, `error = 0` in each of them) and terminated in the next one — the `(t+1)`-th cycle of the
    request — with `ack = 1`, all-ones data and `error = 1`; never earlier. -/
theorem wb_silent_request_terminated_at_t (ht : c.t = some t) (hn : 0 < c.n) (xs : List BusIn)
    (hw : waited c xs = 0) (ys : List BusIn) (hlen : ys.length ≤ t) (x : BusIn)
    (hreq : ∀ y ∈ ys, (y.ms ((machine c).run xs).grant).cyc = true ∧
                      (y.ms ((machine c).run xs).grant).stb = true ∧ slavesAck c y = false) :
    let g := ((machine c).run xs).grant
    let o := out c ((machine c).run (xs ++ ys)) x
    (ys.length < t → o.error = false ∧ (o.toM g).ack = slavesAck c x) ∧
    (ys.length = t → o.error = true ∧ (o.toM g).ack = true ∧ (o.toM g).datR = ones c.dw) := by
  intro g o
  obtain ⟨hwd, hg⟩ := wb_waited_scenario c ht hn xs hw ys hlen hreq
  have hex := wb_timeout_exact c ht (xs ++ ys) x
  simp only [hwd, hg] at hex
  refine ⟨fun h => ⟨?_, hex.2.2.2 h⟩, fun h => ⟨hex.2.1.mpr h, hex.2.2.1 h⟩⟩
  cases he : o.error
  · rfl
  · have := hex.2.1.mp he; omega

/-- **unmapped_address.**  An address that matches no decoder raises `cyc` at no slave (so no protocol-abiding
    slave answers, and the request times out as above). -/
theorem wb_unmapped_address (s : State) (x : BusIn)
    (hun : ∀ j, c.dec j (x.ms s.grant).adr = false) (j : Nat) :
    ((out c s x).toS j).cyc = false := by
  simp [out, sel, bus, hun]

/-- Bounded termination from *any* state reached: whatever happened before, if the owner now keeps `cyc & stb`,
    it is acknowledged (by a slave or by the timeout) within `count + 1 ≤ t + 1` cycles. -/
theorem wb_bounded_termination (ht : c.t = some t) (xs : List BusIn) :
    ((machine c).run xs).count ≤ t := by
  rw [run_count_spec c ht]; omega

end wbShared

/-! ## AXI-Lite / AXI: the timeout FSMs alone, any bus behaviour

  `wTimeout t` / `rTimeout full dw t` are the write / read halves of `AXILiteTimeout` (`full = false`) and
  `AXITimeout` (`full = true`); their inputs are the watched bus (request side and the decoder's answer),
  chosen freely in every cycle.  Exact numbers, counting the first waiting cycle as cycle 0: `error` pulse in
  cycle `t`, RESPOND from cycle `t+1` (absorbs AW/W resp. AR in the cycle they are offered), SLVERR response
  offered in the first RESPOND cycle in which the master offers no address/data beat — cycle `t+2` for a
  master that holds its valids until accepted. -/

section axFsm
open Axi

/-- WAIT is transparent: whatever the history, while the FSM is in WAIT the master side of the bus carries
    exactly the decoder's `aw.ready`, `w.ready`, `b.valid`, `b.resp` (**undisturbed**). -/
theorem axl_wr_transparent (s : FState) (x : WIn) (h : s.respond = false) :
    (wOut s x).awr = x.awr ∧ (wOut s x).wr = x.wr ∧ (wOut s x).bv = x.bv ∧ (wOut s x).bresp = x.bresp := by
  simp [wOut, h]

/-- **axl_timeout_exact (write).**  For every history: the error pulse (= entry into RESPOND) happens exactly in
    a WAIT cycle in which an AW/W beat is pending and unaccepted (`wait_cond`) after at least `t` consecutive
    such cycles — never earlier, and not if the slave accepts in the expiry cycle (`wait_cond = 0`). -/
theorem axl_wr_timeout_exact (t : Nat) (xs : List WIn) (x : WIn) :
    let s := (wTimeout t).run xs
    ((wOut s x).error = true ↔ s.respond = false ∧ t ≤ wWaited t xs ∧ wWaitCond x = true) ∧
    ((wNext t s x).respond = true ↔
      (wOut s x).error = true ∨ (s.respond = true ∧ ¬(x.awv = false ∧ x.wv = false ∧ x.br = true))) := by
  intro s
  have hc : s.count = t - min t (wWaited t xs) := wRun_count_spec t xs
  have hd : WaitTimer.done s.count = true ↔ t ≤ wWaited t xs := by
    simp [WaitTimer.done, hc]; omega
  constructor
  · cases hr : s.respond <;> simp [wOut, hr, hd]
  · cases hr : s.respond
    · simp [wNext, wOut, hr]
    · cases ha : x.awv <;> cases hw : x.wv <;> cases hb : x.br <;> simp [wNext, wOut, hr, ha, hw, hb]

/-- **Forced response.**  In RESPOND the FSM accepts whatever address/data beat is offered, offers `B` with
    `SLVERR` as soon as none is offered, and signals no further error. -/
theorem axl_wr_forced (s : FState) (x : WIn) (h : s.respond = true) :
    wOut s x = { awr := x.awv, wr := x.wv, bv := !x.awv && !x.wv, bresp := RESP_SLVERR, error := false } := by
  simp [wOut, h]

/-- **axl_timeout_recovers (write).**  The forced `B` handshake returns the FSM to its reset state (WAIT, timer
    reloaded): nothing of the timeout is remembered. -/
theorem axl_wr_recovers (t : Nat) (s : FState) (x : WIn) (h : s.respond = true)
    (haw : x.awv = false) (hw : x.wv = false) (hb : x.br = true) : wNext t s x = fInit t := by
  simp [wNext, wOut, wWait, h, haw, hw, hb, fInit, WaitTimer.next]

/-- **axl_timeout_undisturbed (write).**  Whenever the pending beats are accepted (or nothing is pending) in a
    WAIT cycle — including the very cycle in which the timer has expired — there is no error, no RESPOND, and
    the timer is reloaded. -/
theorem axl_wr_undisturbed (t : Nat) (s : FState) (x : WIn) (h : s.respond = false)
    (hacc : wWaitCond x = false) : (wOut s x).error = false ∧ wNext t s x = fInit t := by
  simp [wNext, wOut, wWait, h, hacc, fInit, WaitTimer.next]

/-- Waiting stretch: from a freshly loaded timer, `ys.length ≤ t` cycles with a pending unaccepted beat give no
    error and leave `count = t - ys.length`. -/
theorem axl_wr_waiting (t : Nat) (ys : List WIn) : ∀ (cnt : Nat), ys.length ≤ cnt → cnt ≤ t →
    (∀ y ∈ ys, wWaitCond y = true) →
    (wTimeout t).runFrom { count := cnt, respond := false } ys = { count := cnt - ys.length, respond := false } ∧
    ∀ o ∈ (wTimeout t).traceFrom { count := cnt, respond := false } ys, o.error = false := by
  induction ys with
  | nil => intro cnt _ _ _; simp [Machine.runFrom, Machine.traceFrom]
  | cons y ys ih =>
    intro cnt hl hct hw
    have hy := hw y (by simp)
    have hpos : cnt ≠ 0 := by simp at hl; omega
    have hstep : wNext t { count := cnt, respond := false } y = { count := cnt - 1, respond := false } := by
      simp [wNext, wWait, hy, WaitTimer.next, WaitTimer.done, hpos]
    have herr : (wOut { count := cnt, respond := false } y).error = false := by
      simp [wOut, WaitTimer.done, hpos]
    obtain ⟨h1, h2⟩ := ih (cnt - 1) (by simp at hl; omega) (by omega) (fun z hz => hw z (by simp [hz]))
    refine ⟨?_, ?_⟩
    · show (wTimeout t).runFrom (wNext t _ y) ys = _
      rw [hstep, h1]; simp; omega
    · intro o ho
      simp only [Machine.traceFrom, List.mem_cons] at ho
      rcases ho with rfl | ho
      · exact herr
      · have : (wTimeout t).next { count := cnt, respond := false } y = { count := cnt - 1, respond := false } := hstep
        rw [this] at ho; exact h2 o ho

/-- **axl_timeout_bound (write), exact numbers.**  From reset state (or any state with WAIT and a reloaded
    timer): `t` cycles with a pending unaccepted beat (`ys`), then one more (`x0`): error pulse exactly there
    (cycle `t`), none before.  Next cycle (`x1`, master still offering a beat): the beat(s) are accepted by the
    FSM, no `B` yet.  Next cycle (`x2`, nothing offered, `b.ready`): `B` with `SLVERR`, and the FSM is back in its
    reset state. -/
theorem axl_wr_timeout_bound (t : Nat) (ys : List WIn) (x0 x1 x2 : WIn)
    (hlen : ys.length = t) (hys : ∀ y ∈ ys, wWaitCond y = true) (h0 : wWaitCond x0 = true)
    (h1 : (x1.awv || x1.wv) = true) (h2 : x2.awv = false ∧ x2.wv = false ∧ x2.br = true) :
    let m := wTimeout t
    let s0 := m.runFrom (fInit t) ys
    let s1 := m.next s0 x0
    let s2 := m.next s1 x1
    (∀ o ∈ m.traceFrom (fInit t) ys, o.error = false) ∧
    (m.out s0 x0).error = true ∧
    m.out s1 x1 = { awr := x1.awv, wr := x1.wv, bv := false, bresp := RESP_SLVERR, error := false } ∧
    m.out s2 x2 = { awr := false, wr := false, bv := true, bresp := RESP_SLVERR, error := false } ∧
    m.next s2 x2 = fInit t := by
  intro m s0 s1 s2
  obtain ⟨hr, he⟩ := axl_wr_waiting t ys t (by omega) (by omega) hys
  have hs0 : s0 = { count := 0, respond := false } := by
    show (wTimeout t).runFrom (fInit t) ys = _
    rw [show fInit t = { count := t, respond := false } from rfl, hr, hlen]; simp
  have hs1 : s1 = { count := 0, respond := true } := by
    show wNext t s0 x0 = _
    rw [hs0]; simp [wNext, wWait, h0, WaitTimer.next, WaitTimer.done]
  have hs2 : s2.respond = true := by
    show (wNext t s1 x1).respond = true
    rw [hs1]
    cases ha : x1.awv <;> cases hw : x1.wv <;> simp [wNext, wOut, ha, hw] <;> simp [ha, hw] at h1
  refine ⟨he, ?_, ?_, ?_, ?_⟩
  · show (wOut s0 x0).error = true
    rw [hs0]; simp [wOut, WaitTimer.done, h0]
  · show wOut s1 x1 = _
    rw [hs1]
    cases ha : x1.awv <;> cases hw : x1.wv <;> simp [wOut, ha, hw] <;> simp [ha, hw] at h1
  · show wOut s2 x2 = _
    rw [axl_wr_forced s2 x2 hs2]; simp [h2.1, h2.2.1]
  · exact axl_wr_recovers t s2 x2 hs2 h2.1 h2.2.1 h2.2.2

/-! Read direction (AXI-Lite: `full = false`; AXI: `full = true`, forced `r.last = 1`). -/

theorem axl_rd_transparent (full : Bool) (dw : Nat) (s : FState) (x : RIn) (h : s.respond = false) :
    (rOut full dw s x).arr = x.arr ∧ (rOut full dw s x).rv = x.rv ∧ (rOut full dw s x).rresp = x.rresp ∧
    (rOut full dw s x).rdata = x.rdata ∧ (rOut full dw s x).rlast = x.rlast := by
  simp [rOut, h]

/-- **axl_timeout_exact (read).** -/
theorem axl_rd_timeout_exact (full : Bool) (dw t : Nat) (xs : List RIn) (x : RIn) :
    let s := (rTimeout full dw t).run xs
    ((rOut full dw s x).error = true ↔ s.respond = false ∧ t ≤ rWaited full dw t xs ∧ rWaitCond x = true) ∧
    ((rNext full dw t s x).respond = true ↔
      (rOut full dw s x).error = true ∨ (s.respond = true ∧ ¬(x.arv = false ∧ x.rr = true))) := by
  intro s
  have hc : s.count = t - min t (rWaited full dw t xs) := rRun_count_spec full dw t xs
  have hd : WaitTimer.done s.count = true ↔ t ≤ rWaited full dw t xs := by
    simp [WaitTimer.done, hc]; omega
  constructor
  · cases hr : s.respond <;> simp [rOut, hr, hd]
  · cases hr : s.respond
    · simp [rNext, rOut, hr]
    · cases ha : x.arv <;> cases hb : x.rr <;> simp [rNext, rOut, hr, ha, hb]

/-- Forced read response: `SLVERR`, all-ones data, and `r.last = 1` on AXI. -/
theorem axl_rd_forced (full : Bool) (dw : Nat) (s : FState) (x : RIn) (h : s.respond = true) :
    rOut full dw s x = { arr := x.arv, rv := !x.arv, rresp := RESP_SLVERR, rdata := Wb.ones dw,
                         rlast := if full then true else x.rlast, error := false } := by
  simp [rOut, h]

theorem axi_rd_forced_last (dw : Nat) (s : FState) (x : RIn) (h : s.respond = true) :
    (rOut true dw s x).rlast = true := by simp [rOut, h]

theorem axl_rd_recovers (full : Bool) (dw t : Nat) (s : FState) (x : RIn) (h : s.respond = true)
    (ha : x.arv = false) (hr : x.rr = true) : rNext full dw t s x = fInit t := by
  simp [rNext, rOut, rWait, h, ha, hr, fInit, WaitTimer.next]

theorem axl_rd_undisturbed (full : Bool) (dw t : Nat) (s : FState) (x : RIn) (h : s.respond = false)
    (hacc : rWaitCond x = false) : (rOut full dw s x).error = false ∧ rNext full dw t s x = fInit t := by
  simp [rNext, rOut, rWait, h, hacc, fInit, WaitTimer.next]

theorem axl_rd_waiting (full : Bool) (dw t : Nat) (ys : List RIn) : ∀ (cnt : Nat), ys.length ≤ cnt → cnt ≤ t →
    (∀ y ∈ ys, rWaitCond y = true) →
    (rTimeout full dw t).runFrom { count := cnt, respond := false } ys =
      { count := cnt - ys.length, respond := false } ∧
    ∀ o ∈ (rTimeout full dw t).traceFrom { count := cnt, respond := false } ys, o.error = false := by
  induction ys with
  | nil => intro cnt _ _ _; simp [Machine.runFrom, Machine.traceFrom]
  | cons y ys ih =>
    intro cnt hl hct hw
    have hy := hw y (by simp)
    have hpos : cnt ≠ 0 := by simp at hl; omega
    have hstep : rNext full dw t { count := cnt, respond := false } y = { count := cnt - 1, respond := false } := by
      simp [rNext, rWait, hy, WaitTimer.next, WaitTimer.done, hpos]
    have herr : (rOut full dw { count := cnt, respond := false } y).error = false := by
      simp [rOut, WaitTimer.done, hpos]
    obtain ⟨h1, h2⟩ := ih (cnt - 1) (by simp at hl; omega) (by omega) (fun z hz => hw z (by simp [hz]))
    refine ⟨?_, ?_⟩
    · show (rTimeout full dw t).runFrom (rNext full dw t _ y) ys = _
      rw [hstep, h1]; simp; omega
    · intro o ho
      simp only [Machine.traceFrom, List.mem_cons] at ho
      rcases ho with rfl | ho
      · exact herr
      · have : (rTimeout full dw t).next { count := cnt, respond := false } y =
            { count := cnt - 1, respond := false } := hstep
        rw [this] at ho; exact h2 o ho

/-- **axl_timeout_bound (read), exact numbers**: error pulse in cycle `t`, AR absorbed in cycle `t+1`, `R` with
    `SLVERR`/all-ones (and `last` on AXI) in cycle `t+2`, then reset state. -/
theorem axl_rd_timeout_bound (full : Bool) (dw t : Nat) (ys : List RIn) (x0 x1 x2 : RIn)
    (hlen : ys.length = t) (hys : ∀ y ∈ ys, rWaitCond y = true) (h0 : rWaitCond x0 = true)
    (h1 : x1.arv = true) (h2 : x2.arv = false ∧ x2.rr = true) :
    let m := rTimeout full dw t
    let s0 := m.runFrom (fInit t) ys
    let s1 := m.next s0 x0
    let s2 := m.next s1 x1
    (∀ o ∈ m.traceFrom (fInit t) ys, o.error = false) ∧
    (m.out s0 x0).error = true ∧
    ((m.out s1 x1).arr = true ∧ (m.out s1 x1).rv = false ∧ (m.out s1 x1).error = false) ∧
    ((m.out s2 x2).rv = true ∧ (m.out s2 x2).rresp = RESP_SLVERR ∧ (m.out s2 x2).rdata = Wb.ones dw ∧
      (full = true → (m.out s2 x2).rlast = true) ∧ (m.out s2 x2).error = false) ∧
    m.next s2 x2 = fInit t := by
  intro m s0 s1 s2
  obtain ⟨hr, he⟩ := axl_rd_waiting full dw t ys t (by omega) (by omega) hys
  have hs0 : s0 = { count := 0, respond := false } := by
    show (rTimeout full dw t).runFrom (fInit t) ys = _
    rw [show fInit t = { count := t, respond := false } from rfl, hr, hlen]; simp
  have hs1 : s1 = { count := 0, respond := true } := by
    show rNext full dw t s0 x0 = _
    rw [hs0]; simp [rNext, rWait, h0, WaitTimer.next, WaitTimer.done]
  have hs2 : s2.respond = true := by
    show (rNext full dw t s1 x1).respond = true
    rw [hs1]; simp [rNext, rOut, h1]
  refine ⟨he, ?_, ?_, ?_, ?_⟩
  · show (rOut full dw s0 x0).error = true
    rw [hs0]; simp [rOut, WaitTimer.done, h0]
  · show (rOut full dw s1 x1).arr = true ∧ (rOut full dw s1 x1).rv = false ∧ (rOut full dw s1 x1).error = false
    rw [hs1]; simp [rOut, h1]
  · show (rOut full dw s2 x2).rv = true ∧ (rOut full dw s2 x2).rresp = RESP_SLVERR ∧
      (rOut full dw s2 x2).rdata = Wb.ones dw ∧ (full = true → (rOut full dw s2 x2).rlast = true) ∧
      (rOut full dw s2 x2).error = false
    rw [axl_rd_forced full dw s2 x2 hs2]
    refine ⟨by simp [h2.1], rfl, rfl, ?_, rfl⟩
    intro hf; simp [hf]
  · exact axl_rd_recovers full dw t s2 x2 hs2 h2.1 h2.2

end axFsm

/-! ## Wishbone `Crossbar`: `timeout_cycles` is ignored (known finding C11-crossbar-timeout-ignored) -/

section wbCrossbar
open Wb

/-- The crossbar model does not read `timeout_cycles`: any two configurations that differ only there are the
    same machine (the correspondence check confirms this against `wishbone.Crossbar(timeout_cycles=t)`). -/
theorem wb_crossbar_ignores_timeout (c : Wb.Cfg) (t1 t2 : Option Nat) :
    Crossbar.machine { c with t := t1 } = Crossbar.machine { c with t := t2 } := rfl

/-- Negative witness for the property on the crossbar: in *every* state and for *every* `timeout_cycles`, if no
    slave acknowledges then no master is acknowledged and no error is signalled — a request to a silent or
    unmapped slave therefore waits forever (for all run lengths). -/
theorem wb_crossbar_silent_slave_hangs (c : Wb.Cfg) (s : XState) (x : BusIn)
    (hsil : ∀ j, (x.ss j).ack = false) (i : Nat) :
    ((Crossbar.out c s x).toM i).ack = false ∧ (Crossbar.out c s x).error = false := by
  refine ⟨?_, rfl⟩
  show orAll c.k _ = false
  exact orAll_false (fun j => by simp [hsil])

/-- The same as a statement about whole runs: from reset, under any request pattern, as long as the slaves stay
    silent no cycle of the trace carries an `ack` for anybody. -/
theorem wb_crossbar_hangs_forever (c : Wb.Cfg) (xs : List BusIn)
    (hsil : ∀ x ∈ xs, ∀ j, (x.ss j).ack = false) :
    ∀ o ∈ (Crossbar.machine c).trace xs, ∀ i, (o.toM i).ack = false := by
  unfold Machine.trace
  generalize (Crossbar.machine c).init = s
  induction xs generalizing s with
  | nil => intro o ho; simp [Machine.traceFrom] at ho
  | cons x xs ih =>
    intro o ho i
    simp only [Machine.traceFrom, List.mem_cons] at ho
    rcases ho with rfl | ho
    · exact (wb_crossbar_silent_slave_hangs c s x (hsil x (by simp)) i).1
    · exact ih (fun y hy => hsil y (by simp [hy])) _ o ho i

end wbCrossbar

end Litex.C11
