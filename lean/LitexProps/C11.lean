import LitexProofs.WaitTimer
import LitexProofs.Timeout.Wb
import LitexProofs.Timeout.Axi
import LitexProofs.Timeout.BusErr
import LitexModel.Timeout.AxiXbar
import LitexProofs.Timeout.Soc
import LitexProofs.RoundRobin
/-
  ## Inventory of the anchored code (session 2) — modelled? theorem? tied how?

  Tie columns: A = exhaustive co-exploration of the reachable product model x real netlist (small parameters),
  B = seeded lock-step co-simulation with property monitors armed (realistic sizes), S = real `SoCMini`/`SoCBusHandler`
  scenarios with a test-bench master (oracle only), P = probe of a finding.  Driver names are those of
  `LitexModel/Timeout/Num.lean`.

  | code (file: object)                                   | Lean model                          | theorems                                                         | tie |
  |--------------------------------------------------------|-------------------------------------|------------------------------------------------------------------|-----|
  | misc.py: WaitTimer(t) (int/float t, bits_for corner)   | WaitTimer.next/done/machine         | waittimer_count, _done_iff, _exact, _reload                      | A t∈{1..8,2.7,3.0}; B t∈{100,1000} (`waittimer`) |
  | wishbone.py: Timeout                                   | Wb.timeout (tOut/tWait/tNext)       | wb_timeout_module_exact                                          | A t∈{1,2,3,8}, dw∈{8,64,128}; B (`wbtimeout`) |
  | wishbone.py: InterconnectShared(timeout_cycles=t/None) | Wb.Shared (arbiter RR withdraw +    | wb_timeout_exact, _undisturbed, _arbitration_independent,         | A n×k ≤ 3×3, reg, mixed adr widths, t float/None; |
  |   incl. Arbiter + Decoder as far as cyc/stb/adr/ack/   |   decoder + Timeout override)       | _coincidence, _recovers, wb_waited_scenario,                      | B up to 5×3, t∈{7,16,100,128,255,default 1e6} |
  |   err/dat_r go (we/dat_w/sel/cti/bte: C06)             |                                     | wb_silent_request_terminated_at_t, wb_unmapped_address,           | (`wbshared`) |
  |                                                        |                                     | wb_bounded_termination, wb_healthy_bus_transparent,               |     |
  |                                                        |                                     | wb_grant_is_roundrobin, wb_every_master_served,                   |     |
  |                                                        |                                     | wb_closed_liveness (+ _budget_le): (n-1)(t+2) cycle bound         |     |
  | wishbone.py: Crossbar(timeout_cycles)  [ignored]       | Wb.Crossbar                         | wb_crossbar_ignores_timeout, _silent_slave_hangs, _hangs_forever  | A, B (`wbxbar`); P C11-crossbar-timeout-ignored |
  | wishbone.py: InterconnectPointToPoint                  | — (no timeout exists; C06-p2p-*)    | —                                                                | recorded as note only |
  | axi_lite.py: AXILiteTimeout ; axi_full.py: AXITimeout  | Axi.wTimeout, Axi.rTimeout full     | axl_wr/rd_transparent, _timeout_exact, _forced, _recovers,        | A t∈{1,2,3}, dw∈{8,64,128}, both directions; B |
  |   (channel_fsm WAIT/RESPOND, two WaitTimers, error =   |   (FState, wOut/wNext, rOut/rNext)  | _undisturbed, _waiting, _timeout_bound, axi_rd_forced_last,       | (`axtimeout`) |
  |   wr_error | rd_error)                                 |                                     | axi_forced_read_one_beat, axi_wr_respond_absorbs_burst, _then_b   |     |
  | axi_lite.py/axi_full.py: _AXI(Lite)RequestCounter      | Axi.ctrNext/ctrReady                | used in the composed theorems (lock = 0 again after forced resp.) | via `axshared` |
  | AXI(Lite)Arbiter, AXI(Lite)Decoder (control: valid/    | Axi.SharedW, Axi.SharedR            | axl_shared_wr/rd_exact, _undisturbed, axl_wr/rd_timeout_bound_    | A 1×1,2×1,1×2 (2×2 thorough), BFS to a transition |
  |   ready/addr/resp/data/last, lock counters, selects)   |                                     | partial, axl_unmapped_address, axl_response_phase_hangs,          | budget; B 2×2..3×2, t∈{7,16,100,128}, dw 32/64 |
  | AXI(Lite)InterconnectShared(timeout_cycles=t/None)     |                                     | axl_shared_wr/rd_stall_bounded, axl_healthy_bus_transparent_wr/rd,| (`axshared`) |
  |                                                        |                                     | axl_wr/rd_grant_is_roundrobin, axl_wr/rd_every_master_served,     |     |
  |                                                        |                                     | axl_wr_ce_when_idle, axl_wr_timeout_recovers_any_beats (lone W    |     |
  |                                                        |                                     | before AW: lock stays 0), axl_request_counter_never_wraps         |     |
  | AXIArbiter/AXIDecoder pass-through payload: aw/ar id,  | Axi.payOut (Timeout/Soc.lean)       | axi_response_id_independent_of_request, axi_forced_response_id_   | A 1×1 (2×1, 1×2 thorough), B 2×2 with random ids/ |
  |   len, w.last, b/r id (NEW)                            |                                     | zero, _matches_partial (+ witness), axi_request_payload_routed    | len/last (`axsoc`) |
  |   burst, size, lock, prot, cache, qos, region, data,   | not modelled: routed by the same    | —                                                                | —   |
  |   strb: same M→S broadcast as id/len                   |   two statements as id/len          |                                                                  |     |
  |   user: zero-width on the shared bus (not connected);  | n/a                                 | —                                                                | —   |
  |   dest: not on AXI ports ("No DEST")                   |                                     |                                                                  |     |
  | AXILiteCrossbar / AXICrossbar(timeout_cycles) [ignored]| Axi.XbarW / XbarR                   | axl_crossbar_ignores_timeout, _silent_slave_hangs, _hangs_forever | A, B (`axxbar`); P crossbar finding |
  | soc.py: SoCController bus_errors (32-bit saturating)   | BusErr.next/machine                 | bus_errors_counts(_from)                                         | A near saturation, B (`buserr`) |
  | soc.py: SoC.finalize `ctrl.bus_error = interconnect.   | Wb.Soc.machine, Axi.Soc.machine     | wb_soc_bus_errors_counts, wb_soc_pulse_is_forced_ack,             | A + B with the counter preloaded near saturation |
  |   timeout.error` (NEW as a composed model)             |   (Timeout/Soc.lean)                | axi_soc_bus_errors_counts, _inclusion_exclusion, _counts_partial, | (`wbsoc`, `axsoc`: real interconnect + real |
  |                                                        |                                     | _le (+ witness: simultaneous expiry = one count)                  | SoCController, wired by the finalize statement); S |
  | soc.py: SoC(bus_timeout=1e6) → SoCBusHandler(timeout)  | parameter `t` of the models         | all theorems are parametric in `t`                               | S: SoCMini ×3 standards, t∈{8,16,100,128}, dw 32/64;|
  |   → do_finalize: interconnect_cls(..., timeout_cycles) |                                     |                                                                  | handler 1×1 at non-zero origin; CSR-only SoCMini; |
  |   (p2p when 1×1 at origin 0: no timeout)               |                                     |                                                                  | B `default` (argument omitted = 1e6) |

  Open (not theorems): crossbars with a working timeout (finding); AXI response phase (finding), which is also why the
  AXI liveness is stated per phase (stall bound, RESPOND termination, arbitration) and not as one closed cycle bound.
-/
/-
  C11 — A silent or absent slave cannot hang the bus.

  Reading of "within the configured number of cycles": the timer expires after exactly `t` consecutive waiting
  cycles; Wishbone terminates the request in that very cycle (the `(t+1)`-th cycle of the request), AXI/AXI-Lite
  raise `error` in that cycle, absorb the request in the next and offer the SLVERR response in the one after.
  All theorems quantify over every input history (`List` of per-cycle environment choices: what every master
  and every slave drives), every number of masters/slaves, every decoder and every `t`.
-/
namespace Litex.C11
open Litex Litex.Timeout

/-! ## WaitTimer -/

/-- `count` is `t` minus the number of consecutive waiting cycles so far (saturating at 0). -/
theorem waittimer_count (t : Nat) (ws : List Bool) :
    WaitTimer.run t ws = t - min t (WaitTimer.streak ws) :=
  WaitTimer.run_spec t ws

/-- `done` exactly when `wait` has been held for (at least) the `t` preceding cycles — for every history. -/
theorem waittimer_done_iff (t : Nat) (ws : List Bool) :
    WaitTimer.done (WaitTimer.run t ws) = true ↔ t ≤ WaitTimer.streak ws := by
  rw [WaitTimer.run_spec]
  simp only [WaitTimer.done, beq_iff_eq]
  omega

/-- The same with the streak spelled out: after any history, one idle cycle and then `n` waiting cycles,
    `done` holds iff `n ≥ t` (so: after exactly `t` waiting cycles, never before). -/
theorem waittimer_exact (t : Nat) (pre : List Bool) (n : Nat) :
    WaitTimer.done (WaitTimer.run t (pre ++ false :: List.replicate n true)) = true ↔ t ≤ n := by
  rw [waittimer_done_iff, WaitTimer.streak_false_trues]

/-- Any cycle with `wait = 0` reloads the timer. -/
theorem waittimer_reload (t : Nat) (ws : List Bool) : WaitTimer.run t (ws ++ [false]) = t := by
  rw [WaitTimer.run_spec]
  have : WaitTimer.streak (ws ++ [false]) = 0 := by
    simp [WaitTimer.streak, WaitTimer.streakFrom, List.foldl_append, WaitTimer.streakStep]
  omega

example : WaitTimer.done (WaitTimer.run 3 [true, false, true, true]) = false ∧
          WaitTimer.done (WaitTimer.run 3 [true, false, true, true, true]) = true ∧
          WaitTimer.run 3 [true, true, true, true, true, false] = 3 := by decide

/-! ## Wishbone: `Timeout` alone, any bus behaviour -/

/-- For every history on the watched bus: the module forces `ack`, all-ones `dat_r` and `error` exactly when the
    bus has carried an unacknowledged request for the `t` preceding cycles; otherwise it is transparent. -/
theorem wb_timeout_module_exact (t dw : Nat) (xs : List Wb.TIn) (x : Wb.TIn) :
    (Wb.timeout t dw).out ((Wb.timeout t dw).run xs) x =
      if t ≤ WaitTimer.streak (Wb.tWaits t dw t xs)
      then { ack := true, datR := Wb.ones dw, error := true }
      else { ack := x.ack, datR := x.datR, error := false } := by
  have h := Wb.timeout_runFrom_spec t dw xs t 0 (by simp)
  show Wb.tOut dw ((Wb.timeout t dw).runFrom t xs) x = _
  rw [h]
  unfold WaitTimer.streak
  have hiff : (t - min t (WaitTimer.streakFrom 0 (Wb.tWaits t dw t xs)) = 0) ↔
      t ≤ WaitTimer.streakFrom 0 (Wb.tWaits t dw t xs) := by omega
  simp only [Wb.tOut, WaitTimer.done, beq_iff_eq, hiff]

/-! ## Wishbone: `InterconnectShared` with `timeout_cycles = t` -/

section wbShared
open Wb Wb.Shared
variable (c : Wb.Cfg) {t : Nat}

/-- `Reduce("OR", slave acks)`: what the bus owner would see without a timeout. -/
def slavesAck (c : Wb.Cfg) (x : BusIn) : Bool := orAll c.k fun j => (x.ss j).ack

/-- **wb_timeout_exact.**  For every history `xs` from reset and every input `x` of the next cycle, with
    `w = waited c xs` the number of consecutive preceding cycles in which the bus owner had `cyc & stb` and saw
    no `ack`:  `w ≤ t`;  `error = 1` iff `w = t`;  in that case the owner sees `ack = 1` and all-ones `dat_r`
    (whatever the slaves do);  otherwise it sees exactly the slaves' `ack` — never a forced one. -/
theorem wb_timeout_exact (ht : c.t = some t) (xs : List BusIn) (x : BusIn) :
    let s := (machine c).run xs
    let o := out c s x
    waited c xs ≤ t ∧
    (o.error = true ↔ waited c xs = t) ∧
    (waited c xs = t → (o.toM s.grant).ack = true ∧ (o.toM s.grant).datR = ones c.dw) ∧
    (waited c xs < t → (o.toM s.grant).ack = slavesAck c x) := by
  intro s o
  have hc : s.count = t - min t (waited c xs) := run_count_spec c ht xs
  have hle : waited c xs ≤ t := by
    clear hc
    induction xs using snoc_induction with
    | nil => simp [waited, waits, WaitTimer.streak, WaitTimer.streakFrom]
    | snoc ys y ih =>
      rw [waited_step]
      have hc' := run_count_spec c ht ys
      have ih' := ih
      by_cases hlt : waited c ys < t
      · cases ownerWaits c ((machine c).run ys) y <;> simp [WaitTimer.streakStep] <;> omega
      · have heq : waited c ys = t := by omega
        have hdone : WaitTimer.done ((machine c).run ys).count = true := by
          rw [hc']; simp [WaitTimer.done]; omega
        have : ownerWaits c ((machine c).run ys) y = false := by
          rw [ownerWaits_eq c ht]
          simp [tWait, tOut, hdone]
        simp [this, WaitTimer.streakStep]
  refine ⟨hle, ?_, ?_, ?_⟩
  · show (tRes c s x).error = true ↔ _
    rw [tRes_some c ht, tOut]
    by_cases hd : WaitTimer.done s.count = true
    · simp only [hd, if_true, true_iff]
      simp [WaitTimer.done, hc] at hd; omega
    · simp only [hd, if_false, Bool.false_eq_true, false_iff]
      simp [WaitTimer.done, hc] at hd; omega
  · intro hw
    have hd : WaitTimer.done s.count = true := by simp [WaitTimer.done, hc]; omega
    show ((tRes c s x).ack && (s.grant == s.grant)) = true ∧ (tRes c s x).datR = _
    rw [tRes_some c ht, tOut]
    simp [hd]
  · intro hw
    have hd : WaitTimer.done s.count = false := by simp [WaitTimer.done, hc]; omega
    show ((tRes c s x).ack && (s.grant == s.grant)) = _
    rw [tRes_some c ht, tOut]
    simp [hd, tIn, slavesAck]

/-- **wb_timeout_undisturbed.**  While the owner has waited fewer than `t` cycles, every port of the
    interconnect (all masters, all slaves) carries exactly what it would carry without the `Timeout` module,
    and `error = 0`.  (`{c with t := none}` is `InterconnectShared(timeout_cycles=None)`.) -/
theorem wb_timeout_undisturbed (ht : c.t = some t) (xs : List BusIn) (x : BusIn)
    (hw : waited c xs < t) :
    let s := (machine c).run xs
    (∀ i, (out c s x).toM i = (out { c with t := none } s x).toM i) ∧
    (∀ j, (out c s x).toS j = (out { c with t := none } s x).toS j) ∧
    (out c s x).error = false := by
  intro s
  have hc : s.count = t - min t (waited c xs) := run_count_spec c ht xs
  have hd : WaitTimer.done s.count = false := by simp [WaitTimer.done, hc]; omega
  have hres : tRes c s x = tRes { c with t := none } s x := by
    rw [tRes_some c ht]
    simp [tRes, tOut, hd, tIn, selMux, sel]
  refine ⟨?_, ?_, ?_⟩
  · intro i; simp only [out, hres]
  · intro j; rfl
  · show (tRes c s x).error = false
    rw [tRes_some c ht]; simp [tOut, hd]

/-- The timeout has no influence on arbitration and decoding state: grant and registered select evolve as in
    the interconnect without a timeout, in every cycle (also in the expiry cycle). -/
theorem wb_timeout_arbitration_independent (s : State) (x : BusIn) :
    (next c s x).grant = (next { c with t := none } s x).grant ∧
    (next c s x).selR = (next { c with t := none } s x).selR := ⟨rfl, rfl⟩

/-- **Coincidence in the expiry cycle**, stated as the code behaves: a slave acknowledging in the very cycle
    the timer has expired is overridden — the owner gets one termination with all-ones data and `error = 1`. -/
theorem wb_timeout_coincidence (ht : c.t = some t) (xs : List BusIn) (x : BusIn)
    (hw : waited c xs = t) (_hack : slavesAck c x = true) :
    let s := (machine c).run xs
    (out c s x).error = true ∧ ((out c s x).toM s.grant).ack = true ∧
    ((out c s x).toM s.grant).datR = ones c.dw := by
  have h := wb_timeout_exact c ht xs x
  exact ⟨h.2.1.mpr hw, h.2.2.1 hw⟩

/-- **wb_timeout_recovers.**  The cycle after a forced acknowledge the timer is reloaded: the waiting streak is
    0 again, so by `wb_timeout_exact`/`wb_timeout_undisturbed` the next request gets the full `t` cycles and is
    served normally.  No other state is touched by the timeout (`wb_timeout_arbitration_independent`). -/
theorem wb_timeout_recovers (ht : c.t = some t) (xs : List BusIn) (x : BusIn)
    (hw : waited c xs = t) :
    waited c (xs ++ [x]) = 0 ∧ ((machine c).run (xs ++ [x])).count = t := by
  have hc' := run_count_spec c ht xs
  have hdone : WaitTimer.done ((machine c).run xs).count = true := by
    rw [hc']; simp [WaitTimer.done]; omega
  have h0 : ownerWaits c ((machine c).run xs) x = false := by
    rw [ownerWaits_eq c ht]; simp [tWait, tOut, hdone]
  have hz : waited c (xs ++ [x]) = 0 := by rw [waited_step, h0]; rfl
  refine ⟨hz, ?_⟩
  rw [run_count_spec c ht, hz]; omega

/-- Scenario form, spelling out `waited`: after a history whose last cycle was not a waiting one, let the owner
    keep `cyc & stb` for `ys.length ≤ t` cycles in which no slave acknowledges.  Then the streak is exactly
    `ys.length` and the owner still owns the bus. -/
theorem wb_waited_scenario (ht : c.t = some t) (hn : 0 < c.n) (xs : List BusIn) (hw : waited c xs = 0)
    (ys : List BusIn) (hlen : ys.length ≤ t)
    (hreq : ∀ y ∈ ys, (y.ms ((machine c).run xs).grant).cyc = true ∧
                      (y.ms ((machine c).run xs).grant).stb = true ∧ slavesAck c y = false) :
    waited c (xs ++ ys) = ys.length ∧
    ((machine c).run (xs ++ ys)).grant = ((machine c).run xs).grant := by
  induction ys using snoc_induction with
  | nil => simpa using hw
  | snoc zs z ih =>
    have hlen' : zs.length < t := by simp at hlen; omega
    have ih' := ih (by omega) (fun y hy => hreq y (by simp [hy]))
    have hz := hreq z (by simp)
    have hrun : (machine c).run (xs ++ (zs ++ [z])) = next c ((machine c).run (xs ++ zs)) z := by
      simp [Machine.run, ← List.append_assoc, Machine.runFrom_append, Machine.runFrom, machine]
    have hex := wb_timeout_exact c ht (xs ++ zs) z
    have hack : ((out c ((machine c).run (xs ++ zs)) z).toM ((machine c).run (xs ++ zs)).grant).ack = false := by
      rw [hex.2.2.2 (by omega)]; exact hz.2.2
    have hwait : ownerWaits c ((machine c).run (xs ++ zs)) z = true := by
      rw [ih'.2] at hack
      simp [ownerWaits, hack, ih'.2, hz.1, hz.2.1]
    refine ⟨?_, ?_⟩
    · rw [← List.append_assoc, waited_step, hwait, ih'.1]; simp [WaitTimer.streakStep]
    · rw [hrun]
      simp only [Shared.next]
      rw [RoundRobin.next_withdraw_keep _ _ (grant_lt c hn _) (by rw [ih'.2]; exact hz.1), ih'.2]

/-- **Exact latency.**  A request of the bus owner that no slave answers is left alone for `t` cycles
    (`ack = 0`, `error = 0` in each of them) and terminated in the next one — the `(t+1)`-th cycle of the
    request — with `ack = 1`, all-ones data and `error = 1`; never earlier. -/
theorem wb_silent_request_terminated_at_t (ht : c.t = some t) (hn : 0 < c.n) (xs : List BusIn)
    (hw : waited c xs = 0) (ys : List BusIn) (hlen : ys.length ≤ t) (x : BusIn)
    (hreq : ∀ y ∈ ys, (y.ms ((machine c).run xs).grant).cyc = true ∧
                      (y.ms ((machine c).run xs).grant).stb = true ∧ slavesAck c y = false) :
    let g := ((machine c).run xs).grant
    let o := out c ((machine c).run (xs ++ ys)) x
    (ys.length < t → o.error = false ∧ (o.toM g).ack = slavesAck c x) ∧
    (ys.length = t → o.error = true ∧ (o.toM g).ack = true ∧ (o.toM g).datR = ones c.dw) := by
  intro g o
  obtain ⟨hwd, hg⟩ := wb_waited_scenario c ht hn xs hw ys hlen hreq
  have hex := wb_timeout_exact c ht (xs ++ ys) x
  simp only [hwd, hg] at hex
  refine ⟨fun h => ⟨?_, hex.2.2.2 h⟩, fun h => ⟨hex.2.1.mpr h, hex.2.2.1 h⟩⟩
  cases he : o.error
  · rfl
  · have := hex.2.1.mp he; omega

/-- **unmapped_address.**  An address that matches no decoder raises `cyc` at no slave (so no protocol-abiding
    slave answers, and the request times out as above). -/
theorem wb_unmapped_address (s : State) (x : BusIn)
    (hun : ∀ j, c.dec j (x.ms s.grant).adr = false) (j : Nat) :
    ((out c s x).toS j).cyc = false := by
  simp [out, sel, bus, hun]

/-- **Bounded termination**, for every history: the bus owner is never left with an unacknowledged request for
    more than `t` consecutive cycles (in the `(t+1)`-th it is acknowledged, by a slave or by the timeout). -/
theorem wb_bounded_termination (ht : c.t = some t) (xs : List BusIn) : waited c xs ≤ t :=
  (wb_timeout_exact c ht xs { ms := fun _ => {}, ss := fun _ => {} }).1

/-! Non-vacuity: a 2-master x 2-slave interconnect (`timeout_cycles = 3`, slave `j` at addresses `2j, 2j+1`) on
    which master 0 requests the silent slave 1: the streak really reaches `t`, the forced acknowledge appears in
    the 4th cycle with `0xff` and `error`, and the hypotheses of the scenario theorems are satisfied. -/
def cfgWb : Wb.Cfg := { n := 2, k := 2, dec := fun j a => (a >>> 1) == j, reg := false, t := some 3, dw := 8 }

def reqIn : BusIn := { ms := fun i => if i = 0 then { cyc := true, stb := true, adr := 2 } else {}, ss := fun _ => {} }

example : waited cfgWb [reqIn, reqIn, reqIn] = 3 ∧ waited cfgWb [reqIn, reqIn, reqIn, reqIn] = 0 ∧
    ((machine cfgWb).trace [reqIn, reqIn, reqIn, reqIn]).map (fun o => ((o.toM 0).ack, (o.toM 0).datR, o.error)) =
      [(false, 0, false), (false, 0, false), (false, 0, false), (true, 255, true)] := by decide

example : slavesAck cfgWb reqIn = false ∧ (reqIn.ms ((machine cfgWb).run []).grant).cyc = true ∧
    waited cfgWb [] = 0 := by decide

/-- An answer in time is passed through (slave 1 acks with `0x5a` in the third cycle, no error). -/
example :
    let ackIn : BusIn := { reqIn with ss := fun j => if j = 1 then { ack := true, datR := 0x5a } else {} }
    ((machine cfgWb).trace [reqIn, reqIn, ackIn, reqIn]).map (fun o => ((o.toM 0).ack, (o.toM 0).datR, o.error)) =
      [(false, 0, false), (false, 0, false), (true, 0x5a, false), (false, 0, false)] := by decide

end wbShared

/-! ## AXI-Lite / AXI: the timeout FSMs alone, any bus behaviour

  `wTimeout t` / `rTimeout full dw t` are the write / read halves of `AXILiteTimeout` (`full = false`) and
  `AXITimeout` (`full = true`); their inputs are the watched bus (request side and the decoder's answer),
  chosen freely in every cycle.  Exact numbers, counting the first waiting cycle as cycle 0: `error` pulse in
  cycle `t`, RESPOND from cycle `t+1` (absorbs AW/W resp. AR in the cycle they are offered), SLVERR response
  offered in the first RESPOND cycle in which the master offers no address/data beat — cycle `t+2` for a
  master that holds its valids until accepted. -/

section axFsm
open Axi

/-- WAIT is transparent: whatever the history, while the FSM is in WAIT the master side of the bus carries
    exactly the decoder's `aw.ready`, `w.ready`, `b.valid`, `b.resp` (**undisturbed**). -/
theorem axl_wr_transparent (s : FState) (x : WIn) (h : s.respond = false) :
    (wOut s x).awr = x.awr ∧ (wOut s x).wr = x.wr ∧ (wOut s x).bv = x.bv ∧ (wOut s x).bresp = x.bresp := by
  simp [wOut, h]

/-- **axl_timeout_exact (write).**  For every history: the error pulse (= entry into RESPOND) happens exactly in
    a WAIT cycle in which an AW/W beat is pending and unaccepted (`wait_cond`) after at least `t` consecutive
    such cycles — never earlier, and not if the slave accepts in the expiry cycle (`wait_cond = 0`). -/
theorem axl_wr_timeout_exact (t : Nat) (xs : List WIn) (x : WIn) :
    let s := (wTimeout t).run xs
    ((wOut s x).error = true ↔ s.respond = false ∧ t ≤ wWaited t xs ∧ wWaitCond x = true) ∧
    ((wNext t s x).respond = true ↔
      (wOut s x).error = true ∨ (s.respond = true ∧ ¬(x.awv = false ∧ x.wv = false ∧ x.br = true))) := by
  intro s
  have hc : s.count = t - min t (wWaited t xs) := wRun_count_spec t xs
  have hd : WaitTimer.done s.count = true ↔ t ≤ wWaited t xs := by
    simp [WaitTimer.done, hc]; omega
  constructor
  · cases hr : s.respond <;> simp [wOut, hr, hd]
  · cases hr : s.respond
    · simp [wNext, wOut, hr]
    · cases ha : x.awv <;> cases hw : x.wv <;> cases hb : x.br <;> simp [wNext, wOut, hr, ha, hw, hb]

/-- **Forced response.**  In RESPOND the FSM accepts whatever address/data beat is offered, offers `B` with
    `SLVERR` as soon as none is offered, and signals no further error. -/
theorem axl_wr_forced (s : FState) (x : WIn) (h : s.respond = true) :
    wOut s x = { awr := x.awv, wr := x.wv, bv := !x.awv && !x.wv, bresp := RESP_SLVERR, error := false } := by
  simp [wOut, h]

/-- **axl_timeout_recovers (write).**  The forced `B` handshake returns the FSM to its reset state (WAIT, timer
    reloaded): nothing of the timeout is remembered. -/
theorem axl_wr_recovers (t : Nat) (s : FState) (x : WIn) (h : s.respond = true)
    (haw : x.awv = false) (hw : x.wv = false) (hb : x.br = true) : wNext t s x = fInit t := by
  simp [wNext, wOut, wWait, h, haw, hw, hb, fInit, WaitTimer.next]

/-- **axl_timeout_undisturbed (write).**  Whenever the pending beats are accepted (or nothing is pending) in a
    WAIT cycle — including the very cycle in which the timer has expired — there is no error, no RESPOND, and
    the timer is reloaded. -/
theorem axl_wr_undisturbed (t : Nat) (s : FState) (x : WIn) (h : s.respond = false)
    (hacc : wWaitCond x = false) : (wOut s x).error = false ∧ wNext t s x = fInit t := by
  simp [wNext, wOut, wWait, h, hacc, fInit, WaitTimer.next]

/-! Scope of "undisturbed" on the write channels (finding C11-axi-timeout-accumulates-across-transfers).
    `axl_wr_timeout_exact` characterises the code exactly: the streak counts consecutive cycles in which ANY AW or W
    beat is stalled, and `axl_wr_undisturbed` guarantees a reload only in a cycle in which NO beat is stalled.  The
    stronger per-transfer reading

        theorem axl_wr_undisturbed_per_transfer_open : a write whose own AW and W beats are each accepted after
          fewer than `t` stall cycles never sees an error / forced response

    is false: with back-to-back writes the stalls of different beats and different transfers add up.  Negative
    witness (`t = 4`; AW1 stalled cycles 0–1, W1 stalled 1–2, AW2 stalled from 3, W2 from 4 — no beat waits more than
    2 cycles, transfer #2 is 2 cycles old): error pulse in cycle 4.  The read FSM watches a single channel, so every AR
    handshake cycle has `wait_cond = 0` and reloads; `wishbone.Timeout` reloads on every `ack`. -/
example :
    ((wTimeout 4).trace
      [{ awv := true,  wv := false, br := false, awr := false, wr := false, bv := false, bresp := 0 },
       { awv := true,  wv := true,  br := false, awr := false, wr := false, bv := false, bresp := 0 },
       { awv := true,  wv := true,  br := false, awr := true,  wr := false, bv := false, bresp := 0 },
       { awv := true,  wv := true,  br := false, awr := false, wr := true,  bv := false, bresp := 0 },
       { awv := true,  wv := true,  br := false, awr := false, wr := false, bv := false, bresp := 0 }]).map (·.error)
    = [false, false, false, false, true] := by decide

/-- Waiting stretch: from a freshly loaded timer, `ys.length ≤ t` cycles with a pending unaccepted beat give no
    error and leave `count = t - ys.length`. -/
theorem axl_wr_waiting (t : Nat) (ys : List WIn) : ∀ (cnt : Nat), ys.length ≤ cnt → cnt ≤ t →
    (∀ y ∈ ys, wWaitCond y = true) →
    (wTimeout t).runFrom { count := cnt, respond := false } ys = { count := cnt - ys.length, respond := false } ∧
    ∀ o ∈ (wTimeout t).traceFrom { count := cnt, respond := false } ys, o.error = false := by
  induction ys with
  | nil => intro cnt _ _ _; simp [Machine.runFrom, Machine.traceFrom]
  | cons y ys ih =>
    intro cnt hl hct hw
    have hy := hw y (by simp)
    have hpos : cnt ≠ 0 := by simp at hl; omega
    have hstep : wNext t { count := cnt, respond := false } y = { count := cnt - 1, respond := false } := by
      simp [wNext, wWait, hy, WaitTimer.next, WaitTimer.done, hpos]
    have herr : (wOut { count := cnt, respond := false } y).error = false := by
      simp [wOut, WaitTimer.done, hpos]
    obtain ⟨h1, h2⟩ := ih (cnt - 1) (by simp at hl; omega) (by omega) (fun z hz => hw z (by simp [hz]))
    refine ⟨?_, ?_⟩
    · show (wTimeout t).runFrom (wNext t _ y) ys = _
      rw [hstep, h1]; simp; omega
    · intro o ho
      simp only [Machine.traceFrom, List.mem_cons] at ho
      rcases ho with rfl | ho
      · exact herr
      · have : (wTimeout t).next { count := cnt, respond := false } y = { count := cnt - 1, respond := false } := hstep
        rw [this] at ho; exact h2 o ho

/-- **axl_timeout_bound (write), exact numbers.**  From reset state (or any state with WAIT and a reloaded
    timer): `t` cycles with a pending unaccepted beat (`ys`), then one more (`x0`): error pulse exactly there
    (cycle `t`), none before.  Next cycle (`x1`, master still offering a beat): the beat(s) are accepted by the
    FSM, no `B` yet.  Next cycle (`x2`, nothing offered, `b.ready`): `B` with `SLVERR`, and the FSM is back in its
    reset state. -/
theorem axl_wr_timeout_bound (t : Nat) (ys : List WIn) (x0 x1 x2 : WIn)
    (hlen : ys.length = t) (hys : ∀ y ∈ ys, wWaitCond y = true) (h0 : wWaitCond x0 = true)
    (h1 : (x1.awv || x1.wv) = true) (h2 : x2.awv = false ∧ x2.wv = false ∧ x2.br = true) :
    let m := wTimeout t
    let s0 := m.runFrom (fInit t) ys
    let s1 := m.next s0 x0
    let s2 := m.next s1 x1
    (∀ o ∈ m.traceFrom (fInit t) ys, o.error = false) ∧
    (m.out s0 x0).error = true ∧
    m.out s1 x1 = { awr := x1.awv, wr := x1.wv, bv := false, bresp := RESP_SLVERR, error := false } ∧
    m.out s2 x2 = { awr := false, wr := false, bv := true, bresp := RESP_SLVERR, error := false } ∧
    m.next s2 x2 = fInit t := by
  intro m s0 s1 s2
  obtain ⟨hr, he⟩ := axl_wr_waiting t ys t (by omega) (by omega) hys
  have hs0 : s0 = { count := 0, respond := false } := by
    show (wTimeout t).runFrom (fInit t) ys = _
    rw [show fInit t = { count := t, respond := false } from rfl, hr, hlen]; simp
  have hs1 : s1 = { count := 0, respond := true } := by
    show wNext t s0 x0 = _
    rw [hs0]; simp [wNext, wWait, h0, WaitTimer.next, WaitTimer.done]
  have hs2 : s2.respond = true := by
    show (wNext t s1 x1).respond = true
    rw [hs1]
    cases ha : x1.awv <;> cases hw : x1.wv <;> simp [wNext, wOut, ha, hw] <;> simp [ha, hw] at h1
  refine ⟨he, ?_, ?_, ?_, ?_⟩
  · show (wOut s0 x0).error = true
    rw [hs0]; simp [wOut, WaitTimer.done, h0]
  · show wOut s1 x1 = _
    rw [hs1]
    cases ha : x1.awv <;> cases hw : x1.wv <;> simp [wOut, ha, hw] <;> simp [ha, hw] at h1
  · show wOut s2 x2 = _
    rw [axl_wr_forced s2 x2 hs2]; simp [h2.1, h2.2.1]
  · exact axl_wr_recovers t s2 x2 hs2 h2.1 h2.2.1 h2.2.2

/-! Read direction (AXI-Lite: `full = false`; AXI: `full = true`, forced `r.last = 1`). -/

theorem axl_rd_transparent (full : Bool) (dw : Nat) (s : FState) (x : RIn) (h : s.respond = false) :
    (rOut full dw s x).arr = x.arr ∧ (rOut full dw s x).rv = x.rv ∧ (rOut full dw s x).rresp = x.rresp ∧
    (rOut full dw s x).rdata = x.rdata ∧ (rOut full dw s x).rlast = x.rlast := by
  simp [rOut, h]

/-- **axl_timeout_exact (read).** -/
theorem axl_rd_timeout_exact (full : Bool) (dw t : Nat) (xs : List RIn) (x : RIn) :
    let s := (rTimeout full dw t).run xs
    ((rOut full dw s x).error = true ↔ s.respond = false ∧ t ≤ rWaited full dw t xs ∧ rWaitCond x = true) ∧
    ((rNext full dw t s x).respond = true ↔
      (rOut full dw s x).error = true ∨ (s.respond = true ∧ ¬(x.arv = false ∧ x.rr = true))) := by
  intro s
  have hc : s.count = t - min t (rWaited full dw t xs) := rRun_count_spec full dw t xs
  have hd : WaitTimer.done s.count = true ↔ t ≤ rWaited full dw t xs := by
    simp [WaitTimer.done, hc]; omega
  constructor
  · cases hr : s.respond <;> simp [rOut, hr, hd]
  · cases hr : s.respond
    · simp [rNext, rOut, hr]
    · cases ha : x.arv <;> cases hb : x.rr <;> simp [rNext, rOut, hr, ha, hb]

/-- Forced read response: `SLVERR`, all-ones data, and `r.last = 1` on AXI. -/
theorem axl_rd_forced (full : Bool) (dw : Nat) (s : FState) (x : RIn) (h : s.respond = true) :
    rOut full dw s x = { arr := x.arv, rv := !x.arv, rresp := RESP_SLVERR, rdata := Wb.ones dw,
                         rlast := if full then true else x.rlast, error := false } := by
  simp [rOut, h]

theorem axi_rd_forced_last (dw : Nat) (s : FState) (x : RIn) (h : s.respond = true) :
    (rOut true dw s x).rlast = true := by simp [rOut, h]

theorem axl_rd_recovers (full : Bool) (dw t : Nat) (s : FState) (x : RIn) (h : s.respond = true)
    (ha : x.arv = false) (hr : x.rr = true) : rNext full dw t s x = fInit t := by
  simp [rNext, rOut, rWait, h, ha, hr, fInit, WaitTimer.next]

theorem axl_rd_undisturbed (full : Bool) (dw t : Nat) (s : FState) (x : RIn) (h : s.respond = false)
    (hacc : rWaitCond x = false) : (rOut full dw s x).error = false ∧ rNext full dw t s x = fInit t := by
  simp [rNext, rOut, rWait, h, hacc, fInit, WaitTimer.next]

theorem axl_rd_waiting (full : Bool) (dw t : Nat) (ys : List RIn) : ∀ (cnt : Nat), ys.length ≤ cnt → cnt ≤ t →
    (∀ y ∈ ys, rWaitCond y = true) →
    (rTimeout full dw t).runFrom { count := cnt, respond := false } ys =
      { count := cnt - ys.length, respond := false } ∧
    ∀ o ∈ (rTimeout full dw t).traceFrom { count := cnt, respond := false } ys, o.error = false := by
  induction ys with
  | nil => intro cnt _ _ _; simp [Machine.runFrom, Machine.traceFrom]
  | cons y ys ih =>
    intro cnt hl hct hw
    have hy := hw y (by simp)
    have hpos : cnt ≠ 0 := by simp at hl; omega
    have hstep : rNext full dw t { count := cnt, respond := false } y = { count := cnt - 1, respond := false } := by
      simp [rNext, rWait, hy, WaitTimer.next, WaitTimer.done, hpos]
    have herr : (rOut full dw { count := cnt, respond := false } y).error = false := by
      simp [rOut, WaitTimer.done, hpos]
    obtain ⟨h1, h2⟩ := ih (cnt - 1) (by simp at hl; omega) (by omega) (fun z hz => hw z (by simp [hz]))
    refine ⟨?_, ?_⟩
    · show (rTimeout full dw t).runFrom (rNext full dw t _ y) ys = _
      rw [hstep, h1]; simp; omega
    · intro o ho
      simp only [Machine.traceFrom, List.mem_cons] at ho
      rcases ho with rfl | ho
      · exact herr
      · have : (rTimeout full dw t).next { count := cnt, respond := false } y =
            { count := cnt - 1, respond := false } := hstep
        rw [this] at ho; exact h2 o ho

/-- **axl_timeout_bound (read), exact numbers**: error pulse in cycle `t`, AR absorbed in cycle `t+1`, `R` with
    `SLVERR`/all-ones (and `last` on AXI) in cycle `t+2`, then reset state. -/
theorem axl_rd_timeout_bound (full : Bool) (dw t : Nat) (ys : List RIn) (x0 x1 x2 : RIn)
    (hlen : ys.length = t) (hys : ∀ y ∈ ys, rWaitCond y = true) (h0 : rWaitCond x0 = true)
    (h1 : x1.arv = true) (h2 : x2.arv = false ∧ x2.rr = true) :
    let m := rTimeout full dw t
    let s0 := m.runFrom (fInit t) ys
    let s1 := m.next s0 x0
    let s2 := m.next s1 x1
    (∀ o ∈ m.traceFrom (fInit t) ys, o.error = false) ∧
    (m.out s0 x0).error = true ∧
    ((m.out s1 x1).arr = true ∧ (m.out s1 x1).rv = false ∧ (m.out s1 x1).error = false) ∧
    ((m.out s2 x2).rv = true ∧ (m.out s2 x2).rresp = RESP_SLVERR ∧ (m.out s2 x2).rdata = Wb.ones dw ∧
      (full = true → (m.out s2 x2).rlast = true) ∧ (m.out s2 x2).error = false) ∧
    m.next s2 x2 = fInit t := by
  intro m s0 s1 s2
  obtain ⟨hr, he⟩ := axl_rd_waiting full dw t ys t (by omega) (by omega) hys
  have hs0 : s0 = { count := 0, respond := false } := by
    show (rTimeout full dw t).runFrom (fInit t) ys = _
    rw [show fInit t = { count := t, respond := false } from rfl, hr, hlen]; simp
  have hs1 : s1 = { count := 0, respond := true } := by
    show rNext full dw t s0 x0 = _
    rw [hs0]; simp [rNext, rWait, h0, WaitTimer.next, WaitTimer.done]
  have hs2 : s2.respond = true := by
    show (rNext full dw t s1 x1).respond = true
    rw [hs1]; simp [rNext, rOut, h1]
  refine ⟨he, ?_, ?_, ?_, ?_⟩
  · show (rOut full dw s0 x0).error = true
    rw [hs0]; simp [rOut, WaitTimer.done, h0]
  · show (rOut full dw s1 x1).arr = true ∧ (rOut full dw s1 x1).rv = false ∧ (rOut full dw s1 x1).error = false
    rw [hs1]; simp [rOut, h1]
  · show (rOut full dw s2 x2).rv = true ∧ (rOut full dw s2 x2).rresp = RESP_SLVERR ∧
      (rOut full dw s2 x2).rdata = Wb.ones dw ∧ (full = true → (rOut full dw s2 x2).rlast = true) ∧
      (rOut full dw s2 x2).error = false
    rw [axl_rd_forced full dw s2 x2 hs2]
    refine ⟨by simp [h2.1], rfl, rfl, ?_, rfl⟩
    intro hf; simp [hf]
  · exact axl_rd_recovers full dw t s2 x2 hs2 h2.1 h2.2

end axFsm

/-! ## AXI-Lite / AXI `…InterconnectShared` with `timeout_cycles = t` (arbiter + decoder + timeout)

  `c.full = false`: `AXILiteInterconnectShared`; `c.full = true`: `AXIInterconnectShared`.  Any number of masters
  and slaves, any decoder.  The *owner* is the master holding the write (resp. read) grant. -/

section axShared
open Axi
variable (c : Axi.Cfg) {t : Nat}

/-- **axl_shared_wr_exact.**  For every history from reset, with `waited` the number of consecutive preceding
    cycles in which the FSM was in WAIT and the owner had an AW/W beat that was not accepted (observed at the
    owner's port): the error pulse occurs exactly when `waited ≥ t` and the owner is again left waiting in this
    cycle; in RESPOND the owner sees the forced handshake/response and all other masters see nothing. -/
theorem axl_shared_wr_exact (ht : c.t = some t) (xs : List WBusIn) (x : WBusIn) :
    let s := (SharedW.machine c).run xs
    let o := SharedW.out c s x
    (o.error = true ↔ t ≤ SharedW.waited c xs ∧ SharedW.ownerWaits c s x = true) ∧
    (s.tm.respond = true →
      (o.toM s.grant).awr = (x.ms s.grant).awv ∧ (o.toM s.grant).wr = (x.ms s.grant).wv ∧
      (o.toM s.grant).bv = (!(x.ms s.grant).awv && !(x.ms s.grant).wv) ∧
      (o.toM s.grant).bresp = RESP_SLVERR ∧ o.error = false ∧
      ∀ i, i ≠ s.grant → (o.toM i).awr = false ∧ (o.toM i).wr = false ∧ (o.toM i).bv = false) := by
  intro s o
  have hc : s.tm.count = t - min t (SharedW.waited c xs) := SharedW.run_count_spec c ht xs
  have hd : WaitTimer.done s.tm.count = true ↔ t ≤ SharedW.waited c xs := by
    simp [WaitTimer.done, hc]; omega
  constructor
  · show (SharedW.tRes c s x).error = true ↔ _
    rw [SharedW.ownerWaits_eq c ht, SharedW.tRes_some c ht]
    cases hr : s.tm.respond <;> simp [wOut, wWait, hr, hd]
  · intro hr
    have hres := SharedW.tRes_some c ht s x
    have hne : ∀ i, i ≠ s.grant → (s.grant == i) = false := fun i hi => by
      simp; exact fun h => hi h.symm
    refine ⟨?_, ?_, ?_, ?_, ?_, ?_⟩ <;>
      simp only [o, SharedW.out, hres, axl_wr_forced _ _ hr, SharedW.tIn, SharedW.bus, beq_self_eq_true,
                 Bool.and_true]
    intro i hi; simp [hne i hi]

/-- **axl_shared_wr_undisturbed.**  While the write FSM is in WAIT — in particular whenever the slave accepts
    within `t` cycles, *including* the expiry cycle — every port carries exactly what the interconnect without a
    timeout (`timeout_cycles=None`) would carry, and arbiter grant, lock counter and registered select evolve
    identically.  (What the slaves see never depends on the timeout at all — also not in RESPOND, which is the
    root of finding C11-axi-stale-late-response.) -/
theorem axl_shared_wr_undisturbed (ht : c.t = some t) (s : DState) (x : WBusIn) (hr : s.tm.respond = false) :
    (∀ i, (SharedW.out c s x).toM i = (SharedW.out { c with t := none } s x).toM i) ∧
    (∀ j, (SharedW.out c s x).toS j = (SharedW.out { c with t := none } s x).toS j) ∧
    (SharedW.next c s x).grant = (SharedW.next { c with t := none } s x).grant ∧
    (SharedW.next c s x).lock = (SharedW.next { c with t := none } s x).lock ∧
    (SharedW.next c s x).selReg = (SharedW.next { c with t := none } s x).selReg := by
  have hres : ∀ (f : WOut → Bool), (f = WOut.awr ∨ f = WOut.wr ∨ f = WOut.bv) →
      f (SharedW.tRes c s x) = f (SharedW.tRes { c with t := none } s x) := by
    intro f hf
    rw [SharedW.tRes_some c ht]
    rcases hf with rfl | rfl | rfl <;> simp [wOut, hr, SharedW.tRes, SharedW.tIn, SharedW.sel, selOf]
  have hb : (SharedW.tRes c s x).bresp = (SharedW.tRes { c with t := none } s x).bresp := by
    rw [SharedW.tRes_some c ht]; simp [wOut, hr, SharedW.tRes, SharedW.tIn, SharedW.sel, selOf]
  have h1 := hres WOut.awr (Or.inl rfl)
  have h2 := hres WOut.wr (Or.inr (Or.inl rfl))
  have h3 := hres WOut.bv (Or.inr (Or.inr rfl))
  have hrr : SharedW.rrReq c s x = SharedW.rrReq { c with t := none } s x := by
    funext i; simp only [SharedW.rrReq, h3]
  refine ⟨?_, fun j => rfl, ?_, ?_, rfl⟩
  · intro i; simp only [SharedW.out, h1, h2, h3, hb]
  · simp only [SharedW.next, SharedW.ce, hrr, h3]
  · simp only [SharedW.next, SharedW.req, SharedW.resp, h1, h3]

/-- **axl_timeout_bound / recovers on the composed interconnect (write), exact numbers — `_partial`.**
    Hypotheses that delimit the region in which the property holds on the unchanged tree (all decidable on the
    trace): shared interconnect; the fault lies before/within the address-data phase (`hsil`: no slave accepts
    anything up to the expiry cycle — a fault in the *response* phase is never timed out, see
    `axl_response_phase_hangs`); for "afterwards … normally" additionally no slave may accept a beat in the RESPOND
    cycles `x1`, `x2` (else its late answer hits the next transaction, see the stale-response witness) — the
    conclusions below about the interconnect itself hold without that last hypothesis.
    State `s`: no write outstanding (`lock = 0`), FSM in reset state.  The owner offers AW and W and every slave stays silent.
    Cycles `0 … t-1` (`ys`): nothing; cycle `t` (`x0`): `error = 1`, still nothing accepted; cycle `t+1` (`x1`):
    AW and W accepted by the timeout; cycle `t+2` (`x2`, owner has dropped its valids, `b.ready = 1`): `B` with
    `SLVERR`.  Afterwards: same owner, `lock = 0` again (the forced request and response were both counted),
    FSM in its reset state — the interconnect is exactly as before the request. -/
theorem axl_wr_timeout_bound_partial (ht : c.t = some t) (s : DState) (hgn : s.grant < c.n)
    (hl : s.lock = 0) (htm : s.tm = fInit t) (ys : List WBusIn) (x0 x1 x2 : WBusIn) (hlen : ys.length = t)
    (hreq : ∀ y ∈ ys ++ [x0, x1], (y.ms s.grant).awv = true ∧ (y.ms s.grant).wv = true)
    (hsil : ∀ y ∈ ys ++ [x0], SharedW.Silent y)
    (h2 : (x2.ms s.grant).awv = false ∧ (x2.ms s.grant).wv = false ∧ (x2.ms s.grant).br = true) :
    let m := SharedW.machine c
    let g := s.grant
    let s0 := m.runFrom s ys
    let s1 := m.next s0 x0
    let s2 := m.next s1 x1
    let s3 := m.next s2 x2
    (∀ o ∈ m.traceFrom s ys, o.error = false ∧ (o.toM g).awr = false ∧ (o.toM g).wr = false ∧ (o.toM g).bv = false) ∧
    ((m.out s0 x0).error = true ∧ ((m.out s0 x0).toM g).awr = false ∧ ((m.out s0 x0).toM g).wr = false ∧
      ((m.out s0 x0).toM g).bv = false) ∧
    (((m.out s1 x1).toM g).awr = true ∧ ((m.out s1 x1).toM g).wr = true ∧ ((m.out s1 x1).toM g).bv = false ∧
      (m.out s1 x1).error = false) ∧
    (((m.out s2 x2).toM g).bv = true ∧ ((m.out s2 x2).toM g).bresp = RESP_SLVERR ∧ (m.out s2 x2).error = false) ∧
    (s3.grant = g ∧ s3.lock = 0 ∧ s3.tm = fInit t) := by
  intro m g s0 s1 s2 s3
  have hys : ∀ y ∈ ys, (y.ms s.grant).awv = true ∧ (y.ms s.grant).wv = true ∧ SharedW.Silent y :=
    fun y hy => ⟨(hreq y (by simp [hy])).1, (hreq y (by simp [hy])).2, hsil y (by simp [hy])⟩
  obtain ⟨a1, a2, a3, a4⟩ := SharedW.silent_waiting c ht ys s t hgn hl htm (by omega) (by omega) hys
  have a3' : s0.tm = { count := 0, respond := false } := by
    show ((SharedW.machine c).runFrom s ys).tm = _
    rw [a3, hlen]; simp
  have hx0 := hreq x0 (by simp)
  have hx1 := hreq x1 (by simp)
  have hg0 : s0.grant = s.grant := a1
  obtain ⟨b1, b2, b3, b4, b5, b6, b7⟩ := SharedW.silent_wait_step c ht s0 x0 (by rw [hg0]; exact hgn) a2
    (by rw [a3']) (by rw [hg0]; exact hx0.1) (by rw [hg0]; exact hx0.2) (hsil x0 (by simp))
  have hg1 : s1.grant = s.grant := by show (SharedW.next c s0 x0).grant = _; rw [b5, hg0]
  have hr1 : s1.tm.respond = true := by
    show (SharedW.next c s0 x0).tm.respond = true
    rw [b7, a3']; simp [WaitTimer.done]
  obtain ⟨c1, c2, c3, c4, c5, c6, c7⟩ := SharedW.silent_absorb_step c ht s1 x1 (by rw [hg1]; exact hgn) b6 hr1
    (by rw [hg1]; exact hx1.1) (by rw [hg1]; exact hx1.2)
  have hg2 : s2.grant = s.grant := by show (SharedW.next c s1 x1).grant = _; rw [c5, hg1]
  have hr2 : s2.tm.respond = true := by show (SharedW.next c s1 x1).tm.respond = true; rw [c7]
  obtain ⟨d1, d2, d3, d4, d5, d6⟩ := SharedW.silent_b_step c ht s2 x2 (by rw [hg2]; exact hgn) c6 hr2
    (by rw [hg2]; exact h2.1) (by rw [hg2]; exact h2.2.1) (by rw [hg2]; exact h2.2.2)
  refine ⟨a4, ⟨?_, ?_, ?_, ?_⟩, ⟨?_, ?_, ?_, c4⟩, ⟨?_, ?_, d3⟩, ?_, d5, d6⟩
  · show (SharedW.out c s0 x0).error = true
    rw [b4, a3']; simp [WaitTimer.done]
  · have h' := b1; rw [hg0] at h'; exact h'
  · have h' := b2; rw [hg0] at h'; exact h'
  · have h' := b3; rw [hg0] at h'; exact h'
  · have h' := c1; rw [hg1] at h'; exact h'
  · have h' := c2; rw [hg1] at h'; exact h'
  · have h' := c3; rw [hg1] at h'; exact h'
  · have h' := d1; rw [hg2] at h'; exact h'
  · have h' := d2; rw [hg2] at h'; exact h'
  · show (SharedW.next c s2 x2).grant = _; rw [d4, hg2]

/-- **axl_shared_rd_exact.** -/
theorem axl_shared_rd_exact (ht : c.t = some t) (xs : List RBusIn) (x : RBusIn) :
    let s := (SharedR.machine c).run xs
    let o := SharedR.out c s x
    (o.error = true ↔ t ≤ SharedR.waited c xs ∧ SharedR.ownerWaits c s x = true) ∧
    (s.tm.respond = true →
      (o.toM s.grant).arr = (x.ms s.grant).arv ∧ (o.toM s.grant).rv = (!(x.ms s.grant).arv) ∧
      (o.toM s.grant).rresp = RESP_SLVERR ∧ (o.toM s.grant).rdata = Wb.ones c.dw ∧
      (c.full = true → (o.toM s.grant).rlast = true) ∧ o.error = false ∧
      ∀ i, i ≠ s.grant → (o.toM i).arr = false ∧ (o.toM i).rv = false) := by
  intro s o
  have hc : s.tm.count = t - min t (SharedR.waited c xs) := SharedR.run_count_spec c ht xs
  have hd : WaitTimer.done s.tm.count = true ↔ t ≤ SharedR.waited c xs := by
    simp [WaitTimer.done, hc]; omega
  constructor
  · show (SharedR.tRes c s x).error = true ↔ _
    rw [SharedR.ownerWaits_eq c ht, SharedR.tRes_some c ht]
    cases hr : s.tm.respond <;> simp [rOut, rWait, hr, hd]
  · intro hr
    have hres := SharedR.tRes_some c ht s x
    have hne : ∀ i, i ≠ s.grant → (s.grant == i) = false := fun i hi => by
      simp; exact fun h => hi h.symm
    refine ⟨?_, ?_, ?_, ?_, ?_, ?_, ?_⟩ <;>
      simp only [o, SharedR.out, hres, axl_rd_forced _ _ _ _ hr, SharedR.tIn, SharedR.bus, beq_self_eq_true,
                 Bool.and_true]
    · intro hf; simp [hf]
    · intro i hi; simp [hne i hi]

/-- **axl_shared_rd_undisturbed.** -/
theorem axl_shared_rd_undisturbed (ht : c.t = some t) (s : DState) (x : RBusIn) (hr : s.tm.respond = false) :
    (∀ i, (SharedR.out c s x).toM i = (SharedR.out { c with t := none } s x).toM i) ∧
    (∀ j, (SharedR.out c s x).toS j = (SharedR.out { c with t := none } s x).toS j) ∧
    (SharedR.next c s x).grant = (SharedR.next { c with t := none } s x).grant ∧
    (SharedR.next c s x).lock = (SharedR.next { c with t := none } s x).lock ∧
    (SharedR.next c s x).selReg = (SharedR.next { c with t := none } s x).selReg := by
  have e : SharedR.tRes c s x =
      { SharedR.tRes { c with t := none } s x with
        error := WaitTimer.done s.tm.count && rWaitCond (SharedR.tIn c s x) } := by
    rw [SharedR.tRes_some c ht]; simp [rOut, hr, SharedR.tRes, SharedR.tIn, SharedR.sel, selOf]
  have hrr : SharedR.rrReq c s x = SharedR.rrReq { c with t := none } s x := by
    funext i; simp only [SharedR.rrReq, e]
  refine ⟨?_, fun j => rfl, ?_, ?_, rfl⟩
  · intro i; simp only [SharedR.out, e]
  · simp only [SharedR.next, SharedR.ce, hrr, e]
  · simp only [SharedR.next, SharedR.req, SharedR.resp, e]

/-- **axl_timeout_bound / recovers on the composed interconnect (read), exact numbers — `_partial`** (same
    region as the write theorem: shared interconnect, fault in the address phase): error in cycle `t`, AR
    accepted by the timeout in cycle `t+1`, `R` with `SLVERR`, all-ones data (and `last` on AXI) in cycle `t+2`;
    afterwards same owner, `lock = 0`, FSM in reset state. -/
theorem axl_rd_timeout_bound_partial (ht : c.t = some t) (s : DState) (hgn : s.grant < c.n)
    (hl : s.lock = 0) (htm : s.tm = fInit t) (ys : List RBusIn) (x0 x1 x2 : RBusIn) (hlen : ys.length = t)
    (hreq : ∀ y ∈ ys ++ [x0, x1], (y.ms s.grant).arv = true)
    (hsil : ∀ y ∈ ys ++ [x0], SharedR.Silent y)
    (h2 : (x2.ms s.grant).arv = false ∧ (x2.ms s.grant).rr = true) :
    let m := SharedR.machine c
    let g := s.grant
    let s0 := m.runFrom s ys
    let s1 := m.next s0 x0
    let s2 := m.next s1 x1
    let s3 := m.next s2 x2
    (∀ o ∈ m.traceFrom s ys, o.error = false ∧ (o.toM g).arr = false ∧ (o.toM g).rv = false) ∧
    ((m.out s0 x0).error = true ∧ ((m.out s0 x0).toM g).arr = false ∧ ((m.out s0 x0).toM g).rv = false) ∧
    (((m.out s1 x1).toM g).arr = true ∧ ((m.out s1 x1).toM g).rv = false ∧ (m.out s1 x1).error = false) ∧
    (((m.out s2 x2).toM g).rv = true ∧ ((m.out s2 x2).toM g).rresp = RESP_SLVERR ∧
      ((m.out s2 x2).toM g).rdata = Wb.ones c.dw ∧ (c.full = true → ((m.out s2 x2).toM g).rlast = true) ∧
      (m.out s2 x2).error = false) ∧
    (s3.grant = g ∧ s3.lock = 0 ∧ s3.tm = fInit t) := by
  intro m g s0 s1 s2 s3
  have hys : ∀ y ∈ ys, (y.ms s.grant).arv = true ∧ SharedR.Silent y :=
    fun y hy => ⟨hreq y (by simp [hy]), hsil y (by simp [hy])⟩
  obtain ⟨a1, a2, a3, a4⟩ := SharedR.silent_waiting c ht ys s t hgn hl htm (by omega) (by omega) hys
  have a3' : s0.tm = { count := 0, respond := false } := by
    show ((SharedR.machine c).runFrom s ys).tm = _
    rw [a3, hlen]; simp
  have hx0 := hreq x0 (by simp)
  have hx1 := hreq x1 (by simp)
  have hg0 : s0.grant = s.grant := a1
  obtain ⟨b1, b2, b4, b5, b6, b7⟩ := SharedR.silent_wait_step c ht s0 x0 (by rw [hg0]; exact hgn) a2
    (by rw [a3']) (by rw [hg0]; exact hx0) (hsil x0 (by simp))
  have hg1 : s1.grant = s.grant := by show (SharedR.next c s0 x0).grant = _; rw [b5, hg0]
  have hr1 : s1.tm.respond = true := by
    show (SharedR.next c s0 x0).tm.respond = true
    rw [b7, a3']; simp [WaitTimer.done]
  obtain ⟨c1, c2, c4, c5, c6, c7⟩ := SharedR.silent_absorb_step c ht s1 x1 (by rw [hg1]; exact hgn) b6 hr1
    (by rw [hg1]; exact hx1)
  have hg2 : s2.grant = s.grant := by show (SharedR.next c s1 x1).grant = _; rw [c5, hg1]
  have hr2 : s2.tm.respond = true := by show (SharedR.next c s1 x1).tm.respond = true; rw [c7]
  obtain ⟨d1, d2, d2', d2'', d3, d4, d5, d6⟩ := SharedR.silent_r_step c ht s2 x2 (by rw [hg2]; exact hgn) c6 hr2
    (by rw [hg2]; exact h2.1) (by rw [hg2]; exact h2.2)
  refine ⟨a4, ⟨?_, ?_, ?_⟩, ⟨?_, ?_, c4⟩, ⟨?_, ?_, ?_, ?_, d3⟩, ?_, d5, d6⟩
  · show (SharedR.out c s0 x0).error = true
    rw [b4, a3']; simp [WaitTimer.done]
  · have h' := b1; rw [hg0] at h'; exact h'
  · have h' := b2; rw [hg0] at h'; exact h'
  · have h' := c1; rw [hg1] at h'; exact h'
  · have h' := c2; rw [hg1] at h'; exact h'
  · have h' := d1; rw [hg2] at h'; exact h'
  · have h' := d2; rw [hg2] at h'; exact h'
  · have h' := d2'; rw [hg2] at h'; exact h'
  · have h' := d2''; rw [hg2] at h'; exact h'
  · show (SharedR.next c s2 x2).grant = _; rw [d4, hg2]

/-- **unmapped_address (AXI).**  With no response outstanding (`lock = 0`), an address matching no decoder
    raises `aw.valid`/`w.valid` (resp. `ar.valid`) at no slave and no slave's `ready` reaches the bus: the
    request waits and is timed out as in `axl_*_timeout_bound_partial`. -/
theorem axl_unmapped_address (s : DState) (hl : s.lock = 0) :
    (∀ (x : WBusIn), (∀ j, c.dec j (x.ms s.grant).awa = false) →
      (∀ j, ((SharedW.out c s x).toS j).awv = false ∧ ((SharedW.out c s x).toS j).wv = false) ∧
      (SharedW.tIn c s x).awr = false ∧ (SharedW.tIn c s x).wr = false) ∧
    (∀ (x : RBusIn), (∀ j, c.dec j (x.ms s.grant).ara = false) →
      (∀ j, ((SharedR.out c s x).toS j).arv = false) ∧ (SharedR.tIn c s x).arr = false) := by
  constructor
  · intro x hun
    have hsel : ∀ j, SharedW.sel c s x j = false := fun j => by
      simp [SharedW.sel, selOf, ctrReady, hl, SharedW.bus, hun]
    exact ⟨fun j => by simp [SharedW.out, hsel], Wb.orAll_false (fun j => by simp [hsel]),
           Wb.orAll_false (fun j => by simp [hsel])⟩
  · intro x hun
    have hsel : ∀ j, SharedR.sel c s x j = false := fun j => by
      simp [SharedR.sel, selOf, ctrReady, hl, SharedR.bus, hun]
    exact ⟨fun j => by simp [SharedR.out, hsel], Wb.orAll_false (fun j => by simp [hsel])⟩

end axShared

/-! ## Known findings on the AXI-Lite / AXI shared interconnects: negative witnesses

  Full statement of the property (does **not** hold on the unchanged tree, hence the `_partial` theorems above):

      theorem axl_timeout_bound_open : every write (read) of the owner whose B (R) response has not arrived
        `t + 2` cycles after the slave stopped making progress — in the address phase, the data phase *or the
        response phase* — is terminated with SLVERR, and afterwards every transaction receives its own response.

  Excluded regions (each decidable on the trace) and their witnesses:
    * response phase (`C11-axi-response-phase-unwatched`): the slave accepted AW+W (AR) and never answers;
    * late answer (`C11-axi-stale-late-response`): a slave accepts a beat during RESPOND (or accepted AW but not W
      before expiry) and answers after the forced response. -/

section axFindings
open Axi

/-- **Negative witness, response phase (for all run lengths and all configurations).**  Once the FSM is in WAIT
    and no master offers an AW/W beat (they are all waiting for `B`) while no slave sends `b.valid`, nothing ever
    happens again: no `b.valid` reaches any master, no `error` pulse, the lock counter keeps its value — if it is
    non-zero (a write was accepted, see the `example` below) the owner waits for its `B` forever and, the grant
    being frozen by the lock, every other master is blocked as well. -/
theorem axl_response_phase_hangs (c : Axi.Cfg) (t : Nat) (ht : c.t = some t) (xs : List WBusIn) :
    ∀ (s : DState), s.tm.respond = false →
    (∀ x ∈ xs, (∀ i, (x.ms i).awv = false ∧ (x.ms i).wv = false) ∧ ∀ j, (x.ss j).bv = false) →
    (∀ o ∈ (SharedW.machine c).traceFrom s xs, o.error = false ∧ ∀ i, (o.toM i).bv = false) ∧
    ((SharedW.machine c).runFrom s xs).lock = s.lock ∧
    ((SharedW.machine c).runFrom s xs).tm.respond = false ∧
    (s.lock ≠ 0 → s.grant < c.n → ((SharedW.machine c).runFrom s xs).grant = s.grant) := by
  induction xs with
  | nil => intro s hr _; simp [Machine.runFrom, Machine.traceFrom, hr]
  | cons x xs ih =>
    intro s hr hidle
    obtain ⟨hm, hs⟩ := hidle x (by simp)
    have hi : (SharedW.tIn c s x).awv = false ∧ (SharedW.tIn c s x).wv = false ∧ (SharedW.tIn c s x).bv = false :=
      ⟨(hm _).1, (hm _).2, Wb.orAll_false (fun j => by simp [hs j])⟩
    have hres : (SharedW.tRes c s x).bv = false ∧ (SharedW.tRes c s x).error = false := by
      rw [SharedW.tRes_some c ht]; simp [wOut, hr, hi.2.2, wWaitCond, hi.1, hi.2.1]
    have hlock : (SharedW.next c s x).lock = s.lock := by
      simp [SharedW.next, SharedW.req, SharedW.resp, hres.1, SharedW.bus, (hm _).1]
    have hresp : (SharedW.next c s x).tm.respond = false := by
      rw [SharedW.next_tm c ht]; simp [wNext, hr, wWaitCond, hi.1, hi.2.1]
    have hgrant : s.lock ≠ 0 → s.grant < c.n → (SharedW.next c s x).grant = s.grant := by
      intro hl hg
      have hce : SharedW.ce c s x = false := by simp [SharedW.ce, ctrReady, hl]
      simp only [SharedW.next, hce]; exact RoundRobin.next_ce_hold _ hg
    obtain ⟨r1, r2, r3, r4⟩ := ih (SharedW.next c s x) hresp (fun y hy => hidle y (by simp [hy]))
    refine ⟨?_, ?_, r3, ?_⟩
    · intro o ho
      simp only [Machine.traceFrom, List.mem_cons] at ho
      rcases ho with rfl | ho
      · exact ⟨hres.2, fun i => by simp [SharedW.machine, SharedW.out, hres.1]⟩
      · exact r1 o ho
    · show ((SharedW.machine c).runFrom (SharedW.next c s x) xs).lock = _
      rw [r2, hlock]
    · intro hl hg
      show ((SharedW.machine c).runFrom (SharedW.next c s x) xs).grant = _
      rw [r4 (by rw [hlock]; exact hl) (by rw [hgrant hl hg]; exact hg), hgrant hl hg]

/-- Concrete 1x1 AXI-Lite interconnect, `timeout_cycles = 3`, slave 0 at addresses `0..15`. -/
def cfg11 : Axi.Cfg := { n := 1, k := 1, dec := fun j a => (a >>> 4) == j, t := some 3, dw := 32, full := false }

def wIn (m : WM) (sl : WS) : WBusIn := { ms := fun _ => m, ss := fun _ => sl }

/-- The excluded region is reachable: the slave accepts AW+W in cycle 0 (`lock` becomes 1, FSM stays in WAIT);
    by `axl_response_phase_hangs` a slave that now stays silent hangs the bus although `timeout_cycles = 3`. -/
example :
    let s1 := SharedW.next cfg11 (dInit cfg11) (wIn { awv := true, wv := true } { awr := true, wr := true })
    s1.lock = 1 ∧ s1.tm.respond = false := by decide

/-- What the owner sees on `b.valid`/`b.resp` and the `error` flag, cycle by cycle. -/
def bTrace (c : Axi.Cfg) (xs : List WBusIn) : List (Bool × Nat × Bool) :=
  ((SharedW.machine c).trace xs).map fun o => ((o.toM 0).bv, (o.toM 0).bresp, o.error)

/-- **Negative witness, stale late response** (the trace of `harness/c11lib.py: probe_stale_response`).
    Write #1 is offered in cycles 0–4; the slave is silent in cycles 0–3 and ready from cycle 4 on, i.e. it takes
    AW+W in the RESPOND cycle in which the timeout also takes them.  The owner gets the forced `SLVERR` in cycle
    5.  The slave answers write #1 (`OKAY`, resp 0) from cycle 10 on; nobody listens (`b.ready = 0`).  Write #2
    is offered in cycle 12 and accepted at once; in cycle 13 the owner, now waiting for the response of write #2,
    receives `b.valid` with the slave's answer to write #1. -/
example :
    let req : WM := { awv := true, wv := true }
    let idle : WM := {}
    let waitB : WM := { br := true }
    let silent : WS := {}
    let ready : WS := { awr := true, wr := true }
    let readyB : WS := { awr := true, wr := true, bv := true, bresp := 0 }
    bTrace cfg11
      ([wIn req silent, wIn req silent, wIn req silent, wIn req silent,      -- 0-3: waiting, error in cycle 3
        wIn req ready,                                                       -- 4: RESPOND absorbs; slave too
        wIn waitB ready,                                                     -- 5: forced B (SLVERR) taken
        wIn idle ready, wIn idle ready, wIn idle ready, wIn idle ready,      -- 6-9
        wIn idle readyB, wIn idle readyB,                                    -- 10-11: slave's late B, not taken
        wIn req readyB,                                                      -- 12: write #2 accepted
        wIn waitB readyB])                                                   -- 13: owner takes write #1's B
    = [(false, 0, false), (false, 0, false), (false, 0, false), (false, 0, true),
       (false, 2, false),
       (true, 2, false),
       (false, 0, false), (false, 0, false), (false, 0, false), (false, 0, false),
       (true, 0, false), (true, 0, false),
       (true, 0, false),
       (true, 0, false)] := by decide

/-- Non-vacuity of the read theorems on AXI (`full = true`): silent slave, `timeout_cycles = 3` — nothing for
    cycles 0–2, `error` in cycle 3, AR accepted by the timeout in cycle 4, `R` = SLVERR / all ones / `last` in
    cycle 5, idle again in cycle 6. -/
example :
    let c : Axi.Cfg := { cfg11 with full := true }
    let rIn (m : RM) : RBusIn := { ms := fun _ => m, ss := fun _ => {} }
    let req : RM := { arv := true }
    ((SharedR.machine c).trace [rIn req, rIn req, rIn req, rIn req, rIn req, rIn { rr := true }, rIn {}]).map
      (fun o => ((o.toM 0).arr, (o.toM 0).rv, (o.toM 0).rresp, (o.toM 0).rdata, (o.toM 0).rlast, o.error)) =
    [(false, false, 0, 0, false, false), (false, false, 0, 0, false, false), (false, false, 0, 0, false, false),
     (false, false, 0, 0, false, true),
     (true, false, 2, 0xffffffff, true, false),
     (false, true, 2, 0xffffffff, true, false),
     (false, false, 0, 0, false, false)] := by decide

end axFindings

/-! ## Bus error counter (`SoCController.bus_errors`, fed by `timeout.error`) -/

section busErr
open BusErr

/-- From any start value `c0` not above the maximum: after a history of `bus_error` values the counter holds
    `min (c0 + number of pulses) (2^w - 1)`. -/
theorem bus_errors_counts_from (w : Nat) (l : List Bool) (c0 : Nat) (h : c0 ≤ maxVal w) :
    (BusErr.machine w c0).run l = min (c0 + pulses l) (maxVal w) :=
  BusErr.runFrom_spec w l c0 c0 h

/-- **bus_errors_counts.**  The 32-bit (any width `w`) counter equals the number of cycles in which the timeout
    signalled `error`, saturating at `2^w - 1` (it never wraps). -/
theorem bus_errors_counts (w : Nat) (l : List Bool) :
    (BusErr.machine w).run l = min (pulses l) (2 ^ w - 1) := by
  have := bus_errors_counts_from w l 0 (Nat.zero_le _)
  simpa [maxVal] using this

example : (BusErr.machine 2).run [true, false, true, true, true, true] = 3 := by decide

end busErr

/-! ## SoC level: the bus error counter wired to the interconnect (`SoC.finalize`) -/

section socCounter
open BusErr

/-- **Wishbone SoC.**  `InterconnectShared` + `SoCController` wired as `SoC.finalize` does, any `n x k`, any decoder,
    any history: `bus_errors` = number of expiry cycles so far, saturating at `2^w - 1`.  By `wb_timeout_exact` an
    expiry cycle is exactly a cycle in which the owner's request has waited `t` cycles and is terminated with the
    forced all-ones acknowledge, so on Wishbone the counter counts the timed-out requests one by one. -/
theorem wb_soc_bus_errors_counts (c : Wb.Cfg) (w : Nat) (xs : List Wb.BusIn) :
    ((Wb.Soc.machine c w).run xs).errs =
      min (pulses (((Wb.Shared.machine c).trace xs).map (·.error))) (2 ^ w - 1) := by
  have h := (Wb.Soc.runFrom_spec c w 0 xs (Wb.Soc.init c 0) (Nat.zero_le _)).2
  simpa [Wb.Soc.errors, Wb.Soc.init, maxVal, Machine.run, Machine.trace, Wb.Soc.machine, Wb.Shared.machine] using h

/-- Every counted pulse is a forced termination of the owner's request (or of the idle bus if the owner withdrew in
    the expiry cycle): `ack`, all-ones data. -/
theorem wb_soc_pulse_is_forced_ack (c : Wb.Cfg) {t : Nat} (ht : c.t = some t) (xs : List Wb.BusIn) (x : Wb.BusIn)
    (he : (Wb.Shared.out c ((Wb.Shared.machine c).run xs) x).error = true) :
    let s := (Wb.Shared.machine c).run xs
    Wb.Shared.waited c xs = t ∧ ((Wb.Shared.out c s x).toM s.grant).ack = true ∧
    ((Wb.Shared.out c s x).toM s.grant).datR = Wb.ones c.dw := by
  have h := wb_timeout_exact c ht xs x
  have hw := h.2.1.mp he
  exact ⟨hw, h.2.2.1 hw⟩

example : ((Wb.Soc.machine cfgWb 32).run [reqIn, reqIn, reqIn, reqIn, reqIn, reqIn, reqIn, reqIn]).errs = 2 := by
  decide

/-- `wr_error` / `rd_error` cycle by cycle. -/
def wrErrors (c : Axi.Cfg) (xs : List Axi.SocIn) : List Bool :=
  ((Axi.SharedW.machine c).trace (xs.map (·.xw))).map (·.error)
def rdErrors (c : Axi.Cfg) (xs : List Axi.SocIn) : List Bool :=
  ((Axi.SharedR.machine c).trace (xs.map (·.xr))).map (·.error)

/-- **AXI / AXI-Lite SoC, as coded.**  `bus_errors` = number of cycles in which the write OR the read timeout
    expired (`error = wr_error | rd_error`), saturating — for every `n x k`, decoder, history. -/
theorem axi_soc_bus_errors_counts (c : Axi.Cfg) (w : Nat) (xs : List Axi.SocIn) :
    ((Axi.Soc.machine c w).run xs).errs =
      min (pulses (List.zipWith (· || ·) (wrErrors c xs) (rdErrors c xs))) (2 ^ w - 1) := by
  have h := (Axi.Soc.runFrom_spec c w 0 xs (Axi.Soc.init c 0) (Nat.zero_le _)).2.2
  rw [Axi.Soc.errors_eq] at h
  simpa [Axi.Soc.init, maxVal, Machine.run, Machine.trace, Axi.Soc.machine, wrErrors, rdErrors, Axi.SharedW.machine,
    Axi.SharedR.machine] using h

/-- Inclusion–exclusion: the pulses the counter sees plus the coincidences = write expiries + read expiries. -/
theorem axi_soc_pulses_inclusion_exclusion (c : Axi.Cfg) (xs : List Axi.SocIn) :
    pulses (List.zipWith (· || ·) (wrErrors c xs) (rdErrors c xs)) +
      pulses (List.zipWith (· && ·) (wrErrors c xs) (rdErrors c xs)) =
    pulses (wrErrors c xs) + pulses (rdErrors c xs) := by
  have hl : (wrErrors c xs).length = (rdErrors c xs).length := by
    simp [wrErrors, rdErrors, Machine.trace, Machine.traceFrom_length]
  have h := pulses_or_and (wrErrors c xs) (rdErrors c xs)
  rw [← hl, List.take_length, hl, List.take_length] at h
  exact h

/-- Full statement of the property ("every timed-out request is counted": `bus_errors = min (write expiries + read
    expiries) max`) — `_partial`: it holds when no write expiry coincides with a read expiry.  In general the
    counter is a lower bound (`axi_soc_bus_errors_le`). -/
theorem axi_soc_bus_errors_counts_partial (c : Axi.Cfg) (w : Nat) (xs : List Axi.SocIn)
    (hno : pulses (List.zipWith (· && ·) (wrErrors c xs) (rdErrors c xs)) = 0) :
    ((Axi.Soc.machine c w).run xs).errs = min (pulses (wrErrors c xs) + pulses (rdErrors c xs)) (2 ^ w - 1) := by
  rw [axi_soc_bus_errors_counts, ← axi_soc_pulses_inclusion_exclusion, hno, Nat.add_zero]

theorem axi_soc_bus_errors_le (c : Axi.Cfg) (w : Nat) (xs : List Axi.SocIn) :
    ((Axi.Soc.machine c w).run xs).errs ≤ pulses (wrErrors c xs) + pulses (rdErrors c xs) := by
  rw [axi_soc_bus_errors_counts, ← axi_soc_pulses_inclusion_exclusion]; omega

/-- 1x1 AXI interconnect, `timeout_cycles = 3`; a master that issues a write (id 3, 2 beats) and a read (id 2, 4
    beats) in the same cycle to a silent slave which drives id 0. -/
def cfgAxi : Axi.Cfg := { cfg11 with full := true }
def bothIn (wm : Axi.WM) (rm : Axi.RM) : Axi.SocIn :=
  { xw := { ms := fun _ => wm, ss := fun _ => {} }, xr := { ms := fun _ => rm, ss := fun _ => {} },
    p := { pm := fun _ => { awid := 3, awlen := 1, arid := 2, arlen := 3 }, ps := fun _ => {} } }
def bothTrace : List Axi.SocIn :=
  [bothIn { awv := true, wv := true } { arv := true }, bothIn { awv := true, wv := true } { arv := true },
   bothIn { awv := true, wv := true } { arv := true }, bothIn { awv := true, wv := true } { arv := true },
   bothIn { awv := true, wv := true } { arv := true }, bothIn { br := true } { rr := true }, bothIn {} {}]

/-- **Negative witness (candidate finding C11-axi-simultaneous-expiry-one-count).**  The write and the read expire in
    the same cycle: two requests are terminated with SLVERR, `bus_errors` is 1. -/
example : pulses (wrErrors cfgAxi bothTrace) = 1 ∧ pulses (rdErrors cfgAxi bothTrace) = 1 ∧
    ((Axi.Soc.machine cfgAxi 32).run bothTrace).errs = 1 := by decide

end socCounter

/-! ## AXI pass-through payload: ids, burst length, `last`

  Property reading: the forced response must be a response *to the request it terminates*: on AXI4 that means it
  carries the request's id, and a burst must be brought to an end (`last`).  What the code does is stated and
  proved as it is; where that falls short of the AXI4 rule the theorem is `_partial` with a witness. -/

section axPayload
open Axi

/-- The ids a master sees on `B`/`R` never depend on anything the masters drive as payload — in particular not on
    the id of the request being answered — nor on the timeout FSM: also a forced response carries the decoder's mux
    of the slaves' id outputs (AXITimeout overrides `resp`, `data`, `last`, not `id`). -/
theorem axi_response_id_independent_of_request (c : Axi.Cfg) (sw sr : DState) (xw : WBusIn) (xr : RBusIn)
    (p : PayIn) (pm' : Nat → PM) :
    (payOut c sw sr xw xr { p with pm := pm' }).toM = (payOut c sw sr xw xr p).toM := by
  simp only [payOut]; split <;> rfl

/-- The response ids of a slave that drives 0 (any silent/idle slave of the tree) or of an unmapped address. -/
theorem axi_forced_response_id_zero (c : Axi.Cfg) (sw sr : DState) (xw : WBusIn) (xr : RBusIn) (p : PayIn)
    (h0 : ∀ j, ((p.ps j).bid = 0 ∨ SharedW.sel c sw xw j = false) ∧ ((p.ps j).rid = 0 ∨ SharedR.sel c sr xr j = false))
    (i : Nat) : ((payOut c sw sr xw xr p).toM i).bid = 0 ∧ ((payOut c sw sr xw xr p).toM i).rid = 0 := by
  simp only [payOut]; split
  · refine ⟨Wb.orDat_zero fun j => ?_, Wb.orDat_zero fun j => ?_⟩
    · rcases (h0 j).1 with h | h <;> simp [Wb.gate, h]
    · rcases (h0 j).2 with h | h <;> simp [Wb.gate, h]
  · exact ⟨rfl, rfl⟩

/-- Full statement (AXI4 A5.2: "the RID/BID of a response must match the ARID/AWID of the request it answers") —
    `_partial`: with a silent (id-0-driving) or absent slave it holds exactly for requests issued with id 0. -/
theorem axi_forced_response_id_matches_partial (c : Axi.Cfg) (sw sr : DState) (xw : WBusIn) (xr : RBusIn)
    (p : PayIn) (h0 : ∀ j, (p.ps j).bid = 0 ∧ (p.ps j).rid = 0) (awid arid : Nat) (i : Nat) :
    (((payOut c sw sr xw xr p).toM i).bid = awid ↔ awid = 0) ∧
    (((payOut c sw sr xw xr p).toM i).rid = arid ↔ arid = 0) := by
  have h := axi_forced_response_id_zero c sw sr xw xr p (fun j => ⟨Or.inl (h0 j).1, Or.inl (h0 j).2⟩) i
  rw [h.1, h.2]; exact ⟨eq_comm, eq_comm⟩

/-- Master-to-slave payload is that of the owner of the respective direction, for every slave (broadcast). -/
theorem axi_request_payload_routed (c : Axi.Cfg) (hf : c.full = true) (sw sr : DState) (xw : WBusIn)
    (xr : RBusIn) (p : PayIn) (j : Nat) :
    (payOut c sw sr xw xr p).toS j =
      { awid := (p.pm sw.grant).awid, awlen := (p.pm sw.grant).awlen, wlast := (p.pm sw.grant).wlast,
        arid := (p.pm sr.grant).arid, arlen := (p.pm sr.grant).arlen } := by
  simp [payOut, hf]

/-- What the single master sees in `bothTrace`, per cycle: (b.valid, b.resp, b.id, r.valid, r.resp, r.last, r.id). -/
def seen (c : Axi.Cfg) (xs : List SocIn) : List ((Bool × Nat × Nat) × (Bool × Nat × Bool × Nat)) :=
  ((Soc.machine c 32).trace xs).map fun o =>
    (((o.ow.toM 0).bv, (o.ow.toM 0).bresp, (o.pay.toM 0).bid),
     ((o.or.toM 0).rv, (o.or.toM 0).rresp, (o.or.toM 0).rlast, (o.pay.toM 0).rid))

/-- **Negative witness (candidate finding C11-axi-forced-response-id).**  Write with id 3 / read with id 2 to a
    silent slave: the forced `B` and the forced `R` (cycle 5) carry id 0.  Also visible: the 4-beat read burst
    (`ar.len = 3`) is answered by ONE beat with `last`. -/
example : seen cfgAxi bothTrace =
    [((false, 0, 0), (false, 0, false, 0)), ((false, 0, 0), (false, 0, false, 0)), ((false, 0, 0), (false, 0, false, 0)),
     ((false, 0, 0), (false, 0, false, 0)), ((false, 2, 0), (false, 2, true, 0)),
     ((true, 2, 0), (true, 2, true, 0)),
     ((false, 0, 0), (false, 0, false, 0))] := by decide

/-- **Bursts, read: the forced response is exactly one beat.**  Whatever `ar.len` was: every forced `R` beat has
    `last` (AXI), and its handshake returns the FSM to its reset state — a master that ends a burst on `last` is
    released after one beat (it receives `len + 1` beats only if `len = 0`). -/
theorem axi_forced_read_one_beat (dw t : Nat) (s : FState) (x : RIn) (hs : s.respond = true) :
    ((rOut true dw s x).rv = true → (rOut true dw s x).rlast = true ∧ (rOut true dw s x).rresp = RESP_SLVERR) ∧
    ((rOut true dw s x).rv = true → x.rr = true → rNext true dw t s x = fInit t) := by
  refine ⟨fun _ => by simp [rOut, hs], fun hv hr => ?_⟩
  have ha : x.arv = false := by simpa [rOut, hs] using hv
  exact axl_rd_recovers true dw t s x hs ha hr

/-- **Bursts, write: RESPOND absorbs any number of beats.**  From RESPOND, for every stretch `ys` of cycles in each
    of which the master offers an AW or a W beat: every offered beat is accepted in its cycle, no `B` is offered, the
    FSM stays in RESPOND (so a burst of any length streamed without a bubble is swallowed whole). -/
theorem axi_wr_respond_absorbs_burst (t : Nat) (ys : List WIn) : ∀ (s : FState), s.respond = true →
    (∀ y ∈ ys, (y.awv || y.wv) = true) →
    ((wTimeout t).runFrom s ys).respond = true ∧
    ((wTimeout t).traceFrom s ys) = ys.map fun y =>
      { awr := y.awv, wr := y.wv, bv := false, bresp := RESP_SLVERR, error := false } := by
  induction ys with
  | nil => intro s hs _; simp [Machine.runFrom, Machine.traceFrom, hs]
  | cons y ys ih =>
    intro s hs hy
    have h1 := hy y (by simp)
    have ho : wOut s y = { awr := y.awv, wr := y.wv, bv := false, bresp := RESP_SLVERR, error := false } := by
      rw [axl_wr_forced s y hs]
      cases ha : y.awv <;> cases hw : y.wv <;> simp [ha, hw] at h1 ⊢
    have hn : (wNext t s y).respond = true := by simp [wNext, hs, ho]
    obtain ⟨r1, r2⟩ := ih (wNext t s y) hn (fun z hz => hy z (by simp [hz]))
    exact ⟨r1, by simp only [Machine.traceFrom, List.map_cons]; rw [← ho]; congr 1⟩

/-- … and the first cycle without an offered beat gets the `B` (SLVERR); with `b.ready` the FSM is reset. -/
theorem axi_wr_respond_burst_then_b (t : Nat) (ys : List WIn) (s : FState) (hs : s.respond = true)
    (hy : ∀ y ∈ ys, (y.awv || y.wv) = true) (x : WIn) (hx : x.awv = false ∧ x.wv = false ∧ x.br = true) :
    let s' := (wTimeout t).runFrom s ys
    (wOut s' x).bv = true ∧ (wOut s' x).bresp = RESP_SLVERR ∧ wNext t s' x = fInit t := by
  intro s'
  have hr : s'.respond = true := (axi_wr_respond_absorbs_burst t ys s hs hy).1
  refine ⟨by simp [wOut, hr, hx.1, hx.2.1], by simp [wOut, hr], axl_wr_recovers t s' x hr hx.1 hx.2.1 hx.2.2⟩

/-! Full statement for write bursts ("one B per AW"):

        theorem axi_forced_write_one_response_open : a timed-out write burst receives exactly one B

    holds for bursts streamed without a bubble (`axi_wr_respond_absorbs_burst`); it fails when the master pauses
    between two W beats while `b.ready` is high: the pause is taken for the end of the write, `B` is sent, and the
    remaining beats start a second time-out and earn a second `B` (`t = 2`: B in cycles 4 and 9). -/
example :
    let w (wv br : Bool) : WIn := { awv := false, wv := wv, br := br, awr := false, wr := false, bv := false, bresp := 0 }
    ((wTimeout 2).trace
      [{ w true true with awv := true }, { w true true with awv := true }, { w true true with awv := true },  -- 0-2: stalled; error in 2
       { w true true with awv := true },                                     -- 3: AW + beat 1 absorbed
       w false true,                                                         -- 4: bubble: B #1
       w true true, w true true, w true true,                                -- 5-7: beat 2 stalls; error in 7
       w true true,                                                          -- 8: beat 2 absorbed
       w false true]).map (fun o => (o.wr, o.bv, o.error))                   -- 9: B #2
    = [(false, false, false), (false, false, false), (false, false, true), (true, false, false), (false, true, false),
       (false, false, false), (false, false, false), (false, false, true), (true, false, false), (false, true, false)] := by
  decide

end axPayload

/-! ## Healthy bus: the timeout is invisible (for all `n`, `k`, `t`, decoders, histories) -/

section transparency

/-- **Wishbone.**  Reference system: the same interconnect built with `timeout_cycles=None`.  If there no request
    ever waits `t` cycles (every slave answers within `t` cycles: no prefix of the history ends in a streak of `t`
    waiting cycles), then in EVERY cycle every port of the interconnect with timeout carries exactly what the
    reference carries, and `error` is never raised. -/
theorem wb_healthy_bus_transparent (c : Wb.Cfg) {t : Nat} (ht : c.t = some t) (xs : List Wb.BusIn)
    (hh : ∀ ys zs, xs = ys ++ zs → Wb.Shared.waited (Wb.Shared.noT c) ys < t)
    (ys : List Wb.BusIn) (x : Wb.BusIn) (zs : List Wb.BusIn) (hsplit : xs = ys ++ x :: zs) :
    let o := Wb.Shared.out c ((Wb.Shared.machine c).run ys) x
    let o0 := Wb.Shared.out (Wb.Shared.noT c) ((Wb.Shared.machine (Wb.Shared.noT c)).run ys) x
    (∀ i, o.toM i = o0.toM i) ∧ (∀ j, o.toS j = o0.toS j) ∧ o.error = false := by
  intro o o0
  have hpre : ∀ a b, ys = a ++ b → Wb.Shared.waited (Wb.Shared.noT c) a < t :=
    fun a b hab => hh a (b ++ x :: zs) (by rw [hsplit, hab, List.append_assoc])
  obtain ⟨hs, hw⟩ := Wb.Shared.healthy_sim c ht ys hpre
  have hd : WaitTimer.done ((Wb.Shared.machine c).run ys).count = false := by
    rw [Wb.Shared.run_count_spec c ht, hw]
    have := hpre ys [] (by simp)
    simp [WaitTimer.done]; omega
  obtain ⟨h1, h2, h3, _⟩ := Wb.Shared.sim_out c ht _ _ x hs hd
  exact ⟨h1, h2, h3⟩

/-- **AXI / AXI-Lite, write channels.**  Reference: `timeout_cycles=None`.  If there no AW/W stall streak of the owner
    exceeds `t` cycles, every port carries what the reference carries in every cycle and `wr_error` never fires.
    (The streak is the one of `wait_cond`, see finding C11-axi-timeout-accumulates-across-transfers.) -/
theorem axl_healthy_bus_transparent_wr (c : Axi.Cfg) {t : Nat} (ht : c.t = some t) (xs : List Axi.WBusIn)
    (hh : ∀ ys zs, xs = ys ++ zs → Axi.SharedW.waited (Axi.SharedW.noT c) ys ≤ t)
    (ys : List Axi.WBusIn) (x : Axi.WBusIn) (zs : List Axi.WBusIn) (hsplit : xs = ys ++ x :: zs) :
    let o := Axi.SharedW.out c ((Axi.SharedW.machine c).run ys) x
    let o0 := Axi.SharedW.out (Axi.SharedW.noT c) ((Axi.SharedW.machine (Axi.SharedW.noT c)).run ys) x
    (∀ i, o.toM i = o0.toM i) ∧ (∀ j, o.toS j = o0.toS j) ∧ o.error = false := by
  intro o o0
  have hpre : ∀ a b, ys ++ [x] = a ++ b → Axi.SharedW.waited (Axi.SharedW.noT c) a ≤ t :=
    fun a b hab => hh a (b ++ zs) (by rw [hsplit, ← List.append_assoc, ← hab]; simp)
  obtain ⟨hs, _⟩ := Axi.SharedW.healthy_sim c ht ys (fun a b hab => hpre a (b ++ [x]) (by rw [hab, List.append_assoc]))
  obtain ⟨hs', _⟩ := Axi.SharedW.healthy_sim c ht (ys ++ [x]) hpre
  -- the next state is still in WAIT, hence no error pulse in this cycle
  have hne : o.error = false := by
    have hr' : ((Axi.SharedW.machine c).run (ys ++ [x])).tm.respond = false := hs'.2.2.2.1
    rw [Axi.SharedW.run_snoc, Axi.SharedW.next_tm c ht] at hr'
    have hr := hs.2.2.2.1
    show (Axi.SharedW.tRes c _ x).error = false
    rw [Axi.SharedW.tRes_some c ht]
    simpa [Axi.wNext, Axi.wOut, hr] using hr'
  obtain ⟨h1, h2, _, _⟩ := Axi.SharedW.sim_step c ht _ _ x hs hne
  exact ⟨h1, h2, hne⟩

/-- **AXI / AXI-Lite, read channels.** -/
theorem axl_healthy_bus_transparent_rd (c : Axi.Cfg) {t : Nat} (ht : c.t = some t) (xs : List Axi.RBusIn)
    (hh : ∀ ys zs, xs = ys ++ zs → Axi.SharedR.waited (Axi.SharedR.noT c) ys ≤ t)
    (ys : List Axi.RBusIn) (x : Axi.RBusIn) (zs : List Axi.RBusIn) (hsplit : xs = ys ++ x :: zs) :
    let o := Axi.SharedR.out c ((Axi.SharedR.machine c).run ys) x
    let o0 := Axi.SharedR.out (Axi.SharedR.noT c) ((Axi.SharedR.machine (Axi.SharedR.noT c)).run ys) x
    (∀ i, o.toM i = o0.toM i) ∧ (∀ j, o.toS j = o0.toS j) ∧ o.error = false := by
  intro o o0
  have hpre : ∀ a b, ys ++ [x] = a ++ b → Axi.SharedR.waited (Axi.SharedR.noT c) a ≤ t :=
    fun a b hab => hh a (b ++ zs) (by rw [hsplit, ← List.append_assoc, ← hab]; simp)
  obtain ⟨hs, _⟩ := Axi.SharedR.healthy_sim c ht ys (fun a b hab => hpre a (b ++ [x]) (by rw [hab, List.append_assoc]))
  obtain ⟨hs', _⟩ := Axi.SharedR.healthy_sim c ht (ys ++ [x]) hpre
  have hne : o.error = false := by
    have hr' : ((Axi.SharedR.machine c).run (ys ++ [x])).tm.respond = false := hs'.2.2.2.1
    rw [Axi.SharedR.run_snoc, Axi.SharedR.next_tm c ht] at hr'
    have hr := hs.2.2.2.1
    show (Axi.SharedR.tRes c _ x).error = false
    rw [Axi.SharedR.tRes_some c ht]
    simpa [Axi.rNext, Axi.rOut, hr] using hr'
  obtain ⟨h1, h2, _, _⟩ := Axi.SharedR.sim_step c ht _ _ x hs hne
  exact ⟨h1, h2, hne⟩

/-- Non-vacuity: the in-time answer of the Wishbone example above satisfies the hypothesis (`t = 3`, longest wait 2). -/
example :
    let ackIn : Wb.BusIn := { reqIn with ss := fun j => if j = 1 then { ack := true, datR := 0x5a } else {} }
    (List.range 5).all (fun m => Wb.Shared.waited (Wb.Shared.noT cfgWb) ([reqIn, reqIn, ackIn, reqIn].take m) < 3) = true := by
  decide

end transparency

/-! ## Liveness for every slave behaviour and every master (closed statements per interconnect kind) -/

section liveness

/-- **AXI / AXI-Lite shared, write: no stall outlives the timeout — for EVERY history** (all `n x k`, decoders, master
    schedules, slave behaviours: silent, late, absent, answering after expiry …).  The owner's pending AW/W beat is
    refused for at most `t + 1` consecutive cycles; after `t + 1` the FSM is in RESPOND, where by
    `axl_shared_wr_exact` every offered beat is accepted in the cycle it is offered and `B`(SLVERR) is offered as
    soon as none is.  (The *response* phase is not covered: finding C11-axi-response-phase-unwatched.) -/
theorem axl_shared_wr_stall_bounded (c : Axi.Cfg) {t : Nat} (ht : c.t = some t) (xs : List Axi.WBusIn) :
    Axi.SharedW.waited c xs ≤ t + 1 ∧
    (Axi.SharedW.waited c xs = t + 1 → ((Axi.SharedW.machine c).run xs).tm.respond = true) :=
  Axi.SharedW.waited_le c ht xs

theorem axl_shared_rd_stall_bounded (c : Axi.Cfg) {t : Nat} (ht : c.t = some t) (xs : List Axi.RBusIn) :
    Axi.SharedR.waited c xs ≤ t + 1 ∧
    (Axi.SharedR.waited c xs = t + 1 → ((Axi.SharedR.machine c).run xs).tm.respond = true) :=
  Axi.SharedR.waited_le c ht xs

/-- The request vectors the Wishbone arbiter sees along a history. -/
def wbReqs (xs : List Wb.BusIn) : List ((Nat → Bool) × Bool) := xs.map fun x => (fun i => (x.ms i).cyc, true)

/-- The arbiter of the shared interconnect is Migen's round-robin on the masters' `cyc`, untouched by the timeout. -/
theorem wb_grant_is_roundrobin (c : Wb.Cfg) (xs : List Wb.BusIn) : ∀ (s : Wb.State),
    ((Wb.Shared.machine c).runFrom s xs).grant = RoundRobin.run .withdraw c.n s.grant (wbReqs xs) := by
  induction xs with
  | nil => intro s; rfl
  | cons x xs ih => intro s; simp only [Machine.runFrom, wbReqs, List.map_cons, RoundRobin.run]; rw [ih]; rfl

/-- **Wishbone shared: every master is served.**  Let master `i` keep `cyc` asserted during `xs` (from any reachable
    state).  (1) The number of times the bus is handed to somebody else while `i` waits, plus the round-robin
    distance still to go, never exceeds the initial distance `≤ n - 1`: `i` is overtaken at most `n - 1` times,
    whatever the other masters and all slaves do.  (2) Each owner's single request is terminated after at most `t`
    waiting cycles (`wb_bounded_termination`, every slave behaviour).  Hence a master is served after at most
    `n - 1` foreign accesses of at most `t + 1` cycles each, provided owners release `cyc` after their
    acknowledge (a master holding `cyc` forever keeps the bus by design: SP_WITHDRAW). -/
theorem wb_every_master_served (c : Wb.Cfg) (i : Nat) (hi : i < c.n) (s : Wb.State) (hg : s.grant < c.n)
    (xs : List Wb.BusIn) (hreq : ∀ x ∈ xs, (x.ms i).cyc = true) :
    RoundRobin.stalls c.n i s.grant (wbReqs xs) +
      RoundRobin.dist c.n ((Wb.Shared.machine c).runFrom s xs).grant i ≤ RoundRobin.dist c.n s.grant i ∧
    RoundRobin.dist c.n s.grant i ≤ c.n - 1 := by
  rw [wb_grant_is_roundrobin]
  have hr : ∀ rc ∈ wbReqs xs, rc.1 i = true := by
    intro rc hrc
    simp only [wbReqs, List.mem_map] at hrc
    obtain ⟨x, hx, rfl⟩ := hrc
    exact hreq x hx
  refine ⟨RoundRobin.rr_stalls_bounded hi (wbReqs xs) hg hr, ?_⟩
  have := RoundRobin.dist_lt c.n s.grant i (by omega)
  omega

end liveness

/-! ## Arbitration liveness on the AXI / AXI-Lite shared interconnects

  The grant of each direction is Migen's round-robin (SP_CE) on `valid`s; `ce` is asserted whenever nothing is
  outstanding and the owner offers and sees nothing.  A waiting master is overtaken at most `n - 1` times. -/

section liveness2
open Axi

/-- `(rr_write.request, rr_write.ce)` along a run of the write direction from `s`. -/
def axWReqs (c : Axi.Cfg) : DState → List WBusIn → List ((Nat → Bool) × Bool)
  | _, [] => []
  | s, x :: xs => (SharedW.rrReq c s x, SharedW.ce c s x) :: axWReqs c (SharedW.next c s x) xs

def axRReqs (c : Axi.Cfg) : DState → List RBusIn → List ((Nat → Bool) × Bool)
  | _, [] => []
  | s, x :: xs => (SharedR.rrReq c s x, SharedR.ce c s x) :: axRReqs c (SharedR.next c s x) xs

theorem axl_wr_grant_is_roundrobin (c : Axi.Cfg) (xs : List WBusIn) : ∀ (s : DState),
    ((SharedW.machine c).runFrom s xs).grant = RoundRobin.run .ce c.n s.grant (axWReqs c s xs) := by
  induction xs with
  | nil => intro s; rfl
  | cons x xs ih => intro s; simp only [Machine.runFrom, axWReqs, RoundRobin.run]; rw [ih]; rfl

theorem axl_rd_grant_is_roundrobin (c : Axi.Cfg) (xs : List RBusIn) : ∀ (s : DState),
    ((SharedR.machine c).runFrom s xs).grant = RoundRobin.run .ce c.n s.grant (axRReqs c s xs) := by
  induction xs with
  | nil => intro s; rfl
  | cons x xs ih => intro s; simp only [Machine.runFrom, axRReqs, RoundRobin.run]; rw [ih]; rfl

theorem axl_wr_every_master_served (c : Axi.Cfg) (i : Nat) (hi : i < c.n) (xs : List WBusIn) (s : DState)
    (hg : s.grant < c.n) (hreq : ∀ x ∈ xs, ((x.ms i).awv || (x.ms i).wv) = true)
    (hw : RoundRobin.waiting .ce c.n i s.grant (axWReqs c s xs)) :
    RoundRobin.ceStalls c.n i s.grant (axWReqs c s xs) +
      RoundRobin.dist c.n ((SharedW.machine c).runFrom s xs).grant i ≤ RoundRobin.dist c.n s.grant i ∧
    RoundRobin.dist c.n s.grant i ≤ c.n - 1 := by
  rw [axl_wr_grant_is_roundrobin]
  have hr : ∀ (xs : List WBusIn) (s : DState), (∀ x ∈ xs, ((x.ms i).awv || (x.ms i).wv) = true) →
      ∀ rc ∈ axWReqs c s xs, rc.1 i = true := by
    intro xs
    induction xs with
    | nil => intro s _ rc h; simp [axWReqs] at h
    | cons x xs ih =>
      intro s hq rc h
      simp only [axWReqs, List.mem_cons] at h
      rcases h with rfl | h
      · have := hq x (by simp)
        simp only [SharedW.rrReq]
        simp only [Bool.or_eq_true] at this ⊢
        exact Or.inl this
      · exact ih _ (fun y hy => hq y (by simp [hy])) rc h
  refine ⟨RoundRobin.rr_ce_stalls_bounded hi _ hg (hr xs s hreq) hw, ?_⟩
  have := RoundRobin.dist_lt c.n s.grant i (by omega)
  omega

theorem axl_rd_every_master_served (c : Axi.Cfg) (i : Nat) (hi : i < c.n) (xs : List RBusIn) (s : DState)
    (hg : s.grant < c.n) (hreq : ∀ x ∈ xs, (x.ms i).arv = true)
    (hw : RoundRobin.waiting .ce c.n i s.grant (axRReqs c s xs)) :
    RoundRobin.ceStalls c.n i s.grant (axRReqs c s xs) +
      RoundRobin.dist c.n ((SharedR.machine c).runFrom s xs).grant i ≤ RoundRobin.dist c.n s.grant i ∧
    RoundRobin.dist c.n s.grant i ≤ c.n - 1 := by
  rw [axl_rd_grant_is_roundrobin]
  have hr : ∀ (xs : List RBusIn) (s : DState), (∀ x ∈ xs, (x.ms i).arv = true) →
      ∀ rc ∈ axRReqs c s xs, rc.1 i = true := by
    intro xs
    induction xs with
    | nil => intro s _ rc h; simp [axRReqs] at h
    | cons x xs ih =>
      intro s hq rc h
      simp only [axRReqs, List.mem_cons] at h
      rcases h with rfl | h
      · simp [SharedR.rrReq, hq x (by simp)]
      · exact ih _ (fun y hy => hq y (by simp [hy])) rc h
  refine ⟨RoundRobin.rr_ce_stalls_bounded hi _ hg (hr xs s hreq) hw, ?_⟩
  have := RoundRobin.dist_lt c.n s.grant i (by omega)
  omega

/-- The hand-over condition: with nothing outstanding (`lock = 0`) and the owner offering nothing and seeing no
    response, `ce = 1` — so after a (forced or genuine) response the very next idle cycle passes the grant on. -/
theorem axl_wr_ce_when_idle (c : Axi.Cfg) (s : DState) (x : WBusIn) (hl : s.lock = 0)
    (hidle : (x.ms s.grant).awv = false ∧ (x.ms s.grant).wv = false) (hb : (SharedW.tRes c s x).bv = false) :
    SharedW.ce c s x = true := by
  simp [SharedW.ce, SharedW.bus, hidle.1, hidle.2, hb, ctrReady, hl]

/-- Non-vacuity: 2 masters, master 0 owns the write channels and keeps a write pending on a silent slave; master 1
    requests and waits (hypotheses of `axl_wr_every_master_served` for `i = 1`). -/
example :
    let c : Axi.Cfg := { cfg11 with n := 2 }
    let x : WBusIn := { ms := fun _ => { awv := true, wv := true }, ss := fun _ => {} }
    RoundRobin.waiting .ce c.n 1 (dInit c).grant (axWReqs c (dInit c) [x, x, x]) ∧
    RoundRobin.ceStalls c.n 1 (dInit c).grant (axWReqs c (dInit c) [x, x, x]) = 0 := by
  simp only [RoundRobin.waiting, axWReqs]
  decide

end liveness2

/-! ## Wishbone shared interconnect: closed liveness bound for every master

  For EVERY slave behaviour (silent, late, absent, answering in or after the expiry cycle — the slaves' inputs are
  unconstrained) and every number of masters/slaves: a master that keeps requesting owns the bus after at most
  `(n - 1) * (t + 2)` cycles, provided the masters follow the elementary discipline `Disciplined` (release `cyc`
  after the acknowledge; no `cyc` without `stb`).  Derived from `RoundRobin` (C06's arbiter lemmas), the timer
  register and the forced acknowledge. -/

section wbClosed
open Wb Wb.Shared

/-- Master discipline along a run from `s` (closed-loop: it refers to what the interconnect answered):
    master `i` keeps `cyc`; an owner that was acknowledged in the previous cycle (`rel`) drops `cyc` now; an owner
    that holds `cyc` also drives `stb` (it uses the bus it holds). -/
def Disciplined (c : Wb.Cfg) (i : Nat) : Wb.State → Bool → List Wb.BusIn → Prop
  | _, _, [] => True
  | s, rel, x :: xs =>
    (x.ms i).cyc = true ∧ (rel = true → (x.ms s.grant).cyc = false) ∧
    ((x.ms s.grant).cyc = true → (x.ms s.grant).stb = true) ∧
    Disciplined c i (Shared.next c s x) ((x.ms s.grant).cyc && ((Shared.out c s x).toM s.grant).ack) xs

/-- Cycles master `i` still has to wait at most: `t + 2` per master ahead of it in the round-robin order, minus
    the progress of the current owner's access. -/
def budget (c : Wb.Cfg) (t i : Nat) (s : Wb.State) (rel : Bool) : Nat :=
  RoundRobin.dist c.n s.grant i * (t + 2) - (if rel then t + 1 else t - s.count)

theorem wb_closed_liveness (c : Wb.Cfg) {t : Nat} (ht : c.t = some t) (i : Nat) (hi : i < c.n)
    (xs : List Wb.BusIn) : ∀ (s : Wb.State) (rel : Bool), s.grant < c.n → s.count ≤ t →
    Disciplined c i s rel xs → budget c t i s rel ≤ xs.length →
    ∃ k, k ≤ budget c t i s rel ∧ ((Shared.machine c).runFrom s (xs.take k)).grant = i := by
  induction xs with
  | nil =>
    intro s rel hg hc _ hb
    by_cases hgi : s.grant = i
    · exact ⟨0, Nat.zero_le _, by simpa [Machine.runFrom] using hgi⟩
    · exfalso
      have hd : RoundRobin.dist c.n s.grant i ≠ 0 := fun h => hgi (RoundRobin.dist_eq_zero hg hi h)
      have : 1 ≤ RoundRobin.dist c.n s.grant i := by omega
      have h2 : (t + 2) ≤ RoundRobin.dist c.n s.grant i * (t + 2) := Nat.le_mul_of_pos_left _ this
      simp only [budget, List.length_nil] at hb
      cases rel <;> simp at hb <;> omega
  | cons x xs ih =>
    intro s rel hg hc hdis hb
    by_cases hgi : s.grant = i
    · exact ⟨0, Nat.zero_le _, by simpa [Machine.runFrom] using hgi⟩
    obtain ⟨hreq, hrel, hstb, hrest⟩ := hdis
    have hne : i ≠ s.grant := fun h => hgi h.symm
    -- facts about the step
    have hg' : (Shared.next c s x).grant < c.n :=
      (RoundRobin.next_lt .withdraw (fun m => (x.ms m).cyc) true hg :)
    have hcnt : (Shared.next c s x).count = tNext t c.dw s.count (tIn c s x) := next_count c ht s x
    have hack : ((Shared.out c s x).toM s.grant).ack = (tOut c.dw s.count (tIn c s x)).ack := by
      simp [Shared.out, tRes_some c ht]
    have hc' : (Shared.next c s x).count ≤ t := by
      rw [hcnt]; simp only [tNext, WaitTimer.next]; split <;> (try split) <;> omega
    -- the budget decreases by at least one
    have hdec : budget c t i (Shared.next c s x)
        ((x.ms s.grant).cyc && ((Shared.out c s x).toM s.grant).ack) + 1 ≤ budget c t i s rel := by
      have hd0 : RoundRobin.dist c.n s.grant i ≠ 0 := fun h => hgi (RoundRobin.dist_eq_zero hg hi h)
      cases hcyc : (x.ms s.grant).cyc
      · -- hand-over
        have hmv := (RoundRobin.next_ne_self_of_other_req .withdraw (fun m => (x.ms m).cyc) true hg hi hne hreq
          (by simp [RoundRobin.enabled, hcyc])).2
        have hgn : (Shared.next c s x).grant = RoundRobin.next .withdraw c.n s.grant (fun m => (x.ms m).cyc) true := rfl
        rw [← hgn] at hmv
        have hmul : RoundRobin.dist c.n (Shared.next c s x).grant i * (t + 2) + (t + 2) ≤
            RoundRobin.dist c.n s.grant i * (t + 2) := by
          have : RoundRobin.dist c.n (Shared.next c s x).grant i + 1 ≤ RoundRobin.dist c.n s.grant i := hmv
          calc _ = (RoundRobin.dist c.n (Shared.next c s x).grant i + 1) * (t + 2) := by rw [Nat.add_mul]; simp
               _ ≤ _ := Nat.mul_le_mul_right _ this
        simp only [budget, Bool.false_and, Bool.false_eq_true, if_false]
        cases rel <;> simp <;> omega
      · have hrf : rel = false := by cases rel <;> simp_all
        have hs := hstb hcyc
        have hkeep : (Shared.next c s x).grant = s.grant :=
          RoundRobin.next_withdraw_keep (fun m => (x.ms m).cyc) true hg hcyc
        subst hrf
        simp only [budget, hkeep, Bool.true_and, Bool.false_eq_true, if_false]
        have hd1 : 1 ≤ RoundRobin.dist c.n s.grant i := by omega
        have h2 : (t + 2) ≤ RoundRobin.dist c.n s.grant i * (t + 2) := Nat.le_mul_of_pos_left _ hd1
        cases ha : ((Shared.out c s x).toM s.grant).ack
        · -- still waiting: the timer counts down
          rw [hack] at ha
          have hnd : WaitTimer.done s.count = false := by
            cases hd : WaitTimer.done s.count
            · rfl
            · simp [tOut, hd] at ha
          have hw : tWait c.dw s.count (tIn c s x) = true := by
            unfold tWait; rw [ha]; simp [tIn, bus, hcyc, hs]
          have hpos : s.count ≠ 0 := by simpa [WaitTimer.done] using hnd
          rw [hcnt]
          simp only [tNext, WaitTimer.next, hw, hnd, if_true, Bool.false_eq_true, if_false]
          omega
        · simp only [if_true]; omega
    obtain ⟨k, hk, hrun⟩ := ih _ _ hg' hc' hrest (by simp only [List.length_cons] at hb; omega)
    exact ⟨k + 1, by omega, by rw [List.take_succ_cons]; exact hrun⟩

/-- The budget never exceeds `(n - 1) * (t + 2)`. -/
theorem wb_closed_liveness_budget_le (c : Wb.Cfg) (t i : Nat) (s : Wb.State) (rel : Bool) (hn : 0 < c.n) :
    budget c t i s rel ≤ (c.n - 1) * (t + 2) := by
  have hd := RoundRobin.dist_lt c.n s.grant i hn
  have : RoundRobin.dist c.n s.grant i * (t + 2) ≤ (c.n - 1) * (t + 2) := Nat.mul_le_mul_right _ (by omega)
  simp only [budget]; omega

/-- Non-vacuity (`cfgWb`: 2 masters, `t = 3`): master 0 owns the bus with a request to the silent slave 1, master 1
    requests too.  Master 0 is terminated in cycle 3, releases `cyc` in cycle 4, master 1 owns the bus from cycle 5
    on — exactly the budget `1 * (3 + 2)`. -/
example :
    let both : Wb.BusIn := { ms := fun m => if m = 0 then { cyc := true, stb := true, adr := 2 }
                                            else { cyc := true, stb := true, adr := 0 }, ss := fun _ => {} }
    let only1 : Wb.BusIn := { ms := fun m => if m = 0 then {} else { cyc := true, stb := true, adr := 0 },
                              ss := fun _ => {} }
    Disciplined cfgWb 1 (Shared.init cfgWb) false [both, both, both, both, only1, only1] ∧
    budget cfgWb 3 1 (Shared.init cfgWb) false = 5 ∧
    ((Shared.machine cfgWb).run [both, both, both, both]).grant = 0 ∧
    ((Shared.machine cfgWb).run [both, both, both, both, only1]).grant = 1 := by
  simp only [Disciplined]
  decide

end wbClosed

section recoverAny
open Axi

/-! ## After a timeout: the request counters are restored (any mix of AW / W beats, incl. a lone W before its AW) -/

/-- `_AXI(Lite)RequestCounter`: a response while the counter is empty leaves it empty (`response & ~empty`), a
    request while it is full leaves it full: the 8-bit register never wraps, in either direction. -/
theorem axl_request_counter_never_wraps (cnt : Nat) (req resp : Bool) (h : cnt ≤ 255) :
    ctrNext cnt req resp ≤ 255 ∧ ctrNext 0 false resp = 0 ∧ ctrNext 255 req false = 255 ∧
    (cnt ≠ 0 → ctrNext cnt false true = cnt - 1) := by
  refine ⟨?_, by cases resp <;> simp [ctrNext], by cases req <;> simp [ctrNext], fun h0 => by simp [ctrNext, h0]⟩
  unfold ctrNext
  cases req <;> cases resp <;> simp <;> (try split) <;> omega

/-- **axl_timeout_recovers, every beat pattern.**  State `s`: nothing outstanding, FSM in its reset state.  The owner
    offers an AW and/or a W beat in every cycle (possibly only the W: a master that presents W before AW) and all
    slaves stay silent.  `error` in cycle `t`; in cycle `t+1` exactly the offered beats are absorbed; in the first
    cycle without an offered beat `B`(SLVERR) is delivered — and afterwards the interconnect is exactly as before:
    same owner, **lock counter 0** (also when no AW was absorbed, i.e. a `B` was delivered with nothing accepted),
    FSM in reset state.  With `axl_wr_ce_when_idle` / `axl_wr_every_master_served` the channel is then handed to
    the next requesting master, and with `lock = 0` the decoder follows the current address again. -/
theorem axl_wr_timeout_recovers_any_beats (c : Axi.Cfg) {t : Nat} (ht : c.t = some t) (s : DState)
    (hgn : s.grant < c.n) (hl : s.lock = 0) (htm : s.tm = fInit t) (ys : List WBusIn) (x0 x1 x2 : WBusIn)
    (hlen : ys.length = t)
    (hreq : ∀ y ∈ ys ++ [x0, x1], ((y.ms s.grant).awv || (y.ms s.grant).wv) = true)
    (hsil : ∀ y ∈ ys ++ [x0], SharedW.Silent y)
    (h2 : (x2.ms s.grant).awv = false ∧ (x2.ms s.grant).wv = false ∧ (x2.ms s.grant).br = true) :
    let m := SharedW.machine c
    let g := s.grant
    let s0 := m.runFrom s ys
    let s1 := m.next s0 x0
    let s2 := m.next s1 x1
    let s3 := m.next s2 x2
    (∀ o ∈ m.traceFrom s ys, o.error = false ∧ (o.toM g).awr = false ∧ (o.toM g).wr = false ∧ (o.toM g).bv = false) ∧
    (m.out s0 x0).error = true ∧
    (((m.out s1 x1).toM g).awr = (x1.ms g).awv ∧ ((m.out s1 x1).toM g).wr = (x1.ms g).wv ∧
      ((m.out s1 x1).toM g).bv = false ∧ s2.lock = (if (x1.ms g).awv then 1 else 0)) ∧
    (((m.out s2 x2).toM g).bv = true ∧ ((m.out s2 x2).toM g).bresp = RESP_SLVERR) ∧
    (s3.grant = g ∧ s3.lock = 0 ∧ s3.tm = fInit t) := by
  intro m g s0 s1 s2 s3
  have hys : ∀ y ∈ ys, ((y.ms s.grant).awv || (y.ms s.grant).wv) = true ∧ SharedW.Silent y :=
    fun y hy => ⟨hreq y (by simp [hy]), hsil y (by simp [hy])⟩
  obtain ⟨a1, a2, a3, a4⟩ := SharedW.silent_waiting_any c ht ys s t hgn hl htm (by omega) (by omega) hys
  have a3' : s0.tm = { count := 0, respond := false } := by
    show ((SharedW.machine c).runFrom s ys).tm = _
    rw [a3, hlen]; simp
  have hg0 : s0.grant = s.grant := a1
  obtain ⟨_, _, _, b4, b5, b6, b7⟩ := SharedW.silent_wait_step_any c ht s0 x0 (by rw [hg0]; exact hgn) a2
    (by rw [a3']) (by rw [hg0]; exact hreq x0 (by simp)) (hsil x0 (by simp))
  have hg1 : s1.grant = s.grant := by show (SharedW.next c s0 x0).grant = _; rw [b5, hg0]
  have hr1 : s1.tm.respond = true := by
    show (SharedW.next c s0 x0).tm.respond = true
    rw [b7, a3']; simp [WaitTimer.done]
  obtain ⟨c1, c2, c3, _, c5, c6, c7⟩ := SharedW.silent_absorb_step_any c ht s1 x1 (by rw [hg1]; exact hgn) b6 hr1
    (by rw [hg1]; exact hreq x1 (by simp))
  have hg2 : s2.grant = s.grant := by show (SharedW.next c s1 x1).grant = _; rw [c5, hg1]
  have hr2 : s2.tm.respond = true := by show (SharedW.next c s1 x1).tm.respond = true; rw [c7]
  have hl2 : s2.lock ≤ 1 := by
    show (SharedW.next c s1 x1).lock ≤ 1
    rw [c6]; split <;> omega
  obtain ⟨d1, d2, _, d4, d5, d6⟩ := SharedW.silent_b_step_any c ht s2 x2 (by rw [hg2]; exact hgn) hl2 hr2
    (by rw [hg2]; exact h2.1) (by rw [hg2]; exact h2.2.1) (by rw [hg2]; exact h2.2.2)
  refine ⟨a4, ?_, ⟨?_, ?_, ?_, ?_⟩, ⟨?_, ?_⟩, ?_, d5, d6⟩
  · show (SharedW.out c s0 x0).error = true
    rw [b4, a3']; simp [WaitTimer.done]
  · have h' := c1; rw [hg1] at h'; exact h'
  · have h' := c2; rw [hg1] at h'; exact h'
  · have h' := c3; rw [hg1] at h'; exact h'
  · have h' := c6; rw [hg1] at h'; exact h'
  · have h' := d1; rw [hg2] at h'; exact h'
  · have h' := d2; rw [hg2] at h'; exact h'
  · show (SharedW.next c s2 x2).grant = _; rw [d4, hg2]

/-- Non-vacuity, the history of seeded change C11-r5m1 (`cfg11`, `t = 3`): a lone W towards a silent slave is timed
    out and answered; the lock counter is 0 in every cycle (it would be 255 after cycle 5 without `& ~empty`), and
    the AW that arrives later is timed out and answered in the same way. -/
example :
    let w1 : WM := { wv := true, br := true }
    let idle : WM := { br := true }
    let aw1 : WM := { awv := true, br := true }
    let xs := [wIn w1 {}, wIn w1 {}, wIn w1 {}, wIn w1 {}, wIn w1 {}, wIn idle {}, wIn idle {},
               wIn aw1 {}, wIn aw1 {}, wIn aw1 {}, wIn aw1 {}, wIn aw1 {}, wIn idle {}, wIn idle {}]
    ((List.range 15).map fun m => ((SharedW.machine cfg11).run (xs.take m)).lock) =
      [0, 0, 0, 0, 0, 0, 0, 0, 0, 0, 0, 0, 1, 0, 0] ∧
    (bTrace cfg11 xs).map (·.1) =
      [false, false, false, false, false, true, false, false, false, false, false, false, true, false] := by
  decide

end recoverAny

/-! ## Wishbone `Crossbar`: `timeout_cycles` is ignored (known finding C11-crossbar-timeout-ignored) -/

section wbCrossbar
open Wb

/-- The crossbar model does not read `timeout_cycles`: any two configurations that differ only there are the
    same machine (the correspondence check confirms this against `wishbone.Crossbar(timeout_cycles=t)`). -/
theorem wb_crossbar_ignores_timeout (c : Wb.Cfg) (t1 t2 : Option Nat) :
    Crossbar.machine { c with t := t1 } = Crossbar.machine { c with t := t2 } := rfl

/-- Negative witness for the property on the crossbar: in *every* state and for *every* `timeout_cycles`, if no
    slave acknowledges then no master is acknowledged and no error is signalled — a request to a silent or
    unmapped slave therefore waits forever (for all run lengths). -/
theorem wb_crossbar_silent_slave_hangs (c : Wb.Cfg) (s : XState) (x : BusIn)
    (hsil : ∀ j, (x.ss j).ack = false) (i : Nat) :
    ((Crossbar.out c s x).toM i).ack = false ∧ (Crossbar.out c s x).error = false := by
  refine ⟨?_, rfl⟩
  show orAll c.k _ = false
  exact orAll_false (fun j => by simp [hsil])

/-- The same as a statement about whole runs: from reset, under any request pattern, as long as the slaves stay
    silent no cycle of the trace carries an `ack` for anybody. -/
theorem wb_crossbar_hangs_forever (c : Wb.Cfg) (xs : List BusIn)
    (hsil : ∀ x ∈ xs, ∀ j, (x.ss j).ack = false) :
    ∀ o ∈ (Crossbar.machine c).trace xs, ∀ i, (o.toM i).ack = false := by
  unfold Machine.trace
  generalize (Crossbar.machine c).init = s
  induction xs generalizing s with
  | nil => intro o ho; simp [Machine.traceFrom] at ho
  | cons x xs ih =>
    intro o ho i
    simp only [Machine.traceFrom, List.mem_cons] at ho
    rcases ho with rfl | ho
    · exact (wb_crossbar_silent_slave_hangs c s x (hsil x (by simp)) i).1
    · exact ih (fun y hy => hsil y (by simp [hy])) _ o ho i

end wbCrossbar

/-! ## `AXILiteCrossbar` / `AXICrossbar`: `timeout_cycles` is ignored as well -/

section axCrossbar
open Axi

theorem axl_crossbar_ignores_timeout (c : Axi.Cfg) (t1 t2 : Option Nat) :
    XbarW.machine { c with t := t1 } = XbarW.machine { c with t := t2 } ∧
    XbarR.machine { c with t := t1 } = XbarR.machine { c with t := t2 } := ⟨rfl, rfl⟩

/-- Negative witness (any state, any configuration, any `timeout_cycles`): while no slave raises a ready or a
    valid, no master of an AXI(-Lite) crossbar sees one, and there is no error signal — a request to a silent or
    unmapped slave is never terminated. -/
theorem axl_crossbar_silent_slave_hangs (c : Axi.Cfg) (s : XState) :
    (∀ (x : WBusIn), (∀ j, (x.ss j).awr = false ∧ (x.ss j).wr = false ∧ (x.ss j).bv = false) → ∀ i,
      ((XbarW.out c s x).toM i).awr = false ∧ ((XbarW.out c s x).toM i).wr = false ∧
      ((XbarW.out c s x).toM i).bv = false ∧ (XbarW.out c s x).error = false) ∧
    (∀ (x : RBusIn), (∀ j, (x.ss j).arr = false ∧ (x.ss j).rv = false) → ∀ i,
      ((XbarR.out c s x).toM i).arr = false ∧ ((XbarR.out c s x).toM i).rv = false ∧
      (XbarR.out c s x).error = false) := by
  constructor
  · intro x h i
    exact ⟨Wb.orAll_false (fun j => by simp [XbarW.acc, (h j).1]),
           Wb.orAll_false (fun j => by simp [XbarW.acc, (h j).2.1]),
           Wb.orAll_false (fun j => by simp [XbarW.acc, (h j).2.2]), rfl⟩
  · intro x h i
    exact ⟨Wb.orAll_false (fun j => by simp [XbarR.acc, (h j).1]),
           Wb.orAll_false (fun j => by simp [XbarR.acc, (h j).2]), rfl⟩

/-- As a statement about whole runs from reset (reads; writes are analogous): silent slaves, any requests, any
    length — nobody ever sees `ar.ready` or `r.valid`. -/
theorem axl_crossbar_hangs_forever (c : Axi.Cfg) (xs : List RBusIn)
    (hsil : ∀ x ∈ xs, ∀ j, (x.ss j).arr = false ∧ (x.ss j).rv = false) :
    ∀ o ∈ (XbarR.machine c).trace xs, ∀ i, (o.toM i).arr = false ∧ (o.toM i).rv = false := by
  unfold Machine.trace
  generalize (XbarR.machine c).init = s
  induction xs generalizing s with
  | nil => intro o ho; simp [Machine.traceFrom] at ho
  | cons x xs ih =>
    intro o ho i
    simp only [Machine.traceFrom, List.mem_cons] at ho
    rcases ho with rfl | ho
    · have := (axl_crossbar_silent_slave_hangs c s).2 x (hsil x (by simp)) i
      exact ⟨this.1, this.2.1⟩
    · exact ih (fun y hy => hsil y (by simp [hy])) _ o ho i

end axCrossbar

end Litex.C11
