import LitexProofs.Ecc.Secded
import LitexProofs.Ecc.Multi
import LitexProofs.Ecc.TablesBig
/-
  INVENTORY of litex/soc/cores/ecc.py and of its users (what is modelled, which theorem, how it is tied)
  ------------------------------------------------------------------------------------------------------------------
  code                              | model (LitexModel/Ecc)         | theorems                              | tie
  ----------------------------------+--------------------------------+---------------------------------------+---------
  compute_m_n                       | computeMLoop/computeM/N/MN     | m_minimal, m_unique, code_length,     | call mn, ALL k 1..512
                                    |                                | position_fits_syndrome                |
  compute_syndrome_positions        | synLoop/syndromePositions      | check_positions                       | call synpos, all n in grid
  compute_data_positions            | dataPositions                  | data_positions, data_positions_count  | call datapos, all n in grid
  compute_cover_positions           | coverLoop/coverPositions       | cover_eq_filter (every stride 2^b)    | call cover, every stride p<=n+1 (n<=40), powers of two beyond
  SECDED.place_data                 | placeData (scatter)            | via syndrome_zero/no_error_clean      | through enc
  SECDED.extract_data               | extractData                    | disabled_passthrough, *_clean         | through dec; REGENERATED decPass (extraction matrix)
  SECDED.compute_syndrome           | xorFold/computeSyndrome        | syndrome_zero/_single/_check_bit,     | call syn (internal syndrome signal of the real
                                    |                                | syndrome_any_errors                   | decoder); REGENERATED synCols (parity-check matrix)
  SECDED.place_syndrome             | placeSyndrome                  | syndrome_zero                         | through enc
  SECDED.compute_parity             | xorAll                         | syndrome_zero (even), parity_bit_error| through enc/dec
  ECCEncoder                        | encode, encVal                 | syndrome_zero, code_length,           | call enc: all words k<=8, sampled k<=128;
                                    |                                | generated_tables_match (rows k<=16)   | REGENERATED encRows/encZero + linearity on random pairs
  ECCDecoder (enable=1)             | decode true, decVal, synOf,    | sec_correct(+_driver), ded_detect     | call dec: ALL 2^(n+1) words k<=8; all single flips,
                                    | flipMaskOf                     | (+_driver), flags_any_errors,         | all/sampled pairs, arbitrary words k<=128; REGENERATED
                                    |                                | triple_error, generated_tables_match  | decSingle/synCols/flipCols (k = 1..16, 32, 64, 128)
  ECCDecoder (enable=0)             | decode false                   | disabled_passthrough(+_value),        | call dec en=0; REGENERATED decPass
                                    |                                | disabled_roundtrip                    |
  Case(syndrome,…) 2^m-1 entries    | flipAt (no-op beyond n)        | sec_correct, generated_tables_match   | flipCols + arbitrary words (syndromes > n)
  USER: test/test_ecc.py DUT,       | loopback (decoder.i =          | loopback_single, loopback_double,     | call loop against ONE netlist holding both cores
   litedram frontend (not in repo)  |  encoder.o ^ flip)             | loopback_clean                        | (job_loopback)
  urv core `g_with_ecc = 0`         | not ecc.py (Verilog parameter) | -                                     | -
  ------------------------------------------------------------------------------------------------------------------
  REGENERATED = `LitexModel/Generated/EccTables.lean`, rewritten on every run from the elaborated netlists (zero word and
  unit vectors) and compared with the model by the Lean kernel (`generated_tables_match`); GF(2)-linearity of the real
  encoder / disabled decoder is checked on random pairs at regeneration time and on every word the jobs evaluate.
-/
/-
  C18 — ECC corrects every single-bit error and flags every double-bit error (`litex/soc/cores/ecc.py`).

  Model: `LitexModel/Ecc/{Geometry,Secded}.lean` (the Python loops and the encoder/decoder netlists, bit for bit).
  Every theorem below holds for EVERY data width `k ≥ 1` (the property asks for 1..128) and EVERY data word `d`
  of that width; error positions are bit indexes of the `n+1`-bit code word `encode k d`
  (index 0 = overall parity bit, index `p ≥ 1` = Hamming position `p`, as in `Cat(parity, codeword_d_p)`).
  `flipAt w j` inverts bit `j` of `w` (`w ^ (1 << j)`).
-/
namespace Litex.C18
open Litex.Ecc

/-! ## Code geometry -/

/-- `compute_m_n(k)` returns the least `m ≥ 1` with `2^m ≥ m + k + 1` (so the `while` loop's fuel in the model is
    never exhausted and the number of check bits is minimal). -/
theorem m_minimal (k : Nat) :
    1 ≤ computeM k ∧ computeM k + k + 1 ≤ 2 ^ computeM k ∧
      ∀ m', 1 ≤ m' → m' < computeM k → 2 ^ m' < m' + k + 1 :=
  computeM_spec k

/-- Hence every code word position `1..n` has an `m`-bit binary index (it can be named by the syndrome). -/
theorem position_fits_syndrome (k p : Nat) (hp : p ≤ computeN k) : p < 2 ^ computeM k :=
  Nat.lt_of_le_of_lt hp (computeN_lt k)

/-- The check bits sit at the powers of two `1, 2, 4, …, 2^(m-1)`: exactly `m` of them fit into `1..n`. -/
theorem check_positions (k : Nat) (hk : 1 ≤ k) :
    syndromePositions (computeN k) = (List.range (computeM k)).map (2 ^ ·) := by
  rw [syndromePositions_closed, numCheck_computeN k hk]

/-- `compute_cover_positions(n, 2^b)` is, in increasing order, the set of positions `1..n` whose index has bit
    `b` set — for every length `n` and every check bit `b` (stride arithmetic of the loop is right). -/
theorem cover_eq_filter (n b : Nat) :
    coverPositions n (2 ^ b) = (List.range' 1 n).filter (·.testBit b) :=
  Litex.Ecc.cover_eq_filter n b

/-- The data positions are the non-powers-of-two in `1..n`, in increasing order. -/
theorem data_positions (n : Nat) :
    (∀ q, q ∈ dataPositions n ↔ 1 ≤ q ∧ q ≤ n ∧ ∀ j, q ≠ 2 ^ j) ∧ (dataPositions n).Pairwise (· < ·) :=
  ⟨fun _ => mem_dataPositions, dataPositions_sorted n⟩

/-- There are exactly `k` data positions: every data bit gets a place, no code word bit is left undriven. -/
theorem data_positions_count (k : Nat) (hk : 1 ≤ k) : (dataPositions (computeN k)).length = k :=
  dataPositions_length_computeN k hk

/-! ## Encoder -/

/-- The encoder output is `n+1` bits wide; its Hamming part has syndrome 0 and the whole word has even parity. -/
theorem syndrome_zero (k : Nat) (hk : 1 ≤ k) (d : Word) :
    (encode k d).length = computeN k + 1 ∧
    computeSyndrome ((encode k d).drop 1) = List.replicate (computeM k) false ∧
    xorAll (encode k d) = false := by
  refine ⟨encode_length k d, ?_, ?_⟩
  · rw [encode_eq, List.drop_one, List.tail_cons, computeSyndrome_codeword, numCheck_computeN k hk]
    rw [List.map_const', List.length_range]
  · rw [encode_eq, xorAll_cons]
    simp

/-- GF(2) linearity: inverting code word bit `p ≥ 1` makes the decoder's syndrome read exactly `p`. -/
theorem syndrome_single (k : Nat) (hk : 1 ≤ k) (d : Word) (p : Nat) (hp1 : 1 ≤ p) (hp : p ≤ computeN k) :
    bitsToNat (computeSyndrome ((flipAt (encode k d) p).drop 1)) = p := by
  obtain ⟨j, rfl⟩ : ∃ j, p = j + 1 := ⟨p - 1, by omega⟩
  rw [encode_eq, flipAt_cons_succ, List.drop_one, List.tail_cons]
  exact syndrome_value_single k hk d (j + 1) hp1 hp

/-! ## Decoder: the property -/

/-- No error: the data comes back, no flag. -/
theorem no_error_clean (k : Nat) (hk : 1 ≤ k) (d : Word) (hd : d.length = k) :
    decode true (encode k d) = { o := d, sec := false, ded := false } := by
  rw [encode_eq, decode_cons, syndrome_value_zero]
  simp [extractData_codeword k hk d hd]

/-- SINGLE ERROR CORRECTION.  Any one inverted bit `j` of the `n+1`-bit code word — the overall parity bit `j = 0`
    included — is corrected: the decoder returns the original data, `ded = 0`, and `sec = 1` exactly when the
    inverted bit is a data or check bit (`j ≠ 0`). -/
theorem sec_correct (k : Nat) (hk : 1 ≤ k) (d : Word) (hd : d.length = k) (j : Nat) (hj : j ≤ computeN k) :
    decode true (flipAt (encode k d) j) = { o := d, sec := decide (j ≠ 0), ded := false } := by
  rw [encode_eq]
  cases j with
  | zero =>
    rw [flipAt_cons_zero, decode_cons, syndrome_value_zero]
    simp [extractData_codeword k hk d hd]
  | succ j =>
    have hlen : j < (codeword k d).length := by rw [codeword_length]; omega
    rw [flipAt_cons_succ, decode_cons]
    have hs := syndrome_value_single k hk d (j + 1) (by omega) hj
    simp only [Nat.add_sub_cancel] at hs
    rw [hs, xorAll_cons, xorAll_flipAt _ _ hlen]
    cases xorAll (codeword k d) <;> simp [flipAt_flipAt, extractData_codeword k hk d hd]

/-- At most one error, in one statement. -/
theorem at_most_one_error (k : Nat) (hk : 1 ≤ k) (d : Word) (hd : d.length = k) (errs : List Nat)
    (hlen : errs.length ≤ 1) (hpos : ∀ j, j ∈ errs → j ≤ computeN k) :
    let r := decode true (errs.foldl flipAt (encode k d))
    r.o = d ∧ r.ded = false ∧ (r.sec = true ↔ ∃ j, j ∈ errs ∧ j ≠ 0) := by
  match errs, hlen, hpos with
  | [], _, _ => simp [no_error_clean k hk d hd]
  | [j], _, hpos => simp [sec_correct k hk d hd j (hpos j (by simp))]

/-- DOUBLE ERROR DETECTION.  Any two distinct inverted bits of the code word (either of them may be the overall
    parity bit) are flagged as uncorrectable: `ded = 1` and `sec = 0` — never silent, never "corrected". -/
theorem ded_detect (k : Nat) (hk : 1 ≤ k) (d : Word) (j1 j2 : Nat) (hne : j1 ≠ j2)
    (h1 : j1 ≤ computeN k) (h2 : j2 ≤ computeN k) :
    (decode true (flipAt (flipAt (encode k d) j1) j2)).ded = true ∧
    (decode true (flipAt (flipAt (encode k d) j1) j2)).sec = false := by
  rw [encode_eq]
  have hcl := codeword_length k d
  -- exactly two inverted bits: the overall parity of the received word is even
  match j1, j2, hne, h1, h2 with
  | 0, 0, hne, _, _ => exact absurd rfl hne
  | 0, j + 1, _, _, h2 =>
    rw [flipAt_cons_zero, flipAt_cons_succ, decode_cons]
    have hs := syndrome_value_single k hk d (j + 1) (by omega) h2
    simp only [Nat.add_sub_cancel] at hs
    rw [hs, xorAll_cons, xorAll_flipAt _ _ (by omega)]
    cases xorAll (codeword k d) <;> simp
  | j + 1, 0, _, h1, _ =>
    rw [flipAt_cons_succ, flipAt_cons_zero, decode_cons]
    have hs := syndrome_value_single k hk d (j + 1) (by omega) h1
    simp only [Nat.add_sub_cancel] at hs
    rw [hs, xorAll_cons, xorAll_flipAt _ _ (by omega)]
    cases xorAll (codeword k d) <;> simp
  | a + 1, b + 1, hne, h1, h2 =>
    rw [flipAt_cons_succ, flipAt_cons_succ, decode_cons]
    have hs := syndrome_value_double k hk d (a + 1) (b + 1) (by omega) h1 (by omega) h2 (by omega)
    simp only [Nat.add_sub_cancel] at hs
    rw [hs.1, xorAll_cons, xorAll_flipAt _ _ (by rw [flipAt_length]; omega), xorAll_flipAt _ _ (by omega)]
    have hnz := hs.2
    cases xorAll (codeword k d) <;> simp [hnz]

/-- CHECKING DISABLED.  With `enable = 0` the decoder is a pure wire-through for ANY input word `w`: output bit `i`
    is the received bit at the `i`-th data position, nothing is inverted, no flag is raised. -/
theorem disabled_passthrough (w : Word) :
    decode false w = { o := (dataPositions (w.length - 1)).map fun p => w.getD p false, sec := false, ded := false } := by
  simp only [decode, bitsToNat_map_false, if_true, Bool.false_eq_true, if_false, bne_self_eq_false, Bool.false_and,
    DecOut.mk.injEq, and_true]
  unfold extractData
  rw [List.length_drop]
  apply List.map_congr_left
  intro p hp
  exact bitAt_drop_one w p (dataPositions_bounds _ p hp).1

/-- In particular the encoder's data comes back unchanged. -/
theorem disabled_roundtrip (k : Nat) (hk : 1 ≤ k) (d : Word) (hd : d.length = k) :
    decode false (encode k d) = { o := d, sec := false, ded := false } := by
  have h := extractData_codeword k hk d hd
  simp only [decode, bitsToNat_map_false, if_true, Bool.false_eq_true, if_false, bne_self_eq_false, Bool.false_and,
    DecOut.mk.injEq, and_true, encode_eq, List.drop_one, List.tail_cons]
  exact h

/-! ## The same statements on signal VALUES (what the ports carry and what the correspondence compares):
    data `x < 2^k`, code word `cw = value of ECCEncoder.o`, injected error `cw ^ (1 << j)`. -/

/-- `flipAt` is XOR with `1 << j` on the value of the signal. -/
theorem flip_is_xor_one_shl (w : Word) (j : Nat) (hj : j < w.length) :
    bitsToNat (flipAt w j) = bitsToNat w ^^^ 2 ^ j :=
  bitsToNat_flipAt w j hj

/-- Single error, value form: `ECCDecoder.o = x`, `sec = (j ≠ 0)`, `ded = 0`. -/
theorem sec_correct_value (k : Nat) (hk : 1 ≤ k) (x : Nat) (hx : x < 2 ^ k) (j : Nat) (hj : j ≤ computeN k) :
    bitsToNat (decode true (flipAt (encode k (natToBits k x)) j)).o = x ∧
    (decode true (flipAt (encode k (natToBits k x)) j)).sec = decide (j ≠ 0) ∧
    (decode true (flipAt (encode k (natToBits k x)) j)).ded = false := by
  rw [sec_correct k hk _ (natToBits_length k x) j hj]
  exact ⟨bitsToNat_natToBits k x hx, rfl, rfl⟩

/-- No error / checking disabled, value form. -/
theorem roundtrip_value (k : Nat) (hk : 1 ≤ k) (x : Nat) (hx : x < 2 ^ k) (en : Bool) :
    bitsToNat (decode en (encode k (natToBits k x))).o = x ∧
    (decode en (encode k (natToBits k x))).sec = false ∧ (decode en (encode k (natToBits k x))).ded = false := by
  cases en with
  | true =>
    rw [no_error_clean k hk _ (natToBits_length k x)]
    exact ⟨bitsToNat_natToBits k x hx, rfl, rfl⟩
  | false =>
    rw [disabled_roundtrip k hk _ (natToBits_length k x)]
    exact ⟨bitsToNat_natToBits k x hx, rfl, rfl⟩

/-! ## Code length, minimality -/

/-- `m` is THE least number of check bits: any `m' ≥ 1` that satisfies the Hamming bound `2^m' ≥ m' + k + 1` and is
    minimal with it equals `compute_m_n(k)[0]`. -/
theorem m_unique (k m' : Nat) (h1 : 1 ≤ m') (hb : m' + k + 1 ≤ 2 ^ m')
    (hmin : ∀ m'', 1 ≤ m'' → m'' < m' → 2 ^ m'' < m'' + k + 1) : m' = computeM k := by
  obtain ⟨c1, cb, cmin⟩ := computeM_spec k
  rcases Nat.lt_trichotomy m' (computeM k) with h | h | h
  · have := cmin m' h1 h; omega
  · exact h
  · have := hmin (computeM k) c1 h; omega

/-- The transmitted word has `m + k + 1` bits; bit 0 is the overall parity of the other `n = m + k` bits, which are
    the Hamming code word (check bits at the powers of two, data elsewhere). -/
theorem code_length (k : Nat) (d : Word) :
    (encode k d).length = computeM k + k + 1 ∧ computeMN k = (computeM k, computeM k + k) ∧
    (encode k d).head? = some (xorAll ((encode k d).drop 1)) := by
  refine ⟨by rw [encode_length]; rfl, rfl, ?_⟩
  rw [encode_eq]; rfl

/-! ## Special single errors -/

/-- The overall parity bit alone inverted: the syndrome stays 0, so NO flag is raised (`sec = 0`, `ded = 0`) and the
    data is unchanged — "corrected" is signalled exactly for data and check bits. -/
theorem parity_bit_error (k : Nat) (hk : 1 ≤ k) (d : Word) (hd : d.length = k) :
    decode true (flipAt (encode k d) 0) = { o := d, sec := false, ded := false } ∧
    bitsToNat (computeSyndrome ((flipAt (encode k d) 0).drop 1)) = 0 := by
  refine ⟨by simpa using sec_correct k hk d hd 0 (Nat.zero_le _), ?_⟩
  rw [encode_eq, flipAt_cons_zero, List.drop_one, List.tail_cons, syndrome_value_zero]

/-- A CHECK bit (position `2^b`) inverted: the syndrome is one-hot (`2^b`, only syndrome bit `b` is set), the decoder
    inverts the check bit back, the data is untouched and `sec = 1`. -/
theorem syndrome_check_bit (k : Nat) (hk : 1 ≤ k) (d : Word) (hd : d.length = k) (b : Nat) (hb : 2 ^ b ≤ computeN k) :
    bitsToNat (computeSyndrome ((flipAt (encode k d) (2 ^ b)).drop 1)) = 2 ^ b ∧
    decode true (flipAt (encode k d) (2 ^ b)) = { o := d, sec := true, ded := false } := by
  refine ⟨syndrome_single k hk d (2 ^ b) (Nat.two_pow_pos b) hb, ?_⟩
  have := sec_correct k hk d hd (2 ^ b) hb
  have hne : 2 ^ b ≠ 0 := Nat.ne_of_gt (Nat.two_pow_pos b)
  simpa [hne] using this

/-! ## ANY error pattern: what the decoder does beyond its guarantee -/

/-- For ANY list of inverted positions (repetitions cancel) the syndrome is the XOR of the positions (the parity bit,
    position 0, contributes 0) and the flags are: `sec` iff that XOR is non-zero and the number of flips is odd, `ded`
    iff it is non-zero and the number is even; the output is the received data with the position named by the
    syndrome inverted. -/
theorem flags_any_errors (k : Nat) (hk : 1 ≤ k) (d : Word) (errs : List Nat) (h : ∀ j, j ∈ errs → j ≤ computeN k) :
    let w := errs.foldl flipAt (encode k d)
    bitsToNat (computeSyndrome (w.drop 1)) = xorPos errs ∧
    (decode true w).sec = (xorPos errs != 0 && decide (errs.length % 2 = 1)) ∧
    (decode true w).ded = (xorPos errs != 0 && decide (errs.length % 2 = 0)) ∧
    (decode true w).o = extractData (if xorPos errs = 0 then w.drop 1 else flipAt (w.drop 1) (xorPos errs - 1)) := by
  obtain ⟨x', c', e, _, hs, hp⟩ := decode_flips k hk d errs h
  simp only [e, decode_cons, List.drop_one, List.tail_cons, hs, hp, true_and]
  rcases Nat.mod_two_eq_zero_or_one errs.length with h0 | h0 <;> simp [h0]

/-- TRIPLE errors are outside the guarantee.  The decoder NEVER reports them as uncorrectable: `ded = 0` always;
    it claims a correction (`sec = 1`, inverting a FOURTH position `j1 ^ j2 ^ j3` if that is ≤ n) unless the three
    positions XOR to 0 (e.g. 1, 2, 3), in which case the corrupted data passes silently. -/
theorem triple_error (k : Nat) (hk : 1 ≤ k) (d : Word) (j1 j2 j3 : Nat)
    (h1 : j1 ≤ computeN k) (h2 : j2 ≤ computeN k) (h3 : j3 ≤ computeN k) :
    let r := decode true (flipAt (flipAt (flipAt (encode k d) j1) j2) j3)
    r.ded = false ∧ r.sec = (j1 ^^^ j2 ^^^ j3 != 0) := by
  have h := flags_any_errors k hk d [j1, j2, j3] (by
    intro j hj
    simp only [List.mem_cons, List.not_mem_nil, or_false] at hj
    rcases hj with rfl | rfl | rfl <;> assumption)
  simp only [List.foldl_cons, List.foldl_nil, List.length_cons, List.length_nil] at h
  have hx : xorPos [j1, j2, j3] = j1 ^^^ j2 ^^^ j3 := by simp [xorPos]
  rw [hx] at h
  exact ⟨by rw [h.2.2.1]; simp, by rw [h.2.1]; simp⟩

/-! ## Driver level: exactly the functions `call enc` / `call dec` / `call loop` serve and the harness compares
    (`encVal k x` = value of `ECCEncoder(k).o`, `decVal k en w` = `ECCDecoder(k)` on the input value `w`) -/

/-- Single error on values: `decoder(encoder(x) ^ (1 << j))` for every bit `j` of the `n+1`-bit word. -/
theorem sec_correct_driver (k : Nat) (hk : 1 ≤ k) (x j : Nat) (hj : j ≤ computeN k) :
    decVal k true (encVal k x ^^^ 2 ^ j) = { o := natToBits k x, sec := decide (j ≠ 0), ded := false } := by
  unfold decVal
  rw [decVal_flip1 k x j hj]
  exact sec_correct k hk _ (natToBits_length k x) j hj

/-- Double error on values: `decoder(encoder(x) ^ (1 << j1) ^ (1 << j2))`, `j1 ≠ j2`. -/
theorem ded_detect_driver (k : Nat) (hk : 1 ≤ k) (x j1 j2 : Nat) (hne : j1 ≠ j2)
    (h1 : j1 ≤ computeN k) (h2 : j2 ≤ computeN k) :
    (decVal k true (encVal k x ^^^ 2 ^ j1 ^^^ 2 ^ j2)).ded = true ∧
    (decVal k true (encVal k x ^^^ 2 ^ j1 ^^^ 2 ^ j2)).sec = false := by
  unfold decVal
  rw [decVal_flip2 k x j1 j2 h1 h2]
  exact ded_detect k hk _ j1 j2 hne h1 h2

/-- Checking disabled, ANY input value `w`: output bit `i` is input bit `dataPositions[i]`, no flags. -/
theorem disabled_passthrough_value (k w : Nat) :
    decVal k false w = { o := (dataPositions (computeN k)).map fun p => w.testBit p, sec := false, ded := false } := by
  unfold decVal
  rw [disabled_passthrough, natToBits_length, Nat.add_sub_cancel]
  simp only [DecOut.mk.injEq, and_true]
  apply List.map_congr_left
  intro p hp
  have := (dataPositions_bounds _ p hp).2
  unfold natToBits
  rw [getD_map_range, if_pos (by omega)]

/-- The user of the two cores (test bench DUT / memory controller): `decoder.i = encoder.o ^ flip`. -/
theorem loopback_clean (k : Nat) (hk : 1 ≤ k) (x : Nat) (en : Bool) :
    (loopback k en x 0).2 = { o := natToBits k x, sec := false, ded := false } := by
  unfold loopback decVal
  rw [Nat.xor_zero, decVal_clean]
  cases en with
  | true => exact no_error_clean k hk _ (natToBits_length k x)
  | false => exact disabled_roundtrip k hk _ (natToBits_length k x)

theorem loopback_single (k : Nat) (hk : 1 ≤ k) (x j : Nat) (hj : j ≤ computeN k) :
    (loopback k true x (2 ^ j)).2 = { o := natToBits k x, sec := decide (j ≠ 0), ded := false } :=
  sec_correct_driver k hk x j hj

theorem loopback_double (k : Nat) (hk : 1 ≤ k) (x j1 j2 : Nat) (hne : j1 ≠ j2)
    (h1 : j1 ≤ computeN k) (h2 : j2 ≤ computeN k) :
    (loopback k true x (2 ^ j1 ^^^ 2 ^ j2)).2.ded = true ∧ (loopback k true x (2 ^ j1 ^^^ 2 ^ j2)).2.sec = false := by
  unfold loopback
  simp only [← Nat.xor_assoc]
  exact ded_detect_driver k hk x j1 j2 hne h1 h2

/-! ## The model against the tables REGENERATED from the real netlists on this run -/

/-- For every width in the generated table (1..16, 32, 64, 128) the model's single-error table, parity-check
    (syndrome) matrix, correction table and extraction matrix equal what the elaborated `ECCDecoder` computes; for the
    widths 1..16 the model's generator matrix equals what the elaborated `ECCEncoder` computes (kernel-checked). -/
theorem generated_tables_match :
    (∀ k ∈ Tables.widths, mDecSingle k = Tables.decSingle k ∧ mSynCols k = Tables.synCols k ∧
      mFlipCols k = Tables.flipCols k ∧ mDecPass k = Tables.decPass k) ∧
    (∀ k ∈ smallWidths, mEncRows k = Tables.encRows k ∧ encVal k 0 = Tables.encZero k) :=
  ⟨decoder_tables_match, small_encRows⟩

/-- The regenerated tables themselves state the property on the unit vectors: every single inverted bit of the zero
    code word gives syndrome = its position, the decoder inverts that very bit, `o = 0`, `sec = (j ≠ 0)`, `ded = 0`. -/
theorem generated_tables_property : ∀ k ∈ Tables.widths,
    Tables.synCols k = List.range (Tables.codeLen k) ∧
    Tables.decSingle k = (List.range (Tables.codeLen k)).map fun j => if j = 0 then 0 else 2 := by
  intro k hk
  rw [tables_widths] at hk
  obtain ⟨h0, h1, h2, _⟩ := closed_tables_check k hk
  rw [h0]; exact ⟨h2, h1⟩


/-! ## Non-vacuity: concrete instances (k = 4: m = 3, n = 7, 8-bit code word; k = 11: m = 4, n = 15) -/

example : computeMN 4 = (3, 7) ∧ computeMN 11 = (4, 15) ∧ computeMN 128 = (8, 136) := by decide

example : encode 4 [true, false, true, true] = [false, false, true, true, false, false, true, true] := by decide

-- a data bit (index 3), a check bit (index 4) and the parity bit (index 0) inverted: all corrected
example : decode true (flipAt (encode 4 [true, false, true, true]) 3) = ⟨[true, false, true, true], true, false⟩ := by
  decide
example : decode true (flipAt (encode 4 [true, false, true, true]) 4) = ⟨[true, false, true, true], true, false⟩ := by
  decide
example : decode true (flipAt (encode 4 [true, false, true, true]) 0) = ⟨[true, false, true, true], false, false⟩ := by
  decide
-- two inverted bits (one of them the parity bit / both in the Hamming part): flagged
example : (decode true (flipAt (flipAt (encode 4 [true, false, true, true]) 0) 5)).ded = true ∧
    (decode true (flipAt (flipAt (encode 4 [true, false, true, true]) 2) 7)).ded = true := by decide
-- the flags are not constant: THREE inverted bits are outside the property and are indeed mis-"corrected"
example : (decode true (flipAt (flipAt (flipAt (encode 4 [true, false, true, true]) 1) 2) 7)).sec = true ∧
    (decode true (flipAt (flipAt (flipAt (encode 4 [true, false, true, true]) 1) 2) 7)).o ≠ [true, false, true, true] := by
  decide
-- enable = 0: an inverted data bit passes through uncorrected and unflagged
example : decode false (flipAt (encode 4 [true, false, true, true]) 3) = ⟨[false, false, true, true], false, false⟩ := by
  decide

-- three errors 1,2,3 XOR to 0: silent; 1,2,7: "corrected" into a wrong word (see `triple_error`)
example : (decode true (flipAt (flipAt (flipAt (encode 4 [true, false, true, true]) 1) 2) 3)) =
    ⟨[false, false, true, true], false, false⟩ := by decide
-- driver level, k = 4: data 13, code word 204; bit 3 / bits 0 and 3 inverted
example : encVal 4 13 = 204 ∧ decVal 4 true (204 ^^^ 8) = ⟨natToBits 4 13, true, false⟩ ∧
    (loopback 4 true 13 9).2.ded = true := by decide
-- a check bit (position 4) inverted: one-hot syndrome 4
example : synVal 4 true (204 ^^^ 16) = 4 ∧ flipMaskVal 4 true (204 ^^^ 16) = 16 := by decide
-- the regenerated tables are not empty
example : Tables.encRows 4 = [15, 51, 85, 150] ∧ (Tables.synCols 128).length = 137 := by decide +kernel

end Litex.C18
