import LitexProofs.Ecc.Secded
/-
  C18 — ECC corrects every single-bit error and flags every double-bit error (`litex/soc/cores/ecc.py`).

  Model: `LitexModel/Ecc/{Geometry,Secded}.lean` (the Python loops and the encoder/decoder netlists, bit for bit).
  Every theorem below holds for EVERY data width `k ≥ 1` (the property asks for 1..128) and EVERY data word `d`
  of that width; error positions are bit indexes of the `n+1`-bit code word `encode k d`
  (index 0 = overall parity bit, index `p ≥ 1` = Hamming position `p`, as in `Cat(parity, codeword_d_p)`).
  `flipAt w j` inverts bit `j` of `w` (`w ^ (1 << j)`).
-/
namespace Litex.C18
open Litex.Ecc

/-! ## Code geometry -/

/-- `compute_m_n(k)` returns the least `m ≥ 1` with `2^m ≥ m + k + 1` (so the `while` loop's fuel in the model is
    never exhausted and the number of check bits is minimal). -/
theorem m_minimal (k : Nat) :
    1 ≤ computeM k ∧ computeM k + k + 1 ≤ 2 ^ computeM k ∧
      ∀ m', 1 ≤ m' → m' < computeM k → 2 ^ m' < m' + k + 1 :=
  computeM_spec k

/-- Hence every code word position `1..n` has an `m`-bit binary index (it can be named by the syndrome). -/
theorem position_fits_syndrome (k p : Nat) (hp : p ≤ computeN k) : p < 2 ^ computeM k :=
  Nat.lt_of_le_of_lt hp (computeN_lt k)

/-- The check bits sit at the powers of two `1, 2, 4, …, 2^(m-1)`: exactly `m` of them fit into `1..n`. -/
theorem check_positions (k : Nat) (hk : 1 ≤ k) :
    syndromePositions (computeN k) = (List.range (computeM k)).map (2 ^ ·) := by
  rw [syndromePositions_closed, numCheck_computeN k hk]

/-- `compute_cover_positions(n, 2^b)` is, in increasing order, the set of positions `1..n` whose index has bit
    `b` set — for every length `n` and every check bit `b` (stride arithmetic of the loop is right). -/
theorem cover_eq_filter (n b : Nat) :
    coverPositions n (2 ^ b) = (List.range' 1 n).filter (·.testBit b) :=
  Litex.Ecc.cover_eq_filter n b

/-- The data positions are the non-powers-of-two in `1..n`, in increasing order. -/
theorem data_positions (n : Nat) :
    (∀ q, q ∈ dataPositions n ↔ 1 ≤ q ∧ q ≤ n ∧ ∀ j, q ≠ 2 ^ j) ∧ (dataPositions n).Pairwise (· < ·) :=
  ⟨fun _ => mem_dataPositions, dataPositions_sorted n⟩

/-- There are exactly `k` data positions: every data bit gets a place, no code word bit is left undriven. -/
theorem data_positions_count (k : Nat) (hk : 1 ≤ k) : (dataPositions (computeN k)).length = k :=
  dataPositions_length_computeN k hk

/-! ## Encoder -/

/-- The encoder output is `n+1` bits wide; its Hamming part has syndrome 0 and the whole word has even parity. -/
theorem syndrome_zero (k : Nat) (hk : 1 ≤ k) (d : Word) :
    (encode k d).length = computeN k + 1 ∧
    computeSyndrome ((encode k d).drop 1) = List.replicate (computeM k) false ∧
    xorAll (encode k d) = false := by
  refine ⟨encode_length k d, ?_, ?_⟩
  · rw [encode_eq, List.drop_one, List.tail_cons, computeSyndrome_codeword, numCheck_computeN k hk]
    rw [List.map_const', List.length_range]
  · rw [encode_eq, xorAll_cons]
    simp

/-- GF(2) linearity: inverting code word bit `p ≥ 1` makes the decoder's syndrome read exactly `p`. -/
theorem syndrome_single (k : Nat) (hk : 1 ≤ k) (d : Word) (p : Nat) (hp1 : 1 ≤ p) (hp : p ≤ computeN k) :
    bitsToNat (computeSyndrome ((flipAt (encode k d) p).drop 1)) = p := by
  obtain ⟨j, rfl⟩ : ∃ j, p = j + 1 := ⟨p - 1, by omega⟩
  rw [encode_eq, flipAt_cons_succ, List.drop_one, List.tail_cons]
  exact syndrome_value_single k hk d (j + 1) hp1 hp

/-! ## Decoder: the property -/

/-- No error: the data comes back, no flag. -/
theorem no_error_clean (k : Nat) (hk : 1 ≤ k) (d : Word) (hd : d.length = k) :
    decode true (encode k d) = { o := d, sec := false, ded := false } := by
  rw [encode_eq, decode_cons, syndrome_value_zero]
  simp [extractData_codeword k hk d hd]

/-- SINGLE ERROR CORRECTION.  Any one inverted bit `j` of the `n+1`-bit code word — the overall parity bit `j = 0`
    included — is corrected: the decoder returns the original data, `ded = 0`, and `sec = 1` exactly when the
    inverted bit is a data or check bit (`j ≠ 0`). -/
theorem sec_correct (k : Nat) (hk : 1 ≤ k) (d : Word) (hd : d.length = k) (j : Nat) (hj : j ≤ computeN k) :
    decode true (flipAt (encode k d) j) = { o := d, sec := decide (j ≠ 0), ded := false } := by
  rw [encode_eq]
  cases j with
  | zero =>
    rw [flipAt_cons_zero, decode_cons, syndrome_value_zero]
    simp [extractData_codeword k hk d hd]
  | succ j =>
    have hlen : j < (codeword k d).length := by rw [codeword_length]; omega
    rw [flipAt_cons_succ, decode_cons]
    have hs := syndrome_value_single k hk d (j + 1) (by omega) hj
    simp only [Nat.add_sub_cancel] at hs
    rw [hs, xorAll_cons, xorAll_flipAt _ _ hlen]
    cases xorAll (codeword k d) <;> simp [flipAt_flipAt, extractData_codeword k hk d hd]

/-- At most one error, in one statement. -/
theorem at_most_one_error (k : Nat) (hk : 1 ≤ k) (d : Word) (hd : d.length = k) (errs : List Nat)
    (hlen : errs.length ≤ 1) (hpos : ∀ j, j ∈ errs → j ≤ computeN k) :
    let r := decode true (errs.foldl flipAt (encode k d))
    r.o = d ∧ r.ded = false ∧ (r.sec = true ↔ ∃ j, j ∈ errs ∧ j ≠ 0) := by
  match errs, hlen, hpos with
  | [], _, _ => simp [no_error_clean k hk d hd]
  | [j], _, hpos => simp [sec_correct k hk d hd j (hpos j (by simp))]

/-- DOUBLE ERROR DETECTION.  Any two distinct inverted bits of the code word (either of them may be the overall
    parity bit) are flagged as uncorrectable: `ded = 1` and `sec = 0` — never silent, never "corrected". -/
theorem ded_detect (k : Nat) (hk : 1 ≤ k) (d : Word) (j1 j2 : Nat) (hne : j1 ≠ j2)
    (h1 : j1 ≤ computeN k) (h2 : j2 ≤ computeN k) :
    (decode true (flipAt (flipAt (encode k d) j1) j2)).ded = true ∧
    (decode true (flipAt (flipAt (encode k d) j1) j2)).sec = false := by
  rw [encode_eq]
  have hcl := codeword_length k d
  -- exactly two inverted bits: the overall parity of the received word is even
  match j1, j2, hne, h1, h2 with
  | 0, 0, hne, _, _ => exact absurd rfl hne
  | 0, j + 1, _, _, h2 =>
    rw [flipAt_cons_zero, flipAt_cons_succ, decode_cons]
    have hs := syndrome_value_single k hk d (j + 1) (by omega) h2
    simp only [Nat.add_sub_cancel] at hs
    rw [hs, xorAll_cons, xorAll_flipAt _ _ (by omega)]
    cases xorAll (codeword k d) <;> simp
  | j + 1, 0, _, h1, _ =>
    rw [flipAt_cons_succ, flipAt_cons_zero, decode_cons]
    have hs := syndrome_value_single k hk d (j + 1) (by omega) h1
    simp only [Nat.add_sub_cancel] at hs
    rw [hs, xorAll_cons, xorAll_flipAt _ _ (by omega)]
    cases xorAll (codeword k d) <;> simp
  | a + 1, b + 1, hne, h1, h2 =>
    rw [flipAt_cons_succ, flipAt_cons_succ, decode_cons]
    have hs := syndrome_value_double k hk d (a + 1) (b + 1) (by omega) h1 (by omega) h2 (by omega)
    simp only [Nat.add_sub_cancel] at hs
    rw [hs.1, xorAll_cons, xorAll_flipAt _ _ (by rw [flipAt_length]; omega), xorAll_flipAt _ _ (by omega)]
    have hnz := hs.2
    cases xorAll (codeword k d) <;> simp [hnz]

/-- CHECKING DISABLED.  With `enable = 0` the decoder is a pure wire-through for ANY input word `w`: output bit `i`
    is the received bit at the `i`-th data position, nothing is inverted, no flag is raised. -/
theorem disabled_passthrough (w : Word) :
    decode false w = { o := (dataPositions (w.length - 1)).map fun p => w.getD p false, sec := false, ded := false } := by
  simp only [decode, bitsToNat_map_false, if_true, Bool.false_eq_true, if_false, bne_self_eq_false, Bool.false_and,
    DecOut.mk.injEq, and_true]
  unfold extractData
  rw [List.length_drop]
  apply List.map_congr_left
  intro p hp
  exact bitAt_drop_one w p (dataPositions_bounds _ p hp).1

/-- In particular the encoder's data comes back unchanged. -/
theorem disabled_roundtrip (k : Nat) (hk : 1 ≤ k) (d : Word) (hd : d.length = k) :
    decode false (encode k d) = { o := d, sec := false, ded := false } := by
  have h := extractData_codeword k hk d hd
  simp only [decode, bitsToNat_map_false, if_true, Bool.false_eq_true, if_false, bne_self_eq_false, Bool.false_and,
    DecOut.mk.injEq, and_true, encode_eq, List.drop_one, List.tail_cons]
  exact h

/-! ## The same statements on signal VALUES (what the ports carry and what the correspondence compares):
    data `x < 2^k`, code word `cw = value of ECCEncoder.o`, injected error `cw ^ (1 << j)`. -/

/-- `flipAt` is XOR with `1 << j` on the value of the signal. -/
theorem flip_is_xor_one_shl (w : Word) (j : Nat) (hj : j < w.length) :
    bitsToNat (flipAt w j) = bitsToNat w ^^^ 2 ^ j :=
  bitsToNat_flipAt w j hj

/-- Single error, value form: `ECCDecoder.o = x`, `sec = (j ≠ 0)`, `ded = 0`. -/
theorem sec_correct_value (k : Nat) (hk : 1 ≤ k) (x : Nat) (hx : x < 2 ^ k) (j : Nat) (hj : j ≤ computeN k) :
    bitsToNat (decode true (flipAt (encode k (natToBits k x)) j)).o = x ∧
    (decode true (flipAt (encode k (natToBits k x)) j)).sec = decide (j ≠ 0) ∧
    (decode true (flipAt (encode k (natToBits k x)) j)).ded = false := by
  rw [sec_correct k hk _ (natToBits_length k x) j hj]
  exact ⟨bitsToNat_natToBits k x hx, rfl, rfl⟩

/-- No error / checking disabled, value form. -/
theorem roundtrip_value (k : Nat) (hk : 1 ≤ k) (x : Nat) (hx : x < 2 ^ k) (en : Bool) :
    bitsToNat (decode en (encode k (natToBits k x))).o = x ∧
    (decode en (encode k (natToBits k x))).sec = false ∧ (decode en (encode k (natToBits k x))).ded = false := by
  cases en with
  | true =>
    rw [no_error_clean k hk _ (natToBits_length k x)]
    exact ⟨bitsToNat_natToBits k x hx, rfl, rfl⟩
  | false =>
    rw [disabled_roundtrip k hk _ (natToBits_length k x)]
    exact ⟨bitsToNat_natToBits k x hx, rfl, rfl⟩

/-! ## Non-vacuity: concrete instances (k = 4: m = 3, n = 7, 8-bit code word; k = 11: m = 4, n = 15) -/

example : computeMN 4 = (3, 7) ∧ computeMN 11 = (4, 15) ∧ computeMN 128 = (8, 136) := by decide

example : encode 4 [true, false, true, true] = [false, false, true, true, false, false, true, true] := by decide

-- a data bit (index 3), a check bit (index 4) and the parity bit (index 0) inverted: all corrected
example : decode true (flipAt (encode 4 [true, false, true, true]) 3) = ⟨[true, false, true, true], true, false⟩ := by
  decide
example : decode true (flipAt (encode 4 [true, false, true, true]) 4) = ⟨[true, false, true, true], true, false⟩ := by
  decide
example : decode true (flipAt (encode 4 [true, false, true, true]) 0) = ⟨[true, false, true, true], false, false⟩ := by
  decide
-- two inverted bits (one of them the parity bit / both in the Hamming part): flagged
example : (decode true (flipAt (flipAt (encode 4 [true, false, true, true]) 0) 5)).ded = true ∧
    (decode true (flipAt (flipAt (encode 4 [true, false, true, true]) 2) 7)).ded = true := by decide
-- the flags are not constant: THREE inverted bits are outside the property and are indeed mis-"corrected"
example : (decode true (flipAt (flipAt (flipAt (encode 4 [true, false, true, true]) 1) 2) 7)).sec = true ∧
    (decode true (flipAt (flipAt (flipAt (encode 4 [true, false, true, true]) 1) 2) 7)).o ≠ [true, false, true, true] := by
  decide
-- enable = 0: an inverted data bit passes through uncorrected and unflagged
example : decode false (flipAt (encode 4 [true, false, true, true]) 3) = ⟨[false, false, true, true], false, false⟩ := by
  decide

end Litex.C18
