import LitexModel.Export.Addr
import LitexModel.Export.Accessor
import LitexModel.Export.MemImage
/-
  C14 — exported software maps tell the truth about the hardware.  (theorems are added below)
-/
namespace Litex.Export

/-- The JSON view of a register list starts at the region origin. -/
theorem regAddrs_head (stride busword origin s : Nat) (rest : List Nat) :
    (regAddrs stride busword origin (s :: rest)).head? = some (origin, nwords busword s) := rfl

end Litex.Export
