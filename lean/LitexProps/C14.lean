import LitexProofs.Export.Decode
import LitexProofs.Export.Roundtrip
import LitexProofs.Export.MemImage
import LitexProofs.Export.Soc
import LitexProofs.Export.Adapt
import LitexProofs.Soc.AcceptedDisjoint
/-
  C14 — exported software maps tell the truth about the hardware.

  Model: `LitexModel/Export/{Addr,Accessor,MemImage,Soc,Adapt}.lean` (tied to `/repo` by `harness/props/c14.py`: real SoCs are
  built, exported and every exported address is accessed in simulation; every model function below is compared with
  what that run observed).

  Inventory: every exporter of `litex/soc/integration/export.py` / `common.py` / `builder.py` against the model
  (M = Lean model function, T = theorem, tie = how the real code is compared; "oracle" = model-independent check of c14lib).

  | exporter (file written by Builder)                  | model                                   | theorems                                   | tie |
  |-----------------------------------------------------|-----------------------------------------|--------------------------------------------|-----|
  | get_csr_json / get_csr_csv (csr.json, csr.csv)      | exportAddrs, regAddrs, jsonWords        | export_matches_decode_*, json_words_eq_hw, json_next_address, json_csv_svd_agree | `export`, `jsonwords`, `chunks` calls per SoC and on hand-made regions; every view's own addresses driven on the bus |
  | get_csr_header (csr.h): addresses, CSR_BASE         | headerAddrs                             | json_csv_svd_agree                         | `export` H part; CHeader evaluates the emitted C |
  | csr.h accessors <reg>_read/_write                   | accRead, accWriteWords, hwWords, hwWrite| accessor_roundtrip_big/_partial            | `accread/accwrite/hwwords/hwwrite`, stores/loads on the real SoC |
  | csr.h field macros / _extract / _replace            | fieldExtract                            | field_extract_exact                        | `fieldextract`; _replace: oracle only |
  | get_csr_svd (csr.svd): registers, bases, interrupts | svdAddrsK                               | json_csv_svd_agree(_kinds), irq_export_*   | `export` S part; SVD memoryRegions/constants/interrupt: oracle |
  | CSR memories (csr_bases of windows, <mem>_page)     | sramSel, sramSelWide, wideWord/wideSub  | mem_window(_paged), wide_mem_window_paged, wide_mem_roundtrip_head | `sramsel/sramwide/wideword/widesub/sweep`; wide AND paged memories driven through their page register |
  | get_mem_header (mem.h *_BASE/_SIZE, MEM_REGIONS str) | memExport, selectedSlaves               | region_export_decoded_partial              | `slaves` call; MEM_REGIONS string: oracle |
  | get_linker_regions (regions.ld), get_memory_x       | ldRegions, memoryX, ldOverlap            | linker_regions_are_published_regions, region_export_decoded_partial | `ldregions` call per SoC (regions.ld text parsed) and per CPU SoC (memory.x); _stext inside a region: oracle |
  | get_linker_output_format (output_format.ld)         | -                                       | -                                          | oracle (stub CPU's format string) |
  | window -> cell behind add_master/add_slave adapters | convS2M/M2S, axil2wb, wb2axil, slaveCell| published_reaches_cell, cell_reached_only_from_its_word, adapters_transparent | `slavecell` per store of the window walk (cell observed in the slave's memory), `chainword/masterbus/adrconv` on add_adapter alone |
  | get_soc_header (soc.h), JSON/CSV/SVD constants      | addConstants                            | constants_declared_once                    | `constants`; values: oracle |
  | <NAME>_INTERRUPT, CONFIG_CPU_INTERRUPTS             | irqConstants, irqWiring, cpuInterrupts  | irq_export_matches_wiring                  | `irq` call + event fired on the real SoC |
  | common.get_mem_data (ROM/RAM init images)           | memImage, imageByte                     | mem_image_lanes, mem_image_any_base, _gap, _length | `memimage/imagebytes`; init images read back through the bus |
  | get_git_header (git.h), get_cpu_mak (variables.mak), get_i2c_header | -                       | -                                          | not addresses of the hardware: outside the property |
  | common.get_boot_address                             | -                                       | -                                          | not modelled (not used by the Builder flow; parses the base with int(base, 0) while get_mem_data uses base 16) |
  | load_csr_json (import of another SoC's csr.json)    | -                                       | -                                          | not modelled |
-/
namespace Litex.Export

/-! ## Exported address = decoded address (32-bit CSR bus, alignment 32) -/

/-- **export_matches_decode_csr32.**  For every bank list (`pre ++ bank :: post`), every register list of the bank
    (`rpre ++ s :: rpost`), every word `j` of register `s`: the address the exporters publish for that word is
    `csr_base + paging·page + 4·index` with `index = Σ nwords(earlier registers) + j` (the flattening index of
    `GenericBank`), and a 32-bit access at that address strobes exactly simple CSR `index` of that bank and nothing
    else.  Hypotheses = the checks the build makes: pages distinct and `< n_locs` (`SoCLocHandler.add`), the bank fits
    its page (`SoC.finalize`). -/
theorem export_matches_decode_csr32
    (csrBase paging aw page s j : Nat) (pre post : List Bank) (rpre rpost : List Nat)
    (h4 : paging % 4 = 0)
    (hj : j < nwords 32 s)
    (hdist : ∀ b ∈ pre ++ post, b.page ≠ page)
    (hfit : nsimple 32 (rpre ++ s :: rpost) ≤ paging / 4)
    (hloc : page < nLocs 32 aw paging) :
    ∃ e, ((exportAddrs csrBase paging 32 32 (pre ++ ⟨page, rpre ++ s :: rpost⟩ :: post))[pre.length]?.bind
            (·[rpre.length]?)) = some e ∧
      e.2 = nwords 32 s ∧
      wordAddr 4 e j = csrBase + paging * page + 4 * (nsimple 32 rpre + j) ∧
      hwDecode 32 aw paging (pre ++ ⟨page, rpre ++ s :: rpost⟩ :: post) (wordAddr 4 e j - csrBase)
        = [(pre.length, nsimple 32 rpre + j)] := by
  refine ⟨(csrBase + paging * page + 4 * nsimple 32 rpre, nwords 32 s), ?_, rfl, ?_, ?_⟩
  · simp only [exportAddrs, List.getElem?_map]
    rw [List.getElem?_append_right (Nat.le_refl _)]
    simp only [Nat.sub_self, List.getElem?_cons_zero, Option.map_some, Option.bind_some, regionOrigin]
    exact regAddrs_getElem? _ _ _ _ _ _
  · simp only [wordAddr]; omega
  · have hidx : nsimple 32 rpre + j < nsimple 32 (rpre ++ s :: rpost) := by
      rw [nsimple_append, nsimple_cons]; omega
    have hoff : wordAddr 4 (csrBase + paging * page + 4 * nsimple 32 rpre, nwords 32 s) j - csrBase
        = paging * page + 4 * (nsimple 32 rpre + j) := by
      simp only [wordAddr]; omega
    rw [hoff]
    rw [nLocs_32 aw paging h4] at hloc
    have hlt : nsimple 32 rpre + j < paging / 4 := Nat.lt_of_lt_of_le hidx hfit
    simp only [hwDecode, show (32 : Nat) ≠ 8 by decide, if_false]
    rw [bridgeAdr_32 aw paging page _ h4 hlt hloc]
    exact decode_unique paging 32 page _ pre post _ hdist hlt hidx

/-- Non-vacuity: two banks (pages 0 and 5), second register (40 bit, two words) of the second bank, word 1. -/
example : ∃ e, ((exportAddrs 0xf0000000 0x800 32 32 [⟨0, [2, 32, 32]⟩, ⟨5, [8, 40, 17]⟩])[1]?.bind (·[1]?)) = some e ∧
    wordAddr 4 e 1 = 0xf0000000 + 0x800 * 5 + 4 * 2 ∧
    hwDecode 32 14 0x800 [⟨0, [2, 32, 32]⟩, ⟨5, [8, 40, 17]⟩] (wordAddr 4 e 1 - 0xf0000000) = [(1, 2)] := by
  refine ⟨(0xf0000000 + 0x800 * 5 + 4, 2), by decide, by decide, by decide⟩

/-- Negative witness (known finding `C14-csr8-stride`): with an 8-bit CSR bus the exported address of the second
    register (`base + 4`) does not select simple CSR 1 of its bank: the hardware packs bytes contiguously, so the
    32-bit access strobes simple CSRs 4..7. -/
example : hwDecode 8 14 0x800 [⟨0, [8, 8, 32, 32]⟩] (wordAddr 4 (4, 1) 0) = [(0, 4), (0, 5), (0, 6), (0, 7)] ∧
    ((exportAddrs 0 0x800 32 8 [⟨0, [8, 8, 32, 32]⟩])[0]?.bind (·[1]?)) = some (4, 1) := by decide

/-- Negative witness for `hfit` (fixed finding `C14-bank-exceeds-page`): a 257-word bank (one 8224-bit register) in a 256-word page
    exports word 256 at the address of the next bank's first register; the build now refuses such a bank (`accepts`). -/
example : hwDecode 32 14 0x400 [⟨0, [8224]⟩, ⟨1, [32]⟩] (0x400 * 0 + 4 * 256) = [(1, 0)] ∧
    accepts 32 14 0x400 32 [⟨0, [8224]⟩, ⟨1, [32]⟩] = false := by decide

/-- Negative witness for `hloc` (fixed finding `C14-csr-page-eq-nlocs`): page `n_locs` lies outside the CSR window
    (its address wraps to page 0 in the bridge); the build refuses it. -/
example : nLocs 32 14 0x800 = 32 ∧ hwDecode 32 14 0x800 [⟨32, [8]⟩] (0x800 * 32) = [] ∧
    accepts 32 14 0x800 32 [⟨32, [8]⟩] = false := by decide

/-- Negative witness (known finding `C14-axil-wide-bus-read-side-effects`): on an `axi-lite`/`axi` SoC with a 64-bit
    bus the AXI-Lite 64→32 down-converter reads both halves of the bus word, so a load from the exported address of
    simple CSR 0 also strobes simple CSR 1 ("and nothing else" fails for loads); stores are exact. -/
example : hwDecodeWide 2 32 14 0x800 [⟨0, [32, 32]⟩] 0 = [(0, 0), (0, 1)] ∧
    hwDecodeWide 2 32 14 0x800 [⟨0, [32, 32]⟩] 4 = [(0, 0), (0, 1)] ∧
    hwDecodeWide 1 32 14 0x800 [⟨0, [32, 32]⟩] 4 = [(0, 1)] := by decide

/- Full statement of DESIGN §7.C14 (does NOT hold on the code):
     theorem export_matches_decode : ∀ busword ≤ 32, ∀ ratio, … hwDecodeWide ratio busword … = [(bank, index)]
   It fails for `busword = 8` (known finding `C14-csr8-stride`, witness above, exact extent in
   `csr8_stride_mismatch`) and for loads with `ratio = 2` (known finding `C14-axil-wide-bus-read-side-effects`,
   witness above).  Proved: the statement under the two decidable hypotheses that exclude those regions. -/
/-- **export_matches_decode_partial**: `export_matches_decode` for every CSR bus width / bus ratio outside the two
    known-finding regions (`busword = 32`; `ratio ≤ 1`, i.e. wishbone, a 32-bit bus, or a store). -/
theorem export_matches_decode_partial
    (busword ratio csrBase paging aw page s j : Nat) (pre post : List Bank) (rpre rpost : List Nat)
    (hbw : busword = 32) (hratio : ratio ≤ 1)
    (h4 : paging % 4 = 0)
    (hj : j < nwords busword s)
    (hdist : ∀ b ∈ pre ++ post, b.page ≠ page)
    (hfit : nsimple busword (rpre ++ s :: rpost) ≤ paging / 4)
    (hloc : page < nLocs 32 aw paging) :
    ∃ e, ((exportAddrs csrBase paging 32 busword (pre ++ ⟨page, rpre ++ s :: rpost⟩ :: post))[pre.length]?.bind
            (·[rpre.length]?)) = some e ∧
      e.2 = nwords busword s ∧
      wordAddr 4 e j = csrBase + paging * page + 4 * (nsimple busword rpre + j) ∧
      hwDecodeWide ratio busword aw paging (pre ++ ⟨page, rpre ++ s :: rpost⟩ :: post) (wordAddr 4 e j - csrBase)
        = [(pre.length, nsimple busword rpre + j)] := by
  subst hbw
  simp only [hwDecodeWide, hratio, if_true]
  exact export_matches_decode_csr32 csrBase paging aw page s j pre post rpre rpost h4 hj hdist hfit hloc

/-- What the build accepts satisfies the hypotheses of `export_matches_decode_partial` for each of its banks. -/
theorem accepts_fits (aw paging : Nat) (banks : List Bank) (h : accepts 32 aw paging 32 banks = true)
    (b : Bank) (hb : b ∈ banks) : b.page < nLocs 32 aw paging ∧ nsimple 32 b.regs ≤ paging / 4 := by
  simp only [accepts, Bool.and_eq_true, List.all_eq_true, decide_eq_true_eq] at h
  exact h.1 b hb

/-- **csr8_stride_mismatch** (the exact extent of known finding `C14-csr8-stride`).  With an 8-bit CSR bus the
    simple CSR `idx` of the bank at `page` answers at byte offset `(paging/4)·page + idx` of the CSR window (and
    nothing else does), while every exporter publishes `paging·page + 4·idx`: the two coincide only for the very
    first simple CSR of page 0. -/
theorem csr8_stride_mismatch (paging aw page idx : Nat) (pre post : List Bank) (regs : List Nat)
    (h4 : paging % 4 = 0) (hdist : ∀ b ∈ pre ++ post, b.page ≠ page)
    (hidx : idx < paging / 4) (hn : idx < nsimple 8 regs) (hloc : page < 2 ^ aw / (paging / 4)) :
    decodeFrom paging 8 (((paging / 4) * page + idx) % 2 ^ aw) 0 (pre ++ ⟨page, regs⟩ :: post) = [(pre.length, idx)] ∧
    (paging * page + 4 * idx = (paging / 4) * page + idx ↔ page = 0 ∧ idx = 0) := by
  constructor
  · have h2 : (page + 1) * (paging / 4) ≤ 2 ^ aw :=
      Nat.le_trans (Nat.mul_le_mul_right _ hloc) (Nat.div_mul_le_self _ _)
    rw [Nat.add_mul, Nat.one_mul] at h2
    have hlt : paging / 4 * page + idx < 2 ^ aw := by rw [Nat.mul_comm]; omega
    rw [Nat.mod_eq_of_lt hlt, Nat.mul_comm]
    exact decode_unique paging 8 page idx pre post regs hdist hidx hn
  · have hp : paging = 4 * (paging / 4) := by omega
    have hP : 0 < paging / 4 := by omega
    constructor
    · intro h
      rw [hp, Nat.mul_assoc] at h
      simp only [Nat.mul_div_cancel_left _ (by decide : 0 < 4)] at h
      have ht : paging / 4 * page = 0 := by omega
      rcases Nat.mul_eq_zero.1 ht with h0 | h0
      · omega
      · exact ⟨h0, by omega⟩
    · rintro ⟨rfl, rfl⟩; simp

/-- **mem_window.**  A CSR memory (width ≤ bus word) that fits one page — including one that fills it exactly — has
    no page register, and word `i` of the memory answers at `base + 4·i` of the exported window
    `csr_base + paging·page` for every `i < depth`, whatever a page value would be (32-bit CSR bus). -/
theorem mem_window (paging aw page depth pv i k : Nat) (h4 : paging % 4 = 0)
    (hk : paging / 4 = 2 ^ k) (hk0 : 0 < k) (hi : i < depth) (hdepth : depth ≤ paging / 4) (hloc : page < nLocs 32 aw paging) :
    sramPageBits paging depth = 0 ∧
    sramSel paging page depth pv (bridgeAdr 32 aw (paging * page + 4 * i)) = some i := by
  rw [nLocs_32 aw paging h4] at hloc
  have hlt : i < paging / 4 := by omega
  have hP : 0 < paging / 4 := by omega
  have hpb : sramPageBits paging depth = 0 := by
    unfold sramPageBits sramPages clog2
    have : (depth + paging / 4 - 1) / (paging / 4) ≤ 1 := by
      apply Nat.le_of_lt_succ
      rw [Nat.div_lt_iff_lt_mul hP]; omega
    simp [this]
  refine ⟨hpb, ?_⟩
  rw [bridgeAdr_32 aw paging page i h4 hlt hloc]
  have h1 : (page * (paging / 4) + i) / (paging / 4) = page := by
    rw [Nat.mul_comm, Nat.mul_add_div hP, Nat.div_eq_of_lt hlt, Nat.add_zero]
  unfold sramSel
  rw [h1, if_pos rfl, hpb]
  simp only [Nat.sub_zero, Nat.pow_zero, Nat.mod_one, Nat.zero_mul, Nat.add_zero, Option.some.injEq]
  have hd : depth - 1 < 2 ^ bitsFor (depth - 1) := Nat.lt_log2_self
  have hab : bitsFor (depth - 1) ≤ k := by
    unfold bitsFor
    by_cases h0 : depth - 1 = 0
    · rw [h0]; simp [Nat.log2_zero]; omega
    · have : (depth - 1).log2 < k := (Nat.log2_lt h0).2 (by rw [← hk]; omega)
      omega
  have hsplit : 2 ^ k = 2 ^ bitsFor (depth - 1) * 2 ^ (k - bitsFor (depth - 1)) := by
    rw [← Nat.pow_add]; congr 1; omega
  rw [hk, hsplit, ← Nat.mul_assoc, Nat.mul_comm page, Nat.mul_assoc, Nat.mul_add_mod]
  exact Nat.mod_eq_of_lt (by omega)

/-- **mem_window_paged.**  A CSR memory deeper than a page is reached through its `<mem>_page` register: with the
    register holding `w / (paging/4)`, word `w` answers at `base + 4·(w mod paging/4)`.  Hypothesis `hwin`: the
    window the hardware cuts out (`2^(len(port.adr) - page_bits)` words) is one page — decidable, and true for every
    depth the correspondence grid builds (see the examples). -/
theorem mem_window_paged (paging aw page depth w : Nat) (h4 : paging % 4 = 0)
    (hwin : 2 ^ (bitsFor (depth - 1) - sramPageBits paging depth) = paging / 4)
    (hpv : w / (paging / 4) < 2 ^ sramPageBits paging depth) (hloc : page < nLocs 32 aw paging) :
    sramSel paging page depth (w / (paging / 4)) (bridgeAdr 32 aw (paging * page + 4 * (w % (paging / 4)))) = some w := by
  rw [nLocs_32 aw paging h4] at hloc
  have hP : 0 < paging / 4 := by rw [← hwin]; exact Nat.two_pow_pos _
  have hlt : w % (paging / 4) < paging / 4 := Nat.mod_lt _ hP
  rw [bridgeAdr_32 aw paging page _ h4 hlt hloc]
  have h1 : (page * (paging / 4) + w % (paging / 4)) / (paging / 4) = page := by
    rw [Nat.mul_comm, Nat.mul_add_div hP, Nat.div_eq_of_lt hlt, Nat.add_zero]
  unfold sramSel
  rw [h1, if_pos rfl]
  simp only [hwin, Option.some.injEq]
  rw [Nat.mod_eq_of_lt hpv, Nat.mul_comm page, Nat.mul_add_mod, Nat.mod_mod, Nat.mul_comm]
  exact Nat.mod_add_div w (paging / 4)

/-- Non-vacuity: a 256-word memory exactly filling a 0x400 page (last word, no page register); paged memories of
    300, 512 and 768 words at paging 0x400 satisfy `hwin`, and word 300 of the 768-word one is page 1, offset 44. -/
example : 0x400 / 4 = 2 ^ 8 ∧ sramPageBits 0x400 256 = 0 ∧ sramSel 0x400 1 256 0 (bridgeAdr 32 14 (0x400 * 1 + 4 * 255)) = some 255 ∧
    2 ^ (bitsFor (300 - 1) - sramPageBits 0x400 300) = 0x400 / 4 ∧
    2 ^ (bitsFor (512 - 1) - sramPageBits 0x400 512) = 0x400 / 4 ∧
    2 ^ (bitsFor (768 - 1) - sramPageBits 0x400 768) = 0x400 / 4 ∧
    sramSel 0x400 2 768 (300 / 256) (bridgeAdr 32 14 (0x400 * 2 + 4 * (300 % 256))) = some 300 := by decide

/-- **wide_mem_window_paged.**  A CSR memory whose word is `n` bus words wide AND that is deeper than a page: CSR-word index
    `i = w·n + k` (sub-word `k` of memory word `w`) answers at `base + 4·(i mod paging/4)` with the `<mem>_page` register holding
    `i / (paging/4)`.  Hypothesis `hwin`: the window the hardware cuts out (`2^(len(port.adr) - page_bits)` memory words of `n`
    sub-words) is one page — decidable, true for every memory the grid builds (see the example). -/
theorem wide_mem_window_paged (paging aw page depth n i : Nat) (h4 : paging % 4 = 0) (hn : 0 < n)
    (hwin : n * 2 ^ (bitsFor (depth - 1) - clog2 ((depth * n + paging / 4 - 1) / (paging / 4))) = paging / 4)
    (hpv : i / (paging / 4) < 2 ^ clog2 ((depth * n + paging / 4 - 1) / (paging / 4))) (hloc : page < nLocs 32 aw paging) :
    sramSelWide paging page depth n (i / (paging / 4)) (bridgeAdr 32 aw (paging * page + 4 * (i % (paging / 4))))
      = some (i / n, i % n) := by
  rw [nLocs_32 aw paging h4] at hloc
  have hM := Nat.two_pow_pos (bitsFor (depth - 1) - clog2 ((depth * n + paging / 4 - 1) / (paging / 4)))
  generalize hMd : 2 ^ (bitsFor (depth - 1) - clog2 ((depth * n + paging / 4 - 1) / (paging / 4))) = M at hwin hM
  have hP : 0 < paging / 4 := by rw [← hwin]; exact Nat.mul_pos hn hM
  have hlt : i % (paging / 4) < paging / 4 := Nat.mod_lt _ hP
  rw [bridgeAdr_32 aw paging page _ h4 hlt hloc]
  have h1 : (page * (paging / 4) + i % (paging / 4)) / (paging / 4) = page := by
    rw [Nat.mul_comm, Nat.mul_add_div hP, Nat.div_eq_of_lt hlt, Nat.add_zero]
  unfold sramSelWide
  rw [h1, if_pos rfl]
  simp only [hMd, Nat.mod_eq_of_lt hpv, Option.some.injEq, Prod.mk.injEq]
  generalize hr : i % (paging / 4) = r at hlt
  have hi : i = n * (M * (i / (paging / 4))) + r := by
    have := Nat.div_add_mod i (paging / 4); rw [hr] at this
    have e : paging / 4 * (i / (paging / 4)) = n * (M * (i / (paging / 4))) := by rw [← Nat.mul_assoc, hwin]
    omega
  have hrn : r / n < M := Nat.div_lt_of_lt_mul (by rw [hwin]; exact hlt)
  have ha : page * (paging / 4) + r = n * (M * page) + r := by
    have e : page * (paging / 4) = n * (M * page) := by rw [← hwin, Nat.mul_comm page, Nat.mul_assoc]
    omega
  constructor
  · rw [ha, Nat.mul_add_div hn, Nat.mul_add_mod, Nat.mod_eq_of_lt hrn]
    conv_rhs => rw [hi, Nat.mul_add_div hn]
    rw [Nat.add_comm, Nat.mul_comm]
  · rw [ha, Nat.mul_add_mod]
    conv_rhs => rw [hi, Nat.mul_add_mod]

/-- Non-vacuity: 96 and 65 words of 4 CSR words in a 256-word page (two pages): `hwin` holds, and CSR-word index 300 of the first
    (memory word 75, sub-word 0) is page 1, offset 44. -/
example : 4 * 2 ^ (bitsFor (96 - 1) - clog2 ((96 * 4 + 0x400 / 4 - 1) / (0x400 / 4))) = 0x400 / 4 ∧
    4 * 2 ^ (bitsFor (65 - 1) - clog2 ((65 * 4 + 0x400 / 4 - 1) / (0x400 / 4))) = 0x400 / 4 ∧
    sramSelWide 0x400 3 96 4 (300 / 256) (bridgeAdr 32 14 (0x400 * 3 + 4 * (300 % 256))) = some (75, 0) := by decide

/-- **wide_mem_roundtrip.**  A CSR memory word `n` bus words wide: writing sub-words `x₀ … xₙ₋₁` at the successive
    addresses assembles a word from which sub-word 0 (the first address) reads back as `x₀` — for every width, every
    list (the general digit lemma is the accessor Horner proof; here the head, the position seeded change C14-r3m3
    permutes), and the whole round trip on concrete 4- and 8-word memories. -/
theorem wide_mem_roundtrip_head (dw x : Nat) (rest : List Nat) (hx : x < 2 ^ dw)
    (hrest : wideWord dw rest < 2 ^ (dw * rest.length)) :
    wideSub dw (rest.length + 1) (wideWord dw (x :: rest)) 0 = x := by
  unfold wideSub
  simp only [wideWord, Nat.add_sub_cancel, Nat.sub_zero, Nat.mod_eq_of_lt hx]
  rw [Nat.mul_comm, Nat.mul_add_div (Nat.two_pow_pos _), Nat.div_eq_of_lt hrest, Nat.add_zero, Nat.mod_eq_of_lt hx]

example : (List.range 4).map (wideSub 8 4 (wideWord 8 [0x11, 0x22, 0x33, 0x44])) = [0x11, 0x22, 0x33, 0x44] ∧
    wideWord 8 [0x11, 0x22, 0x33, 0x44] = 0x11223344 ∧
    (List.range 8).map (wideSub 32 8 (wideWord 32 [1, 2, 3, 4, 5, 6, 7, 8])) = [1, 2, 3, 4, 5, 6, 7, 8] ∧
    sramSelWide 0x400 3 16 4 0 (3 * 256 + 4 * 5 + 2) = some (5, 2) := by decide

/-! ## Generated accessors (big ordering) -/

/-- **accessor_roundtrip_big (read).**  For every register size (any number of words for which a C type exists, i.e.
    up to 64 bit), every byte-multiple bus word up to 32 bit and every register value `v`: the generated
    `<reg>_read()` evaluated on the words the hardware returns at the successive exported addresses yields `v`. -/
theorem accessor_read_big (bw size ct v : Nat) (hbw : 0 < bw) (hbw8 : bw % 8 = 0) (hbw32 : bw ≤ 32)
    (hs : 0 < size) (hct : ctypeBits (nwords bw size) bw = some ct) (hv : v < 2 ^ size) :
    accRead bw ct (hwWords true bw size v) = v := by
  obtain ⟨hfit, _⟩ := ctype_fits _ _ _ hbw8 hct
  rw [hwWords_big, accRead_descList bw ct _ _ hbw32 (fun i _ => hwWord_lt bw size v i)
    (Nat.pow_le_pow_right (by decide) hfit)]
  exact sumWords_hwWord bw size v hbw hs hv

/-- **accessor_roundtrip_big (write).**  After the stores of the generated `<reg>_write(v)` (ascending addresses),
    the storage signal holds `v` — from every previous register state, with and without `atomic_write`. -/
theorem accessor_write_big (bw size ct v : Nat) (atomic : Bool) (st : RegSt)
    (hbw : 0 < bw) (hbw8 : bw % 8 = 0) (hbw32 : bw ≤ 32)
    (hs : 0 < size) (hct : ctypeBits (nwords bw size) bw = some ct) (hv : v < 2 ^ size) :
    (hwWrite true atomic bw size st (accWriteWords bw ct (nwords bw size) v)).value bw size = v := by
  obtain ⟨hfit, _⟩ := ctype_fits _ _ _ hbw8 hct
  obtain ⟨_, h2, h3⟩ := nwords_spec bw size hbw hs
  have hvct : v < 2 ^ ct :=
    Nat.lt_of_lt_of_le hv (Nat.pow_le_pow_right (by decide) (Nat.le_trans h2 hfit))
  unfold hwWrite RegSt.value
  rw [accWriteWords_desc, hwWriteFrom_desc atomic bw size _ _ st 0 (by omega)]
  have key : ∀ k, k < nwords bw size →
      ((descList (fun i => i) (nwords bw size)).foldl
        (fun s i => s.write bw size atomic i (((v % 2 ^ ct) >>> (i * bw)) % 2 ^ 32)) st).words k
        = hwWord bw size v k := by
    intro k hk
    by_cases hat : atomic = true ∧ nwords bw size > 1
    · obtain ⟨m, hm⟩ : ∃ m, nwords bw size = m + 1 := ⟨nwords bw size - 1, by omega⟩
      rw [hat.1, hm, write_desc_atomic bw size _ (by omega) m st]
      simp only [show k < m + 1 by omega, if_true]
      exact store_word bw size ct v k hbw32 hvct
    · have : (fun (s : RegSt) i => s.write bw size atomic i (((v % 2 ^ ct) >>> (i * bw)) % 2 ^ 32))
          = fun s i => s.write bw size false i (((v % 2 ^ ct) >>> (i * bw)) % 2 ^ 32) := by
        funext s i; exact write_not_atomic bw size atomic hat s i _
      rw [this, write_desc_plain bw size _ _ st]
      simp only [hk, if_true]
      exact store_word bw size ct v k hbw32 hvct
  rw [sumWords_congr bw _ (hwWord bw size v) _ key]
  exact sumWords_hwWord bw size v hbw hs hv

/-- Non-vacuity: a 40-bit register on the 32-bit CSR bus (two words, `uint64_t` accessors), atomic, from a dirty
    state; and a 16-bit register on an 8-bit CSR bus. -/
example : ctypeBits (nwords 32 40) 32 = some 64 ∧
    accRead 32 64 (hwWords true 32 40 0x789abcdef0) = 0x789abcdef0 ∧
    (hwWrite true true 32 40 (RegSt.ofValue 32 40 0x1122334455 0xff) (accWriteWords 32 64 2 0x789abcdef0)).value 32 40
      = 0x789abcdef0 ∧
    ctypeBits (nwords 8 16) 8 = some 16 ∧ accRead 8 16 (hwWords true 8 16 0xbeef) = 0xbeef := by decide

/-- **accessor_roundtrip_little is false** (known finding `C14-little-ordering-accessors`): the exporters ignore
    `csr_ordering`.  With ordering `little` the hardware presents the least significant word at the lowest address,
    the generated reader still composes most-significant-first and the generated writer stores the high word at the
    low address: a 40-bit register holding `0x789abcdef0` reads `0x9abcdef000000078`, and `write(0x789abcdef0)`
    leaves `0xf012345678`-style garbage (here from the all-zero state: `0xf000000078`). -/
example : accRead 32 64 (hwWords false 32 40 0x789abcdef0) ≠ 0x789abcdef0 ∧
    (hwWrite false false 32 40 (RegSt.ofValue 32 40 0 0) (accWriteWords 32 64 2 0x789abcdef0)).value 32 40
      ≠ 0x789abcdef0 := by decide

/-- **accessor_roundtrip_big**: read and write round trips together (sizes up to 64 bit, i.e. whenever accessors are
    generated). -/
theorem accessor_roundtrip_big (bw size ct v : Nat) (atomic : Bool) (st : RegSt)
    (hbw : 0 < bw) (hbw8 : bw % 8 = 0) (hbw32 : bw ≤ 32)
    (hs : 0 < size) (hct : ctypeBits (nwords bw size) bw = some ct) (hv : v < 2 ^ size) :
    accRead bw ct (hwWords true bw size v) = v ∧
    (hwWrite true atomic bw size st (accWriteWords bw ct (nwords bw size) v)).value bw size = v :=
  ⟨accessor_read_big bw size ct v hbw hbw8 hbw32 hs hct hv,
   accessor_write_big bw size ct v atomic st hbw hbw8 hbw32 hs hct hv⟩

/- Full statement for every ordering (does NOT hold: `accessor_roundtrip_little` is false, witness above):
     theorem accessor_roundtrip : ∀ big, accRead bw ct (hwWords big bw size v) = v ∧ (hwWrite big …).value = v  -/
/-- **accessor_roundtrip_partial**: the round trips for every ordering outside the known-finding region
    `ordering = little ∧ nwords > 1`. -/
theorem accessor_roundtrip_partial (big : Bool) (bw size ct v : Nat) (atomic : Bool) (st : RegSt)
    (hord : big = true ∨ nwords bw size = 1)
    (hbw : 0 < bw) (hbw8 : bw % 8 = 0) (hbw32 : bw ≤ 32)
    (hs : 0 < size) (hct : ctypeBits (nwords bw size) bw = some ct) (hv : v < 2 ^ size) :
    accRead bw ct (hwWords big bw size v) = v ∧
    (hwWrite big atomic bw size st (accWriteWords bw ct (nwords bw size) v)).value bw size = v := by
  rcases hord with rfl | h1
  · exact accessor_roundtrip_big bw size ct v atomic st hbw hbw8 hbw32 hs hct hv
  · have hr := accessor_roundtrip_big bw size ct v atomic st hbw hbw8 hbw32 hs hct hv
    have hw1 : accWriteWords bw ct (nwords bw size) v = [((v % 2 ^ ct) >>> ((1 - 0 - 1) * bw)) % 2 ^ 32] := by
      rw [h1]; rfl
    constructor
    · cases big
      · rw [show hwWords false bw size v = hwWords true bw size v from by simp [hwWords, wordIdx, h1]]; exact hr.1
      · exact hr.1
    · rw [hw1] at hr ⊢
      rw [hwWrite_single big atomic bw size st _ h1]
      exact hr.2

/-- **field_extract_exact.**  The generated `<field>_extract` macro returns bits `[offset, offset+size)` of the
    32-bit register word. -/
theorem field_extract_exact (offset size word : Nat) (hw : word < 2 ^ 32) :
    fieldExtract offset size word = slice offset size word := by
  unfold fieldExtract slice
  rw [Nat.mod_eq_of_lt hw, Nat.and_two_pow_sub_one_eq_mod, Nat.shiftRight_eq_div_pow]

/-! ## JSON, CSV, C header and SVD denote the same addresses -/

/-- **json_csv_svd_agree.**  For every bank list: (1) `csr.h` (`get_csr_header` called with a `csr_base` argument not
    above the CSR base, as `builder.py` does with the CSR base itself) publishes for every register the `(address,
    nwords)` of the JSON/CSV export (the CSV is printed from the JSON dictionary); (2) for every bank whose
    registers have positive sizes the SVD register list is exactly the list of word addresses `addr + 4·j` of the
    JSON export (SVD's hard-coded `+4` = `alignment/8` because `SoC` fixes `alignment = 32`). -/
theorem json_csv_svd_agree (csrBaseArg csrBase paging bw : Nat) (banks : List Bank) (hbw : 0 < bw)
    (harg : csrBaseArg ≤ csrBase) :
    headerAddrs csrBaseArg csrBase paging 32 bw banks = exportAddrs csrBase paging 32 bw banks ∧
    ∀ b ∈ banks, (∀ s ∈ b.regs, 0 < s) →
      svdAddrs csrBase paging bw b = flatWordAddrs 4 (regAddrs (32 / 8) bw (regionOrigin csrBase paging b) b.regs) := by
  constructor
  · unfold headerAddrs exportAddrs
    apply List.map_congr_left
    intro b _
    rw [regAddrs_shift]
    congr 1
    unfold regionOrigin; omega
  · intro b _ hpos
    unfold svdAddrs
    have := svdOffsets_flat bw (regionOrigin csrBase paging b) hbw b.regs 0 hpos
    simpa using this

/-- Non-vacuity (the SoC of the first experiment): three banks, multi-word registers. -/
example : headerAddrs 0 0 0x800 32 32 [⟨0, [2, 32, 32]⟩, ⟨2, [8, 40, 33, 17]⟩]
      = [[(0, 1), (4, 1), (8, 1)], [(4096, 1), (4100, 2), (4108, 2), (4116, 1)]] ∧
    svdAddrs 0 0x800 32 ⟨2, [8, 40, 33, 17]⟩ = [4096, 4100, 4104, 4108, 4112, 4116] := by decide

/-- The C header was wrong exactly where `harg`'s analogue failed before fix 13a914e (offsets relative to the first
    region instead of the printed base); with the fixed code a base argument above the CSR base is the only way to
    disagree (Python would print a negative offset; `Nat` subtraction truncates). -/
example : headerAddrs 0x2000 0 0x800 32 32 [⟨3, [8]⟩] ≠ exportAddrs 0 0x800 32 32 [⟨3, [8]⟩] := by decide

/-! ## Published memory window -> storage cell, through `SoCBusHandler.add_adapter` (mixed bus standards) -/

/-- **published_reaches_cell.**  For EVERY master kind (wishbone word / wishbone byte / AXI-Lite-AXI), EVERY slave kind
    (word-addressed wishbone core such as `wishbone.SRAM` or a user register file, byte-addressed wishbone core,
    AXI-Lite/AXI core), both SoC bus addressings (wishbone = word, axi-lite/axi = byte), every bus width `8·2^shB`,
    slave width `8·2^shS ≤` bus width, address width and window of `2^cb` cells aligned on its size (`origin = m·2^(shS+cb)`,
    `SoCRegion`'s alignment rule): an access at published address `origin + 2^shS·k + o` (`o` a byte inside the word) reaches
    cell `k` of the slave — through `add_master`'s "m2s" adapters, the interconnect, and `add_slave`'s "s2m" adapters
    (`bus_addressing_convert`'s four slice assignments and the `AXILite2Wishbone`/`Wishbone2AXILite` shifts). -/
theorem published_reaches_cell (mk : MasterKind) (kind : SlaveKind) (busByte : Bool) (shS shB aw cb m k o : Nat)
    (h1 : shS ≤ shB) (h2 : shB ≤ aw) (hk : k < 2 ^ cb) (ho : o < 2 ^ shS)
    (ha : m * 2 ^ (shS + cb) + 2 ^ shS * k + o < 2 ^ aw) :
    slaveCell mk kind busByte shS shB aw cb (m * 2 ^ (shS + cb) + 2 ^ shS * k + o) = k := by
  rw [slaveCell_eq mk kind busByte shS shB aw cb _ ha h1 h2]
  have e : m * 2 ^ (shS + cb) + 2 ^ shS * k + o = 2 ^ shS * (m * 2 ^ cb + k) + o := by
    rw [Nat.pow_add, Nat.mul_add, Nat.mul_left_comm]
  rw [e, Nat.mul_add_div (Nat.two_pow_pos shS), Nat.div_eq_of_lt ho, Nat.add_zero, Nat.add_comm,
    Nat.add_mul_mod_self_right, Nat.mod_eq_of_lt hk]

/-- **cell_reached_only_from_its_word** (the converse).  Inside the published window `[origin, origin + 2^(shS+cb))` the cell
    an access reaches is `(a - origin) / 2^shS`: cell `k` answers exactly for the byte addresses of published word `k`
    (no aliasing inside the window, nothing of the window is unreachable). -/
theorem cell_reached_only_from_its_word (mk : MasterKind) (kind : SlaveKind) (busByte : Bool) (shS shB aw cb origin a : Nat)
    (h1 : shS ≤ shB) (h2 : shB ≤ aw) (horg : origin % 2 ^ (shS + cb) = 0)
    (hlo : origin ≤ a) (hhi : a < origin + 2 ^ (shS + cb)) (ha : a < 2 ^ aw) :
    slaveCell mk kind busByte shS shB aw cb a = (a - origin) / 2 ^ shS := by
  obtain ⟨m, hm⟩ : ∃ m, origin = m * 2 ^ (shS + cb) := ⟨origin / 2 ^ (shS + cb), by
    have := Nat.div_add_mod origin (2 ^ (shS + cb)); rw [horg, Nat.add_zero, Nat.mul_comm] at this; exact this.symm⟩
  have hP := Nat.two_pow_pos shS
  have hd : a - origin < 2 ^ shS * 2 ^ cb := by rw [← Nat.pow_add]; omega
  have hk : (a - origin) / 2 ^ shS < 2 ^ cb := Nat.div_lt_of_lt_mul hd
  have ho : (a - origin) % 2 ^ shS < 2 ^ shS := Nat.mod_lt _ hP
  have hsplit : a = m * 2 ^ (shS + cb) + 2 ^ shS * ((a - origin) / 2 ^ shS) + (a - origin) % 2 ^ shS := by
    have := Nat.div_add_mod (a - origin) (2 ^ shS); omega
  have := published_reaches_cell mk kind busByte shS shB aw cb m _ _ h1 h2 hk ho (by rw [← hsplit]; exact ha)
  rw [← hsplit] at this
  exact this

/-- Non-vacuity: a 64 x 32-bit `wishbone.SRAM` at 0x30000000 on an axi-lite SoC, AXI-Lite master: published word 5 is cell 5,
    the last word is cell 63; a 32-bit wishbone slave on a 64-bit axi-lite bus (down-converter): word 5 is cell 5; a
    byte-addressed wishbone core on a wishbone SoC driven by an AXI-Lite master.  Negative witness for the alignment
    hypothesis: the same RAM at 0x30000040 answers published word 0 with cell 16.  And why the `[shift:]` slice of
    `bus_addressing_convert` matters (what seeded change C14-r4m2 removed): without it (shift 0) word 1 lands in cell 4. -/
example : slaveCell .axil .wbword true 2 2 32 6 (0x30000000 + 4 * 5) = 5 ∧
    slaveCell .axil .wbword true 2 2 32 6 (0x30000000 + 4 * 63 + 3) = 63 ∧
    slaveCell .axil .wbword true 2 3 32 6 (0x30000000 + 4 * 5) = 5 ∧
    slaveCell .axil .wbbyte false 2 2 32 6 (0x40000000 + 4 * 9) = 9 ∧
    slaveCell .wbword .axil false 3 3 32 5 (0x50000000 + 8 * 31) = 31 ∧
    slaveCell .axil .wbword true 2 2 32 6 0x30000040 = 16 ∧
    convS2M true false 2 30 0x30000004 % 2 ^ 6 = 1 ∧ convS2M true false 0 30 0x30000004 % 2 ^ 6 = 4 := by decide

/-- **adapters_transparent**: the two directions compose to the identity on bus words — what a word-addressed master
    presents arrives unchanged at a word-addressed slave across a byte-addressed bus, and a byte-addressed slave on a
    word-addressed bus sees the word's base byte address. -/
theorem adapters_transparent (sh aw w : Nat) (hw : w < 2 ^ (aw - sh)) :
    convS2M true false sh (aw - sh) (convM2S true false sh aw w) = w ∧
    convS2M false true sh aw w = w * 2 ^ sh ∧
    convM2S false true sh (aw - sh) (convS2M false true sh aw w) = w := by
  have hP := Nat.two_pow_pos sh
  refine ⟨?_, ?_, ?_⟩ <;>
    simp [convS2M, convM2S, Nat.mod_eq_of_lt hw, Nat.mul_div_cancel _ hP]

/-! ## JSON/CSV word count = the hardware register's word count -/

/-- **json_words_eq_hw.**  For EVERY register width and bus word: the `size` that `get_csr_json`/`get_csr_csv` publish (and by
    which the address of the next register advances) is the number of simple CSRs `CSRStorage/CSRStatus.do_finalize` cuts
    the register into; those simple CSRs are non-empty, at most a bus word wide and hold exactly the register's `size`
    bits; no smaller word count can hold the register (so the ceiling — not the floor — is forced); and it is the
    `nwords` the address theorems above run on. -/
theorem json_words_eq_hw (bw size : Nat) (hbw : 0 < bw) :
    jsonWords bw size = (hwChunks bw size).length ∧
    (hwChunks bw size).sum = size ∧
    (∀ c ∈ hwChunks bw size, 0 < c ∧ c ≤ bw) ∧
    (∀ n, n * bw < size → n < jsonWords bw size) ∧
    jsonWords bw size = nwords bw size ∧
    (∀ big, (hwChunksAddr big bw size).length = jsonWords bw size) := by
  have hcover : size ≤ (size + bw - 1) / bw * bw := by
    have := Nat.lt_div_mul_add (a := size + bw - 1) hbw; omega
  have hmin : ∀ i, i < (size + bw - 1) / bw → i * bw < size := by
    intro i hi
    have h1 : (i + 1) * bw ≤ (size + bw - 1) / bw * bw := Nat.mul_le_mul_right _ hi
    have h2 := Nat.div_mul_le_self (size + bw - 1) bw
    rw [Nat.add_mul, Nat.one_mul] at h1; omega
  refine ⟨by simp [hwChunks, jsonWords], ?_, ?_, ?_, rfl, ?_⟩
  · unfold hwChunks; rw [chunks_sum]; omega
  · intro c hc
    simp only [hwChunks, List.mem_map, List.mem_range] at hc
    obtain ⟨i, hi, rfl⟩ := hc
    have := hmin i hi
    omega
  · intro n hn
    by_contra hge
    have : (size + bw - 1) / bw * bw ≤ n * bw := Nat.mul_le_mul_right _ (Nat.le_of_not_lt hge)
    omega
  · intro big; cases big <;> simp [hwChunksAddr, hwChunks, jsonWords]

/-- The running JSON/CSV/csr.h address steps over exactly the simple CSRs of the register before it. -/
theorem json_next_address (stride bw origin s : Nat) (rest : List Nat) :
    regAddrs stride bw origin (s :: rest) =
      (origin, jsonWords bw s) :: regAddrs stride bw (origin + stride * (hwChunksAddr true bw s).length) rest := by
  have : (hwChunksAddr true bw s).length = nwords bw s := by simp [hwChunksAddr, hwChunks, nwords]
  rw [this]; rfl

/-- Non-vacuity: a 40-bit register on the 32-bit CSR bus is 2 words (8 + 32 bits, most significant first in address order),
    48 bits on 32: 16 + 32; 12 bits on the 8-bit bus: 4 + 8.  Negative witness (seeded change C14-r4m1's floor): one word
    cannot hold 40 bits. -/
example : jsonWords 32 40 = 2 ∧ hwChunksAddr true 32 40 = [8, 32] ∧ hwChunksAddr false 32 48 = [32, 16] ∧
    hwChunksAddr true 8 12 = [4, 8] ∧ max 1 (40 / 32) = 1 ∧ ¬ (1 * 32 < 40 → 1 < max 1 (40 / 32)) := by decide

/-! ## Memory initialisation images -/

/-- **mem_image_lanes.**  For every file content (bytes `< 256`), data width `32·q`, endianness and word-aligned
    placement `base - offset = k·4q`: in the image `get_mem_data` produces, the byte a CPU of that endianness reads
    at byte address `k·4q + a` — word `address/(4q)`, 32-bit sub-word `(address/4) mod q` (lower address = lower
    sub-word), byte lane by endianness — is file byte `a`, and `0` (padding) beyond the end of the file, for every
    address of the file's words. -/
theorem mem_image_lanes (big : Bool) (q k : Nat) (bytes : List Nat) (a : Nat) (hq : 0 < q)
    (hb : ∀ b ∈ bytes, b < 256) (ha : a / (4 * q) < (bytes.length + 4 * q - 1) / (4 * q)) :
    imageByte big q (memImage big q (k * (4 * q)) bytes) (k * (4 * q) + a) = bytes.getD a 0 := by
  have hpos : 0 < 4 * q := by omega
  have hdiv : (k * (4 * q) + a) / (4 * q) = k + a / (4 * q) := by
    rw [Nat.mul_comm k, Nat.mul_add_div hpos]
  have hn : (k * (4 * q) + bytes.length + 4 * q - 1) / (4 * q) = k + (bytes.length + 4 * q - 1) / (4 * q) := by
    have : k * (4 * q) + bytes.length + 4 * q - 1 = 4 * q * k + (bytes.length + 4 * q - 1) := by
      rw [Nat.mul_comm k]; omega
    rw [this, Nat.mul_add_div hpos]
  have hword : (memImage big q (k * (4 * q)) bytes).getD ((k * (4 * q) + a) / (4 * q)) 0
      = memWord big q bytes (a / (4 * q)) := by
    rw [List.getD_eq_getElem?_getD, hdiv]
    simp only [memImage, Nat.mul_div_cancel _ hpos]
    rw [List.getElem?_map, List.getElem?_range (by rw [hn]; omega)]
    simp [ha]
  unfold imageByte
  simp only [hword]
  have hsub : (k * (4 * q) + a) / 4 % q = (a / 4) % q := by
    have : k * (4 * q) + a = 4 * (k * q) + a := by ring
    rw [this, Nat.mul_add_div (by decide), Nat.mul_comm k q, Nat.mul_add_mod]
  have hlane : (k * (4 * q) + a) % 4 = a % 4 := by
    have : k * (4 * q) + a = 4 * (k * q) + a := by ring
    rw [this, Nat.mul_add_mod]
  rw [hsub, hlane]
  have hs : (a / 4) % q < q := Nat.mod_lt _ hq
  rw [memWord_sub big q bytes hb _ _ hs]
  have hoff : a / (4 * q) * (4 * q) + 4 * ((a / 4) % q) = 4 * (a / 4) := by
    have h1 : a / (4 * q) = a / 4 / q := (Nat.div_div_eq_div_mul a 4 q).symm
    have h2 := Nat.div_add_mod (a / 4) q
    rw [h1]
    calc a / 4 / q * (4 * q) + 4 * (a / 4 % q) = 4 * (q * (a / 4 / q) + a / 4 % q) := by ring
      _ = 4 * (a / 4) := by rw [h2]
  rw [hoff, sub32_lane big bytes hb _ (a % 4) (Nat.mod_lt _ (by decide))]
  congr 1
  omega

/- Full statement of the property for images (does NOT hold on the code): file byte `a` of a region placed at `base` is read at
   bus address `base - offset + a`.  `get_mem_data` indexes its word list with `(base - offset)//bytes_per_data` — the
   floor — so a region whose base is not a multiple of the memory word (e.g. a 4-byte aligned JSON region on a 64-bit bus) is
   silently placed at the aligned-down address.  `mem_image_lanes` above is the `_partial` form (aligned base); the exact
   behaviour for every base is `mem_image_any_base`, and the example below is the negative witness (candidate finding
   `C14-mem-image-unaligned-base`). -/
/-- **mem_image_any_base.**  For EVERY base (aligned or not): the image holds file byte `a` at byte address
    `⌊baseOff/(4q)⌋·4q + a` (and padding zeros up to the end of the file's last word). -/
theorem mem_image_any_base (big : Bool) (q baseOff : Nat) (bytes : List Nat) (a : Nat) (hq : 0 < q)
    (hb : ∀ b ∈ bytes, b < 256) (ha : a / (4 * q) < (bytes.length + 4 * q - 1) / (4 * q)) :
    imageByte big q (memImage big q baseOff bytes) (baseOff / (4 * q) * (4 * q) + a) = bytes.getD a 0 := by
  have hpos : 0 < 4 * q := by omega
  rw [← mem_image_lanes big q (baseOff / (4 * q)) bytes a hq hb ha]
  unfold imageByte
  simp only [memImage_getD _ _ _ _ _ hq, Nat.mul_div_cancel _ hpos]

/-- Negative witness (unaligned base): 4 bytes placed at byte offset 2 of a 32-bit memory are stored at offset 0 — the CPU
    reads file byte 0 at address 0, and finds file byte 2 where byte 0 should be; a 4-byte aligned region at offset 4 of a
    64-bit memory lands at offset 0. -/
example : imageByte false 1 (memImage false 1 2 [1, 2, 3, 4]) 2 = 3 ∧ imageByte false 1 (memImage false 1 2 [1, 2, 3, 4]) 0 = 1 ∧
    memImage false 2 4 [1, 2, 3, 4] = [0x04030201] := by decide

/-- Words below the file's placement are zero. -/
theorem mem_image_gap (big : Bool) (q k : Nat) (bytes : List Nat) (a : Nat) (hq : 0 < q) (ha : a < k * (4 * q)) :
    imageByte big q (memImage big q (k * (4 * q)) bytes) a = 0 := by
  have hpos : 0 < 4 * q := by omega
  have hlt : a / (4 * q) < k := (Nat.div_lt_iff_lt_mul hpos).2 ha
  have hword : (memImage big q (k * (4 * q)) bytes).getD (a / (4 * q)) 0 = 0 := by
    rw [List.getD_eq_getElem?_getD]
    simp only [memImage, Nat.mul_div_cancel _ hpos]
    rw [List.getElem?_map]
    cases h : (List.range ((k * (4 * q) + bytes.length + 4 * q - 1) / (4 * q)))[a / (4 * q)]? with
    | none => simp
    | some w =>
      have : w = a / (4 * q) := by
        have := List.getElem?_eq_some_iff.1 h
        obtain ⟨_, hw⟩ := this
        simpa using hw.symm
      subst this
      simp [Nat.not_le.2 hlt]
  unfold imageByte
  simp only [hword]
  simp

/-- The image has exactly enough words for the file (zero padding of the tail only). -/
theorem mem_image_length (big : Bool) (q : Nat) (bytes : List Nat) (hq : 0 < q) :
    bytes.length ≤ 4 * q * (memImage big q 0 bytes).length ∧
    4 * q * (memImage big q 0 bytes).length < bytes.length + 4 * q := by
  rw [memImage_length, Nat.zero_add]
  have hpos : 0 < 4 * q := by omega
  have h1 := Nat.div_mul_le_self (bytes.length + 4 * q - 1) (4 * q)
  have h2 := Nat.lt_mul_div_succ (bytes.length + 4 * q - 1) hpos
  rw [Nat.mul_comm] at h1
  rw [Nat.mul_add, Nat.mul_one] at h2
  omega

/-- Non-vacuity: 6 bytes, 64-bit words, big endian (one word, tail padded); 5 bytes, 32-bit little endian. -/
example : memImage true 2 0 [1, 2, 3, 4, 5, 6] = [0x0506000001020304] ∧
    imageByte true 2 [0x0506000001020304] 5 = 6 ∧ imageByte true 2 [0x0506000001020304] 6 = 0 ∧
    memImage false 1 0 [1, 2, 3, 4, 5] = [0x04030201, 0x05] := by decide

/-! ## Interrupt numbers -/

section irq
open Litex.Soc
variable {ν : Type} [DecidableEq ν]

/-- **irq_export_matches_wiring.**  After ANY history of `SoCIRQHandler` calls (b-c13's `LocH`, starting disabled as
    the real handler does), for any set of CPU-owned interrupt names and any set of sub-modules:
    (a) a sub-module's `<NAME>_INTERRUPT = loc` is exported iff `cpu.interrupt[loc]` is wired to that module;
    (b) no interrupt line is driven by two modules and no module drives two lines;
    (c) every wired line lies inside the handler's range and below the exported `CONFIG_CPU_INTERRUPTS`;
    (d) asserting one exported module's event raises exactly the line its constant names. -/
theorem irq_export_matches_wiring (n : Nat) (ops : List (LocOp ν)) (cpuOwn : List ν) (isModule : ν → Bool) :
    let s := ({ nLocs := n, enabled := false } : LocH ν).run ops
    (∀ name loc, isModule name = true →
      ((name, loc) ∈ irqConstants s.locs cpuOwn ↔ (loc, name) ∈ irqWiring s.locs cpuOwn isModule)) ∧
    (∀ l n1 n2, (l, n1) ∈ irqWiring s.locs cpuOwn isModule → (l, n2) ∈ irqWiring s.locs cpuOwn isModule → n1 = n2) ∧
    (∀ l1 l2 nm, (l1, nm) ∈ irqWiring s.locs cpuOwn isModule → (l2, nm) ∈ irqWiring s.locs cpuOwn isModule → l1 = l2) ∧
    (∀ l nm, (l, nm) ∈ irqWiring s.locs cpuOwn isModule → 0 ≤ l ∧ l < (n : Int) ∧ l < cpuInterrupts s.locs) ∧
    (∀ name loc, (name, loc) ∈ irqConstants s.locs cpuOwn → isModule name = true →
      irqLines (irqWiring s.locs cpuOwn isModule) [name] = [loc]) := by
  intro s
  obtain ⟨hi, hn⟩ := LocH.run_inv ops (LocH.inv_empty (ν := ν) n false)
  have hwire : ∀ l nm, (l, nm) ∈ irqWiring s.locs cpuOwn isModule ↔
      ((nm, l) ∈ s.locs ∧ cpuOwn.contains nm = false ∧ isModule nm = true) := by
    intro l nm
    simp only [irqWiring, irqConstants, List.mem_map, List.mem_filter, Prod.mk.injEq, Bool.not_eq_true']
    constructor
    · rintro ⟨p, ⟨⟨hp, hc⟩, hm⟩, rfl, rfl⟩; exact ⟨hp, hc, hm⟩
    · rintro ⟨hp, hc, hm⟩; exact ⟨(nm, l), ⟨⟨hp, hc⟩, hm⟩, rfl, rfl⟩
  have hconst : ∀ nm l, (nm, l) ∈ irqConstants s.locs cpuOwn ↔ ((nm, l) ∈ s.locs ∧ cpuOwn.contains nm = false) := by
    intro nm l
    simp [irqConstants, List.mem_filter]
  refine ⟨?_, ?_, ?_, ?_, ?_⟩
  · intro name loc hm
    rw [hconst, hwire]
    constructor
    · rintro ⟨h1, h2⟩; exact ⟨h1, h2, hm⟩
    · rintro ⟨h1, h2, _⟩; exact ⟨h1, h2⟩
  · intro l n1 n2 h1 h2
    have e := eq_of_mem_nodup_snd s.locs hi.locs_nodup (n1, l) (n2, l) ((hwire _ _).1 h1).1 ((hwire _ _).1 h2).1 rfl
    exact (Prod.mk.inj e).1
  · intro l1 l2 nm h1 h2
    have e := eq_of_mem_nodup_fst s.locs hi.names_nodup (nm, l1) (nm, l2) ((hwire _ _).1 h1).1 ((hwire _ _).1 h2).1 rfl
    exact (Prod.mk.inj e).2
  · intro l nm h
    have hmem := ((hwire _ _).1 h).1
    have hr := hi.in_range (nm, l) hmem
    rw [hn] at hr
    refine ⟨hr.1, hr.2, ?_⟩
    unfold cpuInterrupts
    have : l ≤ (s.locs.map (·.2)).foldl max 0 :=
      le_foldl_max _ 0 l (Or.inl (List.mem_map_of_mem (f := (·.2)) hmem))
    omega
  · intro name loc hc hm
    have hmem := ((hconst _ _).1 hc)
    have hw : (loc, name) ∈ irqWiring s.locs cpuOwn isModule := (hwire _ _).2 ⟨hmem.1, hmem.2, hm⟩
    unfold irqLines
    have hnd : (irqWiring s.locs cpuOwn isModule).Nodup := by
      apply List.Nodup.of_map (·.2)
      have hmap : (irqWiring s.locs cpuOwn isModule).map (·.2) =
          ((s.locs.filter fun p => !cpuOwn.contains p.1).filter fun p => isModule p.1).map (·.1) := by
        simp [irqWiring, irqConstants, List.map_map, Function.comp_def]
      rw [hmap]
      exact hi.names_nodup.sublist ((List.filter_sublist.trans List.filter_sublist).map _)
    rw [filter_eq_singleton _ _ (loc, name) hnd hw (by simp)]
    · rfl
    · intro y hy hne
      obtain ⟨l, nm⟩ := y
      by_cases hnm : nm = name
      · subst hnm
        have e := eq_of_mem_nodup_fst s.locs hi.names_nodup (nm, l) (nm, loc) ((hwire _ _).1 hy).1 hmem.1 rfl
        exact absurd (by rw [(Prod.mk.inj e).2]) hne
      · simp [hnm]

/-- Non-vacuity: the handler is enabled, `timer0` allocates 0, `q0` is pinned at 31, `cpuirq` (CPU-owned, location 5)
    gets no constant; `q0`'s event raises line 31 and `CONFIG_CPU_INTERRUPTS = 32`. -/
example :
    let s := ({ nLocs := 32, enabled := false } : LocH Nat).run
      [.enable, .add 5 (some 5) false, .add 0 none true, .add 1 (some 31) false]
    irqConstants s.locs [5] = [(0, 0), (1, 31)] ∧ irqWiring s.locs [5] (fun _ => true) = [(0, 0), (31, 1)] ∧
    irqLines (irqWiring s.locs [5] (fun _ => true)) [1] = [31] ∧ cpuInterrupts s.locs = 32 := by decide

end irq

/-! ## Memory regions -/

section regions
open Litex.Soc
variable {ν : Type} [DecidableEq ν]

/- Full statement (does NOT hold without the C13 hypotheses): every published `(base, size)` is answered by exactly its
   own slave.  The hypotheses below are b-c13's: regions decoded and aligned on their power-of-two window
   (`finalize_rejects_unaligned`), at least one bus word (`C13-decoder-subword` is the negative witness there), windows
   pairwise disjoint (`check_regions_overlap`, `one_slave_per_address_partial`). -/
omit [DecidableEq ν] in
/-- **region_export_decoded_partial.**  `mem.h` / JSON / linker publish exactly `origin, size` of every bus region, and
    for every word address whose byte address lies in a published range `[base, base+size)` the interconnect's decoders
    (b-c13's `decoderAccepts`, `region_decoder_exact_partial`) select exactly that region's slave. -/
theorem region_export_decoded_partial (aw dw sh : Nat) (regions : List (ν × Region)) (name : ν) (r : Region) (a : Nat)
    (hmem : (name, r) ∈ regions) (hnames : (regions.map (·.1)).Nodup)
    (hdw : dw / 8 = 2 ^ sh) (hsh : sh ≤ aw) (ha : a < 2 ^ (aw - sh))
    (hall : ∀ p ∈ regions, p.2.decode = true ∧ p.2.aligned = true ∧ dw / 8 ≤ p.2.p2)
    (hdis : ∀ p ∈ regions, ∀ q ∈ regions, p ≠ q → WinDisjoint p.2 q.2)
    (hx : r.origin ≤ a * (dw / 8) ∧ a * (dw / 8) < r.origin + r.size) :
    (name, r.origin, r.size) ∈ memExport regions ∧ selectedSlaves aw dw regions a = [name] := by
  constructor
  · exact List.mem_map.2 ⟨(name, r), hmem, rfl⟩
  · have hwin : r.InWindow (a * (dw / 8)) :=
      ⟨hx.1, Nat.lt_of_lt_of_le hx.2 (Nat.add_le_add_left (le_pow2ceil r.size) _)⟩
    obtain ⟨hd, hal, hw⟩ := hall _ hmem
    have hacc : decoderAccepts aw dw r a = true := (decoderAccepts_iff aw dw sh r a hdw hsh hd hal hw ha).2 hwin
    unfold selectedSlaves
    rw [filter_eq_singleton _ regions (name, r) (nodup_of_nodup_map_fst _ hnames) hmem hacc]
    · rfl
    · intro q hq hne
      obtain ⟨hdq, halq, hwq⟩ := hall _ hq
      by_contra hc
      have hq' : decoderAccepts aw dw q.2 a = true := by simpa using hc
      have := (decoderAccepts_iff aw dw sh q.2 a hdw hsh hdq halq hwq ha).1 hq'
      exact hdis q hq (name, r) hmem hne (a * (dw / 8)) ⟨this, hwin⟩

/-- Non-vacuity: a 0x300-byte RAM at 0 (decoded as 0x400), a 0x100-byte RAM at 0x400, the CSR window at 0xf0000000:
    the last published word of the first RAM selects only it; negative witness for the disjointness hypothesis (the
    placement seeded change C14-m3 produced): a RAM inside the first one's power-of-two shadow is selected together
    with it. -/
example :
    selectedSlaves 32 32 [(0, ⟨0, 0x300, true, false, true⟩), (1, ⟨0x400, 0x100, true, false, true⟩),
                          (2, ⟨0xf0000000, 0x10000, false, false, true⟩)] (0x2fc / 4) = [0] ∧
    memExport [(0, (⟨0, 0x300, true, false, true⟩ : Region)), (1, ⟨0x400, 0x100, true, false, true⟩)]
      = [(0, 0, 0x300), (1, 0x400, 0x100)] ∧
    selectedSlaves 32 32 [(0, ⟨0, 0x300, true, false, true⟩), (1, ⟨0x300, 0x100, true, false, true⟩)] (0x300 / 4) = [0, 1] := by
  decide +kernel

/-! ### Linker files (regions.ld, memory.x) -/

omit [DecidableEq ν] in
/-- **linker_regions_are_published_regions.**  For every bus-region table: (1) regions.ld / the MEMORY block of memory.x list
    exactly the triples mem.h / JSON / CSV publish (nothing skipped, renamed or resized; memory.x's `_stext` is the reset address
    it was given); (2) every linker line is a bus region with that origin and length, and its byte range starts at the base of that
    region's decoder window and lies inside it; (3) when the table was accepted by `check_regions_overlap` (C13's `anyOverlap`,
    imported read-only), no two linker lines of non-linker regions share a byte.  Regions flagged `linker=True` are exempt from
    the build's overlap check and are listed all the same (negative witness below). -/
theorem linker_regions_are_published_regions (regions : List (ν × Region)) (reset : Nat) :
    ldRegions regions = memExport regions ∧ (memoryX regions reset) = (memExport regions, reset) ∧
    (∀ e ∈ ldRegions regions, ∃ r, (e.1, r) ∈ regions ∧ e.2.1 = r.origin ∧ e.2.2 = r.size ∧
        ∀ x, (e.2.1 ≤ x ∧ x < e.2.1 + e.2.2) → r.InWindow x) ∧
    (anyOverlap (regions.map (·.2)) = false →
      (ldRegions (regions.filter fun p => !p.2.linker)).Pairwise fun a b => ¬ ldOverlap a b) := by
  refine ⟨rfl, rfl, ?_, ?_⟩
  · intro e he
    obtain ⟨p, hp, rfl⟩ := List.mem_map.1 he
    exact ⟨p.2, hp, rfl, rfl, fun x hx => ⟨hx.1, Nat.lt_of_lt_of_le hx.2 (Nat.add_le_add_left (le_pow2ceil p.2.size) _)⟩⟩
  · intro hacc
    have hp := List.pairwise_map.1 (accepted_regions_pairwise_disjoint_windows _ hacc)
    have hf := hp.sublist (List.filter_sublist (p := fun p => !p.2.linker) (l := regions))
    unfold ldRegions
    rw [List.pairwise_map]
    refine hf.imp_of_mem ?_
    intro p q hpm hqm hd
    have lp : p.2.linker = false := by simpa using (List.mem_filter.1 hpm).2
    have lq : q.2.linker = false := by simpa using (List.mem_filter.1 hqm).2
    rintro ⟨x, hx, hy⟩
    exact hd lp lq x ⟨⟨hx.1, Nat.lt_of_lt_of_le hx.2 (Nat.add_le_add_left (le_pow2ceil p.2.size) _)⟩,
                      ⟨hy.1, Nat.lt_of_lt_of_le hy.2 (Nat.add_le_add_left (le_pow2ceil q.2.size) _)⟩⟩

/-- Non-vacuity (rom, sram, csr accepted: three disjoint linker lines), and the negative witness for the `linker=False`
    restriction: a `linker=True` region inside the ROM is accepted by the build and printed, overlapping the ROM's line. -/
example :
    ldRegions [(0, (⟨0, 0x300, true, false, true⟩ : Region)), (1, ⟨0x10000000, 0x2000, true, false, true⟩),
               (2, ⟨0xf0000000, 0x10000, false, false, true⟩)] = [(0, 0, 0x300), (1, 0x10000000, 0x2000), (2, 0xf0000000, 0x10000)] ∧
    anyOverlap [⟨0, 0x300, true, false, true⟩, ⟨0x10000000, 0x2000, true, false, true⟩, ⟨0xf0000000, 0x10000, false, false, true⟩] = false ∧
    anyOverlap [⟨0, 0x8000, true, false, true⟩, ⟨0x4000, 0x100, true, true, true⟩] = false ∧
    ldOverlap ((0 : Nat), 0, 0x8000) (1, 0x4000, 0x100) := by
  refine ⟨by decide +kernel, by decide +kernel, by decide +kernel, ⟨0x4000, by decide⟩⟩

end regions

/-! ## Constants -/

/-- **constants_declared_once.**  `SoC.add_constant` (duplicate check on): whatever sequence of declarations a build
    survives, every exported constant name is defined exactly once, in declaration order, with the value it was
    declared with (soc.h `#define`, JSON/CSV `constants`, SVD `<constant>` all print that list). -/
theorem constants_declared_once {ν : Type} [DecidableEq ν] (l cs' : List (ν × Int))
    (h : addConstants [] l = some cs') : (cs'.map (·.1)).Nodup ∧ cs' = l := by
  have := addConstants_nodup l [] cs' h (by simp)
  simpa using this

example : addConstants [] [(0, 32), (1, 4), (2, -1)] = some [(0, 32), (1, 4), ((2 : Nat), -1)] ∧
    addConstants [] [(0, 32), (1, 4), ((0 : Nat), 7)] = none := by decide

/-! ## SVD with register kinds -/

/-- **json_csv_svd_agree_kinds.**  `json_csv_svd_agree` at the generality of the register kinds: for every bank of
    compound registers (`CSRStorage`/`CSRStatus`, any width) and plain `CSR`s (at most one bus word — `GenericBank`
    asserts it), the SVD register list — one entry per simple CSR of a multi-word compound register, ONE entry for
    everything else, plain CSRs included — enumerates exactly the word addresses of the JSON/CSV export. -/
theorem json_csv_svd_agree_kinds (csrBase paging bw page : Nat) (regs : List (Nat × Bool)) (hbw : 0 < bw)
    (hregs : ∀ r ∈ regs, 0 < r.1 ∧ (r.2 = true ∨ nwords bw r.1 = 1)) :
    svdAddrsK csrBase paging bw page regs =
      flatWordAddrs 4 (regAddrs (32 / 8) bw (regionOrigin csrBase paging ⟨page, regs.map (·.1)⟩) (regs.map (·.1))) := by
  unfold svdAddrsK regionOrigin
  have := svdOffsetsK_flat bw (csrBase + paging * page) hbw regs 0 hregs
  simpa using this

/-- Non-vacuity (a plain 5-bit CSR between two compound registers), and the negative witness for the hypothesis: a
    plain CSR wider than the bus word (refused by `GenericBank`) would get one SVD entry for two exported words. -/
example : svdAddrsK 0 0x800 32 2 [(40, true), (5, false), (33, true)] = [4096, 4100, 4104, 4108, 4112] ∧
    svdAddrsK 0 0x800 32 0 [(40, false)] ≠ flatWordAddrs 4 (regAddrs 4 32 0 [40]) := by decide

end Litex.Export
