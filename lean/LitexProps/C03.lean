import LitexProofs.Stream.Basic
import LitexProofs.Stream.Conv
import LitexProofs.Stream.Pipe
import LitexProofs.Stream.Route
import LitexProofs.Stream.Gearbox
import LitexModel.Stream.NumG
import LitexProofs.Stream.Layout
import LitexProofs.Stream.Stride
import LitexProofs.Stream.Cast
import LitexProofs.Stream.Glue
import LitexProofs.Stream.Fields
/-
  INVENTORY of the anchored code (`litex/soc/interconnect/stream.py`, every class / function) — kept current.
  Tie: A = exhaustive co-exploration of the reachable real-code × model product (small parameters, listed),
       B = seeded lock-step co-simulation (large parameters), C = Python-level call comparison, — = not tied.
  Models: LitexModel/Stream/{Basic,Conv,Gearbox,Route,Pipe,NumG,Glue}.lean; driver: LitexModel/Stream/{Open,Open2}.lean.

  code                              | model                          | theorems (this file)                          | tie
  ----------------------------------+--------------------------------+-----------------------------------------------+-----------------------------
  _make_m2s, set_reset_less,        | not modelled (record plumbing; | —                                             | indirectly: every instance is
   EndpointDescription, Endpoint    |  field order = numeric packing)|                                               |  driven through these records
  _rawbits_layout                   | castFn on one-field layouts    | cast_token_rel                                | A Cast(int layouts) ×2, B ×1
  pack_layout                       | chunk order of encUp/decDown   | pack_field_rel, unpack_field_rel              | A/B through Pack/Unpack
  get_endpoints, get_single_ep      | not modelled (unused helpers)  | —                                             | —
  BinaryActor, CombinatorialActor   | mapElem (control of Cast)      | cast_token_rel                                | A, B (Cast)
  PipelinedActor(latency)           | pipeActor L                    | pipelinedActor_token_rel (all L)              | A L=0..4, B L=1,5 (`busy` output not compared)
  _FIFOWrapper                      | syncFifo, syncFifoBuffered     | syncFifo_token_rel, syncFifoBuffered_token_rel| A, B (word packing = packed data number)
  SyncFIFO(depth, buffered)         | syncFifoStages + stages        | streamSyncFifo_token_rel (all depth, buffered) | A depth 0,1,2,3,5 × buffered (+4,6,7 thorough), B 5..64,
                                    |                                |                                               |  C structure (which sub-blocks exist); `level` by monitor
  AsyncFIFO, ClockDomainCrossing    | property C05                   | (C05)                                         | (C05)
   (cd_from ≠ cd_to)                |                                |                                               |
  ClockDomainCrossing(same domain)  | cdcSameStages                  | cdcSame_token_rel                             | A buffered / not, B
  Multiplexer(n), Demultiplexer(n)  | muxOut, demuxOut, selWidth     | mux_token_rel, demux_token_rel, selWidth_spec | A n=1,2,3 (direct, with_csr, via Crossbar), n=2,3 selector
                                    |                                |                                               |  beyond its width; B n=3,5,6,9; C selector width n=1..69
  Crossbar(n)                       | crossbar                       | crossbar_token_rel                            | A n=2,3, B n=5
  Gate(sink_ready_when_disabled)    | gate                           | gate_token_rel                                | A both settings, B
  _UpConverter(ratio, reverse)      | upConv + encUp                 | upConv_token_rel, upConv_no_loss_dup_reorder, | A ratio 2..6 ± reverse, B 2..16
                                    |                                |  upconv_layout, pack_field_rel (count)        |
  _DownConverter(ratio, reverse)    | downConv, downConvV + decDown  | downConv_token_rel_partial (+ witness),       | A ratio 2..6 ± reverse, B 2..16
                                    |                                |  downConv_vtc, unpack_field_rel               |
  _IdentityConverter                | downConvV 1 (count ≡ 1)        | downConv_vtc (r = 1), wire_token_rel          | A
  _get_converter_ratio              | converterKind                  | converter_selection (all widths)              | C exhaustive widths 1..40 (1..96 thorough) incl. ValueError
  Converter(reverse, report_vtc)    | converterOpen                  | converter_selection + element theorems        | A 10 (up/down/identity × count port), B 4; C constructor
  StrideConverter(reverse)          | strideUp, strideOut, strideIn  | strideUp_token_rel, strideUp_field_rel,       | A ratio 2,3 ± reverse + identity path, B ratio 2..8
                                    |                                |  strideDown_field_rel, stride_map_bijective,  |
                                    |                                |  stride_map_fields                            |
  lcm, inc_mod                      | ioLcm, incMod                  | ioLcm_spec                                    | through Gearbox
  Gearbox(i, o, msb_first)          | gearbox (ioLcm i o)            | gearbox_bits_rel, gearbox_prefix,             | A (i,o) ∈ {1..4}² ± msb_first, B 13 width pairs
                                    |                                |  gearbox_no_deadlock, gearbox_token_rel       |
  Shifter(dw, shift)                | shifter                        | shifter_token_rel, shifter_window             | A dw 2,3 (own / external shift), B 8,32,64
  Monitor (clock_domain = "sys")    | monCounterNext, monitor        | monitor_counter_spec, monitor_counts,         | A w=1,2 (single / paired counters, logic and CSR strobes),
                                    |                                |  monitor_counts_tokens                        |  B w=3,8,32 all four counters; other domains: C05
  PipeValid, PipeReady              | pipeValid, pipeReady           | pipeValid_token_rel, pipeReady_token_rel, …   | A, B 32..128 bit
  Buffer(pipe_valid, pipe_ready)    | bufferStages + stages          | buffer_token_rel (all four), bufferVR_…       | A all four combinations, B
  Delay(n)                          | delay n, delayStages n         | delay_token_rel, delayStages_token_rel (all n)| A n=0..3, B 2,3,5
  Cast(reverse_from, reverse_to)    | castFn                         | cast_token_rel, cast_identity, cast_inverse,  | A all four flag combinations, B 4
                                    |                                |  cast_bijective                               |
  Unpack(n, reverse)                | downConv + decDown             | downConv_token_rel_partial, unpack_field_rel, | A n=2..6, multi-field [1,2] n=3, [2,1]+param n=2; B n=2..8
                                    |                                |  unpack_pack_field_roundtrip                  |
  Pack(n, reverse)                  | upConv + encUp                 | upConv_token_rel, pack_field_rel              | A n=2..6, multi-field [1,2] n=3, [2,1]+param n=2; B n=3..8
  Pipeline(*modules)                | stages l, Elem.comp            | stages_token_rel (all stage lists),           | A 8 heterogeneous lists (12 thorough), B 3 long lists;
                                    |                                |  stages_no_loss_dup_reorder, pipeline_token_rel|  `Pipeline.add` / deferred finalize: —
  BufferizeEndpoints(dict, pv, pr)  | bufferize                      | bufferize_token_rel (any element),            | A sink / source / both × v / r / vr around _UpConverter, Pack,
                                    |                                |  bufferizeUp_token_rel, bufferizedUp_token_rel|  _DownConverter, Unpack; B 6
  Endpoint.connect(omit / keep)     | Migen `Record.connect`, run,   | —                                             | the omit sets used here (PipeReady {ready}, Converter
                                    |  not modelled                  |                                               |  {valid_token_count}) through those elements
-/
/-
  C03 — Stream elements deliver each token exactly once, in order, rightly transformed.

  Every theorem quantifies over `ins : List (In α)`: an arbitrary cycle-by-cycle choice of sink.valid, the
  token on the sink (garbage allowed while valid = 0) and source.ready — i.e. every valid/ready schedule and
  every token sequence.  `accepted`/`delivered` are the tokens transferred at the sink/source by handshake.
-/
namespace Litex.C03
open Litex.Stream Litex.Stream.Elem
variable {α β π : Type}

/-- PipeValid: accepted = delivered ++ (token held in the output register). -/
theorem pipeValid_token_rel (z : Tok α) (ins : List (In α)) :
    (pipeValid z).accepted (pipeValid z).init ins =
      (pipeValid z).delivered (pipeValid z).init ins ++ ((pipeValid z).runFrom (pipeValid z).init ins).inflight :=
  rel_run_init (pipeValid z) pvRel (by simp [pvRel, pipeValid, PVState.inflight]) (pipeValid_step z) ins

/-- PipeValid never loses, duplicates or reorders: what was delivered is a prefix of what was accepted, and at
    most one token is in flight. -/
theorem pipeValid_no_loss_dup_reorder (z : Tok α) (ins : List (In α)) :
    (pipeValid z).delivered (pipeValid z).init ins <+: (pipeValid z).accepted (pipeValid z).init ins ∧
    ((pipeValid z).accepted (pipeValid z).init ins).length ≤
      ((pipeValid z).delivered (pipeValid z).init ins).length + 1 := by
  rw [pipeValid_token_rel z ins]
  refine ⟨List.prefix_append _ _, ?_⟩
  simp only [List.length_append, PVState.inflight]
  split <;> simp

/-- PipeReady: accepted = delivered ++ (token parked in the skid register). -/
theorem pipeReady_token_rel (z : Tok α) (ins : List (In α)) :
    (pipeReady z).accepted (pipeReady z).init ins =
      (pipeReady z).delivered (pipeReady z).init ins ++ ((pipeReady z).runFrom (pipeReady z).init ins).inflight :=
  (rel_run_init (pipeReady z) prRel (by simp [prRel, pipeReady, PRState.inflight]) (pipeReady_step z) ins).2

/-- A wire (depth-0 FIFO, `Endpoint.connect`) delivers exactly what it accepts. -/
theorem wire_token_rel (ins : List (In α)) :
    (wire (α := α)).accepted () ins = (wire (α := α)).delivered () ins :=
  rel_run_init (wire (α := α)) wireRel rfl wire_step ins

/-- SyncFIFO (any depth): accepted = delivered ++ queue content, and the queue never exceeds `depth`. -/
theorem syncFifo_token_rel (depth : Nat) (z : Tok α) (ins : List (In α)) :
    (syncFifo depth z).accepted [] ins =
      (syncFifo depth z).delivered [] ins ++ (syncFifo depth z).runFrom [] ins ∧
    ((syncFifo depth z).runFrom [] ins).length ≤ depth := by
  have h := rel_run_init (syncFifo depth z) (fifoRel depth) (by simp [fifoRel, syncFifo]) (syncFifo_step depth z) ins
  exact ⟨h.2, h.1⟩

/-- `Buffer(pipe_valid=True, pipe_ready=True)` = PipeValid ⟫ PipeReady: the composed history relation, obtained
    from the two element relations by `comp_rel` (no separate proof about the composite). -/
theorem bufferVR_token_rel (z : Tok α) (ins : List (In α)) :
    ∃ mid,
      (bufferVR z).accepted (bufferVR z).init ins = mid ++ ((bufferVR z).runFrom (bufferVR z).init ins).1.inflight ∧
      mid = (bufferVR z).delivered (bufferVR z).init ins ++ ((bufferVR z).runFrom (bufferVR z).init ins).2.inflight := by
  have h := rel_run_init (bufferVR z) (fun s x d => ∃ mid, pvRel s.1 x mid ∧ prRel s.2 mid d)
    ⟨[], by simp [pvRel, bufferVR, comp, pipeValid, PVState.inflight],
         by simp [prRel, bufferVR, comp, pipeReady, PRState.inflight]⟩
    (comp_rel (pipeValid z) (pipeReady z) pvRel prRel (pipeValid_step z) (pipeReady_step z)) ins
  obtain ⟨mid, h1, h2⟩ := h
  exact ⟨mid, h1, h2.2⟩

/-! Non-vacuity: a concrete schedule on which tokens really move (two tokens accepted, one delivered,
    one in flight). -/
example :
    let z : Tok Nat := ⟨0, false, false⟩
    let ins : List (In Nat) := [⟨true, ⟨5, true, false⟩, false⟩, ⟨true, ⟨6, false, true⟩, true⟩, ⟨false, ⟨9, true, true⟩, false⟩]
    (pipeValid z).accepted (pipeValid z).init ins = [⟨5, true, false⟩, ⟨6, false, true⟩] ∧
    (pipeValid z).delivered (pipeValid z).init ins = [⟨5, true, false⟩] := by decide

/-- SyncFIFO(buffered=True), any depth: accepted = delivered ++ output register ++ inner queue, and the inner queue
    never exceeds `depth` (so at most `depth + 1` tokens are in flight). -/
theorem syncFifoBuffered_token_rel (depth : Nat) (z : Tok α) (ins : List (In α)) :
    let e := syncFifoBuffered depth z
    e.accepted e.init ins = e.delivered e.init ins ++ (e.runFrom e.init ins).inflight ∧
    (e.runFrom e.init ins).q.length ≤ depth := by
  have h := rel_run_init (syncFifoBuffered depth z) (fbRel depth)
    (by simp [fbRel, syncFifoBuffered, FBState.inflight]) (syncFifoBuffered_step depth z) ins
  exact ⟨h.2, h.1⟩

/-! ### Up-converting elements: `_UpConverter`, `Converter` (up), `Pack`, `StrideConverter` (up)

  Documented function = greedy chunking (`chunks r`: cut after `r` sub-words or after a sub-word with `last`);
  a chunk becomes the word `wordOf`: lanes = the payloads in order, param = the last sub-word's param, first/last
  OR-accumulated.  `upView` is the specified part of a delivered word: the first `valid_token_count` lanes
  (lanes beyond it keep stale data, documented), param, first, last. -/

/-- The chunking specification itself loses and reorders nothing and cuts only where documented. -/
theorem chunks_spec_sound (r : Nat) (hr : 0 < r) (ts : List (Tok α)) :
    (chunks r ts).flatten ++ chunkRest r ts = ts ∧
    (∀ c ∈ chunks r ts, ChunkOk r c) ∧ (chunkRest r ts).length < r ∧ ∀ t ∈ chunkRest r ts, t.last = false :=
  ⟨chunks_flatten r ts, chunks_shape r hr ts⟩

/-- `_UpConverter(ratio = r)` / `Pack(n = r)`, every schedule, every token sequence (early `last` included):
    the words of the complete chunks of the accepted sub-words = the delivered words ++ the word waiting in the
    output register. -/
theorem upConv_token_rel (r : Nat) (hr : 0 < r) (z : α) (p0 : π) (ins : List (In (α × π))) :
    let e := upConv r z p0
    (chunks r (e.accepted e.init ins)).map (wordOf p0) =
      (e.delivered e.init ins).map upView ++ (e.runFrom e.init ins).inflight :=
  (rel_run_init (upConv r z p0) (upRel r p0)
    ⟨by simp [upConv, UpState.inflight], by simp [upConv], by simpa [upConv] using hr, by simp [upConv],
     by simp [upConv], by simp [upConv]⟩
    (upConv_step r hr z p0) ins).1

/-- No word is lost, duplicated, reordered or altered: the delivered words are a prefix of the specified words and
    at most one complete word waits inside; the sub-words not yet in a delivered or waiting word are exactly the
    `demux` sub-words of the current partial chunk. -/
theorem upConv_no_loss_dup_reorder (r : Nat) (hr : 0 < r) (z : α) (p0 : π) (ins : List (In (α × π))) :
    let e := upConv r z p0
    (e.delivered e.init ins).map upView <+: (chunks r (e.accepted e.init ins)).map (wordOf p0) ∧
    (chunks r (e.accepted e.init ins)).length ≤ (e.delivered e.init ins).length + 1 ∧
    (e.runFrom e.init ins).demux = (chunkRest r (e.accepted e.init ins)).length := by
  have h := rel_run_init (upConv r z p0) (upRel r p0)
    ⟨by simp [upConv, UpState.inflight], by simp [upConv], by simpa [upConv] using hr, by simp [upConv],
     by simp [upConv], by simp [upConv]⟩
    (upConv_step r hr z p0) ins
  refine ⟨?_, ?_, h.2.1⟩
  · rw [h.1]; exact List.prefix_append _ _
  · have := congrArg List.length h.1
    simp only [List.length_map, List.length_append, UpState.inflight] at this
    split at this <;> simp at this <;> omega

/-- `StrideConverter` (up-converting, fix 3f0170f): same relation, params included — the param register kept
    beside the converter behaves like the one inside `Pack`. -/
theorem strideUp_token_rel (r : Nat) (hr : 0 < r) (z : α) (p0 : π) (ins : List (In (α × π))) :
    let e := strideUp r z p0
    (chunks r (e.accepted e.init ins)).map (wordOf p0) =
      (e.delivered e.init ins).map upView ++ (strideUpMap (e.runFrom e.init ins)).inflight := by
  obtain ⟨h1, h2, h3⟩ := strideUp_sim r z p0 ins
  simp only [h1, h2, h3]
  exact upConv_token_rel r hr z p0 ins

/-! ### Down-converting elements: `_DownConverter`, `Converter` (down), `Unpack`, `StrideConverter` (down)

  These read the sink combinationally `r` times before accepting it, so the token relation needs the producer
  contract of the stream protocol (`Elem.Held`: a token offered and not accepted is offered again unchanged).

  Full statement (false without the contract, see the witness below):
    ∀ ins, delivered ins = (accepted ins).flatMap (splitTok r z) ++ lanes already delivered of the held token -/

/-- Under the producer contract: delivered = all lanes of every accepted token, in order, followed by the first
    `mux` lanes of the token currently held on the sink. -/
theorem downConv_token_rel_partial (r : Nat) (hr : 0 < r) (z : α) (ins : List (In (List α × π)))
    (hheld : (downConv (π := π) r z).Held (downConv (π := π) r z).init none ins) :
    let e := downConv (π := π) r z
    e.delivered e.init ins =
      (e.accepted e.init ins).flatMap (splitTok r z) ++
        downPart r z (e.runFrom e.init ins) (e.oblAfter e.init none ins) ∧
    e.runFrom e.init ins < r :=
  let h := rel_run_held_init (downConv r z) (downRel r z)
    ⟨by simpa [downConv] using hr, by simp [downConv], by simp [downPart]⟩
    (fun s p a d i h hm => downConv_step r z s p a d i h hm) ins hheld
  ⟨h.2.2, h.1⟩

/-- Negative witness for the full statement: a producer that swaps its token in the middle of a word (ratio 2:
    `[1,2]` offered, lane 0 taken, then `[3,4]` offered and accepted) gets `1,4` delivered, not the lanes of the
    accepted token. -/
example :
    let e := downConv (α := Nat) (π := Unit) 2 0
    let ins : List (In (List Nat × Unit)) :=
      [⟨true, ⟨([1, 2], ()), false, false⟩, true⟩, ⟨true, ⟨([3, 4], ()), false, false⟩, true⟩]
    e.delivered e.init ins ≠ (e.accepted e.init ins).flatMap (splitTok 2 0) := by decide

/-- `valid_token_count` of `_DownConverter` / `Converter(report_valid_token_count)` (model `downConvV` = `downConv`
    with every source token decorated by the count output), every schedule, no producer contract needed: the
    decorated element accepts and delivers exactly what `downConv` does, and the count is 1 on exactly every
    `r`-th delivered token (positions `r-1, 2r-1, …`), i.e. on the last lane of each group of `r` — which under
    the producer contract is the last lane of each accepted wide token (`downConv_token_rel_partial`). -/
theorem downConv_vtc (r : Nat) (hr : 0 < r) (z : α) (ins : List (In (List α × π))) :
    let e := downConvV (π := π) r z
    (e.delivered e.init ins).map (·.data.2) =
      (List.range (e.delivered e.init ins).length).map (fun p => decide (p % r + 1 = r)) ∧
    (e.delivered e.init ins).map (mapTok Prod.fst) = (downConv r z).delivered (downConv (π := π) r z).init ins ∧
    e.accepted e.init ins = (downConv r z).accepted (downConv (π := π) r z).init ins := by
  have h := rel_run_init (downConvV (π := π) r z) (downVtcRel r)
    ⟨by simpa [downConvV] using hr, by simp [downConvV], by simp⟩ (downConvV_step r z) ins
  have hs := sim_strip (downConvV (π := π) r z) (downConv r z) (mapTok Prod.fst)
    (fun _ _ _ => rfl) (fun _ _ _ _ => rfl) (fun _ _ _ _ => rfl) ins 0
  exact ⟨h.2.2, hs.2.1, hs.1⟩

/-! ### Gearbox

  Bits in stream order.  `L` is the register size; the constructor's `io_lcm` (`ioLcm`) satisfies the side
  conditions (`ioLcm_spec`). -/

/-- `io_lcm` is a common multiple of both widths and holds at least two words of each side. -/
theorem ioLcm_spec (i o : Nat) (hi : 0 < i) (ho : 0 < o) :
    i ∣ ioLcm i o ∧ o ∣ ioLcm i o ∧ 2 * i ≤ ioLcm i o ∧ 2 * o ≤ ioLcm i o :=
  ioLcm_facts i o hi ho

/-- Gearbox, every schedule: the accepted bit stream = the delivered bit stream ++ the `level` bits held in the
    circular register (so the delivered bits are a prefix of the accepted bits: nothing lost, duplicated,
    reordered or altered), together with the level invariant
    `(o·o_count + level) mod L = i·i_count`, `level < L`, counters in range. -/
theorem gearbox_bits_rel (L i o : Nat) (hi : 0 < i) (ho : 0 < o) (hiL : i ∣ L) (hoL : o ∣ L) (hL : 0 < L)
    (z : α) (ins : List (In (List α))) :
    let e := gearbox L i o z
    let s := e.runFrom e.init ins
    bitsIn i z (e.accepted e.init ins) = bitsOut (e.delivered e.init ins) ++ inflightOf L z s.sr (o * s.ocount) s.level ∧
    (inflightOf L z s.sr (o * s.ocount) s.level).length = s.level ∧
    s.level < L ∧ (o * s.ocount + s.level) % L = i * s.icount ∧ s.icount < L / i ∧ s.ocount < L / o := by
  have h := rel_run_init (gearbox L i o z) (gbRel L i o z)
    ⟨by simp [gearbox], by simpa [gearbox] using Nat.div_pos (Nat.le_of_dvd hL hiL) hi,
     by simpa [gearbox] using Nat.div_pos (Nat.le_of_dvd hL hoL) ho, by simpa [gearbox] using hL,
     by simp [gearbox], by simp [gearbox, bitsIn, bitsOut, inflightOf]⟩
    (gearbox_step L i o hi ho hiL hoL z) ins
  obtain ⟨h1, h2, h3, h4, h5, h6⟩ := h
  exact ⟨h6, by simp, h4, h5, h2, h3⟩

theorem gearbox_prefix (L i o : Nat) (hi : 0 < i) (ho : 0 < o) (hiL : i ∣ L) (hoL : o ∣ L) (hL : 0 < L)
    (z : α) (ins : List (In (List α))) :
    let e := gearbox L i o z
    bitsOut (e.delivered e.init ins) <+: bitsIn i z (e.accepted e.init ins) := by
  have h := (gearbox_bits_rel L i o hi ho hiL hoL hL z ins).1
  simp only at h ⊢
  rw [h]
  exact List.prefix_append _ _

/-- No deadlock: whenever the register holds at least one word of each side (`i + o ≤ L`, guaranteed by
    `ioLcm_spec`), in every state the sink is ready or the source is valid. -/
theorem gearbox_no_deadlock (L i o : Nat) (hio : i + o ≤ L) (z : α) (s : GbState α) (x : In (List α)) :
    ((gearbox L i o z).out s x).ready = true ∨ ((gearbox L i o z).out s x).valid = true := by
  simp only [gearbox, Elem.out, decide_eq_true_eq]
  omega

/-- The gearbox as constructed (`L = io_lcm(i, o)`), any widths `i, o ≥ 1`: delivered bits are a prefix of the
    accepted bits, at most `L - 1` bits are in flight, and it never blocks both sides. -/
theorem gearbox_token_rel (i o : Nat) (hi : 0 < i) (ho : 0 < o) (z : α) (ins : List (In (List α))) :
    let e := gearbox (ioLcm i o) i o z
    bitsOut (e.delivered e.init ins) <+: bitsIn i z (e.accepted e.init ins) ∧
    (bitsIn i z (e.accepted e.init ins)).length < (bitsOut (e.delivered e.init ins)).length + ioLcm i o ∧
    ∀ s x, (e.out s x).ready = true ∨ (e.out s x).valid = true := by
  obtain ⟨h1, h2, h3, h4⟩ := ioLcm_spec i o hi ho
  have hL : 0 < ioLcm i o := by omega
  have hrel := gearbox_bits_rel (ioLcm i o) i o hi ho h1 h2 hL z ins
  refine ⟨gearbox_prefix (ioLcm i o) i o hi ho h1 h2 hL z ins, ?_, fun s x => gearbox_no_deadlock _ i o (by omega) z s x⟩
  simp only at hrel ⊢
  rw [hrel.1, List.length_append, hrel.2.1]
  omega

/-! ### Routing: Multiplexer, Demultiplexer, Gate -/

/-- Multiplexer(n), every input sequence (selector changes included): what the source delivers is, cycle by cycle,
    what the selected sink accepts; a sink accepts only in cycles in which it is selected. -/
theorem mux_token_rel (n : Nat) (z : Tok α) (ins : List (MuxIn α)) :
    ins.flatMap (muxDel n z) = ins.flatMap (fun i => muxAccAt n z i.sel i) ∧
    ∀ k, ins.flatMap (muxAccAt n z k) = (ins.filter (·.sel == k)).flatMap (muxDel n z) := by
  refine ⟨by rw [show muxDel n z = fun i => muxAccAt n z i.sel i from funext (mux_cycle_sel n z)], ?_⟩
  intro k
  induction ins with
  | nil => rfl
  | cons i is ih =>
    simp only [List.flatMap_cons, List.filter_cons]
    by_cases hk : i.sel = k
    · have hb : (i.sel == k) = true := by simp [hk]
      rw [hb, if_pos rfl, List.flatMap_cons, ih, mux_cycle_sel, hk]
    · have hb : (i.sel == k) = false := by simp [hk]
      rw [hb, mux_cycle_other n z i k (Ne.symm hk), ih]
      simp

/-- Demultiplexer(n): what the sink hands over is, cycle by cycle, what the selected source delivers; a source
    delivers only in cycles in which it is selected. -/
theorem demux_token_rel (n : Nat) (z : Tok α) (ins : List (DemuxIn α)) :
    ins.flatMap (demuxAcc n z) = ins.flatMap (fun i => demuxDelAt n z i.sel i) ∧
    ∀ k, ins.flatMap (demuxDelAt n z k) = (ins.filter (·.sel == k)).flatMap (demuxAcc n z) := by
  refine ⟨by rw [show demuxAcc n z = fun i => demuxDelAt n z i.sel i from funext fun i => (demux_cycle_sel n z i).symm], ?_⟩
  intro k
  induction ins with
  | nil => rfl
  | cons i is ih =>
    simp only [List.flatMap_cons, List.filter_cons]
    by_cases hk : i.sel = k
    · have hb : (i.sel == k) = true := by simp [hk]
      rw [hb, if_pos rfl, List.flatMap_cons, ih, ← demux_cycle_sel, hk]
    · have hb : (i.sel == k) = false := by simp [hk]
      rw [hb, demux_cycle_other n z i k (Ne.symm hk), ih]
      simp

/-- Gate: delivered = the tokens accepted while `enable` was set (payload unchanged); without
    `sink_ready_when_disabled` no token is ever accepted while disabled, i.e. nothing is dropped. -/
theorem gate_token_rel (srd : Bool) (z : α) (ins : List (In (α × Bool))) :
    let e := gate srd z
    e.delivered () ins = ((e.accepted () ins).filter (·.data.2)).map (mapTok (·.1)) ∧
    (srd = false → e.delivered () ins = (e.accepted () ins).map (mapTok (·.1))) := by
  have h := rel_run_init (gate srd z) (gateRel srd) ⟨rfl, by simp⟩ (gate_step srd z) ins
  refine ⟨h.1, fun hs => ?_⟩
  have hall := h.2 hs
  rw [h.1, List.filter_eq_self.mpr hall]

/-! ### Cast, Delay, Pipeline, BufferizeEndpoints -/

/-- Cast (any combinational re-labelling `f` of the data): delivered = accepted with `f` applied. -/
theorem cast_token_rel (f : α → β) (ins : List (In α)) :
    (mapElem f).delivered () ins = ((mapElem f).accepted () ins).map (mapTok f) :=
  rel_run_init (mapElem f) (mapRel f) rfl (mapElem_step f) ins

/-- Delay(n) for every `n` (a `Pipeline` of `n` `Buffer(pipe_valid)` stages; `n = 0` is a wire): accepted =
    delivered ++ at most `n` tokens in flight.  Obtained from `pipeValid_step` by `comp_rel`, by induction on `n`. -/
theorem delay_token_rel (z : Tok α) (n : Nat) (ins : List (In α)) :
    ∃ fl, (delay z n).accepted (delay z n).init ins = (delay z n).delivered (delay z n).init ins ++ fl ∧
      fl.length ≤ n :=
  delayRel_inflight n _ _ _
    (rel_run_init (delay z n) (delayRel n) (delayRel_init z n) (delay_step z n) ins)

/-- Pipeline of any two elements with identity-like relations `accepted = delivered ++ fl`, `|fl| ≤ cap`:
    the composition has the same relation with capacity `capA + capB`. -/
theorem pipeline_token_rel {σ τ : Type} (ea : Elem α α σ) (eb : Elem α α τ) (ca cb : Nat)
    (Ra : σ → List (Tok α) → List (Tok α) → Prop) (Rb : τ → List (Tok α) → List (Tok α) → Prop)
    (ha0 : Ra ea.init [] []) (hb0 : Rb eb.init [] [])
    (ha : ∀ s x d i, Ra s x d → Ra (ea.step s i) (x ++ ea.accNow s i) (d ++ ea.delNow s i))
    (hb : ∀ s x d i, Rb s x d → Rb (eb.step s i) (x ++ eb.accNow s i) (d ++ eb.delNow s i))
    (hca : ∀ s x d, Ra s x d → ∃ fl, x = d ++ fl ∧ fl.length ≤ ca)
    (hcb : ∀ s x d, Rb s x d → ∃ fl, x = d ++ fl ∧ fl.length ≤ cb)
    (ins : List (In α)) :
    ∃ fl, (ea.comp eb).accepted (ea.comp eb).init ins = (ea.comp eb).delivered (ea.comp eb).init ins ++ fl ∧
      fl.length ≤ ca + cb := by
  obtain ⟨mid, h1, h2⟩ := rel_run_init (ea.comp eb) (fun s x d => ∃ mid, Ra s.1 x mid ∧ Rb s.2 mid d)
    ⟨[], ha0, hb0⟩ (comp_rel ea eb Ra Rb ha hb) ins
  obtain ⟨fa, hfa, hla⟩ := hca _ _ _ h1
  obtain ⟨fb, hfb, hlb⟩ := hcb _ _ _ h2
  exact ⟨fb ++ fa, by rw [hfa, hfb, List.append_assoc], by simp; omega⟩

/-- BufferizeEndpoints (sink and source buffered) around an `_UpConverter`: PipeValid ⟫ upConv ⟫ PipeValid.
    The chunk words of what the outer sink accepted, minus what still sits in the sink buffer, = delivered words
    ++ source buffer ++ converter output register. -/
theorem bufferizedUp_token_rel (r : Nat) (hr : 0 < r) (ins : List (In (Nat × Nat))) :
    let e := bufferizedUp r
    let s := e.runFrom e.init ins
    ∃ mid1 mid2,
      e.accepted e.init ins = mid1 ++ s.1.inflight ∧
      (chunks r mid1).map (wordOf 0) = mid2.map upView ++ s.2.1.inflight ∧
      mid2 = e.delivered e.init ins ++ s.2.2.inflight := by
  let pvA := pipeValid (α := Nat × Nat) ⟨(0, 0), false, false⟩
  let up := upConv (α := Nat) (π := Nat) r 0 0
  let pvB := pipeValid (α := UpWord Nat Nat) ⟨⟨List.replicate r 0, 0, 0⟩, false, false⟩
  have hup0 : upRel r 0 up.init [] [] :=
    ⟨by simp [up, upConv, UpState.inflight], by simp [up, upConv], by simpa [up, upConv] using hr,
     by simp [up, upConv], by simp [up, upConv], by simp [up, upConv]⟩
  have hinner := comp_rel up pvB (upRel r 0) pvRel (upConv_step r hr 0 0) (pipeValid_step _)
  have h := rel_run_init (bufferizedUp r)
    (fun s x d => ∃ m1, pvRel s.1 x m1 ∧ ∃ m2, upRel r 0 s.2.1 m1 m2 ∧ pvRel s.2.2 m2 d)
    ⟨[], by simp [pvRel, bufferizedUp, comp, pipeValid, PVState.inflight], [], hup0,
      by simp [pvRel, bufferizedUp, comp, pipeValid, PVState.inflight]⟩
    (comp_rel pvA (up.comp pvB) pvRel (fun s x d => ∃ m2, upRel r 0 s.1 x m2 ∧ pvRel s.2 m2 d)
      (pipeValid_step _) hinner) ins
  obtain ⟨m1, h1, m2, h2, h3⟩ := h
  exact ⟨m1, m2, h1, h2.1, h3⟩

/-! ### Shifter (PipelinedActor, latency 2) -/

/-- Shifter, every schedule (and every `shift` value, changing freely): the accepted tokens (data truncated to
    `dw` bits) = `dpre` ++ the at most two tokens in the pipeline registers, where `dpre` corresponds one-to-one and
    in order to the delivered tokens: same first/last, data = the `dw`-bit window at `shift` over the token and
    whatever followed it on the sink (`ShiftOf`). -/
theorem shifter_token_rel (dw : Nat) (ins : List (In (Nat × Nat))) :
    let e := shifter dw
    ∃ dpre, (e.accepted e.init ins).map (shNorm dw) = dpre ++ (e.runFrom e.init ins).inflight ∧
      shList dw dpre (e.delivered e.init ins) ∧ dpre.length = (e.delivered e.init ins).length ∧
      (e.runFrom e.init ins).inflight.length ≤ 2 := by
  obtain ⟨dpre, h1, h2⟩ := rel_run_init (shifter dw) (shRel dw)
    ⟨[], by simp [shifter, ShState.inflight], trivial⟩ (shifter_step dw) ins
  refine ⟨dpre, h1, h2, shList_length dw _ _ h2, ?_⟩
  simp only [ShState.inflight, List.length_append]
  split <;> split <;> simp

/-- The window: with `shift = 0` it is the token itself; for any `shift < dw` its low `dw - shift` bits are bits
    `[shift, dw)` of the token. -/
theorem shifter_window (dw lo hi sh : Nat) (hsh : sh < dw) (hlo : lo < 2 ^ dw) :
    shOut dw lo hi 0 = lo ∧ shOut dw lo hi sh % 2 ^ (dw - sh) = lo / 2 ^ sh :=
  ⟨shOut_zero dw lo hi (by omega) hlo, shOut_low dw lo hi sh hsh hlo⟩

/-! ### Layout layer (bit placement of the converters, as used by the numeric driver) -/

/-- In the word of an up-converter the bits of physical lane `n = reverse ? r-1-i : i` are sub-word `i`. -/
theorem upconv_layout (nb : Nat) (rev : Bool) (lanes : List Nat) (i : Nat) (h : i < lanes.length) :
    slice ((if rev then lanes.length - 1 - i else i) * nb) nb (packLanes nb (phys rev lanes)) =
      lanes.getD i 0 % 2 ^ nb :=
  Litex.Stream.upconv_layout nb rev lanes i h

/-- A down-converter's lane extraction inverts an up-converter's packing. -/
theorem downconv_layout_roundtrip (nb : Nat) (lanes : List Nat) :
    unpackLanes nb lanes.length (packLanes nb lanes) = lanes.map (· % 2 ^ nb) :=
  unpack_pack nb lanes

/-- `Cast` without reversal is the identity on the raw bits, whatever the two layouts' field widths. -/
theorem cast_identity (wsFrom wsTo : List Nat) (hw : sumW wsFrom = sumW wsTo) (x : Nat) :
    castFn false false wsFrom wsTo x = x % 2 ^ sumW wsFrom :=
  castFn_id wsFrom wsTo hw x

/-! ### StrideConverter: the field-wise stride bit map (`strideOut` up, `strideIn` down; both are what the driver
    and the real code are compared through) -/

/-- The stride map is a bijection between `r` narrow words and the `r·Σw` payload bits of the wide word, for every
    list of field widths `ws` and every ratio: down-after-up and up-after-down are identities. -/
theorem stride_map_bijective (ws : List Nat) :
    (∀ lanes : List Nat, strideIn lanes.length ws (strideOut ws lanes) = lanes.map (· % 2 ^ sumW ws)) ∧
    (∀ r x : Nat, strideOut ws (strideIn r ws x) = x % 2 ^ (r * sumW ws)) :=
  ⟨strideIn_strideOut ws, fun r x => strideOut_strideIn r ws x⟩

/-- The map on FIELDS: slice `i` of wide field `k` (at `r·j_k`, `r·w_k` wide) is narrow field `k` (at `j_k`, `w_k`
    wide) of sub-word `i`. -/
theorem stride_map_fields (ws : List Nat) (lanes : List Nat) (i : Nat) (hi : i < lanes.length) :
    (fieldPos ws).map (fun (j, w) => slice (i * w) w (slice (lanes.length * j) (lanes.length * w) (strideOut ws lanes))) =
    (fieldPos ws).map (fun (j, w) => slice j w (lanes.getD i 0)) :=
  strideOut_field ws lanes i hi

/-- StrideConverter (up) token relation stated on the FIELDS of the source endpoint, multi-field layouts, params and
    `reverse` included: the `m`-th delivered word belongs to the `m`-th chunk `c` of the accepted sub-words; its
    count/first/last/param are the chunk's (`wordOf`), the param field of the encoded source word holds the param of
    the chunk's last sub-word, and slice `n` (`n = reverse ? r-1-i : i`) of every wide field `k` is field `k` of the
    chunk's `i`-th sub-word. -/
theorem strideUp_field_rel (r : Nat) (hr : 0 < r) (pw : Nat) (rev : Bool) (ws : List Nat)
    (ins : List (In (Nat × Nat))) :
    let e := strideUp (α := Nat) (π := Nat) r 0 0
    ∀ (m : Nat) (hm : m < (e.delivered e.init ins).length),
      ∃ c, (chunks r (e.accepted e.init ins))[m]? = some c ∧
        wordOf 0 c = upView ((e.delivered e.init ins)[m]) ∧
        slice (r * sumW ws) pw (encStrideUp r pw rev ws ((e.delivered e.init ins)[m]).data) =
          ((c.getLast?.map (·.data.2)).getD 0) % 2 ^ pw ∧
        ∀ (i : Nat) (hi : i < c.length),
          (fieldPos ws).map (fun (j, w) => slice ((if rev then r - 1 - i else i) * w) w
              (slice (r * j) (r * w) (encStrideUp r pw rev ws ((e.delivered e.init ins)[m]).data))) =
            (fieldPos ws).map (fun (j, w) => slice j w (c[i].data.1)) := by
  intro e m hm
  obtain ⟨hA, hD, _⟩ := strideUp_sim (α := Nat) (π := Nat) r 0 0 ins
  have hrel := upConv_token_rel (α := Nat) (π := Nat) r hr 0 0 ins
  have hlen := (rel_run_init (upConv (α := Nat) (π := Nat) r 0 0) (upLenRel r) ⟨by simp [upConv], by simp⟩
    (upConv_len_step r 0 0) ins).2
  simp only at hrel
  rw [← hA, ← hD] at hrel
  rw [← hD] at hlen
  set D := e.delivered e.init ins with hDdef
  set C := chunks r (e.accepted e.init ins) with hCdef
  have hW : (D[m]).data.lanes.length = r := hlen _ (List.getElem_mem hm)
  -- the m-th specified word is the view of the m-th delivered word
  have hget : (C.map (wordOf 0))[m]? = some (upView D[m]) := by
    rw [hrel, List.getElem?_append_left (by simpa using hm)]
    simp [hm]
  rw [List.getElem?_map] at hget
  obtain ⟨c, hc, hw⟩ := Option.map_eq_some_iff.mp hget
  refine ⟨c, hc, hw, ?_, ?_⟩
  · have hp := (encStrideUp_fields r pw rev ws (D[m]).data hW 0 hr).2
    rw [hp]
    have : (upView D[m]).data.2 = (D[m]).data.param := rfl
    rw [← this, ← hw]
    rfl
  · intro i hi
    have hdata : c.map (·.data.1) = (D[m]).data.lanes.take (D[m]).data.count := by
      have := congrArg (fun t => t.data.1) hw
      simpa [wordOf, upView] using this
    have hcl : c.length ≤ r := by
      have := congrArg List.length hdata
      simp only [List.length_map, List.length_take] at this
      omega
    have hf := (encStrideUp_fields r pw rev ws (D[m]).data hW i (by omega)).1
    rw [hf]
    have hlane : (D[m]).data.lanes.getD i 0 = c[i].data.1 := by
      have h1 : (c.map (·.data.1))[i]? = some (c[i].data.1) := by simp [hi]
      rw [hdata, List.getElem?_take] at h1
      split at h1
      · simp [List.getD_eq_getElem?_getD, h1]
      · simp at h1
    rw [hlane]

/-! ### Cast with reverse_from / reverse_to is a bit permutation -/

/-- `cast(b→a) ∘ cast(a→b) = id` on the `Σw` bits: the inverse of `Cast(a, b, reverse_from, reverse_to)` is
    `Cast(b, a, reverse_from := reverse_to, reverse_to := reverse_from)`, for all field-width lists of equal total
    width and all four flag combinations. -/
theorem cast_inverse (rf rt : Bool) (wsFrom wsTo : List Nat) (hw : sumW wsFrom = sumW wsTo) (x : Nat) :
    castFn rt rf wsTo wsFrom (castFn rf rt wsFrom wsTo x) = x % 2 ^ sumW wsFrom :=
  castFn_inverse rf rt wsFrom wsTo hw x

/-- Hence every cast is a bijection of `[0, 2^Σw)`: no two sink words give the same source word, and every
    source word is produced. -/
theorem cast_bijective (rf rt : Bool) (wsFrom wsTo : List Nat) (hw : sumW wsFrom = sumW wsTo) :
    (∀ x y, x < 2 ^ sumW wsFrom → y < 2 ^ sumW wsFrom →
      castFn rf rt wsFrom wsTo x = castFn rf rt wsFrom wsTo y → x = y) ∧
    (∀ y, y < 2 ^ sumW wsTo → ∃ x, x < 2 ^ sumW wsFrom ∧ castFn rf rt wsFrom wsTo x = y) := by
  constructor
  · intro x y hx hy h
    have h1 := castFn_inverse rf rt wsFrom wsTo hw x
    have h2 := castFn_inverse rf rt wsFrom wsTo hw y
    rw [h, h2, Nat.mod_eq_of_lt hy, Nat.mod_eq_of_lt hx] at h1
    exact h1.symm
  · intro y hy
    refine ⟨castFn rt rf wsTo wsFrom y, castFn_lt rt rf wsTo wsFrom y, ?_⟩
    rw [castFn_inverse rt rf wsTo wsFrom hw.symm y, Nat.mod_eq_of_lt hy]

/-! ### PipelinedActor of any latency, Crossbar -/

/-- `PipelinedActor(latency = L)` for every `L` (`L = 0` combinational), every schedule: accepted = delivered ++
    the tokens in the valid stages (oldest first), never more than `L` of them; first/last travel with their token.
    This is the control path every `PipelinedActor` subclass shares (Shifter, the 8b/10b stream wrappers). -/
theorem pipelinedActor_token_rel (L : Nat) (z : Tok α) (ins : List (In α)) :
    let e := pipeActor L z
    e.accepted e.init ins = e.delivered e.init ins ++ paInflight (e.runFrom e.init ins) ∧
    (paInflight (e.runFrom e.init ins)).length ≤ L := by
  have h := rel_run_init (pipeActor L z) (paRel L)
    ⟨by simp [pipeActor], by simp [pipeActor, paInflight, List.filter_replicate]⟩ (pipeActor_step L z) ins
  refine ⟨h.2, ?_⟩
  have := paInflight_length_le ((pipeActor L z).runFrom (pipeActor L z).init ins)
  rw [h.1] at this
  exact this

/-- `Crossbar(n)` wired as its name says (its Demultiplexer's source `k` to its Multiplexer's sink `k`), the two
    selectors changing freely: the composition of the two models delivers exactly what it accepts, unchanged and in
    order, and accepts only while both selectors name the same existing port (otherwise it is blocked, nothing is
    dropped). -/
theorem crossbar_token_rel (n : Nat) (z : α) (ins : List (In (α × Nat × Nat))) :
    let e := crossbar n z
    e.delivered () ins = (e.accepted () ins).map (mapTok (·.1)) ∧
    ∀ t ∈ e.accepted () ins, t.data.2.1 = t.data.2.2 ∧ t.data.2.1 < n :=
  rel_run_init (crossbar n z) (xbarRel n) ⟨rfl, by simp⟩ (crossbar_step n z) ins


/-! ### Glue: Pipeline of any list of stages, Buffer (all flag combinations), SyncFIFO (every depth, buffered or
    not — the constructor's three-way selection is part of the model), Delay n, same-domain ClockDomainCrossing -/

/-- `Pipeline(m_1, …, m_n)` of ANY list of identity-typed stages (Endpoint/connect, PipeValid, PipeReady, SyncFIFO d,
    SyncFIFOBuffered d, in any order and number), every schedule: accepted = delivered ++ the tokens inside (stage
    nearest the source first), never more than the sum of the stage capacities.  Induction over the stage list
    (`comp_rel` at every `source.connect(sink)`). -/
theorem stages_token_rel (l : List Stage) (z : Tok α) (ins : List (In α)) :
    let e := stages z l
    e.accepted e.init ins = e.delivered e.init ins ++ pipeInflight l (e.runFrom e.init ins) ∧
    (pipeInflight l (e.runFrom e.init ins)).length ≤ stagesCap l :=
  pipeRel_inflight l _ _ _ (rel_run_init (stages z l) (pipeRel l) (pipeRel_init z l) (stages_step z l) ins)

/-- Nothing lost, duplicated or reordered by any such pipeline. -/
theorem stages_no_loss_dup_reorder (l : List Stage) (z : Tok α) (ins : List (In α)) :
    let e := stages z l
    e.delivered e.init ins <+: e.accepted e.init ins ∧
    (e.accepted e.init ins).length ≤ (e.delivered e.init ins).length + stagesCap l := by
  obtain ⟨h1, h2⟩ := stages_token_rel l z ins
  simp only at h1 h2 ⊢
  refine ⟨by rw [h1]; exact List.prefix_append _ _, ?_⟩
  have := congrArg List.length h1
  simp only [List.length_append] at this
  omega

/-- `Buffer(layout, pipe_valid, pipe_ready)`, all four flag combinations (the instance `bufferVR_token_rel` above is
    `pv = pr = true`): identity with at most `pv + pr` tokens inside. -/
theorem buffer_token_rel (pv pr : Bool) (z : Tok α) (ins : List (In α)) :
    let e := stages z (bufferStages pv pr)
    e.accepted e.init ins = e.delivered e.init ins ++ pipeInflight _ (e.runFrom e.init ins) ∧
    (pipeInflight _ (e.runFrom e.init ins)).length ≤ pv.toNat + pr.toNat := by
  have h := stages_token_rel (bufferStages pv pr) z ins
  rwa [stagesCap_buffer] at h

/-- `SyncFIFO(layout, depth, buffered)` as constructed, for EVERY `depth ≥ 0` and both `buffered` settings
    (depth 0: connect; depth 1: `Buffer`, `buffered` ignored; depth ≥ 2: Migen FIFO, one more slot when buffered):
    identity, at most `depth (+1)` tokens inside. -/
theorem streamSyncFifo_token_rel (depth : Nat) (buffered : Bool) (z : Tok α) (ins : List (In α)) :
    let e := stages z (syncFifoStages depth buffered)
    e.accepted e.init ins = e.delivered e.init ins ++ pipeInflight _ (e.runFrom e.init ins) ∧
    (pipeInflight _ (e.runFrom e.init ins)).length ≤ depth + (if buffered && decide (2 ≤ depth) then 1 else 0) := by
  have h := stages_token_rel (syncFifoStages depth buffered) z ins
  rwa [stagesCap_syncFifo] at h

/-- `Delay(layout, n)` as constructed (n × `Buffer(pipe_valid)` in a `Pipeline`), every `n`. -/
theorem delayStages_token_rel (n : Nat) (z : Tok α) (ins : List (In α)) :
    let e := stages z (delayStages n)
    e.accepted e.init ins = e.delivered e.init ins ++ pipeInflight _ (e.runFrom e.init ins) ∧
    (pipeInflight _ (e.runFrom e.init ins)).length ≤ n := by
  have h := stages_token_rel (delayStages n) z ins
  rwa [stagesCap_delay] at h

/-- `ClockDomainCrossing(cd_from == cd_to, buffered)`: a connect, or one `Buffer`. -/
theorem cdcSame_token_rel (buffered : Bool) (z : Tok α) (ins : List (In α)) :
    let e := stages z (cdcSameStages buffered)
    e.accepted e.init ins = e.delivered e.init ins ++ pipeInflight _ (e.runFrom e.init ins) ∧
    (pipeInflight _ (e.runFrom e.init ins)).length ≤ buffered.toNat := by
  have h := stages_token_rel (cdcSameStages buffered) z ins
  have hc : stagesCap (cdcSameStages buffered) = buffered.toNat := by cases buffered <;> rfl
  rwa [hc] at h

/-- `BufferizeEndpoints({sink if bs, source if bd}, pipe_valid, pipe_ready)` around ANY element `e` whose history
    relation `R` is preserved cycle by cycle: what the outer sink accepted, minus the at most `pv + pr` tokens in the
    sink buffer, is related by `R` to what was delivered plus the at most `pv + pr` tokens in the source buffer.
    (`bufferizedUp_token_rel` above is the instance `e = upConv`, `bs = bd = pv = true`, `pr = false`.) -/
theorem bufferize_token_rel {σ : Type} (bs bd pv pr : Bool) (zi : Tok α) (zo : Tok β) (e : Elem α β σ)
    (R : σ → List (Tok α) → List (Tok β) → Prop) (h0 : R e.init [] [])
    (hstep : ∀ s a d i, R s a d → R (e.step s i) (a ++ e.accNow s i) (d ++ e.delNow s i))
    (ins : List (In α)) :
    let b := bufferize bs bd pv pr zi zo e
    let s := b.runFrom b.init ins
    ∃ mid1 mid2,
      b.accepted b.init ins = mid1 ++ pipeInflight _ s.1 ∧ R s.2.1 mid1 mid2 ∧
      mid2 = b.delivered b.init ins ++ pipeInflight _ s.2.2 ∧
      (pipeInflight _ s.1).length ≤ (if bs then pv.toNat + pr.toNat else 0) ∧
      (pipeInflight _ s.2.2).length ≤ (if bd then pv.toNat + pr.toNat else 0) := by
  intro b s
  let l1 := if bs then bufferStages pv pr else []
  let l2 := if bd then bufferStages pv pr else []
  have hinner := comp_rel e (stages zo l2) R (pipeRel l2) hstep (stages_step zo l2)
  have h := rel_run_init b
    (fun s x d => ∃ m1, pipeRel l1 s.1 x m1 ∧ ∃ m2, R s.2.1 m1 m2 ∧ pipeRel l2 s.2.2 m2 d)
    ⟨[], pipeRel_init zi l1, [], h0, pipeRel_init zo l2⟩
    (comp_rel (stages zi l1) (e.comp (stages zo l2)) (pipeRel l1)
      (fun s x d => ∃ m2, R s.1 x m2 ∧ pipeRel l2 s.2 m2 d) (stages_step zi l1) hinner) ins
  obtain ⟨m1, h1, m2, h2, h3⟩ := h
  obtain ⟨e1, c1⟩ := pipeRel_inflight l1 _ _ _ h1
  obtain ⟨e3, c3⟩ := pipeRel_inflight l2 _ _ _ h3
  refine ⟨m1, m2, e1, h2, e3, ?_, ?_⟩
  · rw [← stagesCap_optBuffer bs pv pr]; exact c1
  · rw [← stagesCap_optBuffer bd pv pr]; exact c3

/-- Instance: any `BufferizeEndpoints` configuration around `_UpConverter` / `Pack`, any ratio. -/
theorem bufferizeUp_token_rel (bs bd pv pr : Bool) (r : Nat) (hr : 0 < r) (ins : List (In (Nat × Nat))) :
    let b := bufferize bs bd pv pr zUpIn (zUpOut r) (upConv (α := Nat) (π := Nat) r 0 0)
    let s := b.runFrom b.init ins
    ∃ mid1 mid2,
      b.accepted b.init ins = mid1 ++ pipeInflight _ s.1 ∧
      (chunks r mid1).map (wordOf 0) = mid2.map upView ++ s.2.1.inflight ∧
      mid2 = b.delivered b.init ins ++ pipeInflight _ s.2.2 := by
  obtain ⟨m1, m2, h1, h2, h3, _⟩ := bufferize_token_rel bs bd pv pr zUpIn (zUpOut r) (upConv (α := Nat) (π := Nat) r 0 0)
    (upRel r 0)
    ⟨by simp [upConv, UpState.inflight], by simp [upConv], by simpa [upConv] using hr, by simp [upConv],
     by simp [upConv], by simp [upConv]⟩
    (upConv_step r hr 0 0) ins
  exact ⟨m1, m2, h1, h2.1, h3⟩

/-! ### Converter: class and ratio selection (`_get_converter_ratio`) -/

/-- For all widths ≥ 1: the down-converter is chosen exactly when `nbits_from` is a proper multiple of `nbits_to`
    (ratio ≥ 2 with `from = ratio·to`), the up-converter when `nbits_to` is a proper multiple of `nbits_from`,
    the identity when the widths are equal, and the constructor raises exactly when neither width divides the other. -/
theorem converter_selection (nf nt : Nat) (hf : 0 < nf) (ht : 0 < nt) :
    match converterKind nf nt with
    | some (.down, r) => nf = r * nt ∧ 2 ≤ r
    | some (.up, r) => nt = r * nf ∧ 2 ≤ r
    | some (.ident, r) => nf = nt ∧ r = 1
    | none => ¬ (nt ∣ nf) ∧ ¬ (nf ∣ nt) :=
  converterKind_spec nf nt hf ht

/-! ### Pack / Unpack / StrideConverter (down) on the FIELDS of arbitrary layouts -/

/-- `Pack(layout, n = r)` with ANY payload layout (field widths `ws`), params, `reverse`, every schedule: the `m`-th
    delivered word belongs to the `m`-th chunk `c` of the accepted sub-words; first/last/param/count are the chunk's,
    and field `k` of source chunk `reverse ? r-1-i : i` is field `k` of the chunk's `i`-th sub-word. -/
theorem pack_field_rel (r : Nat) (hr : 0 < r) (pw : Nat) (rev vtc : Bool) (ws : List Nat)
    (ins : List (In (Nat × Nat))) :
    let e := upConv (α := Nat) (π := Nat) r 0 0
    ∀ (m : Nat) (hm : m < (e.delivered e.init ins).length),
      ∃ c, (chunks r (e.accepted e.init ins))[m]? = some c ∧
        wordOf 0 c = upView ((e.delivered e.init ins)[m]) ∧
        slice (r * sumW ws) pw (encUp r (sumW ws) pw rev vtc ((e.delivered e.init ins)[m]).data) =
          ((c.getLast?.map (·.data.2)).getD 0) % 2 ^ pw ∧
        (vtc = true →
          encUp r (sumW ws) pw rev vtc ((e.delivered e.init ins)[m]).data / 2 ^ (r * sumW ws + pw) = c.length) ∧
        ∀ (i : Nat) (hi : i < c.length),
          (fieldPos ws).map (fun (j, w) => slice ((if rev then r - 1 - i else i) * sumW ws + j) w
              (encUp r (sumW ws) pw rev vtc ((e.delivered e.init ins)[m]).data)) =
            (fieldPos ws).map (fun (j, w) => slice j w (c[i].data.1)) := by
  intro e m hm
  have hrel := upConv_token_rel (α := Nat) (π := Nat) r hr 0 0 ins
  have hlen := (rel_run_init (upConv (α := Nat) (π := Nat) r 0 0) (upLenRel r) ⟨by simp [upConv], by simp⟩
    (upConv_len_step r 0 0) ins).2
  have hcnt := (rel_run_init (upConv (α := Nat) (π := Nat) r 0 0) (upCntRel r)
    ⟨by simpa [upConv] using hr, by simp [upConv], by simp⟩ (upConv_cnt_step r hr 0 0) ins).2.2
  simp only at hrel
  set D := e.delivered e.init ins with hDdef
  set C := chunks r (e.accepted e.init ins) with hCdef
  have hW : (D[m]).data.lanes.length = r := hlen _ (List.getElem_mem hm)
  have hK : (D[m]).data.count ≤ r := hcnt _ (List.getElem_mem hm)
  have hget : (C.map (wordOf 0))[m]? = some (upView D[m]) := by
    rw [hrel, List.getElem?_append_left (by simpa using hm)]
    simp [hm]
  rw [List.getElem?_map] at hget
  obtain ⟨c, hc, hw⟩ := Option.map_eq_some_iff.mp hget
  have hdata : c.map (·.data.1) = (D[m]).data.lanes.take (D[m]).data.count := by
    have := congrArg (fun t => t.data.1) hw
    simpa [wordOf, upView] using this
  have hcl : c.length = (D[m]).data.count := by
    have := congrArg List.length hdata
    simp only [List.length_map, List.length_take] at this
    omega
  refine ⟨c, hc, hw, ?_, ?_, ?_⟩
  · have hp := (encUp_fields r pw rev vtc ws (D[m]).data hW 0 hr).2.1
    rw [hp]
    have : (upView D[m]).data.2 = (D[m]).data.param := rfl
    rw [← this, ← hw]
    rfl
  · intro hv
    have hp := (encUp_fields r pw rev vtc ws (D[m]).data hW 0 hr).2.2
    rw [hp, hv, hcl]
    rfl
  · intro i hi
    have hf := (encUp_fields r pw rev vtc ws (D[m]).data hW i (by omega)).1
    rw [hf]
    have hlane : (D[m]).data.lanes.getD i 0 = c[i].data.1 := by
      have h1 : (c.map (·.data.1))[i]? = some (c[i].data.1) := by simp [hi]
      rw [hdata, List.getElem?_take] at h1
      split at h1
      · simp [List.getD_eq_getElem?_getD, h1]
      · simp at h1
    rw [hlane]

/-- `Unpack(n = r, layout)` / `_DownConverter` on FIELDS, any layout `ws`, params, `reverse`: the `i`-th narrow token
    the element makes of a wide sink token `t` (`splitTok`, which `downConv_token_rel_partial` shows to be what is
    delivered) carries field `k` of sink chunk `reverse ? r-1-i : i`, the sink's param, `first` on lane 0 only and
    `last` on lane `r-1` only. -/
theorem unpack_field_rel (r pw : Nat) (rev : Bool) (ws : List Nat) (t : Tok Nat) (i : Nat) (hi : i < r) :
    ∃ u, (splitTok r 0 (mapTok (fun d => decDown r (sumW ws) pw rev d []) t))[i]? = some u ∧
      (fieldPos ws).map (fun (j, w) => slice j w u.data.1) =
        (fieldPos ws).map (fun (j, w) => slice ((if rev then r - 1 - i else i) * sumW ws + j) w t.data) ∧
      u.data.2 = slice (r * sumW ws) pw t.data ∧
      u.first = (t.first && i == 0) ∧ u.last = (t.last && i + 1 == r) := by
  refine ⟨laneTok r 0 (mapTok (fun d => decDown r (sumW ws) pw rev d []) t) i, ?_, ?_, rfl, rfl, rfl⟩
  · simp [splitTok_eq, hi]
  · exact (decDown_fields r pw rev ws t.data i hi).1

/-- `StrideConverter` (down) on FIELDS: the `i`-th narrow token carries, in field `k`, slice `reverse ? r-1-i : i` of
    the wide sink field `k`. -/
theorem strideDown_field_rel (r pw : Nat) (rev : Bool) (ws : List Nat) (t : Tok Nat) (i : Nat) (hi : i < r) :
    ∃ u, (splitTok r 0 (mapTok (fun d => decStrideDown r pw rev ws d []) t))[i]? = some u ∧
      (fieldPos ws).map (fun (j, w) => slice j w u.data.1) =
        (fieldPos ws).map (fun (j, w) => slice ((if rev then r - 1 - i else i) * w) w (slice (r * j) (r * w) t.data)) ∧
      u.data.2 = slice (r * sumW ws) pw t.data ∧
      u.first = (t.first && i == 0) ∧ u.last = (t.last && i + 1 == r) := by
  refine ⟨laneTok r 0 (mapTok (fun d => decStrideDown r pw rev ws d []) t) i, ?_, ?_, rfl, rfl, rfl⟩
  · simp [splitTok_eq, hi]
  · exact (decStrideDown_fields r pw rev ws t.data i hi).1

/-- Unpack after Pack returns every field of every sub-word, any layout, any `n`, either `reverse` (same on both). -/
theorem unpack_pack_field_roundtrip (r : Nat) (rev : Bool) (ws : List Nat) (W : UpWord Nat Nat)
    (hW : W.lanes.length = r) (i : Nat) (hi : i < r) :
    (fieldPos ws).map (fun (j, w) =>
        slice j w ((decDown r (sumW ws) 0 rev (encUp r (sumW ws) 0 rev false W) []).1.getD i 0)) =
      (fieldPos ws).map (fun (j, w) => slice j w (W.lanes.getD i 0)) :=
  unpack_pack_fields r rev ws W hW i hi

/-! ### Monitor (clock_domain = "sys"): counters -/

/-- One `MonitorCounter` of any width `w`, every history of `(reset, latch, enable)` cycles: `_count` is the number of
    `enable` cycles since the last `reset`, saturated at `2^w - 1`; `_count_latched` is the value `_count` had just
    before the last `latch` (0 after a reset); the CSR status shows `_count_latched` two cycles late (`MultiReg`). -/
theorem monitor_counter_spec (w : Nat) (h : List (Bool × Bool × Bool)) (x y : Bool × Bool × Bool) :
    (monRun w monCtr0 h).count = (monSpec w h).1 ∧ (monRun w monCtr0 h).latched = (monSpec w h).2 ∧
    (monRun w monCtr0 (h ++ [x, y])).m1 = (monSpec w h).2 ∧
    (monSpec w h).1 ≤ 2 ^ w - 1 :=
  ⟨(monCounter_spec w h).1, (monCounter_spec w h).2, monCounter_status w h x y, by
    rw [← (monCounter_spec w h).1]
    exact monRun_count_le w h⟩

/-- The four counters of `Monitor` count what they are documented to count: with `ins` the cycles seen on the
    watched endpoint (and the two controls), each enabled counter is `monRun` over the cycle-wise enable
    `valid & ready` (tokens), `valid & ~ready` (overflows), `~valid & ready` (underflows),
    `valid & delimiter & ready` (packets); an absent counter stays 0. -/
theorem monitor_counts (w : Nat) (cfg : MonCfg) (df : Bool) (ins : List MonIn) :
    let s := (monitor w cfg df).runFrom (monitor w cfg df).init ins
    (cfg.tokens = true → s.tokens = monRun w monCtr0 (ins.map fun i => (i.reset, i.latch, i.valid && i.ready))) ∧
    (cfg.overflows = true → s.overflows = monRun w monCtr0 (ins.map fun i => (i.reset, i.latch, i.valid && !i.ready))) ∧
    (cfg.underflows = true → s.underflows = monRun w monCtr0 (ins.map fun i => (i.reset, i.latch, !i.valid && i.ready))) ∧
    (cfg.packets = true → s.packets = monRun w monCtr0
        (ins.map fun i => (i.reset, i.latch, i.valid && (if df then i.first else i.last) && i.ready))) ∧
    (cfg.tokens = false → s.tokens = monCtr0) ∧ (cfg.overflows = false → s.overflows = monCtr0) ∧
    (cfg.underflows = false → s.underflows = monCtr0) ∧ (cfg.packets = false → s.packets = monCtr0) :=
  monitor_run_spec w cfg df ins

/-- Without reset, the token counter (wide enough not to saturate) is the number of tokens handed over. -/
theorem monitor_counts_tokens (w : Nat) (es : List Bool) (hfit : es.length < 2 ^ w) :
    (monSpec w (es.map fun e => (false, false, e))).1 = (es.filter id).length :=
  monSpec_count_noreset w es hfit

/-! ### Multiplexer / Demultiplexer selector width -/

/-- `Signal(max = max(n, 2))` is wide enough for every port number and no wider than needed: all of `0 … n-1` pass the
    selector port unchanged, and the width is the smallest with that property (for `n ≥ 2`). -/
theorem selWidth_spec (n : Nat) :
    (∀ k, k < n → k % 2 ^ selWidth n = k) ∧ 1 ≤ selWidth n ∧ (2 < n → 2 ^ (selWidth n - 1) < n) :=
  selWidth_facts n

/-! ### Non-vacuity -/

/-- Up-converter, ratio 3: four sub-words, the second with an early `last`; consumer stalls once.  Two words are
    specified (one partial with 2 valid lanes, one cut by `last` again), one delivered, one waiting. -/
example :
    let e := upConv (α := Nat) (π := Unit) 3 0 ()
    let ins : List (In (Nat × Unit)) :=
      [⟨true, ⟨(5, ()), true, false⟩, false⟩, ⟨true, ⟨(6, ()), false, true⟩, false⟩,
       ⟨true, ⟨(7, ()), true, true⟩, true⟩, ⟨false, ⟨(9, ()), true, true⟩, false⟩]
    (e.delivered e.init ins).map upView = [⟨([5, 6], ()), true, true⟩] ∧
    (chunks 3 (e.accepted e.init ins)).map (wordOf ()) = [⟨([5, 6], ()), true, true⟩, ⟨([7], ()), true, true⟩] := by
  decide

/-- Down-converter, ratio 2, a producer that honours the contract and a consumer that stalls. -/
example :
    let e := downConv (α := Nat) (π := Unit) 2 0
    let ins : List (In (List Nat × Unit)) :=
      [⟨true, ⟨([1, 2], ()), true, true⟩, true⟩, ⟨true, ⟨([1, 2], ()), true, true⟩, false⟩,
       ⟨true, ⟨([1, 2], ()), true, true⟩, true⟩, ⟨true, ⟨([3, 4], ()), false, false⟩, true⟩]
    e.Held e.init none ins ∧
    e.delivered e.init ins = [⟨(1, ()), true, false⟩, ⟨(2, ()), false, true⟩, ⟨(3, ()), false, false⟩] := by
  refine ⟨?_, by decide⟩
  simp [Elem.Held, Elem.Meets, Elem.obl, Elem.out, Elem.step, downConv]

/-- Gearbox 3 → 2 (L = 6): two words accepted (the second only once there is room), three 2-bit words leave in
    order. -/
example :
    let e := gearbox (α := Bool) 6 3 2 false
    let ins : List (In (List Bool)) :=
      [⟨true, ⟨[true, false, true], false, false⟩, true⟩, ⟨true, ⟨[true, true, false], false, false⟩, true⟩,
       ⟨true, ⟨[true, true, false], false, false⟩, true⟩, ⟨false, ⟨[], false, false⟩, true⟩,
       ⟨false, ⟨[], false, false⟩, true⟩]
    bitsOut (e.delivered e.init ins) = [true, false, true, true, true, false] ∧ ioLcm 3 2 = 6 := by decide

/-- Gate with sink_ready_when_disabled: the token offered while disabled is accepted and dropped (by design). -/
example :
    let e := gate (α := Nat) true 0
    let ins : List (In (Nat × Bool)) := [⟨true, ⟨(1, true), false, false⟩, true⟩, ⟨true, ⟨(2, false), false, false⟩, true⟩]
    (e.accepted () ins).length = 2 ∧ e.delivered () ins = [⟨1, false, false⟩] := by decide

/-- Shifter, dw = 4, shift = 0: two tokens in, the first comes out unchanged, the second is still inside. -/
example :
    let e := shifter 4
    let ins : List (In (Nat × Nat)) :=
      [⟨true, ⟨(5, 0), true, false⟩, true⟩, ⟨true, ⟨(9, 0), false, true⟩, true⟩, ⟨false, ⟨(0, 0), false, false⟩, true⟩]
    e.delivered e.init ins = [⟨5, true, false⟩] ∧ (e.runFrom e.init ins).inflight = [⟨9, false, true⟩] := by decide

/-- SyncFIFO(2, buffered): three tokens offered back to back while the consumer stalls, then one is taken. -/
example :
    let e := syncFifoBuffered (α := Nat) 2 ⟨0, false, false⟩
    let ins : List (In Nat) :=
      [⟨true, ⟨1, true, false⟩, false⟩, ⟨true, ⟨2, false, false⟩, false⟩, ⟨true, ⟨3, false, true⟩, false⟩,
       ⟨false, ⟨7, true, true⟩, true⟩]
    e.accepted e.init ins = [⟨1, true, false⟩, ⟨2, false, false⟩, ⟨3, false, true⟩] ∧
    e.delivered e.init ins = [⟨1, true, false⟩] ∧ (e.runFrom e.init ins).inflight.length = 2 := by decide

/-- Delay(2): a token needs two cycles to appear; two tokens accepted, one delivered. -/
example :
    let e := delay (α := Nat) ⟨0, false, false⟩ 2
    let ins : List (In Nat) :=
      [⟨true, ⟨1, true, false⟩, true⟩, ⟨true, ⟨2, false, true⟩, true⟩, ⟨false, ⟨0, false, false⟩, true⟩]
    e.accepted e.init ins = [⟨1, true, false⟩, ⟨2, false, true⟩] ∧ e.delivered e.init ins = [⟨1, true, false⟩] := by
  decide

/-- StrideConverter (up, ratio 2) with params: the word stalled at the source keeps the param it was accepted
    with although the producer already offers the next packet (witness of fixed finding 3f0170f). -/
example :
    let e := strideUp (α := Nat) (π := Nat) 2 0 0
    let ins : List (In (Nat × Nat)) :=
      [⟨true, ⟨(1, 1), true, false⟩, false⟩, ⟨true, ⟨(0, 1), false, true⟩, false⟩,
       ⟨true, ⟨(1, 2), true, false⟩, false⟩, ⟨true, ⟨(1, 2), true, false⟩, true⟩]
    (e.delivered e.init ins).map upView = [⟨([1, 0], 1), true, true⟩] := by decide

/-- Multiplexer(2): sink 1 is selected; sink 0 offers a token too but is not accepted. -/
example :
    let i : MuxIn Nat := ⟨1, [(true, ⟨7, false, false⟩), (true, ⟨8, true, true⟩)], true⟩
    muxDel 2 zTok i = [⟨8, true, true⟩] ∧ muxAccAt 2 zTok 0 i = [] ∧ muxAccAt 2 zTok 1 i = [⟨8, true, true⟩] := by
  decide

/-- Demultiplexer(3) with `sel = 3` (no such source): nothing is accepted, nothing delivered. -/
example :
    let i : DemuxIn Nat := ⟨3, true, ⟨7, false, false⟩, [true, true, true]⟩
    demuxAcc 3 zTok i = [] ∧ demuxDelAt 3 zTok 2 i = [] := by decide

/-- PipelinedActor, latency 3: a token needs three enabled cycles; two accepted, the first just delivered. -/
example :
    let e := pipeActor (α := Nat) 3 ⟨0, false, false⟩
    let ins : List (In Nat) :=
      [⟨true, ⟨1, true, false⟩, true⟩, ⟨false, ⟨9, true, true⟩, true⟩, ⟨true, ⟨2, false, true⟩, true⟩,
       ⟨false, ⟨0, false, false⟩, true⟩]
    e.delivered e.init ins = [⟨1, true, false⟩] ∧ paInflight (e.runFrom e.init ins) = [⟨2, false, true⟩] := by decide

/-- Crossbar(3): passes with both selectors at 2, blocked (not dropped) when they differ or name port 3. -/
example :
    let e := crossbar (α := Nat) 3 0
    let ins : List (In (Nat × Nat × Nat)) :=
      [⟨true, ⟨(7, 2, 2), true, false⟩, true⟩, ⟨true, ⟨(8, 1, 2), false, false⟩, true⟩,
       ⟨true, ⟨(9, 3, 3), false, true⟩, true⟩]
    e.delivered () ins = [⟨7, true, false⟩] ∧ (e.accepted () ins).length = 1 := by decide

/-- `_DownConverter` ratio 3: the count output marks every third delivered token. -/
example :
    let e := downConvV (α := Nat) (π := Unit) 3 0
    let i : In (List Nat × Unit) := ⟨true, ⟨([1, 2, 3], ()), true, true⟩, true⟩
    (e.delivered e.init [i, i, i, i]).map (·.data.2) = [false, false, true, false] := by decide

/-- Stride map, fields (1 bit, 2 bits), ratio 2: sub-words `0b101` (a=1,b=2) and `0b010` (a=0,b=1) give wide
    fields a = 0b01, b = 0b0110, i.e. `0b011001`; and back. -/
example : strideOut [1, 2] [0b101, 0b010] = 0b011001 ∧ strideIn 2 [1, 2] 0b011001 = [0b101, 0b010] := by decide

/-- Cast with `reverse_from`: fields (1 bit, 2 bits) → (2 bits, 1 bit), the first source field gets the second
    sink field. -/
example : castFn true false [1, 2] [2, 1] 0b101 = 0b110 := by decide

/-- Pipeline PipeValid → SyncFIFO(2) → PipeReady: three tokens accepted while the consumer stalls, then one leaves. -/
example :
    let e := stages (α := Nat) ⟨0, false, false⟩ [.pv, .fifo 2, .pr]
    let ins : List (In Nat) :=
      [⟨true, ⟨1, true, false⟩, false⟩, ⟨true, ⟨2, false, false⟩, false⟩, ⟨true, ⟨3, false, true⟩, false⟩,
       ⟨false, ⟨7, true, true⟩, true⟩]
    e.accepted e.init ins = [⟨1, true, false⟩, ⟨2, false, false⟩, ⟨3, false, true⟩] ∧
    e.delivered e.init ins = [⟨1, true, false⟩] ∧ stagesCap [.pv, .fifo 2, .pr] = 4 := by decide

/-- The constructor selections: SyncFIFO(1, buffered) is a plain Buffer, SyncFIFO(0) a connect, SyncFIFO(3, buffered)
    the buffered Migen FIFO; Delay(2) is two PipeValid stages; Buffer(False, True) is a lone PipeReady. -/
example : syncFifoStages 1 true = [.pv] ∧ syncFifoStages 0 true = [] ∧ syncFifoStages 3 true = [.fifoB 3] ∧
    syncFifoStages 2 false = [.fifo 2] ∧ delayStages 2 = [.pv, .pv] ∧ bufferStages false true = [.pr] := by decide

/-- Converter selection: 8 → 32 is an up-converter of ratio 4, 24 → 8 a down-converter of ratio 3, 9 → 6 raises. -/
example : converterKind 8 32 = some (.up, 4) ∧ converterKind 24 8 = some (.down, 3) ∧ converterKind 9 6 = none ∧
    converterKind 5 5 = some (.ident, 1) := by decide

/-- Pack of fields (1 bit, 2 bits), n = 2, reverse: the word with sub-words 0b101, 0b010 is 0b101010 (chunk 1 holds the
    first sub-word); field b (2 bits at offset 1) of chunk 1 is field b of sub-word 0. -/
example : encUp 2 3 0 true false ⟨[0b101, 0b010], 0, 2⟩ = 0b101010 ∧
    slice (1 * 3 + 1) 2 (encUp 2 3 0 true false ⟨[0b101, 0b010], 0, 2⟩) = slice 1 2 0b101 := by decide

/-- MonitorCounter, 2-bit: five enabled cycles saturate at 3; a latch then shows 3 two cycles later; the side
    condition of `monitor_counts_tokens` is needed (the count is 3, not 5). -/
example :
    let en : Bool × Bool × Bool := (false, false, true)
    (monRun 2 monCtr0 [en, en, en, en, en]).count = 3 ∧
    (monRun 2 monCtr0 [en, en, en, en, en, (false, true, false), en, en]).m1 = 3 ∧
    (monSpec 2 ([true, true, true, true, true].map fun e => (false, false, e))).1 ≠ 5 := by decide

/-- Selector widths: 1 bit for n ≤ 2, 2 bits for n = 3, 4, 3 bits for n = 5. -/
example : selWidth 1 = 1 ∧ selWidth 2 = 1 ∧ selWidth 3 = 2 ∧ selWidth 4 = 2 ∧ selWidth 5 = 3 ∧ selWidth 9 = 4 := by
  decide

end Litex.C03
