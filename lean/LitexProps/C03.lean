import LitexProofs.Stream.Basic
/-
  C03 — Stream elements deliver each token exactly once, in order, rightly transformed.

  Every theorem quantifies over `ins : List (In α)`: an arbitrary cycle-by-cycle choice of sink.valid, the
  token on the sink (garbage allowed while valid = 0) and source.ready — i.e. every valid/ready schedule and
  every token sequence.  `accepted`/`delivered` are the tokens transferred at the sink/source by handshake.
-/
namespace Litex.C03
open Litex.Stream Litex.Stream.Elem
variable {α : Type}

/-- PipeValid: accepted = delivered ++ (token held in the output register). -/
theorem pipeValid_token_rel (z : Tok α) (ins : List (In α)) :
    (pipeValid z).accepted (pipeValid z).init ins =
      (pipeValid z).delivered (pipeValid z).init ins ++ ((pipeValid z).runFrom (pipeValid z).init ins).inflight :=
  rel_run_init (pipeValid z) pvRel (by simp [pvRel, pipeValid, PVState.inflight]) (pipeValid_step z) ins

/-- PipeValid never loses, duplicates or reorders: what was delivered is a prefix of what was accepted, and at
    most one token is in flight. -/
theorem pipeValid_no_loss_dup_reorder (z : Tok α) (ins : List (In α)) :
    (pipeValid z).delivered (pipeValid z).init ins <+: (pipeValid z).accepted (pipeValid z).init ins ∧
    ((pipeValid z).accepted (pipeValid z).init ins).length ≤
      ((pipeValid z).delivered (pipeValid z).init ins).length + 1 := by
  rw [pipeValid_token_rel z ins]
  refine ⟨List.prefix_append _ _, ?_⟩
  simp only [List.length_append, PVState.inflight]
  split <;> simp

/-- PipeReady: accepted = delivered ++ (token parked in the skid register). -/
theorem pipeReady_token_rel (z : Tok α) (ins : List (In α)) :
    (pipeReady z).accepted (pipeReady z).init ins =
      (pipeReady z).delivered (pipeReady z).init ins ++ ((pipeReady z).runFrom (pipeReady z).init ins).inflight :=
  (rel_run_init (pipeReady z) prRel (by simp [prRel, pipeReady, PRState.inflight]) (pipeReady_step z) ins).2

/-- A wire (depth-0 FIFO, `Endpoint.connect`) delivers exactly what it accepts. -/
theorem wire_token_rel (ins : List (In α)) :
    (wire (α := α)).accepted () ins = (wire (α := α)).delivered () ins :=
  rel_run_init (wire (α := α)) wireRel rfl wire_step ins

/-- SyncFIFO (any depth): accepted = delivered ++ queue content, and the queue never exceeds `depth`. -/
theorem syncFifo_token_rel (depth : Nat) (z : Tok α) (ins : List (In α)) :
    (syncFifo depth z).accepted [] ins =
      (syncFifo depth z).delivered [] ins ++ (syncFifo depth z).runFrom [] ins ∧
    ((syncFifo depth z).runFrom [] ins).length ≤ depth := by
  have h := rel_run_init (syncFifo depth z) (fifoRel depth) (by simp [fifoRel, syncFifo]) (syncFifo_step depth z) ins
  exact ⟨h.2, h.1⟩

/-- `Buffer(pipe_valid=True, pipe_ready=True)` = PipeValid ⟫ PipeReady: the composed history relation, obtained
    from the two element relations by `comp_rel` (no separate proof about the composite). -/
theorem bufferVR_token_rel (z : Tok α) (ins : List (In α)) :
    ∃ mid,
      (bufferVR z).accepted (bufferVR z).init ins = mid ++ ((bufferVR z).runFrom (bufferVR z).init ins).1.inflight ∧
      mid = (bufferVR z).delivered (bufferVR z).init ins ++ ((bufferVR z).runFrom (bufferVR z).init ins).2.inflight := by
  have h := rel_run_init (bufferVR z) (fun s x d => ∃ mid, pvRel s.1 x mid ∧ prRel s.2 mid d)
    ⟨[], by simp [pvRel, bufferVR, comp, pipeValid, PVState.inflight],
         by simp [prRel, bufferVR, comp, pipeReady, PRState.inflight]⟩
    (comp_rel (pipeValid z) (pipeReady z) pvRel prRel (pipeValid_step z) (pipeReady_step z)) ins
  obtain ⟨mid, h1, h2⟩ := h
  exact ⟨mid, h1, h2.2⟩

/-! Non-vacuity: a concrete schedule on which tokens really move (two tokens accepted, one delivered,
    one in flight). -/
example :
    let z : Tok Nat := ⟨0, false, false⟩
    let ins : List (In Nat) := [⟨true, ⟨5, true, false⟩, false⟩, ⟨true, ⟨6, false, true⟩, true⟩, ⟨false, ⟨9, true, true⟩, false⟩]
    (pipeValid z).accepted (pipeValid z).init ins = [⟨5, true, false⟩, ⟨6, false, true⟩] ∧
    (pipeValid z).delivered (pipeValid z).init ins = [⟨5, true, false⟩] := by decide

end Litex.C03
