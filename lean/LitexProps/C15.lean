import LitexProofs.Event.Bus
import LitexProofs.Event.Gpio
/-
  C15 — Interrupt events are never lost and the IRQ line means pending-and-enabled.

  Model: `Litex.Event.evMgr c` (LitexModel/Event/Core.lean) = `EventManager` with sources `c.kinds` (any count, any
  mix of pulse / process-rising / process-falling / level) + its `status`/`pending`/`enable` CSRs in a `CSRBank` on a
  `c.bw`-bit CSR bus.  Every theorem quantifies over the configuration `c` and over `ins : List In`, an arbitrary
  cycle-by-cycle choice of all trigger lines and of the CSR bus (address, write strobe, write data): every trigger
  waveform and every interleaving with software accesses, including a clear in the same cycle as a trigger.
  Notation (LitexProofs/Event/Basic.lean): `…At c ins t k` = the signal of source `k` in cycle `t` of that run.
-/
namespace Litex.C15
open Litex Litex.Event

variable {c : Cfg} {ins : List In} {k : Nat}

/-! ## the IRQ line -/

/-- In every cycle of every run, `irq` is high exactly when some source is pending and enabled. -/
theorem irq_iff (c : Cfg) (ins : List In) (t : Nat) :
    irqAt c ins t = true ↔ ∃ k, k < c.n ∧ pendingAt c ins t k = true ∧ enableAt c ins t k = true :=
  irqOf_iff _ _

/-- The same for the output record of the machine in any reachable state and any current input. -/
theorem irq_iff_out (c : Cfg) (ins : List In) (i : In) :
    ((evMgr c).out ((evMgr c).run ins) i).irq = true ↔
      ∃ k, k < c.n ∧ pendingVis c ((evMgr c).run ins) i k = true ∧ (((evMgr c).run ins).bit k).en = true :=
  irqOf_iff _ _

/-- "Enabled" is what software last wrote to that bit position of `enable` (disabled after reset). -/
theorem enable_is_last_written (hk : k < c.n) {t : Nat} (ht : t ≤ ins.length) :
    enableAt c ins t k = (lastWr c ins .enable t k).getD false :=
  enable_eq_lastWr hk t ht

/-- `SharedIRQ`: in every cycle of every run of several managers (each with its own triggers and bus traffic) the
    shared line is high exactly when some manager has a pending and enabled source. -/
theorem shared_irq_or (cs : List Cfg) (ss : List St) (is : List In)
    (hs : ss.length = cs.length) (hi : is.length = cs.length) :
    ((shared cs).out ss is).1 = true ↔
      ∃ j, ∃ (hc : j < cs.length) (hs' : j < ss.length) (hi' : j < is.length),
        ∃ k, k < cs[j].n ∧ pendingVis cs[j] ss[j] is[j] k = true ∧ (ss[j].bit k).en = true := by
  have hlen := sharedOuts_length cs ss is hs hi
  simp only [shared, sharedIrq, List.any_map, List.any_eq_true, Function.comp, id]
  constructor
  · rintro ⟨o, ho, hirq⟩
    obtain ⟨j, hj, rfl⟩ := List.getElem_of_mem ho
    have hc : j < cs.length := by omega
    rw [sharedOuts_getElem cs ss is j hc (by omega) (by omega) hj] at hirq
    exact ⟨j, hc, by omega, by omega, (irqOf_iff _ _).mp hirq⟩
  · rintro ⟨j, hc, hs', hi', h⟩
    have hj : j < (sharedOuts cs ss is).length := by omega
    refine ⟨(sharedOuts cs ss is)[j], List.getElem_mem hj, ?_⟩
    rw [sharedOuts_getElem cs ss is j hc hs' hi' hj]
    exact (irqOf_iff _ _).mpr h

/-- The states of the product are the states of the individual managers: manager `j` of the `SharedIRQ` system,
    after any run, is in the state it reaches alone on its own share of the inputs (so every theorem below holds
    for each manager under a `SharedIRQ`). -/
theorem shared_run_proj (cs : List Cfg) :
    ∀ (ins : List (List In)) (ss : List St), ss.length = cs.length → (∀ v ∈ ins, v.length = cs.length) →
      ((shared cs).runFrom ss ins).length = cs.length ∧
      ∀ j (hc : j < cs.length) (hs : j < ss.length),
        ((shared cs).runFrom ss ins)[j]? =
          some ((evMgr cs[j]).runFrom ss[j] (ins.map fun v => v.getD j In.idle)) := by
  intro ins
  induction ins with
  | nil => intro ss hs _; exact ⟨hs, fun j _ hs' => by simp [Machine.runFrom, hs']⟩
  | cons v vs ih =>
    intro ss hs hwf
    have hv : v.length = cs.length := hwf v (by simp)
    have hn := sharedNext_length cs ss v hs hv
    obtain ⟨h1, h2⟩ := ih (sharedNext cs ss v) hn (fun w hw => hwf w (by simp [hw]))
    refine ⟨h1, fun j hc hs' => ?_⟩
    have hjn : j < (sharedNext cs ss v).length := by omega
    have := h2 j hc hjn
    rw [sharedNext_getElem cs ss v j hc hs' (by omega) hjn] at this
    simp only [Machine.runFrom, List.map_cons]
    rw [show (shared cs).next ss v = sharedNext cs ss v from rfl, this]
    simp [List.getD_eq_getElem?_getD, show j < v.length by omega]

/-! ## pending: set by events, cleared only by an addressed clear, never lost -/

/-- One-step law of every pulse/process source, in every cycle of every run:
    `pending' = (pending ∧ ¬clear) ∨ event`, with `event` = trigger (pulse) / edge of the declared polarity of the
    trigger waveform (process; the cycle before the first counts as 0). -/
theorem pending_next (hk : k < c.n) (hkind : c.kind k ≠ .level) {t : Nat} (ht : t < ins.length) :
    pendRegAt c ins (t + 1) k = ((pendRegAt c ins t k && !clearAt c ins t k) || eventAt c ins t k) := by
  rw [pendReg_succ hk ht, pendingNext_of_ne_level hkind]

/-- Closed form over the whole history: a source is pending in cycle `T` exactly when an earlier cycle `u` carried
    an event and no cycle strictly between `u` and `T` cleared it (a clear in cycle `u` itself does not count). -/
theorem pending_iff_unacked_event (hk : k < c.n) (hkind : c.kind k ≠ .level) {T : Nat} (hT : T ≤ ins.length) :
    pendingAt c ins T k = true ↔
      ∃ u, u < T ∧ eventAt c ins u k = true ∧ ∀ v, u < v → v < T → clearAt c ins v k = false := by
  rw [pendingAt_of_ne_level hkind]
  exact pendReg_iff hk hkind T hT

/-- Never lost: an event in cycle `u` is pending from cycle `u+1` on and stays pending through every later cycle
    `T` as long as no clear addressed to this source intervenes. -/
theorem event_not_lost (hk : k < c.n) (hkind : c.kind k ≠ .level) {u T : Nat} (hu : u < T) (hT : T ≤ ins.length)
    (hev : eventAt c ins u k = true) (hno : ∀ v, u < v → v < T → clearAt c ins v k = false) :
    pendingAt c ins T k = true :=
  (pending_iff_unacked_event hk hkind hT).mpr ⟨u, hu, hev, hno⟩

/-- … pending no later than the cycle after the event, whatever else happens in the event's cycle. -/
theorem event_pending_next_cycle (hk : k < c.n) (hkind : c.kind k ≠ .level) {u : Nat} (hu : u < ins.length)
    (hev : eventAt c ins u k = true) : pendingAt c ins (u + 1) k = true :=
  event_not_lost hk hkind (Nat.lt_succ_self u) hu hev (fun v h1 h2 => by omega)

/-- A trigger coinciding with the clear is retained. -/
theorem set_wins_over_clear (hk : k < c.n) (hkind : c.kind k ≠ .level) {t : Nat} (ht : t < ins.length)
    (hev : eventAt c ins t k = true) (_hcl : clearAt c ins t k = true) : pendingAt c ins (t + 1) k = true :=
  event_pending_next_cycle hk hkind ht hev

/-- Pending drops only in a cycle in which the source's own clear is active. -/
theorem pending_drops_only_on_clear (hk : k < c.n) (hkind : c.kind k ≠ .level) {t : Nat} (ht : t < ins.length)
    (hp : pendingAt c ins t k = true) (hq : pendingAt c ins (t + 1) k = false) : clearAt c ins t k = true := by
  rw [pendingAt_of_ne_level hkind] at hp hq
  rw [pending_next hk hkind ht, hp] at hq
  cases h : clearAt c ins t k <;> simp_all

/-- No spurious interrupts: a pending source had an event. -/
theorem pending_has_cause (hk : k < c.n) (hkind : c.kind k ≠ .level) {T : Nat} (hT : T ≤ ins.length)
    (hp : pendingAt c ins T k = true) : ∃ u, u < T ∧ eventAt c ins u k = true := by
  obtain ⟨u, hu, hev, _⟩ := (pending_iff_unacked_event hk hkind hT).mp hp
  exact ⟨u, hu, hev⟩

/-- Interrupt not lost: an event on an enabled source raises `irq` in every later cycle until it is cleared. -/
theorem event_raises_irq (hk : k < c.n) (hkind : c.kind k ≠ .level) {u T : Nat} (hu : u < T) (hT : T ≤ ins.length)
    (hev : eventAt c ins u k = true) (hno : ∀ v, u < v → v < T → clearAt c ins v k = false)
    (hen : enableAt c ins T k = true) : irqAt c ins T = true :=
  (irq_iff c ins T).mpr ⟨k, hk, event_not_lost hk hkind hu hT hev hno, hen⟩

/-! ## what a clear is, in terms of bus writes -/

/-- All configurations: the source's clear is active in cycle `t+1` exactly when cycle `t` wrote the committing
    word of `pending` (the only word when the sources fit one bus word) and the most recent value written to the
    source's bit position is a one.  It is never active in cycle 0. -/
theorem clear_iff_commit_of_last_written (hk : k < c.n) {t : Nat} (ht : t < ins.length) :
    clearAt c ins (t + 1) k = (commits c (inAt ins t) && (lastWr c ins .pending (t + 1) k).getD false) := by
  rw [clear_succ ht, r_eq_lastWr hk (t + 1) (by omega)]

theorem no_clear_at_reset : clearAt c ins 0 k = false := clear_zero

/-- Sources fit one bus word (`n ≤ bus width`, e.g. up to 8 / 32 sources): the clear of source `k` is active in
    cycle `t+1` exactly when cycle `t` is a bus write to `pending` with a one in bit `k` — "until software writes a
    one to its bit", one cycle of latency. -/
theorem clear_iff_write_one (hk : k < c.n) (hw : c.n ≤ c.bw) {t : Nat} (ht : t < ins.length) :
    clearAt c ins (t + 1) k =
      ((inAt ins t).we && decide ((inAt ins t).adr = 1) && (inAt ins t).datW.testBit k) := by
  have hn : 0 < c.n := by omega
  rw [clear_succ ht, r_succ hk ht, commits_single hn hw, wrBit_single hk hw]
  cases hwe : (inAt ins t).we <;> by_cases ha : (inAt ins t).adr = 1 <;> simp [ha]

/-- The property in software terms (sources fit one bus word): an event in cycle `u` is pending in every later
    cycle `T` unless some cycle `v` with `u ≤ v`, `v + 1 < T` wrote a one to bit `k` of `pending`.  (A write in
    cycle `u - 1`, whose clear coincides with the event, does not count: the event is retained.) -/
theorem event_not_lost_until_acked (hk : k < c.n) (hkind : c.kind k ≠ .level) (hw : c.n ≤ c.bw) {u T : Nat}
    (hu : u < T) (hT : T ≤ ins.length) (hev : eventAt c ins u k = true)
    (hno : ∀ v, u ≤ v → v + 1 < T →
      ¬ ((inAt ins v).we = true ∧ (inAt ins v).adr = 1 ∧ (inAt ins v).datW.testBit k = true)) :
    pendingAt c ins T k = true := by
  refine event_not_lost hk hkind hu hT hev (fun v h1 h2 => ?_)
  obtain ⟨v', rfl⟩ : ∃ v', v = v' + 1 := ⟨v - 1, by omega⟩
  rw [clear_iff_write_one hk hw (by omega)]
  have := hno v' (by omega) h2
  cases h3 : (inAt ins v').we <;> by_cases h4 : (inAt ins v').adr = 1 <;>
    cases h5 : (inAt ins v').datW.testBit k <;> simp_all

/-- Acknowledging works: a write of a one to bit `k` of `pending` in cycle `t`, with no new event in cycle `t+1`,
    leaves the source not pending in cycle `t+2`. -/
theorem ack_clears (hk : k < c.n) (hkind : c.kind k ≠ .level) (hw : c.n ≤ c.bw) {t : Nat} (ht : t + 1 < ins.length)
    (hwr : (inAt ins t).we = true ∧ (inAt ins t).adr = 1 ∧ (inAt ins t).datW.testBit k = true)
    (hnoev : eventAt c ins (t + 1) k = false) : pendingAt c ins (t + 2) k = false := by
  rw [pendingAt_of_ne_level hkind, pending_next hk hkind ht, clear_iff_write_one hk hw (by omega), hnoev]
  simp [hwr.1, hwr.2.1, hwr.2.2]

/-- Clearing one event never clears another (one-word case, in terms of the written mask): if the mask written to
    `pending` has a zero in bit `j`, source `j` stays pending. -/
theorem clear_other_bit_keeps {j : Nat} (hj : j < c.n) (hkind : c.kind j ≠ .level) (hw : c.n ≤ c.bw)
    {t : Nat} (ht : t + 1 < ins.length) (hzero : (inAt ins t).datW.testBit j = false)
    (hp : pendingAt c ins (t + 1) j = true) : pendingAt c ins (t + 2) j = true := by
  rw [pendingAt_of_ne_level hkind] at hp ⊢
  rw [pending_next hj hkind ht, hp, clear_iff_write_one hj hw (by omega), hzero]
  simp

/-- Bit-locality for every configuration (also several words): the complete behaviour of source `k` (its
    registers, its bit of `pending.r` and of `enable`, its clear) after any run depends only on its own trigger and
    on the bus traffic restricted to its own bit position: changing other triggers or other bits of any written
    mask changes nothing for `k`. -/
theorem clear_is_local (hk : k < c.n) (ins₁ ins₂ : List In) (h : AgreeTraces c k ins₁ ins₂) :
    ((evMgr c).run ins₁).bit k = ((evMgr c).run ins₂).bit k ∧
    ((evMgr c).run ins₁).clear k = ((evMgr c).run ins₂).clear k := by
  obtain ⟨hb, hre⟩ := runFrom_agree hk ins₁ ins₂ (evMgr c).init (evMgr c).init h rfl rfl
  exact ⟨hb, by unfold St.clear Machine.run; rw [hb, hre]⟩

/- Full statement that the code does NOT satisfy when `pending` spans several bus words:
     theorem clear_needs_one_in_this_write : clearAt c ins (t+1) k = true → wrBit c (inAt ins t) .pending k = some true
   (a clear of `k` is caused by a write that itself carries a one for `k`).  `pending.r` is a register per word, so a
   write of the committing word alone re-applies the words of earlier writes.  Proved for the one-word case;
   the excluded region (`c.bw < c.n`) has the negative witness below.  With several words software must write
   every word before the committing one (the generated accessors do), see `clear_after_addressed_write`. -/
theorem clear_needs_one_in_this_write_partial (hk : k < c.n) (hw : c.n ≤ c.bw) {t : Nat} (ht : t < ins.length)
    (hcl : clearAt c ins (t + 1) k = true) : wrBit c (inAt ins t) .pending k = some true := by
  rw [clear_iff_write_one hk hw ht] at hcl
  rw [wrBit_single hk hw]
  simp only [Bool.and_eq_true, decide_eq_true_eq] at hcl
  simp [hcl.1.1, hcl.1.2, hcl.2]

/-- Several words, accessor discipline: if cycle `t` writes the committing word and the most recent write to the
    word holding bit `k` (cycle `u ≤ t`, nothing written to that position afterwards) carried value `b` for `k`,
    the clear in cycle `t+1` is `b`. -/
theorem clear_after_addressed_write (hk : k < c.n) {u t : Nat} (hut : u ≤ t) (ht : t < ins.length) {b : Bool}
    (hwr : wrBit c (inAt ins u) .pending k = some b)
    (hnone : ∀ v, u < v → v ≤ t → wrBit c (inAt ins v) .pending k = none)
    (hcommit : commits c (inAt ins t) = true) : clearAt c ins (t + 1) k = b := by
  rw [clear_iff_commit_of_last_written hk ht, hcommit]
  have : ∀ d, u + d ≤ t → lastWr c ins .pending (u + d + 1) k = some b := by
    intro d
    induction d with
    | zero => intro _; simp [lastWr, hwr]
    | succ d ih =>
      intro hd
      have h1 := hnone (u + (d + 1)) (by omega) hd
      rw [lastWr, h1]
      simpa [Nat.add_assoc] using ih (by omega)
  have h := this (t - u) (by omega)
  rw [show u + (t - u) + 1 = t + 1 by omega] at h
  simp [h]

/-! ## level sources and the status register -/

/-- Level events mirror their input (and ignore clears), in every cycle of every run. -/
theorem level_mirrors (hkind : c.kind k = .level) (t : Nat) : pendingAt c ins t k = trigAt ins t k := by
  simp [pendingAt, pendingVis, hkind, Kind.pendingVis, trigAt]

/-- The status bit is the raw trigger for process and level sources and constant 0 for pulse sources (the
    behaviour the class documents: "It is always 0 for EventSourcePulse"). -/
theorem status_shows (t : Nat) :
    statusAt c ins t k = (match c.kind k with | .pulse => false | _ => trigAt ins t k) := by
  unfold statusAt statusBit trigAt
  cases c.kind k <;> rfl

/-- What software reads: one cycle after the bus presents the index of word `w` of a register, `dat_r` carries,
    in bit `j`, bit `w·bw + j` of that register as it was in the addressed cycle (status = raw levels, pending,
    enable); reads have no side effect on the event state (the step function does not look at a read strobe). -/
theorem read_shows {t : Nat} (ht : t < ins.length) {reg : Reg} {w j : Nat}
    (hdec : c.decode (inAt ins t).adr = some (reg, w)) (hj : j < c.bw) (hn : w * c.bw + j < c.n) :
    (datRAt c ins (t + 1)).testBit j = regBit c (stAt c ins t) (inAt ins t) reg (w * c.bw + j) := by
  unfold datRAt
  rw [stAt_succ ht, next_datR, readWord, hdec]
  simp [packFrom_testBit, hj, hn]

/-! ## client: GPIO interrupt (`gpio.py:_GPIOIRQ`), model `gpioIrq` -/

/-- The event manager inside the GPIO client is `evMgr` run on the trigger trace the pads produce, so every theorem
    above applies to it with `ins := gpioTrace n gins`. -/
theorem gpio_is_evMgr (n bw : Nat) (little : Bool) (gins : List GpioIn) :
    ((gpioIrq n bw little).run gins).ev = (evMgr (gpioCfg n bw little)).run (gpioTrace n gins) :=
  gpio_run_ev n bw little gins _

/- Full statement that the code does NOT satisfy (known finding C15-gpio-change-back-to-back):
     theorem gpio_change_pending : modeAt gins t k = true → changeAt gins t k = true →
         pendingAt (gpioCfg n bw little) (gpioTrace n gins) (t + 1) k = true
   (in Change mode every change of the synchronised pad is pending in the next cycle, whatever software does).
   The change pulse `in ^ in_d` goes into a rising-edge process source, so a change directly after another change
   is no edge.  Proved under the hypothesis that the previous cycle had no change; negative witness below. -/
theorem gpio_change_pending_partial {n bw : Nat} {little : Bool} {gins : List GpioIn} {t k : Nat}
    (hk : k < n) (ht : t < gins.length)
    (hmode : modeAt gins t k = true) (hchange : changeAt gins t k = true)
    (hquiet : ∀ t', t = t' + 1 → modeAt gins t' k = true ∧ changeAt gins t' k = false) :
    pendingAt (gpioCfg n bw little) (gpioTrace n gins) (t + 1) k = true := by
  have hkn : k < (gpioCfg n bw little).n := by rw [gpio_cfg_n]; exact hk
  have hkind : (gpioCfg n bw little).kind k = .rising := gpio_cfg_kind n bw little hk
  have hlen : (gpioTrace n gins).length = gins.length := gpioDerive_length n gins _
  apply event_pending_next_cycle hkn (by rw [hkind]; decide) (by omega)
  unfold eventAt
  rw [hkind, gpio_trig_change hk ht hmode, hchange]
  cases t with
  | zero => rfl
  | succ t' =>
    obtain ⟨hm, hc⟩ := hquiet t' rfl
    simp only [prevTrig, Kind.event]
    rw [gpio_trig_change hk (by omega) hm, hc]
    rfl

/-! ## non-vacuity and negative witnesses (concrete runs, checked by evaluation) -/

def wr (adr dat : Nat) (trig : List Bool := []) : In := { trig := trig, adr := adr, we := true, datW := dat }
def idle (trig : List Bool := []) : In := { trig := trig, adr := 99, we := false, datW := 0 }

/-- pulse + rising + falling + level on an 8-bit bus: events become pending, irq follows enable, a clear coinciding
    with a new pulse keeps the source pending, clearing bit 0 leaves bit 1 alone. -/
example :
    let c : Cfg := { kinds := [.pulse, .rising, .falling, .level], bw := 8, little := false }
    let ins := [idle [true, true, true, false],          -- pulse, rising edge, falling source high
                wr 2 0b0011 [false, true, false, false],  -- enable sources 0,1; falling edge on source 2
                wr 1 0b0001 [false, true, false, false],  -- acknowledge source 0 …
                idle [true, true, false, true],           -- … the clear lands together with a new pulse
                idle]
    (List.range 5).map (fun t => (irqAt c ins t, (List.range 4).map (pendingAt c ins t))) =
      [(false, [false, false, false, false]),
       (false, [true, true, false, false]),
       (true, [true, true, true, false]),
       (true, [true, true, true, true]),
       (true, [true, true, true, false])] := by decide

/-- Negative witness for `clear_needs_one_in_this_write` outside its hypothesis (two sources on a 1-bit bus, i.e.
    `pending` = 2 words): source 1 is acknowledged by a whole-register write (word 1 := 1, word 0 := 0); later a
    write of word 0 alone (to acknowledge source 0) also clears the new event of source 1, although that write
    carries nothing for bit 1. -/
example :
    let c : Cfg := { kinds := [.pulse, .pulse], bw := 1, little := false }
    let ins := [idle [false, true], wr 2 1, wr 3 0, idle, idle [true, true], wr 3 1, idle, idle]
    pendingAt c ins 6 1 = true ∧ clearAt c ins 6 1 = true ∧ wrBit c (inAt ins 5) .pending 1 = none ∧
    pendingAt c ins 7 1 = false := by decide

/-- Non-vacuity of `clear_after_addressed_write`: three sources on a 2-bit bus (`pending` = words [bits 0,1] and
    [bit 2]); a whole-register write of 0b101 (word 1 first, then the committing word 0) clears exactly sources 0
    and 2 and leaves source 1 pending. -/
example :
    let c : Cfg := { kinds := [.pulse, .rising, .pulse], bw := 2, little := false }
    let ins := [idle [true, true, true], wr 2 0b1, wr 3 0b01, idle, idle]
    (List.range 3).map (clearAt c ins 3) = [true, false, true] ∧
    (List.range 3).map (pendingAt c ins 3) = [true, true, true] ∧
    (List.range 3).map (pendingAt c ins 4) = [false, true, false] := by decide

/-- Negative witness for `gpio_change_pending` outside the hypothesis of the `_partial` theorem (one pad, Change
    mode, 8-bit bus): the pad rises in cycle 1 (pending from cycle 2); in cycle 4 software acknowledges; the pad
    falls in cycle 4 and rises again in cycle 5, where the clear lands: the change of cycle 5 is not pending in
    cycle 6, and nothing is pending afterwards. -/
example :
    let g (pad : Bool) (adr : Nat) (we : Bool) (dat : Nat) : GpioIn :=
      { pads := [pad], mode := [true], edge := [false], adr := adr, we := we, datW := dat }
    let gins := [g false 9 false 0, g true 9 false 0, g true 9 false 0, g true 9 false 0,
                 g false 1 true 1, g true 9 false 0, g true 9 false 0, g true 9 false 0]
    let c := gpioCfg 1 8 false
    changeAt gins 5 0 = true ∧ clearAt c (gpioTrace 1 gins) 5 0 = true ∧
    (List.range 8).map (fun t => pendingAt c (gpioTrace 1 gins) t 0) =
      [false, false, true, true, true, true, false, false] := by decide

/-- Non-vacuity of `clear_is_local`: two runs that differ in the trigger of source 0 and in bit 0 of every written
    mask agree on everything that concerns source 1. -/
example :
    let c : Cfg := { kinds := [.pulse, .rising], bw := 8, little := false }
    AgreeTraces c 1 [idle [true, true], wr 1 0b11, wr 2 0b10, idle [false, true]]
                    [idle [false, true], wr 1 0b10, wr 2 0b11, idle [true, true]] := by
  simp [AgreeTraces, AgreeOn, In.trigOf, wr, idle]
  decide

end Litex.C15
