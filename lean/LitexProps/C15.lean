import LitexProofs.Event.Bus
import LitexProofs.Event.Gpio
import LitexProofs.Event.Discipline
import LitexProofs.Event.Producers
import LitexProofs.Event.SocIrq
/-
  INVENTORY of the anchored code (session 2).  Columns: code | model | theorems | tie to /repo
  (A = exhaustive co-exploration of the reachable product, B = seeded lock-step co-simulation, P = Python-level
   case comparison; "mon" = model-independent monitor on the real signals)

  litex/soc/interconnect/csr_eventmanager.py
    _EventSource (ports)            | Bit / Kind.* (Core.lean)                 | —                                   | ports compared in every instance
    EventSourcePulse                | Kind.pulse: event/pendingNext/status     | pending_next, pending_iff_unacked_event, event_not_lost, set_wins_over_clear, status_shows | A 1-3 sources, B 3-35; mon
    EventSourceProcess(rising/falling, default edge) | Kind.rising/.falling, trigDNext | same + event = edge of prevTrig     | A, B (default-argument ctor in `variant`); mon
    EventSourceLevel                | Kind.level: pendingVis = trig            | level_mirrors, status_shows         | A, B; mon
    EventManager.do_finalize: status/pending/enable CSRs, bit order = duid, clear = pending.re & pending.r[i], irq = OR | evMgr (Core.lean) incl. real CSRBank timing, multi-word registers, both orderings | irq_iff, irq_iff_out, enable_is_last_written, clear_iff_commit_of_last_written, clear_iff_write_one, event_not_lost_until_acked, ack_clears, clear_other_bit_keeps, clear_is_local, read_shows; multi-word: clear_needs_one_in_this_write_partial (+witness), clear_after_addressed_write, discipline_exact, whole_register_is_safe, single_word_always_safe, clear_under_discipline, stale_commit_drops_pending, event_not_lost_until_acked_any_width | A csr1/2/8/32 big+little, pages, reversed attach order; B; mon (strict = discipline)
    EventManager: field names / descriptions (get_source_name, get_pending_source_description, CSRField docs) | not modelled (documentation strings; no behaviour) | — | default names `event<i>` exercised in GlueInst
    EventManager.__setattr__ (FinalizeError after finalize) | not modelled (elaboration-time guard) | — | —
    SharedIRQ                       | shared (Core.lean)                       | shared_irq_or, shared_run_proj      | A 2-3 managers, B; GlueInst (CSRBankArray + Interconnect); mon
  litex/soc/cores/timer.py
    Timer: value counter, ev.zero trigger `value == 0` | timer (Producers.lean); `_en/_load/_reload` values are inputs | timer_is_evMgr, timer_zero_pending, timer_zero_not_lost, timer_elapses_pending | A Timer(2), B Timer(8/32) csr8/32 (model computes the trigger); older B instances feed the sampled trigger; mon
    Timer: `_value`/`_update_value` latch, add_uptime  | not modelled (no event; property C14)  | — | —
  litex/soc/cores/uart.py
    UART (sys-clocked): tx/rx SyncFIFO(buffered) levels, ev.tx = sink.ready, ev.rx = source.valid, rx pop = ev.rx.clear | rx_we & rxtx.we | uart, fifoNext (Producers.lean; depths >= 2, data abstracted) | uart_is_evMgr, uart_rx_valid_pending, uart_tx_nonfull_pending, uart_rx_char_pending, uart_rx_ack_is_pop, uart_levels_bounded | A depth 2/2 (rx path, tx path; thorough: both), B 2/2, 4/3 rx_we, 16/16; UartRxMonitor scoreboard
    UART: FIFO data path, `_txfull/_rxempty/_txempty/_rxfull`, phy_cd != sys (AsyncFIFO), add_auto_tx_flush | not modelled here (data: C03/C14; CDC: C05) | — | rxtx data order checked by UartRxMonitor
    RS232PHY*, UARTBone, Stream2Wishbone, UARTCrossover …    | not event logic                        | — | —
  litex/soc/cores/gpio.py
    _GPIOIRQ.add_irq (mode/edge, in_d, EventSourceProcess rising) | gpioIrq (Gpio.lean); `_mode/_edge` values are inputs | gpio_is_evMgr, gpio_change_pending_partial (+witness = open finding C15-gpio-change-back-to-back) | B 4/12/33 pads; probe
    GPIOIn / GPIOTristate(external): MultiReg(pads, _in.status) + add_irq | gpioSync (Producers.lean) | gpio_sync_is_gpioIrq, gpio_sync_two_cycles, gpio_raw_change_pending_partial | A 1 pad (thorough 2), B 4 / 3 tristate / 12 / 33 from RAW pads; SyncDelayMonitor
    GPIOOut, GPIOInOut, GPIOTristate(internal TSTriple) | not modelled (no event logic / needs a tristate primitive) | — | —
  litex/soc/integration/soc.py
    SoCIRQHandler / SoCLocHandler.add+alloc as used for IRQs, add_cpu reserved lines | irqAlloc (SocIrq.lean; fresh names; name bookkeeping is C13) | irq_numbers_distinct | P exhaustive n_irqs<=3 + random 32 vs real SoCIRQHandler and vs documented numbering
    SoC.do_finalize `cpu.interrupt[loc] = ev.irq`       | cpuInterrupt, socIrq (SocIrq.lean)  | soc_interrupt_bit, soc_interrupt_unused, soc_run_is_product, soc_event_raises_interrupt | B real SoCCore + stub CPU (interrupt vector, wishbone master through the real bus/CSR bridge/banks); SocMonitor
    add_config/add_constant (`*_INTERRUPT` constants for software) | not modelled (export: C12/C13)       | — | —
  Remaining gaps: client configuration registers (`_mode`, `_edge`, `_en`, `_load`, `_reload`) are model inputs fed from
  the real storage (their CSR write path is C12's); CPU-internal interrupt controllers (e.g. VexRiscv mask/pending CSRs)
  are outside LiteX Python; UART with depth-0/1 FIFOs or a separate PHY clock domain is not modelled.
-/
/-
  C15 — Interrupt events are never lost and the IRQ line means pending-and-enabled.

  Model: `Litex.Event.evMgr c` (LitexModel/Event/Core.lean) = `EventManager` with sources `c.kinds` (any count, any
  mix of pulse / process-rising / process-falling / level) + its `status`/`pending`/`enable` CSRs in a `CSRBank` on a
  `c.bw`-bit CSR bus.  Every theorem quantifies over the configuration `c` and over `ins : List In`, an arbitrary
  cycle-by-cycle choice of all trigger lines and of the CSR bus (address, write strobe, write data): every trigger
  waveform and every interleaving with software accesses, including a clear in the same cycle as a trigger.
  Notation (LitexProofs/Event/Basic.lean): `…At c ins t k` = the signal of source `k` in cycle `t` of that run.
-/
namespace Litex.C15
open Litex Litex.Event

variable {c : Cfg} {ins : List In} {k : Nat}

/-! ## the IRQ line -/

/-- In every cycle of every run, `irq` is high exactly when some source is pending and enabled. -/
theorem irq_iff (c : Cfg) (ins : List In) (t : Nat) :
    irqAt c ins t = true ↔ ∃ k, k < c.n ∧ pendingAt c ins t k = true ∧ enableAt c ins t k = true :=
  irqOf_iff _ _

/-- The same for the output record of the machine in any reachable state and any current input. -/
theorem irq_iff_out (c : Cfg) (ins : List In) (i : In) :
    ((evMgr c).out ((evMgr c).run ins) i).irq = true ↔
      ∃ k, k < c.n ∧ pendingVis c ((evMgr c).run ins) i k = true ∧ (((evMgr c).run ins).bit k).en = true :=
  irqOf_iff _ _

/-- "Enabled" is what software last wrote to that bit position of `enable` (disabled after reset). -/
theorem enable_is_last_written (hk : k < c.n) {t : Nat} (ht : t ≤ ins.length) :
    enableAt c ins t k = (lastWr c ins .enable t k).getD false :=
  enable_eq_lastWr hk t ht

/-- `SharedIRQ`: in every cycle of every run of several managers (each with its own triggers and bus traffic) the
    shared line is high exactly when some manager has a pending and enabled source. -/
theorem shared_irq_or (cs : List Cfg) (ss : List St) (is : List In)
    (hs : ss.length = cs.length) (hi : is.length = cs.length) :
    ((shared cs).out ss is).1 = true ↔
      ∃ j, ∃ (hc : j < cs.length) (hs' : j < ss.length) (hi' : j < is.length),
        ∃ k, k < cs[j].n ∧ pendingVis cs[j] ss[j] is[j] k = true ∧ (ss[j].bit k).en = true := by
  have hlen := sharedOuts_length cs ss is hs hi
  simp only [shared, sharedIrq, List.any_map, List.any_eq_true, Function.comp, id]
  constructor
  · rintro ⟨o, ho, hirq⟩
    obtain ⟨j, hj, rfl⟩ := List.getElem_of_mem ho
    have hc : j < cs.length := by omega
    rw [sharedOuts_getElem cs ss is j hc (by omega) (by omega) hj] at hirq
    exact ⟨j, hc, by omega, by omega, (irqOf_iff _ _).mp hirq⟩
  · rintro ⟨j, hc, hs', hi', h⟩
    have hj : j < (sharedOuts cs ss is).length := by omega
    refine ⟨(sharedOuts cs ss is)[j], List.getElem_mem hj, ?_⟩
    rw [sharedOuts_getElem cs ss is j hc hs' hi' hj]
    exact (irqOf_iff _ _).mpr h

/-- The states of the product are the states of the individual managers: manager `j` of the `SharedIRQ` system,
    after any run, is in the state it reaches alone on its own share of the inputs (so every theorem below holds
    for each manager under a `SharedIRQ`). -/
theorem shared_run_proj (cs : List Cfg) :
    ∀ (ins : List (List In)) (ss : List St), ss.length = cs.length → (∀ v ∈ ins, v.length = cs.length) →
      ((shared cs).runFrom ss ins).length = cs.length ∧
      ∀ j (hc : j < cs.length) (hs : j < ss.length),
        ((shared cs).runFrom ss ins)[j]? =
          some ((evMgr cs[j]).runFrom ss[j] (ins.map fun v => v.getD j In.idle)) := by
  intro ins
  induction ins with
  | nil => intro ss hs _; exact ⟨hs, fun j _ hs' => by simp [Machine.runFrom, hs']⟩
  | cons v vs ih =>
    intro ss hs hwf
    have hv : v.length = cs.length := hwf v (by simp)
    have hn := sharedNext_length cs ss v hs hv
    obtain ⟨h1, h2⟩ := ih (sharedNext cs ss v) hn (fun w hw => hwf w (by simp [hw]))
    refine ⟨h1, fun j hc hs' => ?_⟩
    have hjn : j < (sharedNext cs ss v).length := by omega
    have := h2 j hc hjn
    rw [sharedNext_getElem cs ss v j hc hs' (by omega) hjn] at this
    simp only [Machine.runFrom, List.map_cons]
    rw [show (shared cs).next ss v = sharedNext cs ss v from rfl, this]
    simp [List.getD_eq_getElem?_getD, show j < v.length by omega]

/-! ## pending: set by events, cleared only by an addressed clear, never lost -/

/-- One-step law of every pulse/process source, in every cycle of every run:
    `pending' = (pending ∧ ¬clear) ∨ event`, with `event` = trigger (pulse) / edge of the declared polarity of the
    trigger waveform (process; the cycle before the first counts as 0). -/
theorem pending_next (hk : k < c.n) (hkind : c.kind k ≠ .level) {t : Nat} (ht : t < ins.length) :
    pendRegAt c ins (t + 1) k = ((pendRegAt c ins t k && !clearAt c ins t k) || eventAt c ins t k) := by
  rw [pendReg_succ hk ht, pendingNext_of_ne_level hkind]

/-- Closed form over the whole history: a source is pending in cycle `T` exactly when an earlier cycle `u` carried
    an event and no cycle strictly between `u` and `T` cleared it (a clear in cycle `u` itself does not count). -/
theorem pending_iff_unacked_event (hk : k < c.n) (hkind : c.kind k ≠ .level) {T : Nat} (hT : T ≤ ins.length) :
    pendingAt c ins T k = true ↔
      ∃ u, u < T ∧ eventAt c ins u k = true ∧ ∀ v, u < v → v < T → clearAt c ins v k = false := by
  rw [pendingAt_of_ne_level hkind]
  exact pendReg_iff hk hkind T hT

/-- Never lost: an event in cycle `u` is pending from cycle `u+1` on and stays pending through every later cycle
    `T` as long as no clear addressed to this source intervenes. -/
theorem event_not_lost (hk : k < c.n) (hkind : c.kind k ≠ .level) {u T : Nat} (hu : u < T) (hT : T ≤ ins.length)
    (hev : eventAt c ins u k = true) (hno : ∀ v, u < v → v < T → clearAt c ins v k = false) :
    pendingAt c ins T k = true :=
  (pending_iff_unacked_event hk hkind hT).mpr ⟨u, hu, hev, hno⟩

/-- … pending no later than the cycle after the event, whatever else happens in the event's cycle. -/
theorem event_pending_next_cycle (hk : k < c.n) (hkind : c.kind k ≠ .level) {u : Nat} (hu : u < ins.length)
    (hev : eventAt c ins u k = true) : pendingAt c ins (u + 1) k = true :=
  event_not_lost hk hkind (Nat.lt_succ_self u) hu hev (fun v h1 h2 => by omega)

/-- A trigger coinciding with the clear is retained. -/
theorem set_wins_over_clear (hk : k < c.n) (hkind : c.kind k ≠ .level) {t : Nat} (ht : t < ins.length)
    (hev : eventAt c ins t k = true) (_hcl : clearAt c ins t k = true) : pendingAt c ins (t + 1) k = true :=
  event_pending_next_cycle hk hkind ht hev

/-- Pending drops only in a cycle in which the source's own clear is active. -/
theorem pending_drops_only_on_clear (hk : k < c.n) (hkind : c.kind k ≠ .level) {t : Nat} (ht : t < ins.length)
    (hp : pendingAt c ins t k = true) (hq : pendingAt c ins (t + 1) k = false) : clearAt c ins t k = true := by
  rw [pendingAt_of_ne_level hkind] at hp hq
  rw [pending_next hk hkind ht, hp] at hq
  cases h : clearAt c ins t k <;> simp_all

/-- No spurious interrupts: a pending source had an event. -/
theorem pending_has_cause (hk : k < c.n) (hkind : c.kind k ≠ .level) {T : Nat} (hT : T ≤ ins.length)
    (hp : pendingAt c ins T k = true) : ∃ u, u < T ∧ eventAt c ins u k = true := by
  obtain ⟨u, hu, hev, _⟩ := (pending_iff_unacked_event hk hkind hT).mp hp
  exact ⟨u, hu, hev⟩

/-- Interrupt not lost: an event on an enabled source raises `irq` in every later cycle until it is cleared. -/
theorem event_raises_irq (hk : k < c.n) (hkind : c.kind k ≠ .level) {u T : Nat} (hu : u < T) (hT : T ≤ ins.length)
    (hev : eventAt c ins u k = true) (hno : ∀ v, u < v → v < T → clearAt c ins v k = false)
    (hen : enableAt c ins T k = true) : irqAt c ins T = true :=
  (irq_iff c ins T).mpr ⟨k, hk, event_not_lost hk hkind hu hT hev hno, hen⟩

/-! ## what a clear is, in terms of bus writes -/

/-- All configurations: the source's clear is active in cycle `t+1` exactly when cycle `t` wrote the committing
    word of `pending` (the only word when the sources fit one bus word) and the most recent value written to the
    source's bit position is a one.  It is never active in cycle 0. -/
theorem clear_iff_commit_of_last_written (hk : k < c.n) {t : Nat} (ht : t < ins.length) :
    clearAt c ins (t + 1) k = (commits c (inAt ins t) && (lastWr c ins .pending (t + 1) k).getD false) := by
  rw [clear_succ ht, r_eq_lastWr hk (t + 1) (by omega)]

theorem no_clear_at_reset : clearAt c ins 0 k = false := clear_zero

/-- Sources fit one bus word (`n ≤ bus width`, e.g. up to 8 / 32 sources): the clear of source `k` is active in
    cycle `t+1` exactly when cycle `t` is a bus write to `pending` with a one in bit `k` — "until software writes a
    one to its bit", one cycle of latency. -/
theorem clear_iff_write_one (hk : k < c.n) (hw : c.n ≤ c.bw) {t : Nat} (ht : t < ins.length) :
    clearAt c ins (t + 1) k =
      ((inAt ins t).we && decide ((inAt ins t).adr = 1) && (inAt ins t).datW.testBit k) := by
  have hn : 0 < c.n := by omega
  rw [clear_succ ht, r_succ hk ht, commits_single hn hw, wrBit_single hk hw]
  cases hwe : (inAt ins t).we <;> by_cases ha : (inAt ins t).adr = 1 <;> simp [ha]

/-- The property in software terms (sources fit one bus word): an event in cycle `u` is pending in every later
    cycle `T` unless some cycle `v` with `u ≤ v`, `v + 1 < T` wrote a one to bit `k` of `pending`.  (A write in
    cycle `u - 1`, whose clear coincides with the event, does not count: the event is retained.) -/
theorem event_not_lost_until_acked (hk : k < c.n) (hkind : c.kind k ≠ .level) (hw : c.n ≤ c.bw) {u T : Nat}
    (hu : u < T) (hT : T ≤ ins.length) (hev : eventAt c ins u k = true)
    (hno : ∀ v, u ≤ v → v + 1 < T →
      ¬ ((inAt ins v).we = true ∧ (inAt ins v).adr = 1 ∧ (inAt ins v).datW.testBit k = true)) :
    pendingAt c ins T k = true := by
  refine event_not_lost hk hkind hu hT hev (fun v h1 h2 => ?_)
  obtain ⟨v', rfl⟩ : ∃ v', v = v' + 1 := ⟨v - 1, by omega⟩
  rw [clear_iff_write_one hk hw (by omega)]
  have := hno v' (by omega) h2
  cases h3 : (inAt ins v').we <;> by_cases h4 : (inAt ins v').adr = 1 <;>
    cases h5 : (inAt ins v').datW.testBit k <;> simp_all

/-- Acknowledging works: a write of a one to bit `k` of `pending` in cycle `t`, with no new event in cycle `t+1`,
    leaves the source not pending in cycle `t+2`. -/
theorem ack_clears (hk : k < c.n) (hkind : c.kind k ≠ .level) (hw : c.n ≤ c.bw) {t : Nat} (ht : t + 1 < ins.length)
    (hwr : (inAt ins t).we = true ∧ (inAt ins t).adr = 1 ∧ (inAt ins t).datW.testBit k = true)
    (hnoev : eventAt c ins (t + 1) k = false) : pendingAt c ins (t + 2) k = false := by
  rw [pendingAt_of_ne_level hkind, pending_next hk hkind ht, clear_iff_write_one hk hw (by omega), hnoev]
  simp [hwr.1, hwr.2.1, hwr.2.2]

/-- Clearing one event never clears another (one-word case, in terms of the written mask): if the mask written to
    `pending` has a zero in bit `j`, source `j` stays pending. -/
theorem clear_other_bit_keeps {j : Nat} (hj : j < c.n) (hkind : c.kind j ≠ .level) (hw : c.n ≤ c.bw)
    {t : Nat} (ht : t + 1 < ins.length) (hzero : (inAt ins t).datW.testBit j = false)
    (hp : pendingAt c ins (t + 1) j = true) : pendingAt c ins (t + 2) j = true := by
  rw [pendingAt_of_ne_level hkind] at hp ⊢
  rw [pending_next hj hkind ht, hp, clear_iff_write_one hj hw (by omega), hzero]
  simp

/-- Bit-locality for every configuration (also several words): the complete behaviour of source `k` (its
    registers, its bit of `pending.r` and of `enable`, its clear) after any run depends only on its own trigger and
    on the bus traffic restricted to its own bit position: changing other triggers or other bits of any written
    mask changes nothing for `k`. -/
theorem clear_is_local (hk : k < c.n) (ins₁ ins₂ : List In) (h : AgreeTraces c k ins₁ ins₂) :
    ((evMgr c).run ins₁).bit k = ((evMgr c).run ins₂).bit k ∧
    ((evMgr c).run ins₁).clear k = ((evMgr c).run ins₂).clear k := by
  obtain ⟨hb, hre⟩ := runFrom_agree hk ins₁ ins₂ (evMgr c).init (evMgr c).init h rfl rfl
  exact ⟨hb, by unfold St.clear Machine.run; rw [hb, hre]⟩

/- Full statement that the code does NOT satisfy when `pending` spans several bus words:
     theorem clear_needs_one_in_this_write : clearAt c ins (t+1) k = true → wrBit c (inAt ins t) .pending k = some true
   (a clear of `k` is caused by a write that itself carries a one for `k`).  `pending.r` is a register per word, so a
   write of the committing word alone re-applies the words of earlier writes.  Proved for the one-word case;
   the excluded region (`c.bw < c.n`) has the negative witness below.  With several words software must write
   every word before the committing one (the generated accessors do), see `clear_after_addressed_write`. -/
theorem clear_needs_one_in_this_write_partial (hk : k < c.n) (hw : c.n ≤ c.bw) {t : Nat} (ht : t < ins.length)
    (hcl : clearAt c ins (t + 1) k = true) : wrBit c (inAt ins t) .pending k = some true := by
  rw [clear_iff_write_one hk hw ht] at hcl
  rw [wrBit_single hk hw]
  simp only [Bool.and_eq_true, decide_eq_true_eq] at hcl
  simp [hcl.1.1, hcl.1.2, hcl.2]

/-- Several words, accessor discipline: if cycle `t` writes the committing word and the most recent write to the
    word holding bit `k` (cycle `u ≤ t`, nothing written to that position afterwards) carried value `b` for `k`,
    the clear in cycle `t+1` is `b`. -/
theorem clear_after_addressed_write (hk : k < c.n) {u t : Nat} (hut : u ≤ t) (ht : t < ins.length) {b : Bool}
    (hwr : wrBit c (inAt ins u) .pending k = some b)
    (hnone : ∀ v, u < v → v ≤ t → wrBit c (inAt ins v) .pending k = none)
    (hcommit : commits c (inAt ins t) = true) : clearAt c ins (t + 1) k = b := by
  rw [clear_iff_commit_of_last_written hk ht, hcommit]
  have : ∀ d, u + d ≤ t → lastWr c ins .pending (u + d + 1) k = some b := by
    intro d
    induction d with
    | zero => intro _; simp [lastWr, hwr]
    | succ d ih =>
      intro hd
      have h1 := hnone (u + (d + 1)) (by omega) hd
      rw [lastWr, h1]
      simpa [Nat.add_assoc] using ih (by omega)
  have h := this (t - u) (by omega)
  rw [show u + (t - u) + 1 = t + 1 by omega] at h
  simp [h]

/-! ## level sources and the status register -/

/-- Level events mirror their input (and ignore clears), in every cycle of every run. -/
theorem level_mirrors (hkind : c.kind k = .level) (t : Nat) : pendingAt c ins t k = trigAt ins t k := by
  simp [pendingAt, pendingVis, hkind, Kind.pendingVis, trigAt]

/-- The status bit is the raw trigger for process and level sources and constant 0 for pulse sources (the
    behaviour the class documents: "It is always 0 for EventSourcePulse"). -/
theorem status_shows (t : Nat) :
    statusAt c ins t k = (match c.kind k with | .pulse => false | _ => trigAt ins t k) := by
  unfold statusAt statusBit trigAt
  cases c.kind k <;> rfl

/-- What software reads: one cycle after the bus presents the index of word `w` of a register, `dat_r` carries,
    in bit `j`, bit `w·bw + j` of that register as it was in the addressed cycle (status = raw levels, pending,
    enable); reads have no side effect on the event state (the step function does not look at a read strobe). -/
theorem read_shows {t : Nat} (ht : t < ins.length) {reg : Reg} {w j : Nat}
    (hdec : c.decode (inAt ins t).adr = some (reg, w)) (hj : j < c.bw) (hn : w * c.bw + j < c.n) :
    (datRAt c ins (t + 1)).testBit j = regBit c (stAt c ins t) (inAt ins t) reg (w * c.bw + j) := by
  unfold datRAt
  rw [stAt_succ ht, next_datR, readWord, hdec]
  simp [packFrom_testBit, hj, hn]

/-! ## client: GPIO interrupt (`gpio.py:_GPIOIRQ`), model `gpioIrq` -/

/-- The event manager inside the GPIO client is `evMgr` run on the trigger trace the pads produce, so every theorem
    above applies to it with `ins := gpioTrace n gins`. -/
theorem gpio_is_evMgr (n bw : Nat) (little : Bool) (gins : List GpioIn) :
    ((gpioIrq n bw little).run gins).ev = (evMgr (gpioCfg n bw little)).run (gpioTrace n gins) :=
  gpio_run_ev n bw little gins _

/-- Non-interference between pads (the model keeps one delayed sample `in_d` PER pad): two runs of the GPIO client
    whose inputs agree on pad `k` (its synchronised value, its `_mode`/`_edge` bits, the bus traffic at its bit
    position) agree on everything of source `k` - pending register, edge detector, enable, clear - whatever all the
    other pads, their modes and the other bits of every written mask do. -/
theorem gpio_pads_independent {n bw : Nat} {little : Bool} {k : Nat} (hk : k < n) (g₁ g₂ : List GpioIn)
    (h : GpioAgreeTraces bw k g₁ g₂) :
    ((gpioIrq n bw little).run g₁).ev.bit k = ((gpioIrq n bw little).run g₂).ev.bit k ∧
    ((gpioIrq n bw little).run g₁).ev.clear k = ((gpioIrq n bw little).run g₂).ev.clear k := by
  rw [gpio_is_evMgr, gpio_is_evMgr]
  exact clear_is_local (by rw [gpio_cfg_n]; exact hk) _ _ (gpioDerive_agree n bw little hk g₁ g₂ _ _ h rfl)

/-- Non-vacuity: three pads in Change mode; the two runs differ in pads 0 and 2 (pad 2, the LAST pad, toggles in one
    run only) and agree on pad 1, which changes in cycle 1 to the value pad 2 has in the other run. -/
example :
    let g (pads : List Bool) : GpioIn :=
      { pads := pads, mode := [true, true, true], edge := [false, false, false], adr := 9, we := false, datW := 0 }
    GpioAgreeTraces 8 1 [g [false, false, false], g [true, true, true], g [false, true, false]]
                        [g [true, false, true], g [false, true, false], g [false, true, true]] ∧
    (List.range 4).map (fun t => pendingAt (gpioCfg 3 8 false)
        (gpioTrace 3 [g [false, false, false], g [true, true, true], g [false, true, false], g [false, true, false]]) t 1) =
      [false, false, true, true] := by
  refine ⟨?_, by decide⟩
  simp [GpioAgreeTraces, GpioAgreeOn]

/- Full statement that the code does NOT satisfy (known finding C15-gpio-change-back-to-back):
     theorem gpio_change_pending : modeAt gins t k = true → changeAt gins t k = true →
         pendingAt (gpioCfg n bw little) (gpioTrace n gins) (t + 1) k = true
   (in Change mode every change of the synchronised pad is pending in the next cycle, whatever software does).
   The change pulse `in ^ in_d` goes into a rising-edge process source, so a change directly after another change
   is no edge.  Proved under the hypothesis that the previous cycle had no change; negative witness below. -/
theorem gpio_change_pending_partial {n bw : Nat} {little : Bool} {gins : List GpioIn} {t k : Nat}
    (hk : k < n) (ht : t < gins.length)
    (hmode : modeAt gins t k = true) (hchange : changeAt gins t k = true)
    (hquiet : ∀ t', t = t' + 1 → modeAt gins t' k = true ∧ changeAt gins t' k = false) :
    pendingAt (gpioCfg n bw little) (gpioTrace n gins) (t + 1) k = true := by
  have hkn : k < (gpioCfg n bw little).n := by rw [gpio_cfg_n]; exact hk
  have hkind : (gpioCfg n bw little).kind k = .rising := gpio_cfg_kind n bw little hk
  have hlen : (gpioTrace n gins).length = gins.length := gpioDerive_length n gins _
  apply event_pending_next_cycle hkn (by rw [hkind]; decide) (by omega)
  unfold eventAt
  rw [hkind, gpio_trig_change hk ht hmode, hchange]
  cases t with
  | zero => rfl
  | succ t' =>
    obtain ⟨hm, hc⟩ := hquiet t' rfl
    simp only [prevTrig, Kind.event]
    rw [gpio_trig_change hk (by omega) hm, hc]
    rfl

/-! ## session 2 — access disciplines for a `pending` register of several bus words: exactly which are safe

  `freshWr c ins t k` = the most recent value written to bit position `k` of `pending` within the TRANSACTION that
  ends in cycle `t` (the cycles after the previous commit, up to and including `t`); `SafeCommit c ins t` = every one
  that the commit of cycle `t` applies was written in its own transaction ("fresh or zero"); `WholeRegister` = every
  word is written in every transaction (what the generated `*_ev_pending_write` accessors do).
  (LitexProofs/Event/Discipline.lean) -/

/-- EXACT characterisation, every configuration: the commit of cycle `t` applies no clear that its transaction did
    not ask for  ⇔  it is a `SafeCommit`. -/
theorem discipline_exact {t : Nat} (ht : t < ins.length) :
    SafeCommit c ins t ↔ ∀ k, k < c.n → clearAt c ins (t + 1) k = true → freshWr c ins t k = some true :=
  safe_iff_no_spurious_clear ht

/-- Sufficient in practice: whole-register transactions are safe … -/
theorem whole_register_is_safe (h : WholeRegister c ins) : Disciplined c ins := wholeRegister_disciplined h

/-- … and when the sources fit one bus word every access pattern is. -/
theorem single_word_always_safe (hn : 0 < c.n) (hw : c.n ≤ c.bw) (ins : List In) : Disciplined c ins :=
  singleWord_disciplined hn hw ins

/-- Under the discipline the clear is exactly "this transaction wrote a one to bit `k` and now commits". -/
theorem clear_under_discipline (hk : k < c.n) {t : Nat} (ht : t < ins.length) (hs : SafeCommit c ins t) :
    clearAt c ins (t + 1) k = (commits c (inAt ins t) && (freshWr c ins t k).getD false) :=
  clear_eq_fresh hk ht hs

/-- Necessary: ANY commit outside the discipline (a stale one in bit `k`, nothing fresh) clears source `k`, and a
    pending, un-acknowledged event of `k` is lost — for every configuration and trace, not only the witness. -/
theorem stale_commit_drops_pending (hk : k < c.n) (hkind : c.kind k ≠ .level) {t : Nat} (ht : t + 1 < ins.length)
    (hc : commits c (inAt ins t) = true) (hl : (lastWr c ins .pending (t + 1) k).getD false = true)
    (hf : freshWr c ins t k ≠ some true) (hp : pendingAt c ins (t + 1) k = true)
    (hev : eventAt c ins (t + 1) k = false) : pendingAt c ins (t + 2) k = false :=
  stale_commit_loses_event hk hkind ht hc hl hf hp hev

/-- Never lost, ANY number of words, under the discipline: an event in cycle `u` is pending in every later cycle `T`
    unless a transaction committing in some cycle `v`, `u ≤ v`, `v + 1 < T`, wrote a one to bit `k`.
    (`event_not_lost_until_acked` is the one-word instance.) -/
theorem event_not_lost_until_acked_any_width (hk : k < c.n) (hkind : c.kind k ≠ .level) (hd : Disciplined c ins)
    {u T : Nat} (hu : u < T) (hT : T ≤ ins.length) (hev : eventAt c ins u k = true)
    (hno : ∀ v, u ≤ v → v + 1 < T → ¬ (commits c (inAt ins v) = true ∧ freshWr c ins v k = some true)) :
    pendingAt c ins T k = true :=
  event_not_lost_until_acked_disciplined hk hkind hd hu hT hev hno

/-! ## session 2 — the event PRODUCERS end to end (models in LitexModel/Event/Producers.lean)

  In each client the event manager is `evMgr` run on the trigger trace that the client logic produces
  (`timerTrace`, `uartTrace`, `gpioTrace ∘ syncTrace`), so every theorem above applies to it; the theorems below say
  what the hardware condition of each producer is and that it always ends up pending. -/

section producers
variable {bw : Nat} {little : Bool}

/-! ### Timer: `ev.zero`, trigger `value == 0`, rising edge -/

theorem timer_is_evMgr (bw : Nat) (little : Bool) (tins : List TimerIn) :
    ((timer bw little).run tins).ev = (evMgr (timerCfg bw little)).run (timerTrace bw little tins) :=
  timer_run_ev bw little tins

/-- Every arrival of the counter at zero (non-zero in cycle `t`, zero in cycle `t+1`) is pending in cycle `t+2`,
    for every schedule of `_en`/`_load`/`_reload` values and of bus accesses (clears included). -/
theorem timer_zero_pending {tins : List TimerIn} {t : Nat} (ht : t + 1 < tins.length)
    (hnz : timerValueAt tins t ≠ 0) (hz : timerValueAt tins (t + 1) = 0) :
    pendingAt (timerCfg bw little) (timerTrace bw little tins) (t + 2) 0 = true := by
  have hlen := timerTrace_length bw little tins
  have hev : eventAt (timerCfg bw little) (timerTrace bw little tins) (t + 1) 0 = true := by
    unfold eventAt
    rw [timer_cfg_kind]
    simp only [prevTrig, Kind.event]
    rw [timer_trig bw little tins ht, timer_trig bw little tins (by omega)]
    simp [hz, hnz]
  exact event_pending_next_cycle (k := 0) (by rw [timer_cfg_n]; omega) (by rw [timer_cfg_kind]; decide)
    (by omega) hev

/-- … and stays pending until software writes a one to bit 0 of `ev_pending` (bank-local index 1). -/
theorem timer_zero_not_lost {tins : List TimerIn} {t T : Nat} (hbw : 1 ≤ bw) (htT : t + 1 < T) (hT : T ≤ tins.length)
    (hnz : timerValueAt tins t ≠ 0) (hz : timerValueAt tins (t + 1) = 0)
    (hno : ∀ v, t + 1 ≤ v → v + 1 < T →
      ¬ ((timerInAt tins v).we = true ∧ (timerInAt tins v).adr = 1 ∧ (timerInAt tins v).datW.testBit 0 = true)) :
    pendingAt (timerCfg bw little) (timerTrace bw little tins) T 0 = true := by
  have hlen := timerTrace_length bw little tins
  have hev : eventAt (timerCfg bw little) (timerTrace bw little tins) (t + 1) 0 = true := by
    unfold eventAt
    rw [timer_cfg_kind]
    simp only [prevTrig, Kind.event]
    rw [timer_trig bw little tins (by omega), timer_trig bw little tins (by omega)]
    simp [hz, hnz]
  refine event_not_lost_until_acked (k := 0) (by rw [timer_cfg_n]; omega) (by rw [timer_cfg_kind]; decide)
    (by rw [timer_cfg_n]; exact hbw) htT (by omega) hev (fun v h1 h2 => ?_)
  obtain ⟨b1, b2, b3⟩ := timer_trace_bus bw little tins (t := v) (by omega)
  rw [b1, b2, b3]
  exact hno v h1 h2

/-- One-shot / period: the counter holds `v > 0` in cycle `t` and the timer stays enabled for `v` cycles ⇒ the zero
    event is pending in cycle `t + v + 1`. -/
theorem timer_elapses_pending {tins : List TimerIn} {t v : Nat} (hv : 0 < v) (hval : timerValueAt tins t = v)
    (hen : ∀ i, i < v → (timerInAt tins (t + i)).en = true) (ht : t + v < tins.length) :
    pendingAt (timerCfg bw little) (timerTrace bw little tins) (t + v + 1) 0 = true := by
  obtain ⟨w, rfl⟩ : ∃ w, v = w + 1 := ⟨v - 1, by omega⟩
  have h1 := timer_countdown tins t (w + 1) hval w (by omega) (fun i hi => hen i (by omega))
  have h2 := timer_countdown tins t (w + 1) hval (w + 1) (by omega) hen
  have := timer_zero_pending (bw := bw) (little := little) (tins := tins) (t := t + w) (by omega)
    (by rw [h1]; omega) (by rw [show t + w + 1 = t + (w + 1) by omega, h2]; omega)
  rw [show t + (w + 1) + 1 = t + w + 2 by omega]
  exact this

/-! ### UART: `ev.tx` (tx FIFO not full), `ev.rx` (rx FIFO output valid), both rising-edge -/

variable {dtx drx : Nat} {rxWe : Bool}

theorem uart_is_evMgr (dtx drx : Nat) (rxWe : Bool) (bw : Nat) (little : Bool) (uins : List UartIn) :
    ((uart dtx drx rxWe bw little).run uins).ev =
      (evMgr (uartCfg bw little)).run (uartTrace dtx drx rxWe bw little uins) :=
  uart_run_ev dtx drx rxWe bw little uins

/-- The rx FIFO output becoming valid is pending (bit 1) in the next cycle, whatever software does. -/
theorem uart_rx_valid_pending {uins : List UartIn} {t : Nat} (ht : t + 1 < uins.length)
    (h0 : (uartStAt dtx drx rxWe bw little uins t).rx.rd = false)
    (h1 : (uartStAt dtx drx rxWe bw little uins (t + 1)).rx.rd = true) :
    pendingAt (uartCfg bw little) (uartTrace dtx drx rxWe bw little uins) (t + 2) 1 = true := by
  have hlen := uartTrace_length dtx drx rxWe bw little uins
  have hev : eventAt (uartCfg bw little) (uartTrace dtx drx rxWe bw little uins) (t + 1) 1 = true := by
    unfold eventAt
    rw [uart_cfg_kind bw little (by omega)]
    simp only [prevTrig, Kind.event]
    rw [uart_trig_rx dtx drx rxWe bw little uins ht, uart_trig_rx dtx drx rxWe bw little uins (by omega), h0, h1]
    rfl
  exact event_pending_next_cycle (k := 1) (by rw [uart_cfg_n]; omega)
    (by rw [uart_cfg_kind bw little (by omega)]; decide) (by omega) hev

/-- The tx FIFO leaving the full state is pending (bit 0) in the next cycle. -/
theorem uart_tx_nonfull_pending {uins : List UartIn} {t : Nat} (ht : t + 1 < uins.length)
    (h0 : (uartStAt dtx drx rxWe bw little uins t).tx.writable dtx = false)
    (h1 : (uartStAt dtx drx rxWe bw little uins (t + 1)).tx.writable dtx = true) :
    pendingAt (uartCfg bw little) (uartTrace dtx drx rxWe bw little uins) (t + 2) 0 = true := by
  have hlen := uartTrace_length dtx drx rxWe bw little uins
  have hev : eventAt (uartCfg bw little) (uartTrace dtx drx rxWe bw little uins) (t + 1) 0 = true := by
    unfold eventAt
    rw [uart_cfg_kind bw little (by omega)]
    simp only [prevTrig, Kind.event]
    rw [uart_trig_tx dtx drx rxWe bw little uins ht, uart_trig_tx dtx drx rxWe bw little uins (by omega), h0, h1]
    rfl
  exact event_pending_next_cycle (k := 0) (by rw [uart_cfg_n]; omega)
    (by rw [uart_cfg_kind bw little (by omega)]; decide) (by omega) hev

/-- End to end: a character arriving at an empty rx FIFO (cycle `t`) makes the rx event pending in cycle `t+3`,
    for every schedule of software accesses (acknowledges, rxtx reads) and of the tx side. -/
theorem uart_rx_char_pending {uins : List UartIn} {t : Nat} (hd : 0 < drx) (ht : t + 2 < uins.length)
    (hempty : (uartStAt dtx drx rxWe bw little uins t).rx = FifoSt.empty)
    (hv : (uartInAt uins t).sinkValid = true) :
    pendingAt (uartCfg bw little) (uartTrace dtx drx rxWe bw little uins) (t + 3) 1 = true := by
  have s1 : (uartStAt dtx drx rxWe bw little uins (t + 1)).rx = { lvl := 1, rd := false } := by
    rw [uartStAt_succ dtx drx rxWe bw little uins (by omega)]
    show fifoNext drx _ _ _ = _
    rw [hempty, hv]
    exact fifoNext_empty_push hd _
  have s2 : (uartStAt dtx drx rxWe bw little uins (t + 2)).rx.rd = true := by
    rw [uartStAt_succ dtx drx rxWe bw little uins (by omega)]
    show (fifoNext drx _ _ _).rd = true
    rw [s1]
    exact fifoNext_refill_rd _ _ _
  exact uart_rx_valid_pending (t := t + 1) (by omega) (by rw [s1]) s2

/-- The acknowledge of the rx event is the pop of the rx FIFO (same cycle, same signal), and the FIFO levels never
    exceed their depths. -/
theorem uart_rx_ack_is_pop (s : UartSt) (i : UartIn) :
    ((uart dtx drx rxWe bw little).out s i).rxPop = (s.ev.clear 1 || (rxWe && i.rxtxWe)) := rfl

theorem uart_levels_bounded (uins : List UartIn) :
    ((uart dtx drx rxWe bw little).run uins).tx.lvl ≤ dtx ∧ ((uart dtx drx rxWe bw little).run uins).rx.lvl ≤ drx :=
  Machine.invariant_runFrom (uart dtx drx rxWe bw little) (fun s => s.tx.lvl ≤ dtx ∧ s.rx.lvl ≤ drx)
    (fun s _ h => ⟨fifoNext_le dtx s.tx _ _ h.1, fifoNext_le drx s.rx _ _ h.2⟩) uins _
    ⟨Nat.zero_le _, Nat.zero_le _⟩

/-! ### GPIO: MultiReg synchroniser in front of `_GPIOIRQ` -/

theorem gpio_sync_is_gpioIrq (n bw : Nat) (little : Bool) (gins : List GpioRawIn) :
    ((gpioSync n bw little).run gins).g = (gpioIrq n bw little).run (syncTrace n bw little gins) :=
  gpioSync_run_g n bw little gins

/-- The IRQ logic sees every raw pad exactly two cycles late (0 during the first two cycles). -/
theorem gpio_sync_two_cycles (n bw : Nat) (little : Bool) (gins : List GpioRawIn) {k t : Nat} (hk : k < n)
    (ht : t < gins.length) : padAt (syncTrace n bw little gins) t k = delay2 (fun t => rawAt gins t k) t :=
  sync_pad n bw little gins hk ht

/-- End to end, Change mode: a change of the RAW pad in cycle `t` is pending in cycle `t+3`, whatever software
    does, provided the raw pad did not also change in cycle `t-1` (same hypothesis as `gpio_change_pending_partial`,
    moved in front of the synchroniser; the excluded region is the open finding). -/
theorem gpio_raw_change_pending_partial {n : Nat} {gins : List GpioRawIn} {t k : Nat} (hk : k < n)
    (ht : t + 2 < gins.length)
    (hmode2 : (gpioRawInAt gins (t + 2)).mode.getD k false = true)
    (hmode1 : (gpioRawInAt gins (t + 1)).mode.getD k false = true)
    (hchange : rawChangeAt gins k t = true)
    (hquiet : ∀ t', t = t' + 1 → rawChangeAt gins k t' = false) :
    pendingAt (gpioCfg n bw little) (gpioTrace n (syncTrace n bw little gins)) (t + 3) k = true := by
  have hlen := syncTrace_length n bw little gins
  refine gpio_change_pending_partial (t := t + 2) hk (by omega) ?_ ?_ ?_
  · rw [sync_mode n bw little gins ht]; exact hmode2
  · rw [sync_change n bw little gins hk ht]; exact hchange
  · intro t' ht'
    obtain rfl : t' = t + 1 := by omega
    refine ⟨by rw [sync_mode n bw little gins (by omega)]; exact hmode1, ?_⟩
    rw [sync_change n bw little gins hk (by omega)]
    cases t with
    | zero => rfl
    | succ t'' => exact hquiet t'' rfl

end producers

/-! ## session 2 — SoC level: interrupt numbers and the CPU's interrupt vector (LitexModel/Event/SocIrq.lean) -/

/-- `soc.irq.add` numbering, any request sequence that the handler accepts: one number per request, pairwise
    distinct, below `n_irqs`, none of the CPU's own lines, a requested number is the number given. -/
theorem irq_numbers_distinct {nl : Nat} {used locs : List Nat} {reqs : List (Option Nat)}
    (h : irqAlloc nl used reqs = some locs) :
    locs.length = reqs.length ∧ locs.Nodup ∧ (∀ l ∈ locs, l < nl ∧ l ∉ used) ∧
    (∀ (j m : Nat), reqs[j]? = some (some m) → locs[j]? = some m) :=
  irqAlloc_spec reqs used locs h

/-- Bit `locs[j]` of `cpu.interrupt` is high exactly when manager `j` has a pending and enabled source — in every
    state and for every input of the SoC (so in every cycle of every run). -/
theorem soc_interrupt_bit {width : Nat} {locs : List Nat} {cs : List Cfg} (ss : List St) (is : List In)
    (hnd : locs.Nodup) (hlc : locs.length = cs.length) (hs : ss.length = cs.length) (hi : is.length = cs.length)
    {j : Nat} (hj : j < cs.length) (hw : locs[j]'(by omega) < width) :
    ((socIrq width locs cs).out ss is).1.getD (locs[j]'(by omega)) false = true ↔
      ∃ k, k < cs[j].n ∧ pendingVis cs[j] (ss[j]'(by omega)) (is[j]'(by omega)) k = true ∧
        ((ss[j]'(by omega)).bit k).en = true := by
  have hol := sharedOuts_length cs ss is hs hi
  show (cpuInterrupt width locs ((sharedOuts cs ss is).map (·.irq))).getD _ false = true ↔ _
  rw [cpuInterrupt_getD hw, cpuInterruptBit_nodup hnd (by simp [hol, hlc]) (by omega)]
  simp only [List.getElem_map]
  rw [sharedOuts_getElem cs ss is j hj (by omega) (by omega) (by omega)]
  exact irqOf_iff _ _

/-- Every bit that no peripheral was given is 0. -/
theorem soc_interrupt_unused {width : Nat} {locs : List Nat} {cs : List Cfg} (ss : List St) (is : List In)
    {b : Nat} (hb : b < width) (hn : b ∉ locs) : ((socIrq width locs cs).out ss is).1.getD b false = false := by
  show (cpuInterrupt width locs _).getD b false = false
  rw [cpuInterrupt_getD hb, cpuInterruptBit_unused hn]

/-- The SoC's managers step as the `SharedIRQ` product does, so `shared_run_proj` (each manager behaves as alone on
    its own share of the inputs) and with it every theorem of this file applies to each peripheral of the SoC. -/
theorem soc_run_is_product (width : Nat) (locs : List Nat) (cs : List Cfg) (ins : List (List In)) :
    (socIrq width locs cs).run ins = (shared cs).run ins :=
  socIrq_runFrom width locs cs ins _

/-- End to end at SoC level: an event of source `k` of peripheral `j` in cycle `u` raises bit `locs[j]` of
    `cpu.interrupt` in every later cycle `T` in which the source is enabled, until it is cleared — for all trigger
    waveforms of all peripherals and all bus traffic to all banks. -/
theorem soc_event_raises_interrupt {width : Nat} {locs : List Nat} {cs : List Cfg} (hnd : locs.Nodup)
    (hlc : locs.length = cs.length) (ins : List (List In)) (hwf : ∀ v ∈ ins, v.length = cs.length)
    {j k u T : Nat} (hj : j < cs.length) (hw : locs[j]'(by omega) < width) (hk : k < cs[j].n)
    (hkind : cs[j].kind k ≠ .level) (hu : u < T) (hT : T < ins.length)
    (hev : eventAt cs[j] (ins.map fun v => v.getD j In.idle) u k = true)
    (hno : ∀ v, u < v → v < T → clearAt cs[j] (ins.map fun v => v.getD j In.idle) v k = false)
    (hen : enableAt cs[j] (ins.map fun v => v.getD j In.idle) T k = true) :
    ((socIrq width locs cs).out ((socIrq width locs cs).run (ins.take T)) (ins.getD T [])).1.getD
      (locs[j]'(by omega)) false = true := by
  let insj := ins.map fun v => v.getD j In.idle
  have hpend : pendingAt cs[j] insj T k = true :=
    event_not_lost hk hkind hu (by simp [insj]; omega) hev hno
  have hinit : ((shared cs).init).length = cs.length := by simp [shared]
  obtain ⟨hlen, hproj⟩ := shared_run_proj cs (ins.take T) (shared cs).init hinit
    (fun v hv => hwf v (List.mem_of_mem_take hv))
  have hrun : (socIrq width locs cs).run (ins.take T) = (shared cs).runFrom (shared cs).init (ins.take T) :=
    soc_run_is_product width locs cs (ins.take T)
  have hsl : ((socIrq width locs cs).run (ins.take T)).length = cs.length := by rw [hrun]; exact hlen
  have hil : (ins.getD T []).length = cs.length := by
    rw [List.getD_eq_getElem?_getD, List.getElem?_eq_getElem hT]
    exact hwf _ (List.getElem_mem hT)
  have hst : ((socIrq width locs cs).run (ins.take T))[j]'(by omega) = stAt cs[j] insj T := by
    have h := hproj j hj (by omega)
    rw [← hrun] at h
    rw [List.getElem?_eq_getElem (by omega)] at h
    have h' := Option.some.inj h
    rw [h']
    unfold stAt Machine.run
    simp [shared, insj, List.map_take]
  have hjT : j < (ins[T]'hT).length := by rw [hwf _ (List.getElem_mem hT)]; exact hj
  have hin : (ins.getD T [])[j]'(by omega) = inAt insj T := by
    unfold inAt
    simp [insj, List.getD_eq_getElem?_getD, hT, hjT]
  refine (soc_interrupt_bit _ _ hnd hlc hsl hil hj hw).mpr ⟨k, hk, ?_, ?_⟩
  · rw [hst, hin]; exact hpend
  · rw [hst]; exact hen

/-! ## non-vacuity and negative witnesses (concrete runs, checked by evaluation) -/

def wr (adr dat : Nat) (trig : List Bool := []) : In := { trig := trig, adr := adr, we := true, datW := dat }
def idle (trig : List Bool := []) : In := { trig := trig, adr := 99, we := false, datW := 0 }

/-- pulse + rising + falling + level on an 8-bit bus: events become pending, irq follows enable, a clear coinciding
    with a new pulse keeps the source pending, clearing bit 0 leaves bit 1 alone. -/
example :
    let c : Cfg := { kinds := [.pulse, .rising, .falling, .level], bw := 8, little := false }
    let ins := [idle [true, true, true, false],          -- pulse, rising edge, falling source high
                wr 2 0b0011 [false, true, false, false],  -- enable sources 0,1; falling edge on source 2
                wr 1 0b0001 [false, true, false, false],  -- acknowledge source 0 …
                idle [true, true, false, true],           -- … the clear lands together with a new pulse
                idle]
    (List.range 5).map (fun t => (irqAt c ins t, (List.range 4).map (pendingAt c ins t))) =
      [(false, [false, false, false, false]),
       (false, [true, true, false, false]),
       (true, [true, true, true, false]),
       (true, [true, true, true, true]),
       (true, [true, true, true, false])] := by decide

/-- Negative witness for `clear_needs_one_in_this_write` outside its hypothesis (two sources on a 1-bit bus, i.e.
    `pending` = 2 words): source 1 is acknowledged by a whole-register write (word 1 := 1, word 0 := 0); later a
    write of word 0 alone (to acknowledge source 0) also clears the new event of source 1, although that write
    carries nothing for bit 1. -/
example :
    let c : Cfg := { kinds := [.pulse, .pulse], bw := 1, little := false }
    let ins := [idle [false, true], wr 2 1, wr 3 0, idle, idle [true, true], wr 3 1, idle, idle]
    pendingAt c ins 6 1 = true ∧ clearAt c ins 6 1 = true ∧ wrBit c (inAt ins 5) .pending 1 = none ∧
    pendingAt c ins 7 1 = false := by decide

/-- Non-vacuity of `clear_after_addressed_write`: three sources on a 2-bit bus (`pending` = words [bits 0,1] and
    [bit 2]); a whole-register write of 0b101 (word 1 first, then the committing word 0) clears exactly sources 0
    and 2 and leaves source 1 pending. -/
example :
    let c : Cfg := { kinds := [.pulse, .rising, .pulse], bw := 2, little := false }
    let ins := [idle [true, true, true], wr 2 0b1, wr 3 0b01, idle, idle]
    (List.range 3).map (clearAt c ins 3) = [true, false, true] ∧
    (List.range 3).map (pendingAt c ins 3) = [true, true, true] ∧
    (List.range 3).map (pendingAt c ins 4) = [false, true, false] := by decide

/-- Negative witness for `gpio_change_pending` outside the hypothesis of the `_partial` theorem (one pad, Change
    mode, 8-bit bus): the pad rises in cycle 1 (pending from cycle 2); in cycle 4 software acknowledges; the pad
    falls in cycle 4 and rises again in cycle 5, where the clear lands: the change of cycle 5 is not pending in
    cycle 6, and nothing is pending afterwards. -/
example :
    let g (pad : Bool) (adr : Nat) (we : Bool) (dat : Nat) : GpioIn :=
      { pads := [pad], mode := [true], edge := [false], adr := adr, we := we, datW := dat }
    let gins := [g false 9 false 0, g true 9 false 0, g true 9 false 0, g true 9 false 0,
                 g false 1 true 1, g true 9 false 0, g true 9 false 0, g true 9 false 0]
    let c := gpioCfg 1 8 false
    changeAt gins 5 0 = true ∧ clearAt c (gpioTrace 1 gins) 5 0 = true ∧
    (List.range 8).map (fun t => pendingAt c (gpioTrace 1 gins) t 0) =
      [false, false, true, true, true, true, false, false] := by decide

/-- Non-vacuity of the timer theorems (8-bit CSR bus): periodic mode with reload 2; the counter runs 0,2,1,0,2,1,0;
    the arrival at zero in cycle 3 is pending in cycle 4, the acknowledge written in cycle 4 clears it in cycle 6,
    the next arrival (cycle 6, coinciding with nothing) is pending in cycle 7. -/
example :
    let ti (adr : Nat) (we : Bool) (dat : Nat) : TimerIn := { en := true, load := 0, reload := 2, adr := adr, we := we, datW := dat }
    let tins := [ti 9 false 0, ti 2 true 1, ti 9 false 0, ti 9 false 0, ti 1 true 1, ti 9 false 0, ti 9 false 0, ti 9 false 0]
    (List.range 8).map (timerValueAt tins) = [0, 2, 1, 0, 2, 1, 0, 2] ∧
    (List.range 8).map (fun t => pendingAt (timerCfg 8 false) (timerTrace 8 false tins) t 0) =
      [false, true, true, true, true, true, false, true] ∧
    (List.range 8).map (irqAt (timerCfg 8 false) (timerTrace 8 false tins)) =
      [false, false, true, true, true, true, false, true] := by decide

/-- Non-vacuity of `uart_rx_char_pending` (depths 2/2, 8-bit bus): a character arrives in cycle 1 at the empty rx
    FIFO; rx (bit 1) is pending from cycle 4 on; the acknowledge written in cycle 4 pops the FIFO in cycle 5. -/
example :
    let ui (sv : Bool) (adr : Nat) (we : Bool) (dat : Nat) : UartIn :=
      { sinkValid := sv, srcReady := false, rxtxRe := false, rxtxWe := false, adr := adr, we := we, datW := dat }
    let uins := [ui false 9 false 0, ui true 9 false 0, ui false 9 false 0, ui false 9 false 0, ui false 1 true 2,
                 ui false 9 false 0, ui false 9 false 0]
    (uartStAt 2 2 false 8 false uins 1).rx = FifoSt.empty ∧
    (List.range 7).map (fun t => pendingAt (uartCfg 8 false) (uartTrace 2 2 false 8 false uins) t 1) =
      [false, false, false, false, true, true, false] ∧
    (List.range 7).map (fun t => (uartStAt 2 2 false 8 false uins t).rx) =
      [⟨0, false⟩, ⟨0, false⟩, ⟨1, false⟩, ⟨0, true⟩, ⟨0, true⟩, ⟨0, true⟩, ⟨0, false⟩] := by decide

/-- What "as coded" means for the UART rx event (documented limit, not a defect of the event manager): the trigger
    is the LEVEL `rx_fifo.source.valid` into a rising-edge source, so with two characters queued the acknowledge of
    the first (cycle 5, pops one character in cycle 6) leaves the FIFO non-empty, the trigger never falls, and no
    second event is raised: software has to drain until `rxempty` before it returns (the LiteX ISR does). -/
example :
    let ui (sv : Bool) (adr : Nat) (we : Bool) (dat : Nat) : UartIn :=
      { sinkValid := sv, srcReady := false, rxtxRe := false, rxtxWe := false, adr := adr, we := we, datW := dat }
    let uins := [ui true 9 false 0, ui true 9 false 0, ui false 9 false 0, ui false 9 false 0, ui false 9 false 0,
                 ui false 1 true 2, ui false 9 false 0, ui false 9 false 0, ui false 9 false 0]
    (List.range 9).map (fun t => (uartStAt 2 2 false 8 false uins t).rx.rd) =
      [false, false, true, true, true, true, true, true, true] ∧
    (List.range 9).map (fun t => pendingAt (uartCfg 8 false) (uartTrace 2 2 false 8 false uins) t 1) =
      [false, false, false, true, true, true, true, false, false] := by decide

/-- Non-vacuity of `gpio_raw_change_pending_partial` (one pad, Change mode): the raw pad rises in cycle 1, the IRQ
    logic sees it in cycle 3, pending from cycle 4. -/
example :
    let g (pad : Bool) : GpioRawIn := { raw := [pad], mode := [true], edge := [false], adr := 9, we := false, datW := 0 }
    let gins := [g false, g true, g true, g true, g true, g true]
    rawChangeAt gins 0 1 = true ∧ rawChangeAt gins 0 0 = false ∧
    (List.range 6).map (fun t => padAt (syncTrace 1 8 false gins) t 0) = [false, false, false, true, true, true] ∧
    (List.range 6).map (fun t => pendingAt (gpioCfg 1 8 false) (gpioTrace 1 (syncTrace 1 8 false gins)) t 0) =
      [false, false, false, false, true, true] := by decide

/-- Interrupt numbering: CPU lines 0 and 2 taken; requests 5, "any", 31 get 5, 1, 31.  The vector of three managers
    with irq = 1,0,1 at those numbers; a request for a used number, or for a number ≥ n_irqs, is refused. -/
example :
    irqAlloc 32 [0, 2] [some 5, none, some 31] = some [5, 1, 31] ∧
    (List.range 32).filter (fun b => (cpuInterrupt 32 [5, 1, 31] [true, false, true]).getD b false) = [5, 31] ∧
    irqAlloc 32 [0, 2] [some 5, some 2] = none ∧ irqAlloc 4 [] [some 4] = none ∧
    irqAlloc 2 [0] [none, none] = none := by decide

/-- Why `soc_interrupt_bit` needs distinct numbers (which `irq_numbers_distinct` provides): were two managers wired
    to the same bit, the later statement would win and the earlier manager's interrupt would be invisible. -/
example : cpuInterruptBit [3, 3] [true, false] 3 = false := by decide

/-- Non-vacuity of `clear_is_local`: two runs that differ in the trigger of source 0 and in bit 0 of every written
    mask agree on everything that concerns source 1. -/
example :
    let c : Cfg := { kinds := [.pulse, .rising], bw := 8, little := false }
    AgreeTraces c 1 [idle [true, true], wr 1 0b11, wr 2 0b10, idle [false, true]]
                    [idle [false, true], wr 1 0b10, wr 2 0b11, idle [true, true]] := by
  simp [AgreeTraces, AgreeOn, In.trigOf, wr, idle]
  decide

end Litex.C15
