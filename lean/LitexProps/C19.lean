import LitexProofs.Periph.Timers
import LitexProofs.Periph.UartRx
import LitexProofs.Periph.Spi
import LitexProofs.Periph.I2c
import LitexProofs.Periph.Loopback
import LitexProofs.Periph.Tolerance
import LitexProofs.Periph.UartIdle
import LitexProofs.Periph.SpiCount
import LitexProofs.Periph.SpiSlave
import LitexProofs.Periph.I2cWrite
import LitexProofs.Periph.I2cPad
import LitexProofs.Periph.UartSys
import LitexProofs.Periph.SpiSeq
import LitexProofs.Periph.GlueMisc
import LitexProofs.Periph.SpiGen
import LitexModel.Periph.Bitbang
import LitexProofs.Periph.Tolerance2
import LitexProofs.Periph.Exact
import LitexProofs.Periph.I2cSeq
import LitexProofs.Periph.WdExact
import LitexProofs.Periph.RxEnd
import LitexProofs.Periph.Glue2
import LitexProofs.Periph.SpiLink
import LitexModel.Periph.Link
import LitexProofs.Periph.Bone
/-
  C19 — Serial peripherals and timers produce exact waveforms and always finish.

  Models: `LitexModel/Periph/*`, compared with the real cores on every run (`harness/props/c19.py`, instances and
  pin-level monitors in `harness/c19lib.py`).  Every theorem quantifies over all input histories (`List` of per-cycle
  inputs, or a function `Nat → input` for the cycles of a frame), all data values and all parameters (tuning word,
  divider, load values, widths) subject to the stated side conditions.

  INVENTORY of the anchor files (class/function — Lean model — theorems here — how tied; A = exhaustive co-exploration
  of implementation × model, B = seeded lock-step co-simulation, M = independent pin-level monitor):

  litex/soc/cores/uart.py
    UARTPads, UARTInterface, RS232PHYInterface   declarations only (records / endpoints), nothing to model
    RS232ClkPhaseAccum      accum/accNext        phase_accum                                    A 4 tw × tx/rx, B 4 extreme tw, M
    RS232PHYTX              uartTx/txNext        uart_tx_frame, uart_tx_finishes, uart_tx_idle_high   A 4 tw, B 9 inst, M (frame decoder)
    RS232PHYRX              uartRx/rxNext        uart_rx_sample_points, uart_rx_frame, uart_rx_recovers_partial,
                                                 uart_rx_tolerates_2pct / _2pct_10 / _general / _general_idle,
                                                 uart_loopback_partial, uart_loopback_aligned_partial,
                                                 uart_rx_pad_recovers_partial, uart_rx_end_to_end, uart_rx_end_to_end_any   A 4 tw, B 12 inst (±2 %, noise), M
    RS232PHY                (tuning word = int(baud/clk·2^32) is the models' parameter `tw`; dynamic baud = CSR storage)
                                                 all `tw`-general theorems                      B phy=(clk, baud) incl. dynamic, M (baud monitor)
    RS232PHYMultiplexer     phyMux               phy_mux_routes                                 A n = 2, 3 complete, M
    UARTMultiplexer         uartMux              uart_mux_routes                                A n = 2, 3 complete, M
    RS232PHYModel           phyModel             phy_model_wires                                A complete, M
    UARTCrossover           crossover machine (two uartTop cross-wired; xover TX "FIFO" of depth 1 is a PipeValid buffer)
                                                 uart_crossover_no_loss (both directions)       A bounded, B, M (in-order scoreboard)
    UART.add_auto_tx_flush  uartFlush            uart_auto_flush_transparent, uart_auto_flush_drop_rate, uart_auto_flush_drains,
                                                 uart_auto_flush_unblocks
                                                 uart_auto_flush_exactly_once(_reset) (the model follows the code after fix
                                                 C19-uart-autoflush-duplicate; the old pop strobe `flushPopOld` is kept for the
                                                 kernel-checked negative witnesses)             A complete (timeout 2), B, M, probe
    _get_uart_fifo, UARTPHY constructor helpers  (sync case = C03's buffered FIFO model; async case is C05's)   B via UartSysInst / SoC
    UART                    uartTopM, uartSysM   uart_top_no_loss_in_order, uart_sys_tx_once    A 2 inst, B 5 inst incl. SoCMini's UART, M
    Stream2Wishbone, UARTBone, UARTWishboneBridge
                            bone (FSM + WaitTimer)   bone_write_burst, bone_write_access, bone_read_burst, bone_read_access,
                                                 bone_read_bytes, bone_bad_cmd, bone_no_timeout, bone_never_stuck
                                                 (UARTBone / UARTWishboneBridge only add the PHY and, for cd ≠ sys, C05's CDC)
                                                                                                A 3 inst (bounded), B 3 inst (dw 16/32, aw 16/32/64), M
                                                                                                (widths 8 cannot be elaborated: Signal(int(log2(1))))
  litex/soc/cores/spi/spi_master.py
    SPIMaster               spiMaster/spiNext, spiNNext (cs vector)
                                                 spi_master_start, spi_master_xfer, spi_master_pulse_count, spi_master_idle_inv,
                                                 spi_master_cs_lines, spi_master_any_options, spi_master_terminates_exactly,
                                                 spi_master_loopback, spi_master_bad_length_stuck     A 19 inst (dw 2–5, div 2–5, cs/loopback/length 0..3), B 25 inst
                                                                                                (dw 5–64, div 2…65535, ncs ≤ 16), M (SPI decoder)
    SPIMaster.add_csr / add_clk_divider          CSR fields wired 1:1 to the control signals (same model)     A/B instances `csr=True`, `default_div`
  litex/soc/cores/spi/spi_slave.py
    SPISlave                spiSlave/slvNext     spi_slave_xfer, spi_slave_pads, shiftIn_word, spi_slave_capture,
                                                 spi_slave_miso_sequence, spi_slave_word_stable_while_deselected     A dw 2 (bounded: 8-bit length counter; dw 1 complete in the
                                                                                                thorough tier), B 6 inst, M
    SPIMaster ↔ SPISlave    spiLink = linkStep (the two cores pad to pad)
                                                 spi_link_mosi, spi_link_slave_idle, spi_link_miso_partial (div ≥ 8; witness at 7),
                                                 spi_link_served                                A dw 2 (bounded), B 4 inst, M (end-to-end scoreboard)
  litex/soc/cores/i2c.py
    I2CClockGen             `cnt` part of i2cNext                i2c_step_timing, i2c_command_exact_cycles       (inside the machine instances)
    I2CMasterMachine        i2cMachine/i2cNext/i2cFsmStep        i2c_legal, i2c_command_ticks, i2c_returns_idle, i2c_write_sequence,
                                                 i2c_read_sequence, i2c_start_stop_sequences, i2c_step_timing,
                                                 i2c_command_exact_cycles                       A 2 inst (all command letters), B 8 inst (load 0…2^20−1), M
    I2CMaster               i2cMaster/i2cmNext   i2c_pad_legal, i2c_master_registers, i2c_pad_follows_machine     A 1 inst (bounded), B 6 inst (overlap, stretching), M (pad monitor)
  litex/soc/cores/timer.py
    Timer                   timer/timerNext      timer_oneshot, timer_counts, timer_periodic, timer_latch, timer_full_waveform,
                                                 timer_disabled_holds_load, timer_update_latch_any     A 3-bit complete, B 8/32 bit + SoCMini's timer, M
    Timer.add_uptime        uptimeM              timer_uptime                                   A (bounded: 64-bit counter), B, M
  litex/soc/cores/watchdog.py
    Watchdog                watchdog/wdNext      watchdog_counts, watchdog_feed, watchdog_feed_clears, watchdog_paused,
                                                 watchdog_reset_delay, watchdog_no_spurious_reset, watchdog_timeout_exact      A 5 inst (delay 0–3, options), B 7 inst incl. SoC, M
  litex/gen/genlib/misc.py
    WaitTimer               WaitTimer (shared)   waittimer_done_iff                             A t ∈ {0,1,2,5,2.7}, B t ≤ 70000, M
    timeline                timelineM            timeline_sequence                              A 4 event sets, B 5, M
    displacer, chooser      displacer, chooser   displacer_places, chooser_displacer            A complete input sets (6 parameterisations), M
    split                   split                split_concat                                   A complete, M
    BitSlip                 bitSlip              bitslip_shift                                  A dw 2, 3 complete, B dw 5, 8, 16, M
  litex/soc/cores/pwm.py
    PWM                     pwm/pwmNext          pwm_wave, pwm_duty, pwm_period_zero_one, pwm_width_corners, pwm_disable_reset,
                                                 pwm_exact_waveform, pwm_out_of_range           A values 0–4 complete (plain + CSR), B 32-bit, M
    PWM.add_*csr            CSR storages wired 1:1 (same model)                                 A/B `csr=True`
    MultiChannelPWM         mcPwmNext            multichannel_pwm                               A 2 channels, B 3/5 channels, M
  litex/soc/cores/bitbang.py (not an anchor; added on request)
    I2CMaster, I2CMasterSim, SPIMaster   bbI2c, bbI2cSim, bbSpi  bitbang_i2c_wiring, bitbang_i2c_sim_wiring, bitbang_spi_wiring   A complete (stateless), M
    add_init, collect_i2c_info           Python-level bookkeeping for the exporter (C14's area), not modelled
-/
namespace Litex.C19
open Litex Litex.Periph

/-! ## Timer -/

/-- **One-shot.**  After any history, a disabled cycle loads `load = L`; from the next cycle on (the first in which
    the enable is visible), with `reload = 0`, the zero event is raised exactly `L` cycles later — not earlier —
    and stays (the counter stops at 0). -/
theorem timer_oneshot (pre : List TimerIn) (d : TimerIn) (run : List TimerIn) (i : TimerIn)
    (hd : d.en = false) (hrun : ∀ j ∈ run, j.en = true ∧ j.reload = 0) :
    (timer.out (timer.run (pre ++ d :: run)) i).zero = decide (d.load ≤ run.length) := by
  simp only [Machine.run, Machine.runFrom_append, timer_runFrom_cons]
  show ((timer.runFrom _ run).value == 0) = _
  rw [timer_countdown run hrun, timer_disabled_loads _ d hd]
  by_cases h : d.load ≤ run.length
  · simp [h, Nat.sub_eq_zero_of_le h]
  · have : d.load - run.length ≠ 0 := by omega
    simp [h, this]

example : (timer.trace [⟨3, 0, false, false⟩, ⟨9, 0, true, false⟩, ⟨9, 0, true, false⟩, ⟨9, 0, true, false⟩,
    ⟨9, 0, true, false⟩, ⟨9, 0, true, false⟩]).map (·.zero) = [true, false, false, false, true, true] := by decide

/-- **One step per enabled cycle**, whatever `reload` says, until 0 is reached. -/
theorem timer_counts (s : TimerSt) (ins : List TimerIn) (h : ∀ i ∈ ins, i.en = true) (hlen : ins.length ≤ s.value) :
    (timer.runFrom s ins).value = s.value - ins.length :=
  timer_countdown_any_reload ins h s hlen

/-- **Periodic.**  From a zero event, with `reload = R` and the timer enabled, the next zero events come exactly
    every `R + 1` cycles: zero is raised `k` cycles later iff `R + 1` divides `k`. -/
theorem timer_periodic (R : Nat) (s : TimerSt) (hs : s.value = 0) (ins : List TimerIn)
    (h : ∀ i ∈ ins, i.en = true ∧ i.reload = R) (i : TimerIn) :
    (timer.out (timer.runFrom s ins) i).zero = true ↔ (R + 1) ∣ ins.length := by
  have hinv := timer_periodic_inv R ins h s 0 (by omega) (by simp [hs])
  show ((timer.runFrom s ins).value == 0) = true ↔ _
  simp only [Nat.zero_add, beq_iff_eq] at *
  constructor
  · intro h0; rw [h0] at hinv; simpa using hinv.2
  · intro hdvd
    have hv : (R + 1) ∣ (timer.runFrom s ins).value := (Nat.dvd_add_right hdvd).mp hinv.2
    exact Nat.eq_zero_of_dvd_of_lt hv (by omega)

example : (timer.traceFrom ⟨0, 0⟩ (List.replicate 7 ⟨0, 2, true, false⟩)).map (·.zero) =
    [true, false, false, true, false, false, true] := by decide

/-- **Value latch.**  `value` holds the count of the last cycle in which `update_value` was written. -/
theorem timer_latch (pre : List TimerIn) (u : TimerIn) (post : List TimerIn)
    (hu : u.upd = true) (hpost : ∀ j ∈ post, j.upd = false) :
    (timer.run (pre ++ u :: post)).status = (timer.run pre).value := by
  simp only [Machine.run, Machine.runFrom_append, timer_runFrom_cons]
  rw [timer_status_hold post hpost]
  simp [timerNext, hu]

example : (timer.run [⟨5, 0, false, false⟩, ⟨0, 0, true, false⟩, ⟨0, 0, true, true⟩, ⟨0, 0, true, false⟩]).status = 4 := by
  decide

/-! ## Watchdog -/

/-- **Counting and saturation.**  Enabled and not fed, `remaining` goes down one step per cycle and saturates at 0;
    `execute` is raised the cycle after an enabled cycle that saw `remaining == 0`, i.e. after `remaining + 1`
    enabled cycles, and not earlier. -/
theorem watchdog_counts (d : Nat) (s : WdSt) (ins : List WdIn) (h : ∀ i ∈ ins, i.enable = true ∧ i.feed = false) :
    ((watchdog d).runFrom s ins).remaining = s.remaining - ins.length ∧
    (ins ≠ [] → ((watchdog d).runFrom s ins).execute = decide (s.remaining < ins.length)) :=
  wd_countdown d ins h s

/-- **Feed** reloads `remaining` with `cycles` (also while disabled or halted). -/
theorem watchdog_feed (d : Nat) (s : WdSt) (i : WdIn) (h : i.feed = true) :
    (wdNext d s i).remaining = i.cycles ∧ (wdNext d s i).execute = s.execute := by
  simp [wdNext, h]

/-- After a feed with `cycles ≠ 0` the next enabled cycle withdraws the timeout. -/
theorem watchdog_feed_clears (d : Nat) (s : WdSt) (i j : WdIn) (h : i.feed = true) (hc : i.cycles ≠ 0)
    (hj : j.enable = true) (hjf : j.feed = false) : (wdNext d (wdNext d s i) j).execute = false := by
  simp [wdNext, h, hj, hjf, hc]

/-- **Pause.**  Disabled, or halted with `pause_halted`, and not fed: nothing moves. -/
theorem watchdog_paused (d : Nat) (s : WdSt) (ins : List WdIn) (h : ∀ i ∈ ins, i.enable = false ∧ i.feed = false) :
    ((watchdog d).runFrom s ins).remaining = s.remaining ∧ ((watchdog d).runFrom s ins).execute = s.execute :=
  wd_frozen d ins h s

/-- **Reset delay.**  After every history from reset the reset output is high iff the timeout condition
    (`enable ∧ execute ∧ reset mode`) holds now and has held for the `reset_delay` cycles before. -/
theorem watchdog_reset_delay (d : Nat) (ins : List WdIn) (i : WdIn) :
    ((watchdog d).out ((watchdog d).run ins) i).crgRst =
      (wdWait ((watchdog d).run ins) i && decide (d ≤ WaitTimer.streak (wdWaits d (watchdog d).init ins))) := by
  have h := wd_rcount d ins (watchdog d).init 0 (by simp [watchdog])
  show (wdWait _ i && WaitTimer.done ((watchdog d).runFrom (watchdog d).init ins).rcount) = _
  rw [h]
  congr 1
  simp only [WaitTimer.done, WaitTimer.streak]
  by_cases hle : d ≤ WaitTimer.streakFrom 0 (wdWaits d (watchdog d).init ins)
  · simp [hle, Nat.sub_eq_zero_of_le hle]
  · have : d - WaitTimer.streakFrom 0 (wdWaits d (watchdog d).init ins) ≠ 0 := by omega
    simp [hle, this]

/-- **No reset without a timeout**, for every `reset_delay` (also 0, the constructor default): the reset output is
    high only in a cycle in which the watchdog is enabled, has timed out and is in reset mode. -/
theorem watchdog_no_spurious_reset (d : Nat) (ins : List WdIn) (i : WdIn)
    (h : ((watchdog d).out ((watchdog d).run ins) i).crgRst = true) :
    i.enable = true ∧ ((watchdog d).run ins).execute = true ∧ i.resetF = true := by
  rw [watchdog_reset_delay] at h
  simp only [wdWait, Bool.and_eq_true] at h
  exact ⟨h.1.1.1, h.1.1.2, h.1.2⟩

/-- `reset_delay = 0`: quiet in the reset state, reset in the very cycle of a timeout in reset mode. -/
example : ((watchdog 0).out (watchdog 0).init ⟨false, false, false, false, false, 0⟩).crgRst = false ∧
    (((watchdog 0).trace (List.replicate 3 ⟨false, true, true, false, false, 0⟩)).map (·.crgRst)) =
      [false, true, true] := by decide

example : (((watchdog 2).trace (List.replicate 6 ⟨false, true, true, false, false, 0⟩)).map (·.crgRst)) =
    [false, false, false, true, true, true] := by decide

/-! ## WaitTimer -/

/-- `done` exactly when `wait` has been held for the last `t` cycles or more — for every history. -/
theorem waittimer_done_iff (t : Nat) (ws : List Bool) :
    WaitTimer.done (WaitTimer.run t ws) = decide (t ≤ WaitTimer.streak ws) := by
  have h := waittimer_count t ws t 0 (by simp)
  simp only [WaitTimer.run, WaitTimer.runFrom, Machine.run, WaitTimer.machine] at *
  rw [h]
  simp only [WaitTimer.done, WaitTimer.streak]
  by_cases hle : t ≤ WaitTimer.streakFrom 0 ws
  · simp [hle, Nat.sub_eq_zero_of_le hle]
  · have : t - WaitTimer.streakFrom 0 ws ≠ 0 := by omega
    simp [hle, this]

example : WaitTimer.done (WaitTimer.run 3 [true, true, false, true, true, true]) = true ∧
          WaitTimer.done (WaitTimer.run 3 [true, true, true, false, true, true]) = false := by decide

/-! ## PWM -/

/-- **Waveform.**  Enabled, not reset, constant `period = P ≥ 1`: the counter is a mod-`P` counter, and the output
    one cycle later is high iff the counter is below `width`. -/
theorem pwm_wave (P : Nat) (s : PwmSt) (hs : s.counter < P) (ins : List PwmIn)
    (h : ∀ i ∈ ins, i.enable = true ∧ i.reset = false ∧ i.period = P) (i : PwmIn) (hi : i.enable = true) :
    (pwm.runFrom s ins).counter = (s.counter + ins.length) % P ∧
    (pwmNext (pwm.runFrom s ins) i).pwm = decide ((s.counter + ins.length) % P < i.width) := by
  have hc := pwm_counter P ins h s hs
  exact ⟨hc, by simp [pwmNext, hi, hc]⟩

/-- **Duty.**  Over one period (`P` cycles from counter 0, constant `width = W`) the output register is loaded with
    1 in exactly `min W P` cycles: high for `width` of every `period` cycles (always high if `width ≥ period`). -/
theorem pwm_duty (P W : Nat) (s : PwmSt) (hs : s.counter = 0) (ins : List PwmIn) (hlen : ins.length = P)
    (h : ∀ i ∈ ins, i.enable = true ∧ i.reset = false ∧ i.period = P ∧ i.width = W) :
    pwmHighs s ins = min W P := by
  rw [pwm_highs_window P W ins h s (by omega), hs, hlen, ← List.range_eq_range', count_lt_range]

example : (pwm.trace (List.replicate 9 ⟨true, false, 1, 4⟩)) =
    [false, true, false, false, false, true, false, false, false] := by decide

/-! ## timeline -/

/-- **timeline.**  `last ≥ 1` is the largest event time.  From the idle counter a trigger starts the sequence; `k`
    cycles after the trigger cycle (`1 ≤ k ≤ last`) the counter shows `k` — so the event with time `e` fires exactly
    `e` cycles after the trigger, whatever the trigger input does meanwhile — and one cycle after `last` the counter is
    idle again (also when `last + 1` is a power of two and the counter simply overflows). -/
theorem timeline_sequence (last : Nat) (hl : 1 ≤ last) (ts : List Bool) (hlen : ts.length < last) (t : Bool) :
    (timelineM last).runFrom 0 (true :: ts) = 1 + ts.length ∧
    timelineFires (1 + ts.length) ((timelineM last).runFrom 0 (true :: ts)) t = true ∧
    (ts.length + 1 = last → (timelineM last).runFrom 0 (true :: ts ++ [t]) = 0) ∧
    (timelineM last).runFrom 0 [false] = 0 := by
  have h1 : (timelineM last).runFrom 0 (true :: ts) = 1 + ts.length := by
    show (timelineM last).runFrom (timelineNext last 0 true) ts = _
    rw [timeline_next_idle last true hl]
    exact timeline_counts last hl ts 1 (by omega) (by omega)
  refine ⟨h1, ?_, ?_, ?_⟩
  · rw [h1]
    have : ¬ (1 + ts.length = 0) := by omega
    simp [timelineFires]
  · intro he
    have : (timelineM last).runFrom 0 (true :: ts ++ [t]) =
        timelineNext last ((timelineM last).runFrom 0 (true :: ts)) t := by
      rw [show true :: ts ++ [t] = (true :: ts) ++ [t] from rfl, Machine.runFrom_append]; rfl
    rw [this, h1, timeline_next_running last _ t hl (by omega) (by omega)]
    have : 1 + ts.length = last := by omega
    simp [this]
  · show timelineNext last 0 false = 0
    rw [timeline_next_idle last false hl]; rfl

example : ((List.range 9).map fun k => (timelineM 5).runFrom 0 ((true :: List.replicate 8 true).take k)) =
    [0, 1, 2, 3, 4, 5, 0, 1, 2] := by decide

/-! ## Phase accumulator, UART transmitter -/

/-- **phase_accum.**  `j` enabled cycles after a disabled one: `phase = ((j+1)·tw) mod 2^32` and the number of
    ticks produced is `⌊(j+1)·tw / 2^32⌋` (tx mode); rx mode starts from `2^31`.  `tick` is one bit, so there is
    at most one tick per cycle, and for `tw < 2^32` no carry is lost. -/
theorem phase_accum (tw : Nat) (rx : Bool) (htw : tw < M32) (a : Acc) (j : Nat) :
    let a0 := accNext tw rx a false
    (accRun tw rx a0 j).phase = (accLoad tw rx + j * tw) % M32 ∧
    accTicks tw rx a0 j = (accLoad tw rx + j * tw) / M32 := by
  intro a0
  have hl : accLoad tw rx < M32 := by
    unfold accLoad; split
    · unfold HALF32 M32; omega
    · exact htw
  have hp : a0.phase = accLoad tw rx := by simp [a0, accNext, Acc.ofNat, Nat.mod_eq_of_lt hl]
  have := acc_enabled tw rx htw j a0 (by rw [hp]; exact hl)
  rw [hp] at this
  exact this

example : accTicks 0x55555555 false (accNext 0x55555555 false ⟨0, false⟩ false) 9 = 3 := by decide

/-- **uart_tx_frame.**  For every byte `d`, every tuning word `0 < tw < 2^32`, every idle state and every input on the
    sink during the frame: `r` cycles after the byte was accepted (while `r·tw < 10·2^32`) the transmitter is in RUN
    and the pad carries bit `⌊r·tw / 2^32⌋` of the frame `start(0), d0 … d7, stop(1)` — bit `b` occupies exactly the
    cycles between tick `b` and tick `b+1`, so every bit lasts `⌊2^32/tw⌋` or `⌈2^32/tw⌉` cycles and the error never
    accumulates to a full cycle; `sink.ready` is high exactly in the last cycle of the stop bit; the next state is
    IDLE with the line high. -/
theorem uart_tx_frame (tw : Nat) (htw : tw < M32) (s : TxSt) (hs : s.run = false) (i0 : TxIn) (hv : i0.valid = true)
    (hd : i0.data < 256) (f : Nat → TxIn) (r : Nat) (hr : r * tw < 10 * M32) :
    let st := runFn (uartTx tw) (txNext tw s i0) f r
    st.run = true ∧ ((uartTx tw).out st (f r)).tx = frameBit i0.data (r * tw / M32) ∧
    (((uartTx tw).out st (f r)).ready = decide (10 * M32 ≤ (r + 1) * tw)) ∧
    (10 * M32 ≤ (r + 1) * tw → ((uartTx tw).next st (f r)).run = false ∧ ((uartTx tw).next st (f r)).tx = true) := by
  intro st
  have hst : st = txRunSt tw i0.data r := by
    simp only [st]; rw [tx_accept tw htw s i0 hs hv hd]; exact tx_run tw i0.data htw f r hr
  have hb : r * tw / M32 ≤ 10 := by unfold M32 at *; omega
  rw [hst]
  refine ⟨rfl, ?_, ?_, ?_⟩
  · show txHwBit i0.data (r * tw / M32) = _
    exact txHwBit_eq_frameBit _ _ hd hb
  · show txReady (txRunSt tw i0.data r) = _
    by_cases hl : 10 * M32 ≤ (r + 1) * tw
    · simp [hl, (tx_last tw i0.data r htw hd (f r) hr hl).1]
    · simp [hl, tx_not_ready tw i0.data r (by omega)]
  · intro hl
    exact (tx_last tw i0.data r htw hd (f r) hr hl).2

/-- **The frame always ends** (for `tw ≥ 1`), after exactly `⌈10·2^32 / tw⌉` cycles. -/
theorem uart_tx_finishes (tw : Nat) (h0 : 0 < tw) (htw : tw < M32) (s : TxSt) (hs : s.run = false) (i0 : TxIn)
    (hv : i0.valid = true) (hd : i0.data < 256) (f : Nat → TxIn) :
    let r := (10 * M32 - 1) / tw
    ((uartTx tw).out (runFn (uartTx tw) (txNext tw s i0) f r) (f r)).ready = true ∧
    (runFn (uartTx tw) (txNext tw s i0) f (r + 1)).run = false := by
  intro r
  have hdm := Nat.div_add_mod (10 * M32 - 1) tw
  have hml := Nat.mod_lt (10 * M32 - 1) h0
  have hc : r * tw = tw * ((10 * M32 - 1) / tw) := Nat.mul_comm _ _
  have e1 : (r + 1) * tw = r * tw + tw := Nat.succ_mul r tw
  have hM : 0 < M32 := by unfold M32; omega
  have h1 : r * tw < 10 * M32 := by omega
  have h2 : 10 * M32 ≤ (r + 1) * tw := by omega
  have h := uart_tx_frame tw htw s hs i0 hv hd f r h1
  simp only at h
  refine ⟨by rw [h.2.2.1]; simp [h2], ?_⟩
  exact (h.2.2.2 h2).1

example : (10 * M32 - 1) / 0x55555555 + 1 = 31 := by decide

/-! ## UART receiver -/

/-- **uart_rx_sample_points.**  `ln k` is the synchronised line in RUN cycle `k` (RUN cycle 0 is the cycle after the
    start edge `rx = 0 ∧ rx_d = 1` was seen; the pad is two synchroniser registers earlier).  For every line, every
    `tw < 2^32` and every cycle `r` up to the end of the frame: a tick in cycle `r` takes sample number `count + 1` and
    `r` is that sample's nominal cycle `⌈(n − ½)·2^32/tw⌉`; the shift register holds the samples taken so far; the frame
    completes exactly when `2^31 + r·tw ≥ 10·2^32`. -/
theorem uart_rx_sample_points (tw : Nat) (htw : tw < M32) (ln : Nat → Bool) (s0 : RxSt) (hrun : s0.run = true)
    (hc : s0.count = 0) (hacc : s0.acc = ⟨HALF32, false⟩) (hrx : s0.rx = ln 0) (hr0 : s0.r0 = ln 1)
    (r : Nat) (hr : HALF32 + r * tw < 10 * M32 + tw) :
    let st := runFn (uartRx tw) s0 (fun k => ln (k + 2)) r
    st.run = true ∧ st.rx = ln r ∧
    (st.acc.tick = true → r = rxSampleCycle tw (st.count + 1)) ∧
    st.data = rxData ln tw s0.data st.count ∧
    (rxDone st = true ↔ 10 * M32 ≤ HALF32 + r * tw) := by
  intro st
  have hinv : RxInv tw ln s0.data r st := rx_run tw htw ln s0.data s0 (rx_inv_entry tw ln s0 hrun hc hacc hrx hr0) r hr
  exact ⟨hinv.run, hinv.rx, rx_tick_cycle tw ln s0.data r st hinv, hinv.data, rx_done_iff tw ln s0.data r st hinv⟩

/-- **The received byte.**  The frame ends in the cycle of the tenth sample, `R = ⌈9.5·2^32/tw⌉` (it always ends for
    `tw ≥ 1`); there `source.valid` is the line value (the stop-bit check), bit `k` of `source.data` is the line at
    sample `k + 2` (LSB first), no byte was produced earlier, and the receiver returns to IDLE. -/
theorem uart_rx_frame (tw : Nat) (h0 : 0 < tw) (htw : tw < M32) (ln : Nat → Bool) (s0 : RxSt) (hrun : s0.run = true)
    (hc : s0.count = 0) (hacc : s0.acc = ⟨HALF32, false⟩) (hrx : s0.rx = ln 0) (hr0 : s0.r0 = ln 1)
    (hdat : s0.data < 256) :
    let R := rxSampleCycle tw 10
    let st := runFn (uartRx tw) s0 (fun k => ln (k + 2)) R
    ((uartRx tw).out st (ln (R + 2))).valid = ln R ∧
    (∀ k, k < 8 → ((uartRx tw).out st (ln (R + 2))).data.testBit k = ln (rxSampleCycle tw (k + 2))) ∧
    ((uartRx tw).out st (ln (R + 2))).data < 256 ∧
    ((uartRx tw).next st (ln (R + 2))).run = false ∧
    (∀ r, r < R → ((uartRx tw).out (runFn (uartRx tw) s0 (fun k => ln (k + 2)) r) (ln (r + 2))).valid = false) := by
  intro R st
  have hl := rx_last_cycle tw h0
  have h := uart_rx_sample_points tw htw ln s0 hrun hc hacc hrx hr0 R hl.2
  simp only at h
  obtain ⟨hrun', hrx', htk, hdata, hdone⟩ := h
  have hd : rxDone st = true := hdone.mpr hl.1
  have hd' := hd
  simp only [rxDone, Bool.and_eq_true, beq_iff_eq] at hd'
  obtain ⟨⟨_, htick⟩, hc9⟩ := hd'
  refine ⟨?_, ?_, ?_, ?_, ?_⟩
  · show (rxDone st && st.rx) = ln R
    rw [hd, hrx']; simp
  · intro k hk
    show st.data.testBit k = _
    rw [hdata, hc9, rxData_testBit ln tw s0.data hdat 9 k hk (by omega)]
    congr 2; omega
  · show st.data < 256
    rw [hdata]; exact rxData_lt ln tw s0.data hdat _
  · show (rxNext tw st _).run = false
    rw [rxNext_tick tw st _ hrun' htick]; simp [hc9]
  · intro r hr
    have e : r + 1 ≤ R := hr
    have hmul : (r + 1) * tw ≤ rxSampleCycle tw 10 * tw := Nat.mul_le_mul_right tw e
    have e1 : (r + 1) * tw = r * tw + tw := Nat.succ_mul r tw
    have hlt : HALF32 + r * tw < 10 * M32 := by omega
    have h := uart_rx_sample_points tw htw ln s0 hrun hc hacc hrx hr0 r (by omega)
    simp only at h
    show (rxDone _ && _) = false
    cases hdd : rxDone (runFn (uartRx tw) s0 (fun k => ln (k + 2)) r) with
    | false => rfl
    | true => have := h.2.2.2.2.mp hdd; omega

/-- **uart_rx_recovers_partial.**  Hypothesis: the synchronised line carries bit `b` of the frame of byte `d` at
    sample point `b + 1`, for `b = 0 … 9` (what "line constant around each sample point" gives).  Then the byte is
    produced, with the right value.  (Without the hypothesis the statement is false — any other line, see below.) -/
theorem uart_rx_recovers_partial (tw : Nat) (h0 : 0 < tw) (htw : tw < M32) (ln : Nat → Bool) (s0 : RxSt)
    (hrun : s0.run = true) (hc : s0.count = 0) (hacc : s0.acc = ⟨HALF32, false⟩) (hrx : s0.rx = ln 0)
    (hr0 : s0.r0 = ln 1) (hdat : s0.data < 256) (d : Nat) (hd : d < 256)
    (hline : ∀ b, b ≤ 9 → ln (rxSampleCycle tw (b + 1)) = frameBit d b) :
    let R := rxSampleCycle tw 10
    let o := (uartRx tw).out (runFn (uartRx tw) s0 (fun k => ln (k + 2)) R) (ln (R + 2))
    o.valid = true ∧ o.data = d := by
  intro R o
  have h := uart_rx_frame tw h0 htw ln s0 hrun hc hacc hrx hr0 hdat
  simp only at h
  obtain ⟨hv, hbits, hlt, _, _⟩ := h
  refine ⟨?_, ?_⟩
  · show ((uartRx tw).out _ _).valid = true
    rw [hv, hline 9 (by omega)]; rfl
  · apply Nat.eq_of_testBit_eq
    intro k
    by_cases hk : k < 8
    · show ((uartRx tw).out _ _).data.testBit k = _
      rw [hbits k hk, hline (k + 1) (by omega)]
      simp [frameBit]; omega
    · have hk8 : 8 ≤ k := by omega
      have p1 : (256 : Nat) ≤ 2 ^ k := by
        have : (2 : Nat) ^ 8 ≤ 2 ^ k := Nat.pow_le_pow_right (by omega) hk8
        omega
      rw [Nat.testBit_lt_two_pow (Nat.lt_of_lt_of_le hlt p1), Nat.testBit_lt_two_pow (Nat.lt_of_lt_of_le hd p1)]

/-- Negative witness for the unconditioned statement: a line stuck low after the start edge yields no byte
    (`tw = 2^30`, four cycles per bit; the stop-bit check fails at the tenth sample). -/
example :
    let s0 : RxSt := ⟨false, false, false, true, 0, 0, ⟨HALF32, false⟩⟩
    ((uartRx (2 ^ 30)).out (runFn (uartRx (2 ^ 30)) s0 (fun _ => false) (rxSampleCycle (2 ^ 30) 10)) false).valid = false := by
  decide

/-- Non-vacuity: the line of byte 0xA5 at four cycles per bit, seen one cycle late, is received as 0xA5. -/
example :
    let ln : Nat → Bool := fun k => frameBit 0xA5 ((k + 1) / 4)
    let s0 : RxSt := ⟨ln 1, ln 0, true, true, 0, 0, ⟨HALF32, false⟩⟩
    (uartRx (2 ^ 30)).out (runFn (uartRx (2 ^ 30)) s0 (fun k => ln (k + 2)) (rxSampleCycle (2 ^ 30) 10)) true
      = ⟨true, 0xA5⟩ := by
  decide

/-! ## SPI master

  Parameters: `c.dw` = data_width, `c.aligned` = mode, `div` = clk_divider (constant, `2 ≤ div < 2^16`), `L` = length
  with `1 ≤ L ≤ data_width`, `w` = the word in `mosi` when `start` was given.  During the transfer `start`, `mosi` and
  `pads.miso` are arbitrary in every cycle (`SpiHold` fixes only divider, length, `cs = 1`, `cs_mode = 0`, no loopback):
  overlapping start pulses and later writes to `mosi` are covered.  `length = 0` or `length > data_width` never
  leaves RUN and `div < 2` never leaves START/STOP — outside the property's quantifier. -/

/-- **Start, for every divider phase.**  From IDLE (divider counter anywhere inside its period), the cycle with
    `start = 1` drops `done` and latches the word; the master then waits `n + 1 = div − cnt` START cycles — clock low,
    chip select released — for the divider's next fall strobe and enters RUN in the state `RunInv … 0 0`: chip select
    asserted, bit counter 0, first MOSI bit on the pad. -/
theorem spi_master_start (c : SpiCfg) (div L : Nat) (hdiv : 2 ≤ div) (hd16 : div < 65536) (hL : 1 ≤ L) (hLw : L ≤ c.dw)
    (smp : Nat → Bool) (s : SpiSt) (hs : IdleOk div s) (x0 : SpiIn) (hx0 : SpiHold div L x0) (hst : x0.start = true)
    (n : Nat) (ins : List SpiIn) (hlen : ins.length = n + 1) (hins : ∀ x ∈ ins, SpiHold div L x)
    (hn : (spiNext c s x0).cnt + n + 1 = div) :
    ((spiMaster c).out s x0).done = false ∧
    (∀ o ∈ (spiMaster c).traceFrom (spiNext c s x0) ins, o.clk = false ∧ o.csN = true ∧ o.done = false ∧ o.irq = false) ∧
    RunInv c div L x0.mosi ((spiMaster c).runFrom (spiNext c s x0) ins).misoData smp 0 0
      ((spiMaster c).runFrom (spiNext c s x0) ins) := by
  have ha := spi_accept c div L hd16 hL hLw s x0 hx0 hst hs
  have hw := spi_start_wait c div L x0.mosi smp hdiv hd16 hL hLw n ins hlen hins (spiNext c s x0) ha.2.2.2 hn
  exact ⟨ha.1, hw.1, hw.2⟩

/-- **spi_master_xfer.**  From the first RUN cycle (time 0), for every pulse `i < L` and position `k < div`:
    in cycle `i·div + k` the clock pad is high iff `k ≥ div/2` (so exactly `L` pulses, period `div`, high for
    `div − div/2` cycles), chip select is asserted, MOSI carries bit `data_width−1−i` (raw) / `L−1−i` (aligned) of the
    word, `done = 0`, `irq = 0`.  Then `div/2` STOP cycles with the clock low and chip select still asserted, `irq`
    exactly in the last of them.  Then IDLE: `done` returns, and bit `k < L` of the received word is `pads.miso`
    sampled in the cycle of the rise strobe of pulse `L−1−k` (MSB first). -/
theorem spi_master_xfer (c : SpiCfg) (div L w m0 : Nat) (hdiv : 2 ≤ div) (hd16 : div < 65536) (hL : 1 ≤ L)
    (hLw : L ≤ c.dw) (f : Nat → SpiIn) (hf : ∀ t, SpiHold div L (f t)) (s0 : SpiSt)
    (h0 : RunInv c div L w m0 (spiSmp f div) 0 0 s0) :
    let st := fun t => runFn (spiMaster c) s0 f t
    let o := fun t => (spiMaster c).out (st t) (f t)
    (∀ i, i < L → ∀ k, k < div →
        (o (i * div + k)).clk = decide (div / 2 ≤ k) ∧ (o (i * div + k)).csN = false ∧
        (o (i * div + k)).mosi = w.testBit ((if c.aligned then L - 1 else c.dw - 1) - i) ∧
        (o (i * div + k)).done = false ∧ (o (i * div + k)).irq = false) ∧
    (∀ k, k < div / 2 →
        (o (L * div + k)).clk = false ∧ (o (L * div + k)).csN = false ∧ (o (L * div + k)).done = false ∧
        (o (L * div + k)).irq = decide (k + 1 = div / 2)) ∧
    ((o (L * div + div / 2)).done = !(f (L * div + div / 2)).start ∧ (o (L * div + div / 2)).clk = false ∧
     (o (L * div + div / 2)).irq = false ∧
     ∀ k, k < L → (o (L * div + div / 2)).miso.testBit k = (f ((L - 1 - k) * div + (div / 2 - 1))).miso) := by
  intro st o
  have hrun := spi_run c div L w m0 hdiv hd16 hL hLw f hf s0 h0
  have hstop := spi_stop c div L w m0 hdiv hd16 hL hLw f hf s0 h0
  refine ⟨?_, ?_, ?_⟩
  · intro i hi k hk
    have h := hrun i hi k hk
    have hrise : spiRise (st (i * div + k)) (f (i * div + k)) = decide (k + 1 = div / 2) :=
      spiRise_eq _ _ k div h.cnt (hf _).div
    have hidle : ((st (i * div + k)).fsm == SpiFsm.idle) = false := by rw [h.fsm]; rfl
    have hstp : ((st (i * div + k)).fsm == SpiFsm.stop) = false := by rw [h.fsm]; rfl
    refine ⟨h.clk, h.csN, ?_, ?_, ?_⟩
    · show (st (i * div + k)).mosi = _
      rw [h.mosi]; rfl
    · show ((st (i * div + k)).fsm == SpiFsm.idle && _) = false
      simp [hidle]
    · show ((st (i * div + k)).fsm == SpiFsm.stop && _) = false
      simp [hstp]
  · intro k hk
    have h := hstop.1 k hk
    have hs := spi_stop_step c div L m0 (spiSmp f div) hdiv hd16 k hk _ (f (L * div + k)) (hf _) h
    exact ⟨h.clk, h.csN, hs.2.1, hs.1⟩
  · have h := hstop.2
    have hidle : ((st (L * div + div / 2)).fsm == SpiFsm.idle) = true := by rw [h.fsm]; rfl
    have hstp : ((st (L * div + div / 2)).fsm == SpiFsm.stop) = false := by rw [h.fsm]; rfl
    refine ⟨?_, h.clk, ?_, ?_⟩
    · show ((st (L * div + div / 2)).fsm == SpiFsm.idle && _) = _
      simp [hidle]
    · show ((st (L * div + div / 2)).fsm == SpiFsm.stop && _) = false
      simp [hstp]
    · intro k hk
      show (st (L * div + div / 2)).miso.testBit k = _
      rw [h.miso, spiCap_testBit _ _ _ _ hLw k hk]
      rfl

/-- Non-vacuity and a complete concrete waveform: data_width 4, raw, divider 3, 2 bits of the word 0b1001 — two
    clock pulses inside chip select, MOSI = bits 3, 2, irq in the cycle before `done` returns. -/
example :
    let x : SpiIn := ⟨false, 2, 0b1001, true, false, false, 3, true⟩
    ((spiMaster ⟨4, false⟩).trace ({ x with start := true } :: List.replicate 11 x)).map
      (fun o => (o.clk, o.csN, o.mosi, o.done, o.irq)) =
    [(false, false, false, false, false), (false, true, false, false, false), (false, true, false, false, false),
     (false, false, true, false, false), (true, false, true, false, false), (true, false, true, false, false),
     (false, false, false, false, false), (true, false, false, false, false), (true, false, false, false, false),
     (false, false, false, false, true), (false, false, false, true, false), (false, true, false, true, false)] := by
  decide

/-! ## I2C master machine -/

/-- **i2c_legal.**  For every command/SDA/poke history from reset and every next input, the transition of the bus
    lines is legal: SDA changes while SCL stays high only as START (falling, in START0) or STOP (rising, in STOP2);
    SCL and SDA change in the same edge only when SCL falls (never when it rises) — `I2CMaster`'s pad stage holds
    SDA for one cycle after an SCL change, so on the pads SDA then moves while SCL is low.
    The stronger "at most one of SCL/SDA changes per transition" is false for the machine, see the witness. -/
theorem i2c_legal (cw : Nat) (ins : List I2cIn) (i : I2cIn) :
    I2cLegal ((i2cMachine cw).run ins) ((i2cMachine cw).next ((i2cMachine cw).run ins) i) :=
  (i2c_next_legal cw _ i (i2c_inv_reachable cw ins)).2

/-- Negative witness for "at most one line changes": WRITE0 lowers SCL and puts the next data bit on SDA in the
    same edge. -/
example :
    let s : I2cSt := ⟨.write0, true, false, 0x80, false, 8, 0⟩
    let s' := i2cNext 2 s ⟨false, false, false, false, true, 1, false, 0, false⟩
    s.scl ≠ s'.scl ∧ s.sda ≠ s'.sda := by decide

/-- **Commands always finish (ticks).**  Outside IDLE every enabled FSM step (a clk2x tick; since fix 86eb66e command
    strobes advance the FSM only from IDLE) lowers the rank by exactly one and rank 0 is IDLE; the rank after a
    command accepted in IDLE is
    write 19, read 18, start 1 (SCL high) / restart 3 (SCL low), stop 3 — the number of ticks until IDLE. -/
theorem i2c_command_ticks (s : I2cSt) (i : I2cIn) (hb : s.bits < 16) :
    (s.fsm ≠ .idle → i2cRank (i2cFsmStep s i) + 1 = i2cRank s) ∧ (i2cRank s = 0 ↔ s.fsm = .idle) ∧ i2cRank s ≤ 34 ∧
    (s.fsm = .idle → i.start = false → i.write = true → i2cRank (i2cFsmStep s i) = 19) ∧
    (s.fsm = .idle → i.start = false → i.write = false → i.read = true → i2cRank (i2cFsmStep s i) = 18) ∧
    (s.fsm = .idle → i.start = true → i2cRank (i2cFsmStep s i) = if s.scl then 1 else 3) ∧
    (s.fsm = .idle → i.start = false → i.write = false → i.read = false → i.stop = true → s.scl = false →
       i2cRank (i2cFsmStep s i) = 3) := by
  refine ⟨fun hn => i2c_rank_step s i hb hn, i2c_rank_zero_iff s, i2c_rank_le s hb, ?_, ?_, ?_, ?_⟩
  · intro h1 h2 h3; simp [i2cFsmStep, i2cRank, h1, h2, h3]
  · intro h1 h2 h3 h4; simp [i2cFsmStep, i2cRank, h1, h2, h3, h4]
  · intro h1 h2; cases hs : s.scl <;> simp [i2cFsmStep, i2cRank, h1, h2, hs]
  · intro h1 h2 h3 h4 h5 h6; simp [i2cFsmStep, i2cRank, h1, h2, h3, h4, h5, h6]

/-- **Commands always finish (cycles).**  With a constant clock-divider load `l`, from any state reachable with that
    load (`cnt ≤ l`), whatever inputs follow — further command strobes, bus writes to data/ack, any SDA — the machine is
    back in IDLE within `rank·(l+1) ≤ 34·(l+1)` cycles: no command sequence leaves it stuck. -/
theorem i2c_returns_idle (cw l : Nat) (s : I2cSt) (f : Nat → I2cIn) (hf : ∀ t, (f t).load = l) (hb : s.bits < 16)
    (hc : s.cnt ≤ l) :
    ∃ k, k ≤ i2cRank s * (l + 1) ∧ k ≤ 34 * (l + 1) ∧ (runFn (i2cMachine cw) s f k).fsm = .idle := by
  obtain ⟨k, hk, hidle⟩ := i2c_reaches_idle cw l (i2cMu l s) s f hf hb hc (Nat.le_refl _)
  have h1 := i2c_mu_le l s hc
  have h2 : i2cRank s * (l + 1) ≤ 34 * (l + 1) := Nat.mul_le_mul_right _ (i2c_rank_le s hb)
  exact ⟨k, by omega, by omega, hidle⟩

/-- Non-vacuity: a write command issued in IDLE (SCL low, load 1) needs the full 19 ticks. -/
example :
    let idle : I2cIn := ⟨false, false, false, false, true, 1, false, 0, false⟩
    let s0 : I2cSt := ⟨.idle, false, true, 0xA5, false, 0, 1⟩
    let s1 := i2cNext 2 s0 { idle with write := true }
    i2cRank s1 = 19 ∧ (runFn (i2cMachine 2) s1 (fun _ => idle) 36).fsm ≠ .idle ∧
    (runFn (i2cMachine 2) s1 (fun _ => idle) 37).fsm = .idle := by decide +kernel

/-! ## UART: idle level, loopback, rate tolerance -/

/-- In every reachable state of the transmitter: IDLE ⇒ the line is high (the line is low only inside a frame; between
    back-to-back bytes there is the full stop bit plus at least one idle cycle, by `uart_tx_frame`). -/
theorem uart_tx_idle_high (tw : Nat) (ins : List TxIn) (h : ((uartTx tw).run ins).run = false) :
    ((uartTx tw).out ((uartTx tw).run ins) ⟨false, 0⟩).tx = true :=
  tx_idle_high tw ins h

/-- **uart_loopback_partial.**  TX pad wired to RX pad, same clock, equal tuning words, at least four cycles per
    bit (`4·tw ≤ 2^32`).  The transmitter accepts byte `d` in cycle 0 (any later sink inputs, also a back-to-back next
    byte); the receiver was idle with the line high.  Then the receiver produces exactly one byte, `d`, in cycle
    `4 + ⌈9.5·2^32/tw⌉`, and nothing before.
    Full statement (any `tw`) is false: at two cycles per bit the sample points land in the neighbouring bit, see
    the witness below. -/
theorem uart_loopback_partial (tw : Nat) (h0 : 0 < tw) (h4 : 4 * tw ≤ M32) (sT : TxSt) (hTrun : sT.run = false)
    (hTtx : sT.tx = true) (f : Nat → TxIn) (hv : (f 0).valid = true) (hd : (f 0).data < 256)
    (sR : RxSt) (hRrun : sR.run = false) (hr0 : sR.r0 = true) (hrx : sR.rx = true) (hrxd : sR.rxD = true)
    (hdat : sR.data < 256) :
    let pad := txPad tw sT f
    let o := fun t => (uartRx tw).out (runFn (uartRx tw) sR pad t) (pad t)
    let R := 4 + rxSampleCycle tw 10
    (o R).valid = true ∧ (o R).data = (f 0).data ∧ ∀ t, t < R → (o t).valid = false := by
  intro pad o R
  have htw : tw < M32 := by unfold M32 at *; omega
  have hp := txPad_frame tw htw sT hTrun hTtx f hv hd
  have hp1 : pad 1 = false := by
    have := hp.2 0 (by unfold M32; omega)
    simp only [Nat.zero_mul, Nat.zero_div] at this
    exact this
  obtain ⟨hidle, hrun4, hc4, hacc4, hrx4, hr04, hdat4⟩ := rx_detect tw sR pad hRrun hr0 hrx hrxd hp.1 hp1
  -- the line as the receiver's RUN phase sees it
  let ln : Nat → Bool := fun k => pad (k + 2)
  have hline : ∀ b, b ≤ 9 → ln (rxSampleCycle tw (b + 1)) = frameBit (f 0).data b :=
    fun b hb => loopback_line tw h0 h4 sT hTrun hTtx f hv hd b hb
  have hsplit : ∀ k, runFn (uartRx tw) sR pad (4 + k) =
      runFn (uartRx tw) (runFn (uartRx tw) sR pad 4) (fun j => ln (j + 2)) k := by
    intro k
    rw [runFn_add]
    congr 1
    funext j
    show pad (4 + j) = pad (j + 2 + 2)
    congr 1; omega
  have hrec := uart_rx_recovers_partial tw h0 htw ln (runFn (uartRx tw) sR pad 4) hrun4 hc4 hacc4
    (by rw [hrx4]) (by rw [hr04]) (by rw [hdat4]; exact hdat) (f 0).data hd hline
  have hfr := uart_rx_frame tw h0 htw ln (runFn (uartRx tw) sR pad 4) hrun4 hc4 hacc4
    (by rw [hrx4]) (by rw [hr04]) (by rw [hdat4]; exact hdat)
  simp only at hrec hfr
  have hoR : ∀ k, o (4 + k) = (uartRx tw).out
      (runFn (uartRx tw) (runFn (uartRx tw) sR pad 4) (fun j => ln (j + 2)) k) (ln (k + 2)) := by
    intro k
    show (uartRx tw).out (runFn (uartRx tw) sR pad (4 + k)) (pad (4 + k)) = _
    rw [hsplit k]
    congr 1
    show pad (4 + k) = pad (k + 2 + 2)
    congr 1; omega
  refine ⟨?_, ?_, ?_⟩
  · show (o (4 + rxSampleCycle tw 10)).valid = true
    rw [hoR]; exact hrec.1
  · show (o (4 + rxSampleCycle tw 10)).data = _
    rw [hoR]; exact hrec.2
  · intro t ht
    by_cases h3 : t ≤ 3
    · show (rxDone (runFn (uartRx tw) sR pad t) && _) = false
      simp [rxDone, hidle t h3]
    · obtain ⟨k, rfl⟩ : ∃ k, t = 4 + k := ⟨t - 4, by omega⟩
      rw [hoR]
      exact hfr.2.2.2.2 k (by omega)

/-- Negative witness outside the hypothesis: two cycles per bit (`tw = 2^31`), byte 0x55 — the receiver's byte differs. -/
example :
    let sT : TxSt := ⟨false, 0, 0, true, ⟨0, false⟩⟩
    let sR : RxSt := ⟨true, true, true, false, 0, 0, ⟨0, false⟩⟩
    let f : Nat → TxIn := fun t => ⟨t == 0, 0x55⟩
    let pad := txPad (2 ^ 31) sT f
    let R := 4 + rxSampleCycle (2 ^ 31) 10
    (uartRx (2 ^ 31)).out (runFn (uartRx (2 ^ 31)) sR pad R) (pad R) ≠ ⟨true, 0x55⟩ := by decide +kernel

/-- Non-vacuity: four cycles per bit, byte 0xA5 loops back. -/
example :
    let sT : TxSt := ⟨false, 0, 0, true, ⟨0, false⟩⟩
    let sR : RxSt := ⟨true, true, true, false, 0, 0, ⟨0, false⟩⟩
    let f : Nat → TxIn := fun t => ⟨t == 0, 0xA5⟩
    let pad := txPad (2 ^ 30) sT f
    let R := 4 + rxSampleCycle (2 ^ 30) 10
    (uartRx (2 ^ 30)).out (runFn (uartRx (2 ^ 30)) sR pad R) (pad R) = ⟨true, 0xA5⟩ := by decide +kernel

/-- **rx_tolerance.**  A transmitter with bit period `P/Q` clock cycles within ±2 % of the receiver's `2^32/tw`
    (`98·2^32·Q ≤ 100·P·tw ≤ 102·2^32·Q`), any sub-cycle phase `ε/Q` of its start edge relative to the receiver's
    clock, at least 16 cycles per bit: the synchronised line in RUN cycle `k` is bit `⌊((k+1)·Q + ε)/P⌋` of the frame,
    and every byte is recovered. -/
theorem uart_rx_tolerates_2pct (tw P Q ε : Nat) (h0 : 0 < tw) (h16 : 16 * tw ≤ M32) (hε : ε < Q)
    (hlo : 98 * M32 * Q ≤ 100 * (P * tw)) (hhi : 100 * (P * tw) ≤ 102 * M32 * Q)
    (d : Nat) (hd : d < 256) (ln : Nat → Bool) (hln : ∀ k, ln k = frameBit d (((k + 1) * Q + ε) / P))
    (s0 : RxSt) (hrun : s0.run = true) (hc : s0.count = 0) (hacc : s0.acc = ⟨HALF32, false⟩) (hrx : s0.rx = ln 0)
    (hr0 : s0.r0 = ln 1) (hdat : s0.data < 256) :
    let R := rxSampleCycle tw 10
    let o := (uartRx tw).out (runFn (uartRx tw) s0 (fun k => ln (k + 2)) R) (ln (R + 2))
    o.valid = true ∧ o.data = d := by
  have htw : tw < M32 := by unfold M32 at *; omega
  apply uart_rx_recovers_partial tw h0 htw ln s0 hrun hc hacc hrx hr0 hdat d hd
  intro b hb
  have h := rx_tolerance_arith tw P Q ε b h0 h16 hε hlo hhi hb
  rw [hln]
  congr 1
  apply Nat.div_eq_of_lt_le
  · exact h.1
  · exact h.2

/-! ## SPI: pulse count, slave -/

/-- **Exactly `length` clock pulses.**  Counting rising edges of the clock pad from the first RUN cycle to the return
    to IDLE gives exactly `L`. -/
theorem spi_master_pulse_count (c : SpiCfg) (div L w m0 : Nat) (hdiv : 2 ≤ div) (hd16 : div < 65536) (hL : 1 ≤ L)
    (hLw : L ≤ c.dw) (f : Nat → SpiIn) (hf : ∀ t, SpiHold div L (f t)) (s0 : SpiSt)
    (h0 : RunInv c div L w m0 (spiSmp f div) 0 0 s0) :
    countEdges (fun t => ((spiMaster c).out (runFn (spiMaster c) s0 f t) (f t)).clk) (L * div + div / 2) = L := by
  have h := spi_master_xfer c div L w m0 hdiv hd16 hL hLw f hf s0 h0
  simp only at h
  apply pulse_count _ div L hdiv
  · intro i hi k hk; exact (h.1 i hi k hk).1
  · intro k hk
    by_cases hlt : k < div / 2
    · exact (h.2.1 k hlt).1
    · have : k = div / 2 := by omega
      subst this; exact h.2.2.2.1

/-- **spi_slave_xfer.**  While the synchronised chip select is asserted: `length` counts the synchronised rising clock
    edges (mod 256), the receive register holds the synchronised MOSI values of those edges shifted in MSB first, the
    transmit register has moved one position per falling edge; `start` is shown when the frame begins (length
    cleared, word to send loaded) and `irq` when chip select is released. -/
theorem spi_slave_xfer (dw : Nat) (s : SlvSt) (i0 : SlvIn) (hx : s.xfer = false) (hc : s.s1 = true)
    (ins : List SlvIn) (hcs : slvCsHeld dw (slvNext dw s i0) ins) :
    let s1 := slvNext dw s i0
    let e := (spiSlave dw).runFrom s1 ins
    ((spiSlave dw).out s i0).start = true ∧
    e.length = (slvSamples dw s1 ins).length % 256 ∧
    e.rx = shiftIn dw s1.rx (slvSamples dw s1 ins) ∧
    e.misoData % 2 ^ dw = (i0.tx * 2 ^ slvFalls dw s1 ins) % 2 ^ dw ∧
    (e.s1 = false → ∀ j, ((spiSlave dw).out e j).irq = true ∧ (slvNext dw e j).xfer = false) := by
  intro s1 e
  obtain ⟨hst, _, hx1, hl1, hm1⟩ := slv_frame_start dw s i0 hx hc
  have h := slv_frame_run dw ins s1 hx1 (by rw [hl1]; omega) hcs
  refine ⟨hst, ?_, h.2.2.1, ?_, ?_⟩
  · rw [h.2.1, hl1, Nat.zero_add]
  · rw [h.2.2.2, hm1]
  · intro he j
    have := slv_frame_end dw e j h.1 he
    exact ⟨this.1, this.2.1⟩

/-! ## I2C: the write command bit by bit -/

/-- **Write.**  From WRITE0 with 8 bits to go (the state right after a write command), counting enabled FSM steps:
    for `j < 8`, step `2j+1` has SCL low and SDA = bit `7 − j` of the byte (MSB first), step `2j+2` has SCL high with
    SDA unchanged; step 17 releases SDA (SCL low), step 18 raises SCL for the acknowledge, step 19 lowers it, stores
    `ack = ¬sda_i` and is back in IDLE. -/
theorem i2c_write_sequence (s : I2cSt) (f : Nat → I2cIn) (hf : s.fsm = .write0) (hb : s.bits = 8) (hd : s.data < 256) :
    (∀ j, j < 8 →
      (i2cSteps s f (2 * j + 1)).scl = false ∧ (i2cSteps s f (2 * j + 1)).sda = s.data.testBit (7 - j) ∧
      (i2cSteps s f (2 * j + 2)).scl = true ∧ (i2cSteps s f (2 * j + 2)).sda = s.data.testBit (7 - j)) ∧
    (i2cSteps s f 17).scl = false ∧ (i2cSteps s f 17).sda = true ∧
    (i2cSteps s f 18).scl = true ∧ (i2cSteps s f 18).sda = true ∧
    (i2cSteps s f 19).scl = false ∧ (i2cSteps s f 19).ack = !(f 18).sdaI ∧ (i2cSteps s f 19).fsm = .idle :=
  ⟨fun j hj => i2c_write_bits s f hf hb hd j hj, i2c_write_ack s f hf hb⟩

/-! ## I2CMaster: legality at the pads -/

/-- **i2c_pad_legal.**  `I2CMaster` = Wishbone registers + bit machine + the stage that lets SDA follow `sda_o` only
    when the SCL seen in the previous cycle equals `scl_o`.  Start: any state in which the machine is still as after
    reset (idle, both lines released) and the divider has been programmed with a value ≥ 1; then **every** sequence of
    bus cycles (commands while busy, back-to-back and compound commands, data and divider writes — the divider never
    written with 0) and **every** behaviour of the rest of the bus (`ext_scl`: clock stretching, `ext_sda`).
    Whenever the SDA driver changes between two consecutive cycles, either
      * the SCL line is low in both cycles (a data change), or
      * the SCL line was high, the master keeps SCL released, the driver now shows `sda_o`, and `sda_o` was last
        assigned by START0 or STOP2 (ghost bit of `i2cmAug`): a START or STOP condition, possibly deferred by clock
        stretching — and by `i2c_legal` the machine assigns `sda_o` under released SCL only there.
    Before fix 86eb66e a command written while busy broke this (spurious STOP inside a byte; replayed by the probe
    `C19-i2c-busy-command-glitch`).  Divider 0 (the reset value) is outside the range: SCL then toggles every cycle and
    the stage never lets SDA follow (example below). -/
theorem i2c_pad_legal (s0 : I2cmSt) (hf : s0.m.fsm = .idle) (hscl : s0.m.scl = true) (hb : s0.m.bits < 16)
    (hl : 1 ≤ s0.load) (ins : List I2cmIn) (hins : ∀ j ∈ ins, LoadOk j) (i : I2cmIn) (hi : LoadOk i) :
    let sg := i2cmAug.runFrom (s0, true) ins
    let s := sg.1
    let s' := i2cmNext s i
    s = i2cMaster.runFrom s0 ins ∧
    (s.sdaOe ≠ s'.sdaOe →
      (s.padScl i = false ∧ ∀ j, s'.padScl j = false) ∨
      (s.padScl i = true ∧ s'.m.scl = true ∧ s'.sdaOe = !s'.m.sda ∧ sdaKind s.m s.stepped sg.2 = true)) := by
  intro sg s s'
  have h0 : PadInv s0 true :=
    ⟨⟨by simp [hf], by simp [hf], hb⟩, fun _ _ => rfl, by simp [hscl], hl⟩
  have hinv := pad_inv_run ins hins (s0, true) h0
  have hstep := (pad_step sg.1 sg.2 i hinv hi).2
  refine ⟨i2cmAug_fst ins (s0, true), fun hch => ?_⟩
  rcases hstep.sda hch with ⟨h1, h2⟩ | ⟨_, h2, h3, h4, h5⟩
  · left
    refine ⟨h1, fun j => ?_⟩
    show (if (!s'.m.scl) then false else j.extScl) = false
    rw [show s'.m.scl = false from h2]; rfl
  · right; exact ⟨h3, h2, h4, h5⟩

/-- Non-vacuity (divider 1: START, then WRITE 0x55 — in cycle 18 the driver has released SDA for the first 1-bit while
    SCL is low) and the divider-0 remark (the driver stays low during the whole byte: 0x55 goes out as 0x00). -/
example :
    let idl : I2cmIn := ⟨false, false, false, false, 0, true, true⟩
    let wrx : Nat → I2cmIn := fun d => ⟨true, true, true, false, d, true, true⟩
    let ins := [wrx 2048] ++ List.replicate 9 idl ++ [wrx (1024 + 0x55)] ++ List.replicate 40 idl
    let st := fun (l k : Nat) => i2cMaster.runFrom { i2cMaster.init with load := l } (ins.take k)
    ((st 1 17).sdaOe = true ∧ (st 1 18).sdaOe = false ∧ (st 1 17).m.scl = false ∧ (st 1 18).m.scl = false) ∧
    (List.range 29).all (fun k => (st 0 (k + 3)).sdaOe) = true := by decide +kernel

/-! ## UART top level (CSR side, the two buffered FIFOs, the PHY) -/

/-- **uart_top_no_loss_in_order.**  `UART(tx_fifo_depth = dtx, rx_fifo_depth = drx, rx_fifo_rx_we)`, every history of
    software accesses and PHY handshakes from reset (the two FIFOs are the C03 element `syncFifoBuffered`, whose history
    relation is reused):
      * the bytes written to `rxtx` while `txfull = 0` = the bytes handed to the PHY ++ what waits in the TX FIFO (output
        register, then queue): nothing lost, duplicated or reordered, at most `dtx + 1` waiting;
      * the bytes accepted from the PHY (`rxfull = 0`) = the bytes software took from `rxtx` ++ what waits in the RX FIFO;
      * `txfull/txempty/rxfull/rxempty`, the two event triggers, `source.valid`, `sink.ready`, `rxtx.w` and `source.data`
        are the stated functions of the FIFO levels and output registers. -/
theorem uart_top_no_loss_in_order (dtx drx : Nat) (rxWe : Bool) (ins : List UartTopIn) (i : UartTopIn) :
    let m := uartTopM dtx drx rxWe
    let s := m.run ins
    utWritten dtx drx rxWe m.init ins = utSent dtx drx rxWe m.init ins ++ (fbInflight s.tx).map (·.data) ∧
    s.tx.q.length ≤ dtx ∧
    utReceived dtx drx rxWe m.init ins = utRead dtx drx rxWe m.init ins ++ (fbInflight s.rx).map (·.data) ∧
    s.rx.q.length ≤ drx ∧
    (let o := m.out s i
     o.txfull = (s.tx.q.length == dtx) ∧ o.txempty = !s.tx.readable ∧ o.rxfull = (s.rx.q.length == drx) ∧
     o.rxempty = !s.rx.readable ∧ o.trigTx = !o.txfull ∧ o.trigRx = !o.rxempty ∧ o.sinkRdy = !o.rxfull ∧
     o.srcV = !o.txempty ∧ o.srcD = s.tx.dout.data ∧ o.w = s.rx.dout.data) := by
  intro m s
  have htx := fb_token_rel dtx (ins.map utTxIn)
  have hrx := fb_token_rel drx (ins.map (utRxIn rxWe))
  simp only at htx hrx
  have etx : s.tx = (Stream.syncFifoBuffered dtx zTokN).runFrom (Stream.syncFifoBuffered dtx zTokN).init (ins.map utTxIn) :=
    uartTop_tx_run dtx drx rxWe ins m.init
  have erx : s.rx = (Stream.syncFifoBuffered drx zTokN).runFrom (Stream.syncFifoBuffered drx zTokN).init
      (ins.map (utRxIn rxWe)) := uartTop_rx_run dtx drx rxWe ins m.init
  refine ⟨?_, by rw [etx]; exact htx.2, ?_, by rw [erx]; exact hrx.2, uartTop_flags dtx drx s i⟩
  · rw [utWritten_eq, utSent_eq, etx, ← List.map_append]
    exact congrArg _ htx.1
  · rw [utReceived_eq, utRead_eq, erx, ← List.map_append]
    exact congrArg _ hrx.1

example :
    let m := uartTopM 2 2 false
    let w : Nat → UartTopIn := fun d => ⟨true, d, false, false, false, 0, false⟩
    let ins := [w 0x41, w 0x42, w 0x43, w 0x44, ⟨false, 0, false, false, false, 0, true⟩]
    utWritten 2 2 false m.init ins = [0x41, 0x42, 0x43] ∧ utSent 2 2 false m.init ins = [0x41] := by decide

/-- **The byte on the wire is the byte popped, once.**  In `UART(RS232PHY)`: a byte `d` in the TX FIFO's output
    register while the transmitter idles — `1 + r` cycles later (`r·tw < 10·2^32`, any software and pad activity) the
    pad carries bit `⌊r·tw/2^32⌋` of the frame of `d`, the FIFO still offers the same byte, and the FIFO's pop strobe
    (`sink.ready` of the transmitter) is high exactly in the last cycle of the stop bit: together with
    `uart_top_no_loss_in_order` every written byte is framed exactly once, in order. -/
theorem uart_sys_tx_once (tw dtx drx : Nat) (rxWe : Bool) (htw : tw < M32) (s : UartSysSt) (f : Nat → UartSysIn)
    (hidle : s.txp.run = false) (hv : s.top.tx.readable = true) (hd : s.top.tx.dout.data < 256) (r : Nat)
    (hr : r * tw < 10 * M32) :
    let st := runFn (uartSysM tw dtx drx rxWe) s f (1 + r)
    (uartSysM tw dtx drx rxWe).out st (f (1 + r)) = frameBit s.top.tx.dout.data (r * tw / M32) ∧
    st.top.tx.readable = true ∧ st.top.tx.dout = s.top.tx.dout ∧
    (uartSysTopIn tw st (f (1 + r))).srcRdy = decide (10 * M32 ≤ (r + 1) * tw) := by
  intro st
  obtain ⟨h1, h2, h3⟩ := uartSys_tx_frame tw dtx drx rxWe htw s f hidle hv hd r hr
  have hb : r * tw / M32 ≤ 10 := by unfold M32 at *; omega
  refine ⟨?_, h2, h3, ?_⟩
  · show st.txp.tx = _
    rw [h1]; exact txHwBit_eq_frameBit _ _ hd hb
  · rw [uartSys_pop, h1]
    by_cases hl : 10 * M32 ≤ (r + 1) * tw
    · simp [hl, (tx_last tw _ r htw hd ⟨false, 0⟩ hr hl).1]
    · simp [hl, tx_not_ready tw _ r (by omega)]

/-! ## SPI master: sequences of transfers, chip-select vector, manual CS mode -/

/-- **spi_master_idle_inv.**  When `done` returns after a transfer the state is clean (`IdleOk`: IDLE, clock low,
    divider inside its period) and stays so through any number of cycles without `start` (`done = 1`, clock low, no
    irq).  `IdleOk` is exactly the hypothesis of `spi_master_start`, which is stated for an arbitrary length: transfers
    of different lengths (and words, and start times) can follow each other, each with the waveform of
    `spi_master_xfer`. -/
theorem spi_master_idle_inv (c : SpiCfg) (div L w m0 : Nat) (hdiv : 2 ≤ div) (hd16 : div < 65536) (hL : 1 ≤ L)
    (hLw : L ≤ c.dw) (f : Nat → SpiIn) (hf : ∀ t, SpiHold div L (f t)) (s0 : SpiSt)
    (h0 : RunInv c div L w m0 (spiSmp f div) 0 0 s0)
    (idle : List SpiIn) (hidle : ∀ x ∈ idle, x.div = div ∧ x.start = false) :
    let sd := runFn (spiMaster c) s0 f (L * div + div / 2)
    IdleOk div sd ∧ IdleOk div ((spiMaster c).runFrom sd idle) ∧
    ∀ o ∈ (spiMaster c).traceFrom sd idle, o.done = true ∧ o.clk = false ∧ o.irq = false := by
  intro sd
  have hstop := spi_stop c div L w m0 hdiv hd16 hL hLw f hf s0 h0
  have hk : div / 2 - 1 < div / 2 := by omega
  have hcnt := spi_stop_last_cnt c div L m0 (spiSmp f div) hdiv hd16 (div / 2 - 1) (by omega) _
    (f (L * div + (div / 2 - 1))) (hf _) (hstop.1 _ hk)
  have e2 : L * div + div / 2 = L * div + (div / 2 - 1) + 1 := by omega
  have hok : IdleOk div sd := by
    refine ⟨hstop.2.fsm, ?_, hstop.2.clk⟩
    show (runFn (spiMaster c) s0 f (L * div + div / 2)).cnt < div
    rw [e2]
    show (spiNext c _ _).cnt < div
    rw [hcnt]; omega
  have hrun := spi_idle_run c div hdiv hd16 idle hidle sd hok
  exact ⟨hok, hrun.1, hrun.2⟩

/-- **Chip-select vector and manual mode** (`len(pads.cs_n) = ncs`).  For every state, input and line `j < ncs`: after
    the clock edge line `j` is low iff chip `j` is selected in `cs` and (a transfer is in progress or `cs_mode = 1`);
    so in manual mode the lines are the registered complement of `cs`, in automatic mode all lines are high outside
    transfers; the control machine is the single-CS model (it never looks at `cs`) and line 0 is that model's `cs_n`, so
    `spi_master_start / xfer / pulse_count / idle_inv` hold unchanged with several chip selects. -/
theorem spi_master_cs_lines (c : SpiCfg) (ncs : Nat) (hn : 1 ≤ ncs) (s : SpiNSt) (i : SpiIn) (cs j : Nat) (hj : j < ncs) :
    (spiNNext c ncs s i cs).csN.testBit j = !(cs.testBit j && (spiXfer s.core i || i.csMode)) ∧
    (spiNNext c ncs s i cs).core = spiNext c s.core { i with cs := cs.testBit 0 } ∧
    (spiNNext c ncs s i cs).csN.testBit 0 = (spiNNext c ncs s i cs).core.csN :=
  ⟨csnOf_line ncs cs j _ hj, (spiN_core c ncs hn s i cs).1, (spiN_core c ncs hn s i cs).2⟩

example : csnOf 4 0b0110 true = 0b1001 ∧ csnOf 4 0b0110 false = 0b1111 := by decide

/-! ## SPI slave in pad terms -/

/-- **spi_slave_pads.**  The signals `spi_slave_xfer` speaks about are the pads two cycles earlier (`cs` inverted), and
    the edges it counts are pad edges between the third- and second-last cycle; and MISO is MSB first: after `f < dw`
    falling edges inside a frame the pad shows bit `dw − 1 − f` of the word to send (`spi_slave_xfer` gives the
    hypothesis `misoData ≡ tx·2^f`). -/
theorem spi_slave_pads (dw : Nat) (s : SlvSt) (z a b : SlvIn) (tx f : Nat) (hf : f < dw) :
    let e := slvNext dw (slvNext dw (slvNext dw s z) a) b
    (e.c1 = a.clk ∧ e.s1 = !a.csN ∧ e.m1 = a.mosi ∧ e.rise = (a.clk && !z.clk) ∧ e.fall = (!a.clk && z.clk)) ∧
    (∀ st : SlvSt, ∀ j : SlvIn, j.loopback = false → st.misoData % 2 ^ dw = (tx * 2 ^ f) % 2 ^ dw →
       ((spiSlave dw).out st j).miso = tx.testBit (dw - 1 - f)) := by
  intro e
  have h1 := slv_sync dw s z a b
  have h2 := slv_edges dw s z a b
  simp only at h1 h2
  refine ⟨⟨h1.1, h1.2.1, h1.2.2.1, h2.1, h2.2⟩, fun st j hl hm => ?_⟩
  show (if j.loopback then st.m1 else st.misoData.testBit (dw - 1)) = _
  simp only [hl, Bool.false_eq_true, if_false]
  exact slv_miso_bit dw tx f st.misoData hf hm

/-! ## Timer.add_uptime, MultiChannelPWM -/

/-- **uptime.**  The free-running counter shows the number of cycles since reset (mod 2^64), and `uptime_cycles` holds
    its value of the last cycle in which `uptime_latch` was written. -/
theorem timer_uptime (pre post : List Bool) (hpost : ∀ l ∈ post, l = false) :
    (uptimeM.run pre).cycles = pre.length % 2 ^ 64 ∧
    (uptimeM.run (pre ++ true :: post)).latched = pre.length % 2 ^ 64 := by
  have hc : (uptimeM.run pre).cycles = pre.length % 2 ^ 64 := by
    rcases uptime_cycles pre uptimeM.init with h | h
    · simpa [Machine.run, uptimeM] using h
    · subst h; rfl
  refine ⟨hc, ?_⟩
  simp only [Machine.run, Machine.runFrom_append]
  show (uptimeM.runFrom (uptimeNext (uptimeM.runFrom uptimeM.init pre) true) post).latched = _
  rw [uptime_hold post hpost]
  simp only [uptimeNext, if_true]
  exact hc

/-- **MultiChannelPWM.**  The shared counter is the counter of a single `PWM` driven with channel 0's enable and period
    (so `pwm_wave` / `pwm_duty` describe it), and every channel's output register is loaded with
    `enable_k ∧ counter < width_k`. -/
theorem multichannel_pwm (s : McPwmSt) (period : Nat) (chans : List (Bool × Nat)) (k : Nat) (hk : k < chans.length) :
    (mcPwmNext s period chans).counter =
      (pwmNext { counter := s.counter, pwm := false }
        { enable := (chans.headD (false, 0)).1, reset := false, width := 0, period := period }).counter ∧
    (mcPwmNext s period chans).pwm[k]? = some (chans[k].1 && decide (s.counter < chans[k].2)) :=
  ⟨mcpwm_counter s period chans false, mcpwm_channel s period chans k hk⟩

/-! ## SPI master: every option letter (`cs`, `cs_mode`, `loopback`), exact termination, loopback word -/

/-- **spi_master_any_options.**  The complete transfer for every data width, length `1 ≤ L ≤ data_width`, divider
    `2 ≤ div < 2^16`, divider phase, mode, and **every** per-cycle value of `start`, `mosi`, `cs`, `cs_mode`, `loopback`,
    `pads.miso` (only the divider and the length are held).  Cycle 0 is the IDLE cycle with `start = 1`;
    `T = 1 + (div − cnt₁)` is the first RUN cycle, `E = T + L·div + div/2` the cycle in which `done` returns:
      * before `T`: clock low, `done = 0`, no irq;  RUN pulse `i`, position `k`: clock high iff `k ≥ div/2`, MOSI = bit
        `data_width−1−i` / `L−1−i` of the word latched in cycle 0 (later writes to `mosi` do not matter), `done = 0`;
      * `div/2` STOP cycles, irq in the last one; in `E`: `done`, and bit `k < L` of `miso` is what was sampled at the
        rise strobe of pulse `L−1−k`: `pads.miso`, or the MOSI pad if `loopback` is set in that cycle;
      * the chip-select register follows `cs`/`cs_mode` of the previous cycle: outside the transfer
        `cs_n = ¬(cs ∧ cs_mode)` (manual mode), from the last START cycle to the last STOP cycle `cs_n = ¬cs`. -/
theorem spi_master_any_options (c : SpiCfg) (div L : Nat) (hdiv : 2 ≤ div) (hd16 : div < 65536) (hL : 1 ≤ L)
    (hLw : L ≤ c.dw) (g : Nat → SpiIn) (hg : ∀ t, (g t).div = div ∧ (g t).length = L) (s : SpiSt) (hs : IdleOk div s)
    (hst : (g 0).start = true) :
    let st := fun t => runFn (spiMaster c) s g t
    let o := fun t => (spiMaster c).out (st t) (g t)
    let T := 1 + (div - (st 1).cnt)
    let E := T + (L * div + div / 2)
    (st 1).cnt = (s.cnt + 1) % div ∧
    (∀ t, t < T → (o t).clk = false ∧ (o t).done = false ∧ (o t).irq = false) ∧
    (∀ i, i < L → ∀ k, k < div →
        (o (T + (i * div + k))).clk = decide (div / 2 ≤ k) ∧
        (o (T + (i * div + k))).mosi = (g 0).mosi.testBit ((if c.aligned then L - 1 else c.dw - 1) - i) ∧
        (o (T + (i * div + k))).done = false ∧ (o (T + (i * div + k))).irq = false) ∧
    (∀ k, k < div / 2 →
        (o (T + (L * div + k))).clk = false ∧ (o (T + (L * div + k))).done = false ∧
        (o (T + (L * div + k))).irq = decide (k + 1 = div / 2)) ∧
    ((o E).done = !(g E).start ∧ (o E).clk = false ∧ (o E).irq = false ∧
      ∀ k, k < L → (o E).miso.testBit k =
        spiSampled (st (T + ((L - 1 - k) * div + (div / 2 - 1)))) (g (T + ((L - 1 - k) * div + (div / 2 - 1))))) ∧
    (∀ t, t + 1 < T → (o (t + 1)).csN = !((g t).cs && (g t).csMode)) ∧
    (∀ t, T ≤ t + 1 → t < E → (o (t + 1)).csN = !(g t).cs) ∧
    (o (E + 1)).csN = !((g E).cs && (g E).csMode) := by
  intro st o T E
  have h := spi_transfer_general c div L hdiv hd16 hL hLw g (fun t => ⟨(hg t).1, (hg t).2⟩) s hs hst
  simp only at h
  obtain ⟨_, h1, h2, h3, h4, h5, h6, h7⟩ := h
  exact ⟨spi_accept_cnt c div hdiv hd16 s (g 0) (hg 0).1 hs, h1, h2, h3, h4, h5, h6, h7⟩

/-- **spi_master_terminates_exactly.**  `done` is low from the start cycle on and returns exactly in cycle
    `E = 1 + (div − (cnt+1) mod div) + L·div + div/2` (`cnt` = divider counter in the start cycle), not earlier — for
    every length, divider, divider phase, mode and option letter. -/
theorem spi_master_terminates_exactly (c : SpiCfg) (div L : Nat) (hdiv : 2 ≤ div) (hd16 : div < 65536) (hL : 1 ≤ L)
    (hLw : L ≤ c.dw) (g : Nat → SpiIn) (hg : ∀ t, (g t).div = div ∧ (g t).length = L) (s : SpiSt) (hs : IdleOk div s)
    (hst : (g 0).start = true) :
    let o := fun t => (spiMaster c).out (runFn (spiMaster c) s g t) (g t)
    let E := 1 + (div - (s.cnt + 1) % div) + (L * div + div / 2)
    (∀ t, t < E → (o t).done = false) ∧ (o E).done = !(g E).start :=
  spi_done_exact c div L hdiv hd16 hL hLw g (fun t => ⟨(hg t).1, (hg t).2⟩) s hs hst

/-- **spi_master_loopback.**  With `loopback = 1` the word read back is the bits sent: bit `k < L` of `miso` is bit `k`
    of the word (aligned) / bit `data_width − L + k` (raw). -/
theorem spi_master_loopback (c : SpiCfg) (div L : Nat) (hdiv : 2 ≤ div) (hd16 : div < 65536) (hL : 1 ≤ L)
    (hLw : L ≤ c.dw) (g : Nat → SpiIn) (hg : ∀ t, (g t).div = div ∧ (g t).length = L) (s : SpiSt) (hs : IdleOk div s)
    (hst : (g 0).start = true) (hlb : ∀ t, (g t).loopback = true) :
    let o := fun t => (spiMaster c).out (runFn (spiMaster c) s g t) (g t)
    let E := 1 + (div - (s.cnt + 1) % div) + (L * div + div / 2)
    ∀ k, k < L → (o E).miso.testBit k = (g 0).mosi.testBit (if c.aligned then k else c.dw - L + k) :=
  spi_loopback_word c div L hdiv hd16 hL hLw g (fun t => ⟨(hg t).1, (hg t).2⟩) s hs hst hlb

/-- Non-vacuity (reset state, data_width 4 aligned, divider 3, 3 bits of 0b0101, loopback, chip select off):
    `E = 1 + 2 + 10 = 13`, `done` returns exactly there with `miso = 0b101`, and `cs_n` stays high throughout. -/
example :
    let g : Nat → SpiIn := fun t => ⟨t == 0, 3, 0b0101, false, false, true, 3, false⟩
    let st := fun t => runFn (spiMaster ⟨4, true⟩) (spiMaster ⟨4, true⟩).init g t
    ((List.range 13).all fun t => !((spiMaster ⟨4, true⟩).out (st t) (g t)).done) = true ∧
    ((spiMaster ⟨4, true⟩).out (st 13) (g 13)).done = true ∧ ((spiMaster ⟨4, true⟩).out (st 13) (g 13)).miso = 0b101 ∧
    ((List.range 14).all fun t => (st (t + 1)).csN) = true := by decide

/-! ## bitbang.py: software-driven I2C and SPI masters (pad wiring) -/

/-- **bitbang_i2c_wiring.**  Open drain: each line is the AND of what the core and the rest of the bus do; the core
    pulls SCL low exactly when `w.scl = 0` and SDA low exactly when `w.oe ∧ ¬w.sda` — it never drives a line high — and
    `r.sda` reads the SDA line.  So with the bus otherwise released the pads show exactly the bits software writes, in
    the same cycle.  (`w.oe` does not gate SCL, unlike what the field description says: `w.scl = 0` pulls SCL low also
    with `w.oe = 0`.) -/
theorem bitbang_i2c_wiring (i : BbI2cIn) :
    (bbI2c i).padScl = (i.scl && i.extScl) ∧ (bbI2c i).padSda = ((!i.oe || i.sda) && i.extSda) ∧
    (bbI2c i).rSda = (bbI2c i).padSda ∧
    (i.extScl = false → (bbI2c i).padScl = false) ∧ (i.extSda = false → (bbI2c i).padSda = false) := by
  obtain ⟨scl, oe, sda, es, ed⟩ := i
  cases scl <;> cases oe <;> cases sda <;> cases es <;> cases ed <;> simp [bbI2c]

example : bbI2c ⟨false, false, true, true, true⟩ = ⟨false, true, true⟩ ∧
          bbI2c ⟨true, true, false, true, true⟩ = ⟨true, false, false⟩ := by decide

/-- `I2CMasterSim`: SCL is the register bit; with `oe` SDA-out and the read-back are the register bit, without it
    SDA-out idles high and the read-back is the input pad. -/
theorem bitbang_i2c_sim_wiring (scl oe sda sdaIn : Bool) :
    (bbI2cSim scl oe sda sdaIn).padScl = scl ∧
    (bbI2cSim scl oe sda sdaIn).sdaOut = (!oe || sda) ∧
    (bbI2cSim scl oe sda sdaIn).rSda = ((oe && sda) || (!oe && sdaIn)) := by
  cases scl <;> cases oe <;> cases sda <;> cases sdaIn <;> simp [bbI2cSim]

/-- **bitbang_spi_wiring.**  `pads.clk = w.clk`; chip-select line `j < len(pads.cs_n) ≤ 4` is the complement of
    `w.cs[j]`; the MOSI pad carries `w.mosi` when `w.oe` is set and is left to the line otherwise (3-wire), `r.mosi`
    reads the pad back and `r.miso` reads `pads.miso`. -/
theorem bitbang_spi_wiring (ncs : Nat) (hn : ncs ≤ 4) (i : BbSpiIn) (j : Nat) (hj : j < ncs) :
    (bbSpi ncs i).clk = i.clk ∧ (bbSpi ncs i).csN.testBit j = !i.cs.testBit j ∧
    (bbSpi ncs i).mosi = (if i.oe then i.mosi else i.extMosi) ∧ (bbSpi ncs i).rMosi = (bbSpi ncs i).mosi ∧
    (bbSpi ncs i).rMiso = i.miso := by
  refine ⟨rfl, ?_, rfl, rfl, rfl⟩
  show (csnOf ncs (i.cs % 16) true).testBit j = _
  rw [csnOf_line ncs (i.cs % 16) j true hj]
  have : (i.cs % 2 ^ 4).testBit j = i.cs.testBit j := by
    rw [Nat.testBit_mod_two_pow]; simp; omega
  simp [show (16 : Nat) = 2 ^ 4 from rfl, this]

example : (bbSpi 3 ⟨true, true, false, 0b0101, false, true⟩) = ⟨true, 0b010, false, true, false⟩ := by decide

/-! ## UART: rate tolerance with the mismatch as a parameter; exact loopback alignment
    (needs `import LitexProofs.Periph.Tolerance2`) -/

/-- **uart_rx_tolerates_general.**  As `uart_rx_tolerates_2pct`, with the mismatch as a parameter: bit period `P/Q`
    cycles within ±`m` per mille of the receiver's `2^32/tw`
    (`(1000 − m)·2^32·Q ≤ 1000·P·tw ≤ (1000 + m)·2^32·Q`, written without subtraction), any sub-cycle phase `ε/Q`.
    Stated tolerance bound: `6000·tw + 20·m·2^32 ≤ 1000·2^32`, i.e. with `R = 2^32/tw` cycles per bit
    `3 + 10·(m/1000)·R ≤ R/2` — three cycles (registered line, ceiling of the sample cycle, phase) plus the mismatch
    accumulated over ten bit periods fit into half a bit period.  `m = 0`: `R ≥ 6`; `m = 20`: `R ≥ 10`; `m = 40`:
    `R ≥ 30`; `m ≥ 50`: no `tw`.  Under this bound every one of the ten sample points lies inside its own bit
    (`rx_tolerance_arith_general`), so the byte is recovered whatever follows the stop bit. -/
theorem uart_rx_tolerates_general (tw P Q ε m : Nat) (h0 : 0 < tw)
    (hbound : 6000 * tw + 20 * m * M32 ≤ 1000 * M32) (hε : ε < Q)
    (hlo : 1000 * (M32 * Q) ≤ 1000 * (P * tw) + m * (M32 * Q))
    (hhi : 1000 * (P * tw) ≤ 1000 * (M32 * Q) + m * (M32 * Q))
    (d : Nat) (hd : d < 256) (ln : Nat → Bool) (hln : ∀ k, ln k = frameBit d (((k + 1) * Q + ε) / P))
    (s0 : RxSt) (hrun : s0.run = true) (hc : s0.count = 0) (hacc : s0.acc = ⟨HALF32, false⟩) (hrx : s0.rx = ln 0)
    (hr0 : s0.r0 = ln 1) (hdat : s0.data < 256) :
    let R := rxSampleCycle tw 10
    let o := (uartRx tw).out (runFn (uartRx tw) s0 (fun k => ln (k + 2)) R) (ln (R + 2))
    o.valid = true ∧ o.data = d := by
  have htw : tw < M32 := by unfold M32 at *; omega
  apply uart_rx_recovers_partial tw h0 htw ln s0 hrun hc hacc hrx hr0 hdat d hd
  intro b hb
  have h := rx_tolerance_arith_general tw P Q ε b m h0 hbound hε hlo hhi hb
  rw [hln]
  congr 1
  apply Nat.div_eq_of_lt_le
  · exact h.1
  · exact h.2

/-- **uart_rx_tolerates_general_idle.**  The line of the statement is high after the stop bit, so sample point 10
    only has to be past the start of the stop bit and the mismatch accumulates over nine bit periods only:
    `6000·tw + 18·m·2^32 ≤ 1000·2^32`  (`3 + 9·(m/1000)·R ≤ R/2`; `m = 20`: `R ≥ 9.375`; `m = 50`: `R ≥ 60`;
    `m ≥ 56`: no `tw`).  Same conclusion. -/
theorem uart_rx_tolerates_general_idle (tw P Q ε m : Nat) (h0 : 0 < tw)
    (hbound : 6000 * tw + 18 * m * M32 ≤ 1000 * M32) (hε : ε < Q)
    (hlo : 1000 * (M32 * Q) ≤ 1000 * (P * tw) + m * (M32 * Q))
    (hhi : 1000 * (P * tw) ≤ 1000 * (M32 * Q) + m * (M32 * Q))
    (d : Nat) (hd : d < 256) (ln : Nat → Bool) (hln : ∀ k, ln k = frameBit d (((k + 1) * Q + ε) / P))
    (s0 : RxSt) (hrun : s0.run = true) (hc : s0.count = 0) (hacc : s0.acc = ⟨HALF32, false⟩) (hrx : s0.rx = ln 0)
    (hr0 : s0.r0 = ln 1) (hdat : s0.data < 256) :
    let R := rxSampleCycle tw 10
    let o := (uartRx tw).out (runFn (uartRx tw) s0 (fun k => ln (k + 2)) R) (ln (R + 2))
    o.valid = true ∧ o.data = d := by
  have htw : tw < M32 := by unfold M32 at *; omega
  apply uart_rx_recovers_partial tw h0 htw ln s0 hrun hc hacc hrx hr0 hdat d hd
  intro b hb
  rw [hln]
  exact rx_line_bit_idle tw P Q ε b m d h0 hbound hε hlo hhi hb

/-- **uart_rx_tolerates_2pct_10.**  The ±2 % statement with at least ten (instead of sixteen) cycles per bit. -/
theorem uart_rx_tolerates_2pct_10 (tw P Q ε : Nat) (h0 : 0 < tw) (h10 : 10 * tw ≤ M32) (hε : ε < Q)
    (hlo : 98 * M32 * Q ≤ 100 * (P * tw)) (hhi : 100 * (P * tw) ≤ 102 * M32 * Q)
    (d : Nat) (hd : d < 256) (ln : Nat → Bool) (hln : ∀ k, ln k = frameBit d (((k + 1) * Q + ε) / P))
    (s0 : RxSt) (hrun : s0.run = true) (hc : s0.count = 0) (hacc : s0.acc = ⟨HALF32, false⟩) (hrx : s0.rx = ln 0)
    (hr0 : s0.r0 = ln 1) (hdat : s0.data < 256) :
    let R := rxSampleCycle tw 10
    let o := (uartRx tw).out (runFn (uartRx tw) s0 (fun k => ln (k + 2)) R) (ln (R + 2))
    o.valid = true ∧ o.data = d := by
  have htw : tw < M32 := by unfold M32 at *; omega
  apply uart_rx_recovers_partial tw h0 htw ln s0 hrun hc hacc hrx hr0 hdat d hd
  intro b hb
  have h := rx_tolerance_arith_10 tw P Q ε b h0 h10 hε hlo hhi hb
  rw [hln]
  congr 1
  apply Nat.div_eq_of_lt_le
  · exact h.1
  · exact h.2

/-- Non-vacuity of `uart_rx_tolerates_2pct_10` below sixteen cycles per bit: `tw = 2^32/10` rounded down (ten cycles
    per bit), transmitter 2 % slow (`P/Q = 10.2` cycles), latest phase `ε = Q − 1`: the hypotheses hold, `16·tw ≤ 2^32`
    does not, and byte 0xA5 is received. -/
example :
    let tw := 429496729
    let ln : Nat → Bool := fun k => frameBit 0xA5 (((k + 1) * 10 + 9) / 102)
    let s0 : RxSt := ⟨ln 1, ln 0, true, true, 0, 0, ⟨HALF32, false⟩⟩
    (10 * tw ≤ M32 ∧ ¬ 16 * tw ≤ M32 ∧ 98 * M32 * 10 ≤ 100 * (102 * tw) ∧ 100 * (102 * tw) ≤ 102 * M32 * 10) ∧
    (uartRx tw).out (runFn (uartRx tw) s0 (fun k => ln (k + 2)) (rxSampleCycle tw 10)) (ln (rxSampleCycle tw 10 + 2))
      = ⟨true, 0xA5⟩ := by decide +kernel

/-- Negative witness: the cycles-per-bit bound is needed.  Four cycles per bit (`tw = 2^30`), transmitter exactly 2 %
    fast (`P/Q = 98/25 = 3.92` cycles), phase `ε = 24`: inside ±2 %, but byte 0x55 is received as 0xAA (every data
    sample lands in the following bit). -/
example :
    let tw := 2 ^ 30
    let ln : Nat → Bool := fun k => frameBit 0x55 (((k + 1) * 25 + 24) / 98)
    let s0 : RxSt := ⟨ln 1, ln 0, true, true, 0, 0, ⟨HALF32, false⟩⟩
    (98 * M32 * 25 ≤ 100 * (98 * tw) ∧ 100 * (98 * tw) ≤ 102 * M32 * 25) ∧
    (uartRx tw).out (runFn (uartRx tw) s0 (fun k => ln (k + 2)) (rxSampleCycle tw 10)) (ln (rxSampleCycle tw 10 + 2))
      = ⟨true, 0xAA⟩ := by decide +kernel

/-- Negative witness close to the bound of `uart_rx_tolerates_general_idle`: `tw = 474000000` (9.06 cycles per bit,
    `9·tw ≤ 2^32`, the bound asks for 9.375), transmitter exactly 2 % fast (`P/Q = 49·2^32/(50·tw)`), latest phase
    `ε = Q − 1`: sample point 9 already sees the stop bit, byte 0x55 is received as 0xD5. -/
example :
    let tw := 474000000
    let P := 49 * M32
    let Q := 50 * tw
    let ln : Nat → Bool := fun k => frameBit 0x55 (((k + 1) * Q + (Q - 1)) / P)
    let s0 : RxSt := ⟨ln 1, ln 0, true, true, 0, 0, ⟨HALF32, false⟩⟩
    (9 * tw ≤ M32 ∧ 98 * M32 * Q ≤ 100 * (P * tw) ∧ 100 * (P * tw) ≤ 102 * M32 * Q) ∧
    (uartRx tw).out (runFn (uartRx tw) s0 (fun k => ln (k + 2)) (rxSampleCycle tw 10)) (ln (rxSampleCycle tw 10 + 2))
      = ⟨true, 0xD5⟩ := by decide +kernel

/-- **uart_loopback_aligned_partial.**  `uart_loopback_partial` under the exact alignment condition instead of
    `4·tw ≤ 2^32`: `loopbackAligned tw` says that one cycle after each of the ten sample points `b + 1` the
    transmitter's phase accumulator has wrapped exactly `b` times, `⌊(⌈(b+½)·2^32/tw⌉ + 1)·tw / 2^32⌋ = b`
    (decidable; it implies `0 < tw` and `2·tw < 2^32`, and it follows from `0 < tw`, `4·tw ≤ 2^32`:
    `loopbackAligned_of_four`).  Then the receiver produces exactly one byte, `d`, in cycle `4 + ⌈9.5·2^32/tw⌉`, and
    nothing before. -/
theorem uart_loopback_aligned_partial (tw : Nat) (hal : loopbackAligned tw = true) (sT : TxSt)
    (hTrun : sT.run = false) (hTtx : sT.tx = true) (f : Nat → TxIn) (hv : (f 0).valid = true)
    (hd : (f 0).data < 256) (sR : RxSt) (hRrun : sR.run = false) (hr0 : sR.r0 = true) (hrx : sR.rx = true)
    (hrxd : sR.rxD = true) (hdat : sR.data < 256) :
    let pad := txPad tw sT f
    let o := fun t => (uartRx tw).out (runFn (uartRx tw) sR pad t) (pad t)
    let R := 4 + rxSampleCycle tw 10
    (o R).valid = true ∧ (o R).data = (f 0).data ∧ ∀ t, t < R → (o t).valid = false := by
  intro pad o R
  have h0 : 0 < tw := loopbackAligned_pos tw hal
  have htw : tw < M32 := by have := loopbackAligned_lt tw hal; omega
  have hp := txPad_frame tw htw sT hTrun hTtx f hv hd
  have hp1 : pad 1 = false := by
    have := hp.2 0 (by unfold M32; omega)
    simp only [Nat.zero_mul, Nat.zero_div] at this
    exact this
  obtain ⟨hidle, hrun4, hc4, hacc4, hrx4, hr04, hdat4⟩ := rx_detect tw sR pad hRrun hr0 hrx hrxd hp.1 hp1
  -- the line as the receiver's RUN phase sees it
  let ln : Nat → Bool := fun k => pad (k + 2)
  have hline : ∀ b, b ≤ 9 → ln (rxSampleCycle tw (b + 1)) = frameBit (f 0).data b :=
    fun b hb => loopback_line_aligned tw hal sT hTrun hTtx f hv hd b hb
  have hsplit : ∀ k, runFn (uartRx tw) sR pad (4 + k) =
      runFn (uartRx tw) (runFn (uartRx tw) sR pad 4) (fun j => ln (j + 2)) k := by
    intro k
    rw [runFn_add]
    congr 1
    funext j
    show pad (4 + j) = pad (j + 2 + 2)
    congr 1; omega
  have hrec := uart_rx_recovers_partial tw h0 htw ln (runFn (uartRx tw) sR pad 4) hrun4 hc4 hacc4
    (by rw [hrx4]) (by rw [hr04]) (by rw [hdat4]; exact hdat) (f 0).data hd hline
  have hfr := uart_rx_frame tw h0 htw ln (runFn (uartRx tw) sR pad 4) hrun4 hc4 hacc4
    (by rw [hrx4]) (by rw [hr04]) (by rw [hdat4]; exact hdat)
  simp only at hrec hfr
  have hoR : ∀ k, o (4 + k) = (uartRx tw).out
      (runFn (uartRx tw) (runFn (uartRx tw) sR pad 4) (fun j => ln (j + 2)) k) (ln (k + 2)) := by
    intro k
    show (uartRx tw).out (runFn (uartRx tw) sR pad (4 + k)) (pad (4 + k)) = _
    rw [hsplit k]
    congr 1
    show pad (4 + k) = pad (k + 2 + 2)
    congr 1; omega
  refine ⟨?_, ?_, ?_⟩
  · show (o (4 + rxSampleCycle tw 10)).valid = true
    rw [hoR]; exact hrec.1
  · show (o (4 + rxSampleCycle tw 10)).data = _
    rw [hoR]; exact hrec.2
  · intro t ht
    by_cases h3 : t ≤ 3
    · show (rxDone (runFn (uartRx tw) sR pad t) && _) = false
      simp [rxDone, hidle t h3]
    · obtain ⟨k, rfl⟩ : ∃ k, t = 4 + k := ⟨t - 4, by omega⟩
      rw [hoR]
      exact hfr.2.2.2.2 k (by omega)

/-- `uart_loopback_partial` is the special case `4·tw ≤ 2^32`. -/
example (tw : Nat) (h0 : 0 < tw) (h4 : 4 * tw ≤ M32) : loopbackAligned tw = true :=
  loopbackAligned_of_four tw h0 h4

/-- A whole window of tuning words beyond `uart_loopback_partial`: between 3 and 3 + 1/19 cycles per bit
    (`19·2^32 ≤ 58·tw`, `3·tw < 2^32`; about 1407 … 1431 million) the loopback is aligned. -/
example (tw : Nat) (h3 : 3 * tw < M32) (h58 : 19 * M32 ≤ 58 * tw) : loopbackAligned tw = true :=
  loopbackAligned_of_three tw h3 h58

/-- Non-vacuity beyond `uart_loopback_partial`: three cycles per bit (`tw = 0x55555555`, `3·tw = 2^32 − 1`) is aligned
    although `4·tw > 2^32`, and byte 0xA5 loops back. -/
example :
    let tw := 0x55555555
    let sT : TxSt := ⟨false, 0, 0, true, ⟨0, false⟩⟩
    let sR : RxSt := ⟨true, true, true, false, 0, 0, ⟨0, false⟩⟩
    let f : Nat → TxIn := fun t => ⟨t == 0, 0xA5⟩
    let pad := txPad tw sT f
    let R := 4 + rxSampleCycle tw 10
    (loopbackAligned tw = true ∧ ¬ 4 * tw ≤ M32) ∧
    (uartRx tw).out (runFn (uartRx tw) sR pad R) (pad R) = ⟨true, 0xA5⟩ := by decide +kernel

/-- Negative witness outside the alignment hypothesis: one more (`tw = 0x55555556`, `3·tw = 2^32 + 2`) is not
    aligned — every sample point sees the following bit — and byte 0xA5 comes back as 0xD2. -/
example :
    let tw := 0x55555556
    let sT : TxSt := ⟨false, 0, 0, true, ⟨0, false⟩⟩
    let sR : RxSt := ⟨true, true, true, false, 0, 0, ⟨0, false⟩⟩
    let f : Nat → TxIn := fun t => ⟨t == 0, 0xA5⟩
    let pad := txPad tw sT f
    let R := 4 + rxSampleCycle tw 10
    loopbackAligned tw = false ∧
    (uartRx tw).out (runFn (uartRx tw) sR pad R) (pad R) = ⟨true, 0xD2⟩ := by decide +kernel

/-! ## SPI slave: exact capture, MISO bit by bit -/

/-- **shiftIn_word.**  The receive register (`Cat(mosi, self.mosi[:-1])` at every rising edge) for every width
    `dw ≥ 1` and every word `w < 2^dw`: the `dw` bits of `w` shifted in MSB first give exactly `w`, whatever the
    register held before (nothing of an earlier frame survives a full word).  After only `n ≤ dw` of those bits, bit
    `k < n` of the register is bit `dw − n + k` of `w` (the low `n` bits are the top `n` bits of `w`).  For any list
    of samples at all, bit `k` (below the width) is the sample taken `k` edges before the last. -/
theorem shiftIn_word (dw w r : Nat) (hdw : 1 ≤ dw) (hw : w < 2 ^ dw) :
    shiftIn dw r ((List.range dw).map (fun j => w.testBit (dw - 1 - j))) = w ∧
    (∀ n, n ≤ dw → ∀ k, k < n →
      (shiftIn dw r ((List.range n).map (fun j => w.testBit (dw - 1 - j)))).testBit k = w.testBit (dw - n + k)) ∧
    (∀ (bs : List Bool) (k : Nat), k < dw → k < bs.length →
      (shiftIn dw r bs).testBit k = bs.getD (bs.length - 1 - k) false) := by
  refine ⟨shiftIn_msb_word dw w r hdw hw, fun n hn k hk => shiftIn_msb_bits dw w r n k hn hk, fun bs k hk hl => ?_⟩
  rw [shiftIn_testBit dw bs r k hk, if_pos hl]

example : shiftIn 8 0xFF ((List.range 8).map (fun j => (0xA5).testBit (8 - 1 - j))) = 0xA5 ∧
    shiftIn 8 0xFF [true, false, true] = 0xFD := by decide

/-- **spi_slave_capture.**  A chip-select frame in which the synchronised MOSI values at the `n ≤ dw` rising edges
    are the first `n` bits of `w < 2^dw`, MSB first: the reported `length` is the number of clock pulses `n`
    (mod 256), bit `k < n` of the received word is bit `dw − n + k` of `w` (as a number: the low `n` bits of `rx` are
    `w` without its `dw − n` low bits), and after all `dw` pulses `rx = w` exactly, independent of what the register
    held before the frame. -/
theorem spi_slave_capture (dw : Nat) (hdw : 1 ≤ dw) (s : SlvSt) (i0 : SlvIn) (hx : s.xfer = false) (hc : s.s1 = true)
    (ins : List SlvIn) (hcs : slvCsHeld dw (slvNext dw s i0) ins) (w : Nat) (hw : w < 2 ^ dw) (n : Nat) (hn : n ≤ dw)
    (hs : slvSamples dw (slvNext dw s i0) ins = (List.range n).map (fun j => w.testBit (dw - 1 - j))) :
    ((spiSlave dw).runFrom (slvNext dw s i0) ins).length = n % 256 ∧
    (∀ k, k < n → ((spiSlave dw).runFrom (slvNext dw s i0) ins).rx.testBit k = w.testBit (dw - n + k)) ∧
    ((spiSlave dw).runFrom (slvNext dw s i0) ins).rx % 2 ^ n = (w / 2 ^ (dw - n)) % 2 ^ n ∧
    (n = dw → ((spiSlave dw).runFrom (slvNext dw s i0) ins).rx = w) := by
  have h := spi_slave_xfer dw s i0 hx hc ins hcs
  simp only at h
  obtain ⟨_, hlen, hrx, _, _⟩ := h
  rw [hs] at hlen hrx
  refine ⟨by simpa using hlen, fun k hk => ?_, ?_, fun hnd => ?_⟩
  · rw [hrx]; exact shiftIn_msb_bits dw w _ n k hn hk
  · rw [hrx]; exact shiftIn_msb_prefix dw w _ n hn
  · rw [hrx, hnd]; exact shiftIn_msb_word dw w _ hdw hw

example :
    let s : SlvSt := ⟨false, false, true, true, false, false, false, false, 0, 0, 0xF⟩
    let i0 : SlvIn := ⟨false, false, false, 0b0110, false⟩
    let frame : List SlvIn := ([true, false, true, false].flatMap fun b =>
      [⟨false, false, b, 0, false⟩, ⟨false, false, b, 0, false⟩, ⟨true, false, b, 0, false⟩, ⟨true, false, b, 0, false⟩])
      ++ List.replicate 3 i0
    slvCsHeld 4 (slvNext 4 s i0) frame ∧
    slvSamples 4 (slvNext 4 s i0) frame = (List.range 4).map (fun j => (0b1010).testBit (4 - 1 - j)) ∧
    ((spiSlave 4).runFrom (slvNext 4 s i0) frame).rx = 0b1010 ∧
    ((spiSlave 4).runFrom (slvNext 4 s i0) frame).length = 4 := by decide

/-- **spi_slave_miso_sequence.**  MISO is MSB first over the whole frame: after every prefix of the frame's cycles
    containing `f < dw` synchronised falling edges, the pad (loopback off) shows bit `dw − 1 − f` of the word `tx`
    that was loaded when the frame started — bit `dw − 1` before the first falling edge, one position lower after
    each. -/
theorem spi_slave_miso_sequence (dw : Nat) (s : SlvSt) (i0 : SlvIn) (hx : s.xfer = false) (hc : s.s1 = true)
    (ins : List SlvIn) (hcs : slvCsHeld dw (slvNext dw s i0) ins) (n : Nat) (j : SlvIn) (hj : j.loopback = false)
    (hf : slvFalls dw (slvNext dw s i0) (ins.take n) < dw) :
    ((spiSlave dw).out ((spiSlave dw).runFrom (slvNext dw s i0) (ins.take n)) j).miso =
      i0.tx.testBit (dw - 1 - slvFalls dw (slvNext dw s i0) (ins.take n)) := by
  have h := spi_slave_xfer dw s i0 hx hc (ins.take n) (slvCsHeld_take dw ins _ n hcs)
  simp only at h
  have hp := spi_slave_pads dw s i0 i0 i0 i0.tx _ hf
  simp only at hp
  exact hp.2 _ j hj h.2.2.2.1

example :
    let s : SlvSt := ⟨false, false, true, true, false, false, false, false, 0, 0, 0xF⟩
    let i0 : SlvIn := ⟨false, false, false, 0b0110, false⟩
    let frame : List SlvIn := ([true, false, true, false].flatMap fun b =>
      [⟨false, false, b, 0, false⟩, ⟨false, false, b, 0, false⟩, ⟨true, false, b, 0, false⟩, ⟨true, false, b, 0, false⟩])
      ++ List.replicate 3 i0
    slvCsHeld 4 (slvNext 4 s i0) frame ∧
    (List.range 20).map (fun n => (slvFalls 4 (slvNext 4 s i0) (frame.take n),
      ((spiSlave 4).out ((spiSlave 4).runFrom (slvNext 4 s i0) (frame.take n)) i0).miso)) =
      List.replicate 7 (0, false) ++ List.replicate 4 (1, true) ++ List.replicate 4 (2, true) ++
      List.replicate 4 (3, false) ++ [(4, false)] := by decide

/-! ## PWM: every (width, period), run-time changes -/

/-- **pwm_period_zero_one.**  `period` = 0 or 1: the counter stays 0 for ever (from any counter value it is 0 after one
    cycle), and every enabled cycle loads the output register with `width ≥ 1`: constant high unless `width = 0`. -/
theorem pwm_period_zero_one (s : PwmSt) (hs : s.counter = 0) (ins : List PwmIn) (h : ∀ i ∈ ins, i.period ≤ 1)
    (i : PwmIn) (hi : i.enable = true) :
    (pwm.runFrom s ins).counter = 0 ∧ (pwmNext (pwm.runFrom s ins) i).pwm = decide (0 < i.width) ∧
    (∀ s' : PwmSt, i.period ≤ 1 → (pwmNext s' i).counter = 0) := by
  have hc := pwm_deg_period_counter ins h s hs
  exact ⟨hc, by simp [pwmNext, hi, hc], fun s' hp => pwm_wrap_step s' i (by omega)⟩

example : (pwm.trace (List.replicate 4 ⟨true, false, 1, 0⟩)) = [false, true, true, true] ∧
    (pwm.trace (List.replicate 4 ⟨true, false, 0, 1⟩)) = [false, false, false, false] := by decide

/-- **pwm_width_corners.**  `width = 0`: the output register is loaded with 0 in every cycle — any period, enable,
    reset and state.  `width ≥ period ≥ 1` (up to the all-ones value), counter in range: it is loaded with 1 in every
    enabled cycle — constant high, no glitch at the wrap. -/
theorem pwm_width_corners :
    (∀ (s : PwmSt) (i : PwmIn), i.width = 0 → (pwmNext s i).pwm = false) ∧
    (∀ (s : PwmSt) (ins : List PwmIn), (∀ i ∈ ins, i.width = 0) → pwmHighs s ins = 0) ∧
    (∀ (P : Nat) (s : PwmSt) (ins : List PwmIn), s.counter < P →
      (∀ i ∈ ins, i.enable = true ∧ i.reset = false ∧ i.period = P ∧ P ≤ i.width) →
      pwmHighs s ins = ins.length ∧
      ∀ i : PwmIn, i.enable = true → P ≤ i.width → (pwmNext (pwm.runFrom s ins) i).pwm = true) := by
  refine ⟨pwm_zero_width_step, fun s ins h => pwm_zero_width_highs ins h s, fun P s ins hs h => ?_⟩
  refine ⟨pwm_full_width_highs P ins h s hs, fun i hi hw => ?_⟩
  have hc := pwm_counter P ins (fun x hx => ⟨(h x hx).1, (h x hx).2.1, (h x hx).2.2.1⟩) s hs
  have hlt : (pwm.runFrom s ins).counter < P := by rw [hc]; exact Nat.mod_lt _ (by omega)
  have : (pwm.runFrom s ins).counter < i.width := by omega
  simp [pwmNext, hi, this]

example : (pwm.trace (List.replicate 6 ⟨true, false, 0, 3⟩)) = List.replicate 6 false ∧
    (pwm.trace (List.replicate 6 ⟨true, false, 255, 3⟩)) = false :: List.replicate 5 true := by decide

/-- **pwm_disable_reset.**  `enable = 0` clears counter and output register whatever `reset`, `width`, `period` are.
    `reset = 1` while enabled clears the counter, but the output register still follows the old counter
    (`pwm.eq(enable & (counter < width))` is outside the reset guard).  After either, the phase restarts: `k` enabled
    cycles later the counter is `k mod period` and the output follows it. -/
theorem pwm_disable_reset (s : PwmSt) (i : PwmIn) :
    (i.enable = false → pwmNext s i = ⟨0, false⟩) ∧
    (i.enable = true → i.reset = true → pwmNext s i = ⟨0, decide (s.counter < i.width)⟩) ∧
    ((i.enable = false ∨ i.reset = true) → ∀ (P : Nat) (ins : List PwmIn) (j : PwmIn), 1 ≤ P →
      (∀ x ∈ ins, x.enable = true ∧ x.reset = false ∧ x.period = P) → j.enable = true →
      (pwm.runFrom (pwmNext s i) ins).counter = ins.length % P ∧
      (pwmNext (pwm.runFrom (pwmNext s i) ins) j).pwm = decide (ins.length % P < j.width)) := by
  refine ⟨pwm_off_step s i, pwm_reset_step s i, fun hoff P ins j hP h hj => ?_⟩
  have h0 : (pwmNext s i).counter = 0 := by
    rcases hoff with he | hr
    · simp [pwmNext, he]
    · simp [pwmNext, hr]
  have := pwm_wave P (pwmNext s i) (by omega) ins h j hj
  rwa [h0, Nat.zero_add] at this

example : (pwm.trace [⟨true, false, 2, 4⟩, ⟨true, false, 2, 4⟩, ⟨true, false, 2, 4⟩, ⟨true, true, 2, 4⟩,
    ⟨true, false, 2, 4⟩, ⟨true, false, 2, 4⟩, ⟨true, false, 2, 4⟩, ⟨false, false, 2, 4⟩, ⟨true, false, 2, 4⟩]) =
    [false, true, true, false, false, true, true, false, false] := by decide

/-- **pwm_exact_waveform.**  From counter 0, after any number `k` of enabled cycles with constant `period = P ≥ 1` and
    `width = W`: the counter is `k mod P`, the output one cycle later is high iff `k mod P < W`, and the number of
    high cycles so far is `(k / P)·min(W, P) + min(W, k mod P)` — `n·min(W, P)` over `n` whole periods. -/
theorem pwm_exact_waveform (P W : Nat) (hP : 1 ≤ P) (s : PwmSt) (hs : s.counter = 0) (ins : List PwmIn)
    (h : ∀ i ∈ ins, i.enable = true ∧ i.reset = false ∧ i.period = P ∧ i.width = W)
    (i : PwmIn) (hi : i.enable = true) (hw : i.width = W) :
    (pwm.runFrom s ins).counter = ins.length % P ∧
    (pwmNext (pwm.runFrom s ins) i).pwm = decide (ins.length % P < W) ∧
    pwmHighs s ins = (ins.length / P) * min W P + min W (ins.length % P) ∧
    (∀ n, ins.length = n * P → pwmHighs s ins = n * min W P) := by
  have hc := PwmConst.counter h s (by omega)
  rw [hs, Nat.zero_add] at hc
  exact ⟨hc, by simp [pwmNext, hi, hc, hw], pwm_highs_any P W hP ins h s hs,
    fun n hn => pwm_highs_periods P W hP n ins h s hs hn⟩

example : pwmHighs ⟨0, false⟩ (List.replicate 11 ⟨true, false, 3, 4⟩) = 2 * 3 + 3 ∧
    pwmHighs ⟨0, false⟩ (List.replicate 12 ⟨true, false, 3, 4⟩) = 3 * 3 := by decide

/-- **pwm_out_of_range.**  A counter at or above `period − 1` (the period was lowered at run time) returns to 0 in the
    next cycle; after any single cycle with `period = P ≥ 1` the counter is below `P`, from whatever value, so the
    mod-`P` waveform is re-established one cycle after a change of `period`. -/
theorem pwm_out_of_range (s : PwmSt) (i : PwmIn) :
    (i.period ≤ s.counter + 1 → (pwmNext s i).counter = 0) ∧
    (1 ≤ i.period → (pwmNext s i).counter < i.period) ∧
    (1 ≤ i.period → ∀ (ins : List PwmIn) (j : PwmIn),
      (∀ x ∈ ins, x.enable = true ∧ x.reset = false ∧ x.period = i.period) → j.enable = true →
      (pwm.runFrom (pwmNext s i) ins).counter = ((pwmNext s i).counter + ins.length) % i.period ∧
      (pwmNext (pwm.runFrom (pwmNext s i) ins) j).pwm =
        decide (((pwmNext s i).counter + ins.length) % i.period < j.width)) := by
  have hr : 1 ≤ i.period → (pwmNext s i).counter < i.period := fun hP => by
    rcases pwm_counter_in_range s i with h0 | h1
    · omega
    · exact h1
  exact ⟨pwm_wrap_step s i, hr, fun hP ins j h hj => pwm_wave i.period (pwmNext s i) (hr hP) ins h j hj⟩

example : (pwmNext ⟨7, true⟩ ⟨true, false, 2, 3⟩).counter = 0 := by decide

/-! ## Timer: the whole waveform -/

/-- **timer_full_waveform.**  After any history, a disabled cycle loads `load = L`; `k` enabled cycles with constant
    `reload = R` later (any `k`) the counter is `L − k` while `k ≤ L`, then `R − ((k − L − 1) mod (R + 1))`: it counts
    `L, …, 1, 0, R, R−1, …, 0, R, …` (stays 0 for `R = 0`).  The zero event is raised exactly in the cycles with
    `k ≥ L` and `R + 1` dividing `k − L`: first after `L` cycles, then every `R + 1` cycles. -/
theorem timer_full_waveform (pre : List TimerIn) (d : TimerIn) (run : List TimerIn) (i : TimerIn) (R : Nat)
    (hd : d.en = false) (hrun : ∀ j ∈ run, j.en = true ∧ j.reload = R) :
    (timer.run (pre ++ d :: run)).value =
      (if run.length ≤ d.load then d.load - run.length else R - (run.length - d.load - 1) % (R + 1)) ∧
    ((timer.out (timer.run (pre ++ d :: run)) i).zero = true ↔
      d.load ≤ run.length ∧ (R + 1) ∣ (run.length - d.load)) := by
  simp only [Machine.run, Machine.runFrom_append, timer_runFrom_cons]
  have hl := timer_disabled_loads (timer.runFrom timer.init pre) d hd
  refine ⟨?_, ?_⟩
  · rw [timer_value_closed R run hrun, hl]
  · show ((timer.runFrom _ run).value == 0) = true ↔ _
    rw [beq_iff_eq, timer_zero_closed R run hrun, hl]

example : (timer.trace (⟨2, 3, false, false⟩ :: List.replicate 9 ⟨7, 3, true, false⟩)).map (·.zero) =
    [true, false, false, true, false, false, false, true, false, false] := by decide

/-- **timer_disabled_holds_load.**  While `en = 0` the counter is the `load` value of the previous cycle, so the zero
    event shows `load == 0` (a disabled timer with `load = 0` raises zero at once). -/
theorem timer_disabled_holds_load (pre : List TimerIn) (d i : TimerIn) (hd : d.en = false) :
    (timer.run (pre ++ [d])).value = d.load ∧ (timer.out (timer.run (pre ++ [d])) i).zero = (d.load == 0) := by
  have h := timer_disabled_run pre d hd timer.init
  exact ⟨h, by show ((timer.runFrom timer.init (pre ++ [d])).value == 0) = _; rw [h]⟩

example : (timer.trace [⟨5, 0, false, false⟩, ⟨0, 0, false, false⟩, ⟨3, 0, false, false⟩, ⟨3, 0, false, false⟩]).map
    (·.zero) = [true, false, true, false] := by decide

/-- **timer_update_latch_any.**  The status register changes only in cycles with `update_value` written, and then to
    the counter value of that cycle. -/
theorem timer_update_latch_any (pre : List TimerIn) (u : TimerIn) :
    (timer.run (pre ++ [u])).status = if u.upd then (timer.run pre).value else (timer.run pre).status := by
  simp only [Machine.run, Machine.runFrom_append, timer_runFrom_cons, timer_runFrom_nil]
  rfl

example : (timer.traceFrom ⟨0, 9⟩ [⟨5, 0, false, false⟩, ⟨5, 0, true, true⟩, ⟨5, 0, true, false⟩, ⟨5, 0, true, true⟩,
    ⟨5, 0, true, false⟩]).map (·.status) = [9, 9, 5, 5, 3] := by decide

/-! ## I2C: read, START/STOP, and exact cycle timing for every divider -/

/-- **i2c_read_sequence.**  From READ0 with `bits = 7` (the state right after a read command is accepted in IDLE),
    counting enabled FSM steps, for every previous register contents and every `sda_i` history: for `j < 8`, step
    `2j+1` raises SCL and step `2j+2` lowers it and samples `sda_i` (the input `f (2j+1)` of that step); SDA is not
    touched during the data bits (steps 1…15).  After step 16 the data register is exactly the eight samples MSB
    first (`i2cRxByte f`, bit `7 − j` = sample `j`, nothing of the old contents survives), SCL is low and SDA carries
    the master acknowledge `¬ack`; step 17 raises SCL, step 18 lowers it, releases SDA and is back in IDLE with the
    byte still in the register and `ack` unchanged: 18 steps in all. -/
theorem i2c_read_sequence (s : I2cSt) (f : Nat → I2cIn) (hf : s.fsm = .read0) (hb : s.bits = 7) :
    (∀ j, j < 8 →
      (i2cSteps s f (2 * j + 1)).scl = true ∧ (i2cSteps s f (2 * j + 1)).sda = s.sda ∧
      (i2cSteps s f (2 * j + 2)).scl = false ∧ (j < 7 → (i2cSteps s f (2 * j + 2)).sda = s.sda) ∧
      (i2cSteps s f (2 * j + 2)).data.testBit 0 = (f (2 * j + 1)).sdaI ∧
      (i2cSteps s f 16).data.testBit (7 - j) = (f (2 * j + 1)).sdaI) ∧
    (i2cSteps s f 16).data = i2cRxByte f ∧ i2cRxByte f < 256 ∧
    (i2cSteps s f 16).fsm = .writeack0 ∧ (i2cSteps s f 16).scl = false ∧ (i2cSteps s f 16).sda = !s.ack ∧
    (i2cSteps s f 17).fsm = .writeack1 ∧ (i2cSteps s f 17).scl = true ∧ (i2cSteps s f 17).sda = !s.ack ∧
    (i2cSteps s f 18).fsm = .idle ∧ (i2cSteps s f 18).scl = false ∧ (i2cSteps s f 18).sda = true ∧
    (i2cSteps s f 18).data = i2cRxByte f ∧ (i2cSteps s f 18).ack = s.ack := by
  obtain ⟨hlt, hbits, e1, e2, e3, e4, e5, e6, e7, e8, e9, _, e11⟩ := i2c_read_end s f hf hb
  obtain ⟨b16, b18⟩ := i2c_read_byte s f hf hb
  refine ⟨fun j hj => ?_, b16, by rw [← b16]; exact hlt, e1, e2, e3, e4, e5, e6, e7, e8, e9, b18, e11⟩
  obtain ⟨a1, a2, a3, a4, _, a6, _⟩ := i2c_read_bits s f hf hb j hj
  exact ⟨a1, a2, a3, a4, a6, hbits j hj⟩

/-- Non-vacuity: reading 0xA5 (old register contents 0xFF, `ack = 1`): the byte, the ACK level on SDA at step 16,
    and SCL over the 18 steps. -/
example :
    let f : Nat → I2cIn := fun k => ⟨false, false, false, false, Nat.testBit 0xA5 (7 - k / 2), 0, false, 0, false⟩
    let s : I2cSt := ⟨.read0, false, true, 0xFF, true, 7, 0⟩
    i2cRxByte f = 0xA5 ∧ (i2cSteps s f 18).data = 0xA5 ∧ (i2cSteps s f 18).fsm = .idle ∧
    (i2cSteps s f 15).sda = true ∧ (i2cSteps s f 16).sda = false ∧ (i2cSteps s f 17).fsm ≠ .idle ∧
    (List.range 19).map (fun k => (i2cSteps s f k).scl) =
      [false, true, false, true, false, true, false, true, false, true, false, true, false, true, false, true, false,
       true, false] := by decide +kernel

/-- **i2c_start_stop_sequences.**  Counting enabled FSM steps from IDLE (step 1 is the acceptance of the strobe):
    * START (start strobe, SCL released; other strobes irrelevant): START0, then SDA falls with SCL high — 2 steps;
    * repeated START (start strobe, SCL low): RESTART0 releases SDA, RESTART1 releases SCL, START0 pulls SDA low —
      4 steps, SCL is low whenever SDA rises;
    * STOP (only the stop strobe, SCL low): STOP0 pulls SDA low, STOP1 releases SCL, STOP2 releases SDA — 4 steps;
    * a lone stop strobe with SCL released is ignored ("stop is only valid after an ACK"): the FSM step changes
      nothing, and in the full cycle only the divider counter ticks once (`run` enables the clock generator).
    Data and ack registers are never touched. -/
theorem i2c_start_stop_sequences (cw : Nat) (s : I2cSt) (f : Nat → I2cIn) (hf : s.fsm = .idle) :
    ((f 0).start = true → s.scl = true →
      (i2cSteps s f 1).fsm = .start0 ∧ (i2cSteps s f 1).scl = true ∧ (i2cSteps s f 1).sda = s.sda ∧
      (i2cSteps s f 2).fsm = .idle ∧ (i2cSteps s f 2).scl = true ∧ (i2cSteps s f 2).sda = false ∧
      (i2cSteps s f 2).data = s.data ∧ (i2cSteps s f 2).ack = s.ack) ∧
    ((f 0).start = true → s.scl = false →
      (i2cSteps s f 1).fsm = .restart0 ∧ (i2cSteps s f 1).scl = false ∧ (i2cSteps s f 1).sda = s.sda ∧
      (i2cSteps s f 2).fsm = .restart1 ∧ (i2cSteps s f 2).scl = false ∧ (i2cSteps s f 2).sda = true ∧
      (i2cSteps s f 3).fsm = .start0 ∧ (i2cSteps s f 3).scl = true ∧ (i2cSteps s f 3).sda = true ∧
      (i2cSteps s f 4).fsm = .idle ∧ (i2cSteps s f 4).scl = true ∧ (i2cSteps s f 4).sda = false ∧
      (i2cSteps s f 4).data = s.data ∧ (i2cSteps s f 4).ack = s.ack) ∧
    ((f 0).stop = true → (f 0).start = false → (f 0).write = false → (f 0).read = false → s.scl = false →
      (i2cSteps s f 1).fsm = .stop0 ∧ (i2cSteps s f 1).scl = false ∧ (i2cSteps s f 1).sda = s.sda ∧
      (i2cSteps s f 2).fsm = .stop1 ∧ (i2cSteps s f 2).scl = false ∧ (i2cSteps s f 2).sda = false ∧
      (i2cSteps s f 3).fsm = .stop2 ∧ (i2cSteps s f 3).scl = true ∧ (i2cSteps s f 3).sda = false ∧
      (i2cSteps s f 4).fsm = .idle ∧ (i2cSteps s f 4).scl = true ∧ (i2cSteps s f 4).sda = true ∧
      (i2cSteps s f 4).data = s.data ∧ (i2cSteps s f 4).ack = s.ack) ∧
    ((f 0).stop = true → (f 0).start = false → (f 0).write = false → (f 0).read = false → s.scl = true →
      i2cFsmStep s (f 0) = s ∧
      i2cNext cw s (f 0) = (i2cPoked s (f 0)).setCnt (if s.cnt = 0 then (f 0).load else s.cnt - 1)) :=
  ⟨fun h1 h2 => i2c_start_steps s f hf h2 h1, fun h1 h2 => i2c_restart_steps s f hf h2 h1,
   fun h1 h2 h3 h4 h5 => i2c_stop_steps s f hf h5 h1 h2 h3 h4,
   fun h1 h2 h3 h4 h5 => ⟨i2c_stop_ignored s (f 0) hf h5 h2 h3 h4,
     i2c_next_stop_ignored cw s (f 0) hf h5 (by simp [I2cIn.run, h1]) h2 h3 h4⟩⟩

/-- Non-vacuity: the (SCL, SDA) pairs of START, repeated START and STOP, and an ignored stop strobe. -/
example :
    let no : I2cIn := ⟨false, false, false, false, true, 2, false, 0, false⟩
    let st : Nat → I2cIn := fun k => if k = 0 then { no with start := true } else no
    let sp : Nat → I2cIn := fun k => if k = 0 then { no with stop := true } else no
    let hi : I2cSt := ⟨.idle, true, true, 0x5A, false, 0, 2⟩
    let lo : I2cSt := ⟨.idle, false, false, 0x5A, false, 0, 2⟩
    (List.range 3).map (fun k => ((i2cSteps hi st k).scl, (i2cSteps hi st k).sda)) =
      [(true, true), (true, true), (true, false)] ∧
    (List.range 5).map (fun k => ((i2cSteps lo st k).scl, (i2cSteps lo st k).sda)) =
      [(false, false), (false, false), (false, true), (true, true), (true, false)] ∧
    (List.range 5).map (fun k => ((i2cSteps lo sp k).scl, (i2cSteps lo sp k).sda)) =
      [(false, false), (false, false), (false, false), (true, false), (true, true)] ∧
    i2cNext 2 hi (sp 0) = { hi with cnt := 1 } := by decide +kernel

/-- **i2c_step_timing.**  Timing of the FSM steps for every clock divider.  From any busy state `s` (`fsm ≠ IDLE`)
    with divider counter `c = s.cnt`, with a constant `load = l`, no bus write to the transfer register, and
    arbitrary command strobes and `sda_i`: let `R = i2cRank s` be the number of FSM steps back to IDLE and
    `g j = f (c + j·(l+1))`.  Then
    * for `t ≤ c` cycles nothing but the counter has moved (`cnt = c − t`);
    * FSM step `k < R` happens exactly in cycle `c + k·(l+1)` with the inputs of that cycle: after `c + k·(l+1) + 1`
      cycles the registers (fsm, SCL, SDA, data, ack, bits) are those after `k + 1` FSM steps (`i2cSteps`, see
      `i2c_write_sequence` / `i2c_read_sequence` / `i2c_start_stop_sequences`) and `cnt = l`; during the following
      `d ≤ l` cycles, as long as that was not the last step, only the counter moves (`cnt = l − d`).
    So every SCL/SDA edge of a command sits at cycle `c + k·(l+1)` for its step number `k`, consecutive steps are
    exactly `l + 1` cycles apart, and strobes arriving while busy change nothing. -/
theorem i2c_step_timing (cw l : Nat) (f : Nat → I2cIn) (hl : ∀ t, (f t).load = l) (hp : ∀ t, (f t).poke = false)
    (s : I2cSt) (hb : s.bits < 16) (hn : s.fsm ≠ .idle) :
    let g := i2cTickIn f s.cnt l
    (∀ j, g j = f (s.cnt + j * (l + 1))) ∧
    (∀ t, t ≤ s.cnt → runFn (i2cMachine cw) s f t = s.setCnt (s.cnt - t)) ∧
    (∀ k d, k < i2cRank s → d ≤ l → (k + 1 < i2cRank s ∨ d = 0) →
      runFn (i2cMachine cw) s f (s.cnt + k * (l + 1) + 1 + d) = (i2cSteps s g (k + 1)).setCnt (l - d)) ∧
    (∀ k, k < i2cRank s → (i2cSteps s g k).fsm ≠ .idle) ∧ (i2cSteps s g (i2cRank s)).fsm = .idle := by
  intro g
  obtain ⟨w, st, bt⟩ := i2c_busy_states cw l f hl hp s hb
  refine ⟨fun _ => rfl, fun t ht => w t ht hn, ?_, fun k hk => i2c_steps_busy s g hb k hk, i2c_steps_idle s g hb⟩
  intro k d hk hd hor
  rcases hor with h | h
  · exact bt k d h hd
  · subst h; exact st k hk

/-- Non-vacuity: write of 0x80 accepted with `load = 3`, `cnt = 2` after acceptance: SCL falls in cycle 2 (first
    WRITE0 step, visible after 3 cycles), rises in cycle 6, falls in cycle 10, … — one step every 4 cycles. -/
example :
    let no : I2cIn := ⟨true, true, true, true, true, 3, false, 0, false⟩   -- strobe noise while busy
    let s : I2cSt := ⟨.write0, true, false, 0x80, false, 8, 2⟩
    (List.range 16).map (fun t => ((runFn (i2cMachine 2) s (fun _ => no) t).scl,
                                   (runFn (i2cMachine 2) s (fun _ => no) t).sda)) =
      [(true, false), (true, false), (true, false), (false, true), (false, true), (false, true), (false, true),
       (true, true), (true, true), (true, true), (true, true), (false, false), (false, false), (false, false),
       (false, false), (true, false)] := by decide +kernel

/-- **i2c_command_exact_cycles.**  Exact duration of every command, for every divider.  A command strobe arrives in
    IDLE in cycle 0; `load = l` is constant; everything else is arbitrary in every cycle: further strobes, `sda_i`,
    and bus writes to the data/ack register (they change the bits, never the timing).  In the acceptance cycle
    exactly one FSM step happens (even if `cnt = 0` in that cycle) and the counter becomes `c' = (cnt = 0 ? l :
    cnt − 1)` (in IDLE without a strobe it is frozen).  With `R` remaining FSM steps the machine is outside IDLE
    after `t` cycles for every `1 ≤ t ≤ B` and in IDLE, with `cnt = l`, after `B + 1` cycles, where
    `B = c' + 1 + (R − 1)·(l + 1)`:
      START (SCL high) `R = 1`, `B = c' + 1`;  repeated START (SCL low) `R = 3`, `B = c' + 1 + 2(l+1)`;
      write `R = 19`, `B = c' + 1 + 18(l+1)`;  read `R = 18`, `B = c' + 1 + 17(l+1)`;
      STOP (SCL low) `R = 3`, `B = c' + 1 + 2(l+1)`;  a lone stop with SCL high is ignored (still IDLE after the
      acceptance cycle, only the counter has ticked). -/
theorem i2c_command_exact_cycles (cw l : Nat) (f : Nat → I2cIn) (hl : ∀ t, (f t).load = l)
    (s0 : I2cSt) (hf : s0.fsm = .idle) (hb : s0.bits < 16) (hr : (f 0).run = true) :
    let c' := if s0.cnt = 0 then l else s0.cnt - 1
    let Busy : Nat → Prop := fun B =>
      (∀ t, 1 ≤ t → t ≤ B → (runFn (i2cMachine cw) s0 f t).fsm ≠ .idle) ∧
      (runFn (i2cMachine cw) s0 f (B + 1)).fsm = .idle ∧ (runFn (i2cMachine cw) s0 f (B + 1)).cnt = l
    runFn (i2cMachine cw) s0 f 1 = (i2cFsmStep (i2cPoked s0 (f 0)) (f 0)).setCnt c' ∧
    ((f 0).start = true → s0.scl = true → Busy (c' + 1)) ∧
    ((f 0).start = true → s0.scl = false → Busy (c' + 1 + 2 * (l + 1))) ∧
    ((f 0).start = false → (f 0).write = true → Busy (c' + 1 + 18 * (l + 1))) ∧
    ((f 0).start = false → (f 0).write = false → (f 0).read = true → Busy (c' + 1 + 17 * (l + 1))) ∧
    ((f 0).start = false → (f 0).write = false → (f 0).read = false → s0.scl = false →
      Busy (c' + 1 + 2 * (l + 1))) ∧
    ((f 0).start = false → (f 0).write = false → (f 0).read = false → s0.scl = true →
      runFn (i2cMachine cw) s0 f 1 = (i2cPoked s0 (f 0)).setCnt c') := by
  intro c' Busy
  obtain ⟨r1, r3, r19, r18, r3', _⟩ := i2c_accept_rank cw s0 (f 0) hf hr
  have hB := fun R hR => i2c_accept_busy_any cw l f hl s0 hf hb hr R hR
  have hacc : runFn (i2cMachine cw) s0 f 1 = (i2cFsmStep (i2cPoked s0 (f 0)) (f 0)).setCnt c' := by
    show i2cNext cw s0 (f 0) = _
    rw [i2c_next_accept cw s0 (f 0) hf hr, hl 0]
  refine ⟨hacc, ?_, ?_, ?_, ?_, ?_, ?_⟩
  · intro a b; have := hB 0 (r1 a b); simpa using this
  · intro a b; exact hB 2 (r3 a b)
  · intro a b; exact hB 18 (r19 a b)
  · intro a b c; exact hB 17 (r18 a b c)
  · intro a b c d; exact hB 2 (r3' a b c d)
  · intro a b c d
    show i2cNext cw s0 (f 0) = _
    rw [i2c_next_stop_ignored cw s0 (f 0) hf d hr a b c, hl 0]

/-- Non-vacuity: reading 0xA5 with `load = 2`, counter at 2 in IDLE (as left by a previous command): `c' = 1`,
    busy for exactly `1 + 1 + 17·3 = 53` cycles after the acceptance cycle, the byte is in the register when IDLE is
    reached after 54 cycles; the slave drives each bit for 6 cycles, the samples are taken in cycles 5, 11, …, 47.
    Same for a write with `load = 1`, `cnt = 0` in the acceptance cycle and bus writes to the data register in
    cycles 0 and 7: `c' = 1`, `B = 1 + 1 + 18·2 = 38`. -/
example :
    let f : Nat → I2cIn := fun t =>
      ⟨false, false, false, t == 0, Nat.testBit 0xA5 (7 - (t - 5) / 6), 2, false, 0, false⟩
    let s0 : I2cSt := ⟨.idle, false, true, 0xFF, false, 0, 2⟩
    let w : Nat → I2cIn := fun t => ⟨false, false, t == 0, false, true, 1, t == 0 || t == 7, 0xC3, false⟩
    let z0 : I2cSt := ⟨.idle, false, true, 0, false, 0, 0⟩
    (runFn (i2cMachine 2) s0 f 1).cnt = 1 ∧ i2cRank (runFn (i2cMachine 2) s0 f 1) = 18 ∧
    (runFn (i2cMachine 2) s0 f 53).fsm ≠ .idle ∧ (runFn (i2cMachine 2) s0 f 54).fsm = .idle ∧
    (runFn (i2cMachine 2) s0 f 54).data = 0xA5 ∧ (runFn (i2cMachine 2) s0 f 54).cnt = 2 ∧
    (runFn (i2cMachine 2) z0 w 1).cnt = 1 ∧ (runFn (i2cMachine 2) z0 w 1).fsm = .write0 ∧
    (runFn (i2cMachine 2) z0 w 38).fsm ≠ .idle ∧ (runFn (i2cMachine 2) z0 w 39).fsm = .idle := by decide +kernel

/-! ## I2CMaster: register interface (sequencer side) -/

/-- **i2c_master_registers.**  The register interface of `I2CMaster` (the sequencer side): a bus cycle is accepted when
    `cyc ∧ stb` and the core did not acknowledge in the previous cycle; it is acknowledged in the next cycle.  A write
    to address 1 loads the 20-bit divider; a write to address 0 sets the command strobes from `dat_w[9..12]`
    (read, write, start, stop) — they are the inputs of the bit machine in the next cycle, together with the divider —
    and since the acknowledging cycle cannot accept another access, every strobe is a one-cycle pulse.  With
    `i2c_command_exact_cycles` (the machine accepts a strobe in IDLE and is busy for exactly
    `c' + 1 + (R−1)·(load+1)` cycles) and `i2c_step_timing` this gives the exact SCL/SDA times of every command
    written by software. -/
theorem i2c_master_registers (s : I2cmSt) (i : I2cmIn) :
    let acc := i.cyc && i.stb && !s.busAck
    let wrX := acc && i.we && !i.adr0
    let s' := i2cmNext s i
    s'.busAck = acc ∧
    s'.rd = (wrX && i.datW.testBit 9) ∧ s'.wr = (wrX && i.datW.testBit 10) ∧
    s'.st = (wrX && i.datW.testBit 11) ∧ s'.sp = (wrX && i.datW.testBit 12) ∧
    s'.load = (if acc && i.we && i.adr0 then i.datW % 2 ^ 20 else s.load) ∧
    (∀ j, (s'.machIn j).start = s'.st ∧ (s'.machIn j).stop = s'.sp ∧ (s'.machIn j).write = s'.wr ∧
          (s'.machIn j).read = s'.rd ∧ (s'.machIn j).load = s'.load ∧ (s'.machIn j).poke = false) ∧
    (s'.busAck = true → ∀ j, (i2cmNext s' j).rd = false ∧ (i2cmNext s' j).wr = false ∧ (i2cmNext s' j).st = false ∧
          (i2cmNext s' j).sp = false ∧ (i2cmNext s' j).busAck = false) := by
  intro acc wrX s'
  refine ⟨rfl, rfl, rfl, rfl, rfl, rfl, fun j => ⟨rfl, rfl, rfl, rfl, rfl, rfl⟩, fun h j => ?_⟩
  simp [i2cmNext] at *
  simp [h]

/-- Non-vacuity: software writes START (bit 11) while the core idles: one strobe cycle, then none. -/
example :
    let w : I2cmIn := ⟨true, true, true, false, 2048, true, true⟩
    let s1 := i2cmNext i2cMaster.init w
    let s2 := i2cmNext s1 w
    (s1.st, s1.busAck, s2.st, s2.busAck) = (true, true, false, false) := by decide

/-! ## Watchdog: the whole timeout waveform -/

/-- **watchdog_timeout_exact.**  For every `reset_delay = d`, every state without a pending timeout and every feed
    value `C`: after the feed, `n` enabled, unfed cycles in reset mode later (any `n`)
      * `remaining = C − n` (saturating at 0),
      * the timeout event `ev.wdt.trigger` is high iff `n ≥ C + 1` — exactly `C + 1` enabled cycles after the feed, not
        earlier —,
      * the reset output is high iff `n ≥ C + 1 + d`: exactly `reset_delay` cycles after the timeout, and it stays. -/
theorem watchdog_timeout_exact (d : Nat) (s : WdSt) (fd : WdIn) (hfd : fd.feed = true) (he : s.execute = false)
    (ins : List WdIn) (h : ∀ i ∈ ins, i.enable = true ∧ i.feed = false ∧ i.resetF = true)
    (i : WdIn) (hie : i.enable = true) (hir : i.resetF = true) :
    let st := (watchdog d).runFrom (wdNext d s fd) ins
    st.remaining = fd.cycles - ins.length ∧
    ((watchdog d).out st i).trigger = decide (fd.cycles + 1 ≤ ins.length) ∧
    ((watchdog d).out st i).crgRst = decide (fd.cycles + 1 + d ≤ ins.length) := by
  intro st
  have hinv := wd_after_feed_run d fd.cycles ins h 0 _ (wd_feed_entry d s fd hfd he)
  rw [Nat.zero_add] at hinv
  obtain ⟨h1, h2, h3⟩ := hinv
  refine ⟨h1, ?_, ?_⟩
  · show (i.enable && st.execute) = _
    rw [hie, show st.execute = _ from h2]
    simp only [Bool.true_and, decide_eq_decide]; omega
  · show (wdWait st i && WaitTimer.done st.rcount) = _
    simp only [wdWait, hie, hir, show st.execute = _ from h2, show st.rcount = _ from h3, WaitTimer.done,
      Bool.true_and, Bool.and_true]
    by_cases hc : fd.cycles < ins.length
    · by_cases h0 : d - (ins.length - (fd.cycles + 1)) = 0
      · have : fd.cycles + 1 + d ≤ ins.length := by omega
        simp [hc, h0, this]
      · have : ¬ fd.cycles + 1 + d ≤ ins.length := by omega
        simp [hc, h0, this]
    · have : ¬ fd.cycles + 1 + d ≤ ins.length := by omega
      simp [hc, this]

/-- Non-vacuity: `reset_delay = 2`, feed 3: the event in cycle 4 after the feed, the reset in cycle 6. -/
example :
    let run : WdIn := ⟨false, true, true, false, false, 0⟩
    ((watchdog 2).trace (⟨true, true, true, false, false, 3⟩ :: List.replicate 8 run)).map (fun o => (o.trigger, o.crgRst)) =
    [(false, false), (false, false), (false, false), (false, false), (false, false), (true, false), (true, false),
     (true, true), (true, true)] := by decide

/-! ## SPI master: lengths outside `1 … data_width` (outside the property's quantifier) -/

/-- **spi_master_bad_length_stuck.**  Why the length range is a hypothesis: with `length = 0`, or a length above the
    range of the bit counter (`2^bits_for(data_width−1)`), the comparison `count == length − 1` never holds and the
    master never leaves RUN — whatever the divider and the other inputs do, `done` never returns. -/
theorem spi_master_bad_length_stuck (c : SpiCfg) (L : Nat) (hL : L = 0 ∨ c.cmod < L) (f : Nat → SpiIn)
    (hf : ∀ t, (f t).length = L) (s : SpiSt) (hs : s.fsm = .run) (hc : s.count < c.cmod) (n : Nat) :
    (runFn (spiMaster c) s f n).fsm = .run ∧ (runFn (spiMaster c) s f n).count < c.cmod ∧
    ((spiMaster c).out (runFn (spiMaster c) s f n) (f n)).done = false := by
  have hcm : 0 < c.cmod := Nat.two_pow_pos _
  induction n with
  | zero => exact ⟨hs, hc, by show (s.fsm == SpiFsm.idle && _) = false; rw [hs]; rfl⟩
  | succ n ih =>
    obtain ⟨h1, h2, _⟩ := ih
    have hne : ((runFn (spiMaster c) s f n).count + 1 == (f n).length) = false := by
      rw [hf n]
      rcases hL with h | h
      · subst h; simp
      · have : (runFn (spiMaster c) s f n).count + 1 ≠ L := by omega
        simp [this]
    have hfsm : (runFn (spiMaster c) s f (n + 1)).fsm = .run := by
      show (spiNext c _ _).fsm = _
      simp [spiNext, h1, hne]
    have hcnt : (runFn (spiMaster c) s f (n + 1)).count < c.cmod := by
      show (spiNext c _ _).count < _
      simp only [spiNext, h1]
      split
      · exact Nat.mod_lt _ hcm
      · exact h2
    refine ⟨hfsm, hcnt, ?_⟩
    show ((runFn (spiMaster c) s f (n + 1)).fsm == SpiFsm.idle && _) = false
    rw [hfsm]; rfl

/-- The hypothesis is reachable: a transfer started with `length = 0` is in RUN (bit counter 0) after the START wait. -/
example :
    let x : SpiIn := ⟨false, 0, 0b1001, true, false, false, 3, true⟩
    let s := (spiMaster ⟨4, false⟩).runFrom (spiMaster ⟨4, false⟩).init ({ x with start := true } :: List.replicate 3 x)
    s.fsm = .run ∧ s.count = 0 := by decide

/-! ## I2CMaster: the pads follow the bit machine -/

/-- **i2c_pad_follows_machine.**  One cycle of the pad stage, for every state and bus activity.  The SCL pad is the
    machine's `scl_o` wired-AND with the rest of the bus.  If nobody stretches the clock in this cycle
    (`ext_scl = 1`), the registered copy `scl_i_n` is the machine's `scl_o` of this cycle, so in the next cycle the SDA
    driver shows `¬sda_o` unless `scl_o` has just changed, in which case it keeps its value for that one cycle:
    the pad waveform is the machine's waveform (`i2c_step_timing`, `i2c_write_sequence`, `i2c_read_sequence`,
    `i2c_start_stop_sequences`) with every SDA change that coincides with an SCL edge postponed by one cycle. -/
theorem i2c_pad_follows_machine (s : I2cmSt) (i : I2cmIn) :
    let s' := i2cmNext s i
    s.padScl i = (s.m.scl && i.extScl) ∧ s.padSda i = (!s.sdaOe && i.extSda) ∧
    s'.sdaOeN = s.sdaOe ∧
    (i.extScl = true →
      s'.sclIn = s.m.scl ∧ s'.sdaOe = (if s.m.scl == s'.m.scl then !s'.m.sda else s.sdaOe)) := by
  intro s'
  refine ⟨?_, ?_, rfl, fun he => ?_⟩
  · cases h1 : s.m.scl <;> simp [I2cmSt.padScl, I2cmSt.sclOe, h1]
  · cases h1 : s.sdaOe <;> simp [I2cmSt.padSda, h1]
  · have h1 : s'.sclIn = s.m.scl := by
      show s.padScl i = _
      cases h2 : s.m.scl <;> simp [I2cmSt.padScl, I2cmSt.sclOe, h2, he]
    refine ⟨h1, ?_⟩
    show (if s'.sclIn == s'.m.scl then !s'.m.sda else s'.sdaOeN) = _
    rw [h1]
    rfl

/-- Non-vacuity: START at divider 1 — the machine lowers SDA (START0) and the driver follows in the same edge because
    SCL did not move. -/
example :
    let idl : I2cmIn := ⟨false, false, false, false, 0, true, true⟩
    let st := fun k => i2cMaster.runFrom { i2cMaster.init with load := 1 }
      ((⟨true, true, true, false, 2048, true, true⟩ :: List.replicate 6 idl).take k)
    (List.range 6).map (fun k => ((st k).m.scl, (st k).m.sda, (st k).sdaOe)) =
    [(true, true, false), (true, true, false), (true, true, false), (true, true, false), (true, false, true),
     (true, false, true)] := by decide

/-! ## UART receiver end to end: from the pad, including start-edge detection
    (needs `import LitexProofs.Periph.RxEnd`) -/

/-- **uart_rx_pad_recovers_partial.**  From the pad, including start-edge detection.  The receiver is idle and has
    seen the line high; the pad is high before cycle `t0` and low in `t0` (the first low sample of the start bit; any
    `t0 ≥ 0`).  The receiver is in RUN from cycle `t0 + 3` on (two synchroniser registers and the edge detector) and
    sample point `n` reads the pad of cycle `t0 + 1 + ⌈(n − ½)·2^32/tw⌉`.  Hypothesis: at these ten pad cycles the pad
    carries frame bit `b = n − 1` of byte `d`.  Then the receiver's `source.valid` is high in cycle
    `t0 + 3 + ⌈9.5·2^32/tw⌉` with `source.data = d`, it is low in every earlier cycle from cycle 0 on, and the receiver
    is back in IDLE in the next cycle. -/
theorem uart_rx_pad_recovers_partial (tw : Nat) (h0 : 0 < tw) (htw : tw < M32) (sR : RxSt) (hRrun : sR.run = false)
    (hr0 : sR.r0 = true) (hrx : sR.rx = true) (hrxd : sR.rxD = true) (hdat : sR.data < 256)
    (pad : Nat → Bool) (t0 : Nat) (hhigh : ∀ t, t < t0 → pad t = true) (hlow : pad t0 = false)
    (d : Nat) (hd : d < 256)
    (hline : ∀ b, b ≤ 9 → pad (t0 + 1 + rxSampleCycle tw (b + 1)) = frameBit d b) :
    let o := fun t => (uartRx tw).out (runFn (uartRx tw) sR pad t) (pad t)
    let R := t0 + 3 + rxSampleCycle tw 10
    (o R).valid = true ∧ (o R).data = d ∧ (∀ t, t < R → (o t).valid = false) ∧
    (runFn (uartRx tw) sR pad (R + 1)).run = false := by
  intro o R
  obtain ⟨hidle, hrun3, hc3, hacc3, hrx3, hr03, hdat3⟩ :=
    rx_detect_at tw sR pad t0 hRrun hr0 hrx hrxd hhigh hlow
  -- the line as the receiver's RUN phase sees it
  let ln : Nat → Bool := fun k => pad (t0 + 1 + k)
  have hsplit : ∀ k, runFn (uartRx tw) sR pad (t0 + 3 + k) =
      runFn (uartRx tw) (runFn (uartRx tw) sR pad (t0 + 3)) (fun j => ln (j + 2)) k := by
    intro k
    rw [runFn_add]
    congr 1
    funext j
    show pad (t0 + 3 + j) = pad (t0 + 1 + (j + 2))
    congr 1; omega
  have hrec := uart_rx_recovers_partial tw h0 htw ln (runFn (uartRx tw) sR pad (t0 + 3)) hrun3 hc3 hacc3
    (by rw [hrx3]) (by rw [hr03]) (by rw [hdat3]; exact hdat) d hd hline
  have hfr := uart_rx_frame tw h0 htw ln (runFn (uartRx tw) sR pad (t0 + 3)) hrun3 hc3 hacc3
    (by rw [hrx3]) (by rw [hr03]) (by rw [hdat3]; exact hdat)
  simp only at hrec hfr
  have hpk : ∀ k, pad (t0 + 3 + k) = ln (k + 2) := by
    intro k
    show pad (t0 + 3 + k) = pad (t0 + 1 + (k + 2))
    congr 1; omega
  have hoR : ∀ k, o (t0 + 3 + k) = (uartRx tw).out
      (runFn (uartRx tw) (runFn (uartRx tw) sR pad (t0 + 3)) (fun j => ln (j + 2)) k) (ln (k + 2)) := by
    intro k
    show (uartRx tw).out (runFn (uartRx tw) sR pad (t0 + 3 + k)) (pad (t0 + 3 + k)) = _
    rw [hsplit k, hpk k]
  refine ⟨?_, ?_, ?_, ?_⟩
  · show (o (t0 + 3 + rxSampleCycle tw 10)).valid = true
    rw [hoR]; exact hrec.1
  · show (o (t0 + 3 + rxSampleCycle tw 10)).data = _
    rw [hoR]; exact hrec.2
  · intro t ht
    by_cases h2 : t ≤ t0 + 2
    · show (rxDone (runFn (uartRx tw) sR pad t) && _) = false
      simp [rxDone, hidle t h2]
    · obtain ⟨k, rfl⟩ : ∃ k, t = t0 + 3 + k := ⟨t - (t0 + 3), by omega⟩
      rw [hoR]
      exact hfr.2.2.2.2 k (by omega)
  · show ((uartRx tw).next (runFn (uartRx tw) sR pad (t0 + 3 + rxSampleCycle tw 10))
        (pad (t0 + 3 + rxSampleCycle tw 10))).run = false
    rw [hsplit, hpk]
    exact hfr.2.2.2.1

/-- **uart_rx_end_to_end.**  An ideal transmitter with bit period `P/Q` clock cycles within ±`m` per mille of the
    receiver's `2^32/tw` (`(1000 − m)·2^32·Q ≤ 1000·P·tw ≤ (1000 + m)·2^32·Q`, written without subtraction), whose start
    edge falls at an arbitrary time: the pad is high before cycle `t0`, and from `t0` on pad cycle `t0 + j` shows frame
    bit `⌊(j·Q + φ)/P⌋` of byte `d`, with `φ/Q < 1` the part of a cycle by which the edge precedes the sampling instant
    of cycle `t0` (start bit, eight data bits LSB first, stop bit, then the line stays high).  Bound:
    `6000·tw + 18·m·2^32 ≤ 1000·2^32`, i.e. `3 + 9·(m/1000)·R ≤ R/2` with `R = 2^32/tw` cycles per bit (`m = 20`:
    `R ≥ 9.375`).  The receiver was idle with the line seen high.  Then `source.valid` is high in cycle
    `t0 + 3 + ⌈9.5·2^32/tw⌉` with `source.data = d`, low in every earlier cycle from cycle 0 on, and the receiver is back
    in IDLE in the next cycle. -/
theorem uart_rx_end_to_end (tw P Q φ m : Nat) (h0 : 0 < tw)
    (hbound : 6000 * tw + 18 * m * M32 ≤ 1000 * M32) (hφ : φ < Q)
    (hlo : 1000 * (M32 * Q) ≤ 1000 * (P * tw) + m * (M32 * Q))
    (hhi : 1000 * (P * tw) ≤ 1000 * (M32 * Q) + m * (M32 * Q))
    (sR : RxSt) (hRrun : sR.run = false) (hr0 : sR.r0 = true) (hrx : sR.rx = true) (hrxd : sR.rxD = true)
    (hdat : sR.data < 256) (d : Nat) (hd : d < 256) (pad : Nat → Bool) (t0 : Nat)
    (hhigh : ∀ t, t < t0 → pad t = true) (hpad : ∀ j, pad (t0 + j) = frameBit d ((j * Q + φ) / P)) :
    let o := fun t => (uartRx tw).out (runFn (uartRx tw) sR pad t) (pad t)
    let R := t0 + 3 + rxSampleCycle tw 10
    (o R).valid = true ∧ (o R).data = d ∧ (∀ t, t < R → (o t).valid = false) ∧
    (runFn (uartRx tw) sR pad (R + 1)).run = false := by
  have htw : tw < M32 := by unfold M32 at *; omega
  have hφP : φ < P := by
    have h := (rx_tolerance_arith_idle tw P Q φ 0 m h0 hbound hφ hlo hhi (by omega)).2 (by omega)
    rw [Nat.one_mul] at h
    omega
  have hlow : pad t0 = false := by
    have := hpad 0
    rw [Nat.add_zero, Nat.zero_mul, Nat.zero_add, Nat.div_eq_of_lt hφP] at this
    exact this
  apply uart_rx_pad_recovers_partial tw h0 htw sR hRrun hr0 hrx hrxd hdat pad t0 hhigh hlow d hd
  intro b hb
  rw [Nat.add_assoc, hpad, Nat.add_comm 1]
  exact rx_line_bit_idle tw P Q φ b m d h0 hbound hφ hlo hhi hb

/-- **uart_rx_end_to_end_any.**  The same with anything on the line after the stop bit (for instance the start bit of
    the next frame): the pad is only specified while `j·Q + φ < 10·P`.  All ten sample points then have to lie inside
    their own bit, the mismatch accumulates over ten bit periods: `6000·tw + 20·m·2^32 ≤ 1000·2^32`
    (`3 + 10·(m/1000)·R ≤ R/2`; `m = 20`: `R ≥ 10`). -/
theorem uart_rx_end_to_end_any (tw P Q φ m : Nat) (h0 : 0 < tw)
    (hbound : 6000 * tw + 20 * m * M32 ≤ 1000 * M32) (hφ : φ < Q)
    (hlo : 1000 * (M32 * Q) ≤ 1000 * (P * tw) + m * (M32 * Q))
    (hhi : 1000 * (P * tw) ≤ 1000 * (M32 * Q) + m * (M32 * Q))
    (sR : RxSt) (hRrun : sR.run = false) (hr0 : sR.r0 = true) (hrx : sR.rx = true) (hrxd : sR.rxD = true)
    (hdat : sR.data < 256) (d : Nat) (hd : d < 256) (pad : Nat → Bool) (t0 : Nat)
    (hhigh : ∀ t, t < t0 → pad t = true)
    (hpad : ∀ j, j * Q + φ < 10 * P → pad (t0 + j) = frameBit d ((j * Q + φ) / P)) :
    let o := fun t => (uartRx tw).out (runFn (uartRx tw) sR pad t) (pad t)
    let R := t0 + 3 + rxSampleCycle tw 10
    (o R).valid = true ∧ (o R).data = d ∧ (∀ t, t < R → (o t).valid = false) ∧
    (runFn (uartRx tw) sR pad (R + 1)).run = false := by
  have htw : tw < M32 := by unfold M32 at *; omega
  have hφP : φ < P := by
    have h := (rx_tolerance_arith_general tw P Q φ 0 m h0 hbound hφ hlo hhi (by omega)).2
    rw [Nat.one_mul] at h
    omega
  have hlow : pad t0 = false := by
    have := hpad 0 (by omega)
    rw [Nat.add_zero, Nat.zero_mul, Nat.zero_add, Nat.div_eq_of_lt hφP] at this
    exact this
  apply uart_rx_pad_recovers_partial tw h0 htw sR hRrun hr0 hrx hrxd hdat pad t0 hhigh hlow d hd
  intro b hb
  have h := rx_tolerance_arith_general tw P Q φ b m h0 hbound hφ hlo hhi hb
  have h10 : (b + 1) * P ≤ 10 * P := Nat.mul_le_mul_right P (by omega)
  rw [Nat.add_assoc, Nat.add_comm 1, hpad _ (by omega)]
  congr 1
  exact Nat.div_eq_of_lt_le h.1 h.2

/-- Non-vacuity of `uart_rx_end_to_end`: `tw = ⌊2^32/10⌋` (ten cycles per bit), transmitter 2 % slow
    (`P/Q = 102/10` cycles), start edge at `t0 = 5` with phase `φ = 3`, byte 0xA5: the hypotheses hold and the byte
    appears in cycle `5 + 3 + 96 = 104`, with nothing before. -/
example :
    let tw := 429496729
    let pad : Nat → Bool := fun t => if t < 5 then true else frameBit 0xA5 (((t - 5) * 10 + 3) / 102)
    let sR : RxSt := ⟨true, true, true, false, 0, 0, ⟨0, false⟩⟩
    let o := fun t => (uartRx tw).out (runFn (uartRx tw) sR pad t) (pad t)
    (6000 * tw + 18 * 20 * M32 ≤ 1000 * M32 ∧ 1000 * (M32 * 10) ≤ 1000 * (102 * tw) + 20 * (M32 * 10) ∧
      1000 * (102 * tw) ≤ 1000 * (M32 * 10) + 20 * (M32 * 10)) ∧
    5 + 3 + rxSampleCycle tw 10 = 104 ∧ o 104 = ⟨true, 0xA5⟩ ∧
    (List.range 104).all (fun t => !(o t).valid) = true := by decide +kernel

/-- Negative witness just outside the bound: `tw = 474000000` (9.06 cycles per bit, `9·tw ≤ 2^32`; the bound asks for
    9.375), transmitter exactly 2 % fast (`P/Q = 49·2^32/(50·tw)`), start edge at `t0 = 5` with the latest phase
    `φ = Q − 1`: sample point 9 already sees the stop bit and byte 0x55 arrives as 0xD5. -/
example :
    let tw := 474000000
    let P := 49 * M32
    let Q := 50 * tw
    let pad : Nat → Bool := fun t => if t < 5 then true else frameBit 0x55 (((t - 5) * Q + (Q - 1)) / P)
    let sR : RxSt := ⟨true, true, true, false, 0, 0, ⟨0, false⟩⟩
    let R := 5 + 3 + rxSampleCycle tw 10
    (9 * tw ≤ M32 ∧ ¬ 6000 * tw + 18 * 20 * M32 ≤ 1000 * M32 ∧
      1000 * (M32 * Q) ≤ 1000 * (P * tw) + 20 * (M32 * Q) ∧ 1000 * (P * tw) ≤ 1000 * (M32 * Q) + 20 * (M32 * Q)) ∧
    (uartRx tw).out (runFn (uartRx tw) sR pad R) (pad R) = ⟨true, 0xD5⟩ := by decide +kernel

/-! ## SPI master wired to SPI slave (pad to pad, one clock) -/

/-- **spi_link_mosi.**  `spiLink c dw`: the slave's `clk / cs_n / mosi` inputs are the master's pad registers of the
    same cycle, the master's `pads.miso` is the slave's MISO pad of the same cycle (`link_wiring`).  Master in IDLE
    with `cs_n` high and `start = 1` in cycle 0 (divider `2 ≤ div < 2^16` at any phase `cnt`, length
    `1 ≤ L ≤ data_width`, `cs = 1`, automatic CS mode, no loopback), slave in IDLE with its chip-select synchroniser
    empty (`xfer = s0 = s1 = 0`; its clock/MOSI synchronisers, `length` and `rx` arbitrary).  With
    `T = 1 + (div − (cnt+1) mod div)` the master's first RUN cycle and `E = T + L·div + div/2` its `done` cycle:
    up to cycle `E + 3` the slave raises `start` exactly in cycle `T + 2` and `irq` exactly in cycle `E + 3` (one
    frame), and in that `irq` cycle `length = L` and the low `L` bits of the received word are the `L` bits the
    master sent, MSB first — for EVERY divider `≥ 2` (clock and MOSI pass through equal synchronisers; chip select
    is asserted `div/2 ≥ 1` cycles before the first rising edge, which is exactly enough for the slave's FSM). -/
theorem spi_link_mosi (c : SpiCfg) (dw div L : Nat) (hdiv : 2 ≤ div) (hd16 : div < 65536) (hL : 1 ≤ L)
    (hLw : L ≤ c.dw) (x : Nat → LinkIn) (hx : ∀ t, SpiHold div L (x t).m) (st : LinkSt) (hs : IdleOk div st.m)
    (hcs0 : st.m.csN = true) (hst : (x 0).m.start = true)
    (hsx : st.s.xfer = false) (hs0 : st.s.s0 = false) (hs1 : st.s.s1 = false) :
    let T := 1 + (div - (st.m.cnt + 1) % div)
    let E := T + (L * div + div / 2)
    let o := fun t => ((spiLink c dw).out (runFn (spiLink c dw) st x t) (x t)).2
    (∀ t, t ≤ E + 3 → (o t).start = decide (t = T + 2) ∧ (o t).irq = decide (t = E + 3)) ∧
    (o (E + 3)).length = L % 256 ∧
    (∀ k, k < L → k < dw → (o (E + 3)).rx.testBit k = (x 0).m.mosi.testBit (spiSel0 c L - (L - 1 - k))) := by
  intro T E o
  have h := link_mosi_frame c dw div L hdiv hd16 hL hLw x hx st hs hcs0 hst hsx hs0 hs1
  simp only at h
  exact ⟨h.1, h.2.1, h.2.2.2⟩

/-- The slave state `spi_link_mosi` starts from is reached three cycles after the master's `cs_n` pad went high. -/
theorem spi_link_slave_idle (c : SpiCfg) (dw : Nat) (st : LinkSt) (x : Nat → LinkIn) (t : Nat)
    (h0 : (runFn (spiLink c dw) st x t).m.csN = true) (h1 : (runFn (spiLink c dw) st x (t + 1)).m.csN = true)
    (h2 : (runFn (spiLink c dw) st x (t + 2)).m.csN = true) :
    (runFn (spiLink c dw) st x (t + 3)).s.xfer = false ∧ (runFn (spiLink c dw) st x (t + 3)).s.s1 = false ∧
    (runFn (spiLink c dw) st x (t + 3)).s.s0 = false := by
  rw [(link_proj c dw st x (t + 3)).2]
  exact slv_idle_reached dw st.s (linkH c dw st x) t h0 h1 h2

-- dw 4, L = 3, raw mode, word 0b1011 (top bits 101), slave `rx` 0xF and `length` 77 before, dividers 2, 3, 4 and two
-- divider phases: the slave's (irq, length, rx) in cycle E + 3.
example : ((List.range 3).map fun d =>
    let div := d + 2
    let x : Nat → LinkIn := fun t => ⟨⟨t == 0, 3, 0b1011, true, false, false, div, false⟩, 0b0110⟩
    let st : LinkSt := ⟨⟨d, false, .idle, 0, true, 0, 0, false, 0, 0⟩,
                        ⟨true, true, false, false, true, true, false, false, 77, 3, 0xF⟩⟩
    let E := 1 + (div - (d + 1) % div) + (3 * div + div / 2)
    let o := ((spiLink ⟨4, false⟩ 4).out (runFn (spiLink ⟨4, false⟩ 4) st x (E + 3)) (x (E + 3))).2
    (o.irq, o.length, o.rx)) = [(true, 3, 0b1101), (true, 3, 0b1101), (true, 3, 0b1101)] := by decide

/-- **spi_link_miso_partial.**  The other direction needs a slow enough clock: the slave moves MISO three cycles
    after the master's falling edge (two synchroniser registers and the edge detector), the master samples
    `div/2 − 1` cycles after it.  For every divider `8 ≤ div < 2^16` (and `L ≤` the slave's width) the word the
    master has latched when `done` returns (cycle `E`) is, bit for bit, the top `L` bits of the word the slave read
    from its `tx` input in its `start` cycle `T + 2`.  (`_partial`: dividers 2 … 7 fail, see the witness below.) -/
theorem spi_link_miso_partial (c : SpiCfg) (dw div L : Nat) (hdiv : 8 ≤ div) (hd16 : div < 65536) (hL : 1 ≤ L)
    (hLw : L ≤ c.dw) (hLd : L ≤ dw) (x : Nat → LinkIn) (hx : ∀ t, SpiHold div L (x t).m) (st : LinkSt)
    (hs : IdleOk div st.m) (hcs0 : st.m.csN = true) (hst : (x 0).m.start = true) :
    let T := 1 + (div - (st.m.cnt + 1) % div)
    let E := T + (L * div + div / 2)
    ∀ k, k < L →
      ((spiLink c dw).out (runFn (spiLink c dw) st x E) (x E)).1.miso.testBit k = (x (T + 2)).tx.testBit (dw - L + k) :=
  link_miso_word c dw div L hdiv hd16 hL hLw hLd x hx st hs hcs0 hst

-- dw 4, L = 3, slave word 0b1100 (top bits 110): divider 8 delivers 0b110;
-- NEGATIVE WITNESS: divider 7 (same start state) delivers 0b011 — the first sample still sees the slave's old
-- transmit register, the others are one bit late.
example : ((List.range 2).map fun d =>
    let div := 8 - d
    let x : Nat → LinkIn := fun t => ⟨⟨t == 0, 3, 0b1011, true, false, false, div, false⟩, 0b1100⟩
    let st : LinkSt := ⟨⟨0, false, .idle, 0, true, 0, 0, false, 0, 0⟩,
                        ⟨true, true, false, false, true, true, false, false, 77, 3, 0xF⟩⟩
    let E := 1 + (div - 1 % div) + (3 * div + div / 2)
    ((spiLink ⟨4, false⟩ 4).out (runFn (spiLink ⟨4, false⟩ 4) st x E) (x E)).1.miso) = [0b110, 0b011] := by decide

/-! ## The remaining small pieces of the anchor files: `add_auto_tx_flush`, multiplexers, PHY model, `misc.py`
    (needs `import LitexProofs.Periph.Glue2`) -/

/-- **uart_auto_flush_transparent.**  `UART.add_auto_tx_flush`: as long as `source.ready` comes often enough — before
    every cycle the number of consecutive cycles without `source.ready` is below the timeout `T`
    (`rdyWithin T 0 ins`) — the flush logic is invisible: same FIFO states and same port values as the plain `UART`,
    for every software / PHY history; in particular `uart_top_no_loss_in_order` applies (no character dropped). -/
theorem uart_auto_flush_transparent (dtx drx : Nat) (rxWe : Bool) (T k : Nat) (ins : List UartTopIn)
    (h : rdyWithin T 0 ins = true) :
    ((uartFlush dtx drx rxWe T k).run ins).top = (uartTopM dtx drx rxWe).run ins ∧
    (uartFlush dtx drx rxWe T k).trace ins = (uartTopM dtx drx rxWe).trace ins :=
  flush_transparent_from dtx drx rxWe T k ins _ 0 rfl h

example :
    let w : Nat → Bool → UartTopIn := fun d r => ⟨true, d, false, false, false, 0, r⟩
    let ins := [w 0x41 false, w 0x42 false, w 0x43 true, w 0x44 false, w 0x45 false, w 0x46 true]
    rdyWithin 3 0 ins = true ∧ fbInflight ((uartFlush 4 4 false 3 1).run ins).top.tx = [tokN 0x43, tokN 0x44, tokN 0x45, tokN 0x46] := by
  decide

/-- **uart_auto_flush_drop_rate.**  In flush mode (`timer.done`, i.e. `cnt = 0`), while `source.ready` stays low and
    software does not write (`Quiet`), with the FIFO settled: after `n·2^k` cycles (`k` = width of `flush_count`, any
    phase of the counter) exactly the `n` oldest waiting characters are gone — one per `2^k` cycles, the rest in order —
    and the timer is still expired. -/
theorem uart_auto_flush_drop_rate (dtx drx : Nat) (rxWe : Bool) (T k n : Nat) (s : UartFlushSt) (ins : List UartTopIn)
    (hq : ∀ i ∈ ins, Quiet i) (hc : s.cnt = 0) (hf : s.fc < 2 ^ k) (hs : FbSettled s.top.tx) (hn : ins.length = n * 2 ^ k) :
    let s' := (uartFlush dtx drx rxWe T k).runFrom s ins
    fbInflight s'.top.tx = (fbInflight s.top.tx).drop n ∧ s'.cnt = 0 ∧ FbSettled s'.top.tx := by
  obtain ⟨h1, h2, h3⟩ := flush_quiet_run dtx drx rxWe T k ins s hq hc hs
  rw [hn, popCount_mul _ _ _ hf] at h3
  exact ⟨h3, h1, h2⟩

/-- **uart_auto_flush_drains.**  A dead PHY never blocks software for ever: from any state (timer at most its reload
    value `T`, at most `dtx` queued characters), after `T + 1 + (dtx+1)·2^k` or more cycles without `source.ready` and
    without new writes the TX FIFO is empty — `txfull = 0`, `txempty = 1` — and the timer is expired. -/
theorem uart_auto_flush_drains (dtx drx : Nat) (rxWe : Bool) (T k : Nat) (hd : 0 < dtx) (s : UartFlushSt)
    (ins : List UartTopIn) (i : UartTopIn) (hq : ∀ i ∈ ins, Quiet i) (hc : s.cnt ≤ T) (hl : s.top.tx.q.length ≤ dtx)
    (hlen : T + 1 + (dtx + 1) * 2 ^ k ≤ ins.length) :
    let s' := (uartFlush dtx drx rxWe T k).runFrom s ins
    fbInflight s'.top.tx = [] ∧ s'.cnt = 0 ∧
    ((uartFlush dtx drx rxWe T k).out s' i).txfull = false ∧ ((uartFlush dtx drx rxWe T k).out s' i).txempty = true := by
  intro s'
  have h := flush_drains dtx drx rxWe T k s ins hq hc hl hlen
  change s'.top.tx.q = [] ∧ s'.top.tx.readable = false ∧ s'.cnt = 0 at h
  clear_value s'
  obtain ⟨h1, h2, h3⟩ := h
  have hf := uartTop_flags dtx drx s'.top i
  refine ⟨by simp [fbInflight, h1, h2], h3, ?_, ?_⟩
  · show (uartTopOut dtx drx s'.top i).txfull = false
    rw [hf.1, h1]; simp; omega
  · show (uartTopOut dtx drx s'.top i).txempty = true
    rw [hf.2.1, h2]; rfl

/-- Non-vacuity: three characters written, PHY dead; timeout 3, `flush_count` 1 bit: all three are gone after
    `3 + 1 + 3·2` quiet cycles (here already after 6, the timer ran during the writes), not yet after 5.  And the recovery cycle: when the PHY becomes ready in a cycle with `timer.done` and
    `flush_count ≠ 0` it takes the character and the FIFO pops — the next character is offered in the next cycle.
    Negative witness for the code before fix `C19-uart-autoflush-duplicate` (`flush_ep.ready.eq(flush_count == 0)`
    overrode `source.ready`; `uartFlushNextOld`): the FIFO did not pop and the same character was offered, and taken,
    again. -/
example :
    let m := uartFlush 2 2 false 3 1
    let w : Nat → UartTopIn := fun d => ⟨true, d, false, false, false, 0, false⟩
    let q : UartTopIn := ⟨false, 0, false, false, false, 0, false⟩
    let r : UartTopIn := ⟨false, 0, false, false, false, 0, true⟩
    let s := m.run [w 0x41, w 0x42, w 0x43]
    fbInflight s.top.tx = [tokN 0x41, tokN 0x42, tokN 0x43] ∧
    fbInflight (m.runFrom s (List.replicate 10 q)).top.tx = [] ∧
    fbInflight (m.runFrom s (List.replicate 5 q)).top.tx ≠ [] ∧
    (let s4 := m.run [w 0x41, w 0x42, q]
     ((m.out s4 r).srcV, (m.out s4 r).srcD, (m.out (m.next s4 r) r).srcV, (m.out (m.next s4 r) r).srcD) =
       (true, 0x41, true, 0x42) ∧
     ((m.out (uartFlushNextOld 2 2 false 3 1 s4 r) r).srcV, (m.out (uartFlushNextOld 2 2 false 3 1 s4 r) r).srcD) =
       (true, 0x41)) := by decide

/-- **bitslip_shift.**  `BitSlip(dw)`, every history: after two words `a`, `b` and a cycle with `value = v < dw`, the
    output register holds bits `[v, v+dw)` of the window `b:a` — `(a >> v) | (b << (dw - v))` truncated to `dw` bits:
    the input bit stream delayed and shifted by `v` bits.  For `value ≥ dw` (reachable when `dw` is not a power of two:
    the `Case` has no default) the output register holds. -/
theorem bitslip_shift (dw : Nat) (pre : List (Nat × Nat)) (a b : Nat × Nat) (i v : Nat) :
    ((bitSlip dw).run (pre ++ [a, b] ++ [(i, v)])).o =
      if v < dw then (trunc dw a.1 / 2 ^ v + trunc dw b.1 * 2 ^ (dw - v)) % 2 ^ dw
      else ((bitSlip dw).run (pre ++ [a, b])).o := by
  have hr := bitSlip_r_two dw pre a b
  unfold Machine.run at *
  rw [Machine.runFrom_append]
  generalize (bitSlip dw).runFrom (bitSlip dw).init (pre ++ [a, b]) = s2 at *
  show (if v < dw then slice v dw s2.r else s2.o) = _
  by_cases hv : v < dw
  · rw [if_pos hv, if_pos hv, hr, slice_two_words dw v _ _ (Nat.le_of_lt hv)]
  · rw [if_neg hv, if_neg hv]

example : ((bitSlip 4).run [(0b1010, 0), (0b0110, 0), (0, 1)]).o = 0b0101 ∧
    ((bitSlip 3).run [(0b101, 0), (0b011, 0), (0, 2)]).o = 0b111 ∧
    ((bitSlip 3).run [(0b101, 0), (0b011, 0), (0, 2), (0, 3)]).o = 0b111 := by decide

/-- **displacer_places / chooser_displacer.**  `displacer` puts `signal` (w bits) into field `shift` (`n-1-shift` when
    reversed) of the output, all other fields 0 — nothing at all for `shift ≥ n` — truncated to the output width; and
    `chooser` with the same parameters on an `n·w`-bit word reads that field back. -/
theorem displacer_places (w n : Nat) (rev : Bool) (wo signal shift : Nat) :
    displacer w n rev wo signal shift =
      if shift < n then trunc wo (trunc w signal * 2 ^ (w * (if rev then n - 1 - shift else shift))) else 0 :=
  displacer_closed w n rev wo signal shift

theorem chooser_displacer (w n : Nat) (rev : Bool) (signal shift : Nat) (hs : shift < n) :
    chooser (n * w) w n rev (displacer w n rev (n * w) signal shift) shift = trunc w signal := by
  rw [displacer_closed, if_pos hs]
  unfold chooser
  simp only [hs, if_true, trunc_trunc]
  have hp : (if rev then n - 1 - shift else shift) < n := by cases rev <;> simp <;> omega
  generalize (if rev = true then n - 1 - shift else shift) = p at hp
  have hlt : trunc w signal * 2 ^ (w * p) < 2 ^ (n * w) := by
    have h1 : trunc w signal < 2 ^ w := trunc_lt w signal
    have h2 : 2 ^ w * 2 ^ (w * p) ≤ 2 ^ (n * w) := by
      rw [← Nat.pow_add]
      apply Nat.pow_le_pow_right (by omega)
      rw [Nat.mul_comm n w, show w + w * p = w * (p + 1) by rw [Nat.mul_succ, Nat.add_comm]]
      exact Nat.mul_le_mul_left _ hp
    exact Nat.lt_of_lt_of_le (Nat.mul_lt_mul_of_pos_right h1 (Nat.two_pow_pos _)) h2
  rw [trunc_of_lt hlt]
  unfold slice
  rw [Nat.mul_comm p w, Nat.mul_div_cancel _ (Nat.two_pow_pos _)]
  exact trunc_trunc w signal

example : displacer 4 3 true 12 0xA 0 = 0xA00 ∧ chooser 12 4 3 true 0xA00 0 = 0xA ∧ displacer 4 3 false 12 0xA 3 = 0 ∧
    chooser 12 4 3 false 0xCBA 3 = 0xC ∧ split 7 0b1011101 [2, 0, 3, 1] = [1, 0, 7, 0] := by decide

/-- **phy_mux_routes.**  `RS232PHYMultiplexer` over `n` virtual PHYs: the selected one is connected to the real PHY in
    both directions; every other one sees `sink.ready = 1` (never stalled) and `source.valid = 0`; for `sel ≥ n`
    (possible when `n` is not a power of two — the `Case` has no default) nothing is connected: the real PHY sees
    `sink.valid = 0` and `source.ready = 0`. -/
theorem phy_mux_routes (i : PhyMuxIn) :
    (∀ c, i.chans[i.sel]? = some c →
      (phyMux i).srcRdy = c.srcRdy ∧ (phyMux i).sinkV = c.sinkV ∧ (phyMux i).sinkD = c.sinkD % 256 ∧
      (phyMux i).chans[i.sel]? = some ⟨i.srcV, i.srcD % 256, i.sinkRdy⟩) ∧
    (∀ n, n < i.chans.length → n ≠ i.sel → (phyMux i).chans[n]? = some ⟨false, 0, true⟩) ∧
    (i.chans.length ≤ i.sel → (phyMux i).srcRdy = false ∧ (phyMux i).sinkV = false ∧
      ∀ c ∈ (phyMux i).chans, c = ⟨false, 0, true⟩) := by
  refine ⟨fun c hc => ?_, fun n hn hne => ?_, fun hge => ?_⟩
  · have hlt : i.sel < i.chans.length := by
      rcases Nat.lt_or_ge i.sel i.chans.length with h | h
      · exact h
      · rw [List.getElem?_eq_none h] at hc; cases hc
    have hget : i.chans[i.sel] = c := by rw [List.getElem?_eq_getElem hlt] at hc; exact Option.some.inj hc
    simp [phyMux, hlt, hget]
  · simp [phyMux, hn, hne, phyChanIdle]
  · have hnone : i.chans[i.sel]? = none := List.getElem?_eq_none hge
    refine ⟨by simp [phyMux, hnone], by simp [phyMux, hnone], ?_⟩
    intro c hc
    simp only [phyMux, List.mem_map, List.mem_range] at hc
    obtain ⟨n, hn, rfl⟩ := hc
    have : n ≠ i.sel := by omega
    simp [this, phyChanIdle]

/-- **uart_mux_routes.**  `UARTMultiplexer`: `uart.tx` is the selected UART's `tx`, only the selected UART's `rx`
    follows `uart.rx` (the others read 0); for `sel ≥ n` nothing is connected (`uart.tx = 0`: a break on the line). -/
theorem uart_mux_routes (sel : Nat) (rx : Bool) (txs : List Bool) :
    (uartMux sel rx txs).1 = txs.getD sel false ∧
    (∀ n, n < txs.length → (uartMux sel rx txs).2[n]? = some (n == sel && rx)) ∧
    (txs.length ≤ sel → (uartMux sel rx txs).1 = false ∧ ∀ b ∈ (uartMux sel rx txs).2, b = false) := by
  refine ⟨rfl, fun n hn => by simp [uartMux, hn], fun hge => ⟨by simp [uartMux, List.getD, List.getElem?_eq_none hge], ?_⟩⟩
  intro b hb
  simp only [uartMux, List.mem_map, List.mem_range] at hb
  obtain ⟨n, hn, rfl⟩ := hb
  have : n ≠ sel := by omega
  simp [this]

/-- **phy_model_wires.**  `RS232PHYModel`: the stream pair and the pads are wired straight through, both ways. -/
theorem phy_model_wires (i : PhyModelIn) :
    phyModel i = ⟨i.sinkV, i.sinkD % 256, i.padSrcRdy, i.padSinkV, i.padSinkD % 256, i.srcRdy⟩ := rfl

example : (phyMux ⟨1, true, 0x5a, true, [⟨true, 1, false⟩, ⟨true, 2, true⟩, ⟨false, 3, true⟩]⟩) =
      ⟨true, true, 2, [⟨false, 0, true⟩, ⟨true, 0x5a, true⟩, ⟨false, 0, true⟩]⟩ ∧
    (phyMux ⟨3, true, 0x5a, true, [⟨true, 1, true⟩, ⟨true, 2, true⟩, ⟨true, 3, true⟩]⟩).sinkV = false ∧
    uartMux 1 true [false, true, false] = (true, [false, true, false]) ∧
    uartMux 3 true [true, true, true] = (false, [false, false, false]) := by decide

/-- Why `spi_link_mosi` asks for `cs_n = 1` in the start state: the `pads.cs_n` register of `SPIMaster` resets to 0, so
    right after reset chip select is asserted for one cycle although the master is idle (`done = 1`, no clock pulse);
    a LiteX `SPISlave` on the other side answers with `start` in cycle 2 and `irq` in cycle 3 for a frame of length 0.
    (Reproduced on the real cores by the harness; reported as an observation.) -/
example :
    let x : LinkIn := ⟨⟨false, 8, 0, true, false, false, 4, false⟩, 0⟩
    let tr := (spiLink ⟨8, false⟩ 8).trace (List.replicate 5 x)
    tr.map (fun o => (o.1.csN, o.1.done, o.2.start, o.2.irq, o.2.length)) =
      [(false, true, false, false, 0), (true, true, false, false, 0), (true, true, true, false, 0),
       (true, true, false, true, 0), (true, true, false, false, 0)] := by decide

/-- **spi_link_served.**  The composition the link theorems speak about (`spiLink`) is, step for step and output for
    output, the function the driver serves as `spilink` (`linkStep`), which the harness compares with the two real cores
    wired pad to pad. -/
theorem spi_link_served (c : SpiCfg) (dw : Nat) (st : LinkSt) (x : LinkIn) :
    (spiLink c dw).next st x = ⟨(linkStep c dw st.m st.s x.m x.tx).1.1, (linkStep c dw st.m st.s x.m x.tx).1.2⟩ ∧
    (spiLink c dw).out st x = (linkStep c dw st.m st.s x.m x.tx).2 := ⟨rfl, rfl⟩

/-! ## `Stream2Wishbone` (UARTBone / UARTWishboneBridge command FSM) — needs `import LitexProofs.Periph.Bone`

  Model `LitexModel/Periph/Bone.lean`; `c.nB = data_width/8 = 2^c.dbW`, `c.nA = address_width/8 = 2^c.abW`,
  `c.aw = 8*c.nA`, `c.adrW = c.aw - c.dbW` (lines of `wishbone.adr`), `c.t` the WaitTimer count.  The statements hold
  for every `c` (all counter widths), in particular for the constructible data_width ∈ {16,32},
  address_width ∈ {16,32,64} (`boneCfgOf`).  Schedules: a `Seg` is a wait (`pre`: the awaited signal is low, all
  other inputs arbitrary) followed by the cycle `fire` in which it is high; `headCycles gc gl gas rest` = command
  byte, length byte, address bytes, each with its own gap.  `boneObs c s ins` = (registers after `ins`, completed
  wishbone accesses in order, (byte, last) pairs handed to the source in order), without FSM reset;
  `bone_no_timeout` transfers this to the machine with the timer for `ins.length ≤ timer` (after the command byte
  the timer holds `t`: the *whole rest of the command*, waits included, must fit into `t` cycles — the timer is not
  an inter-byte timeout). -/

/-- Write burst (cmd 1 = incrementing, 3 = fixed address), any gaps between the host's bytes, any ack delays:
    from RECEIVE-CMD, after the command byte, a length `L` in 1..255, `address_width/8` address bytes (MSB first)
    and `L` words each sent as `data_width/8` bytes (MSB first) followed by its bus cycle, the bridge has made
    exactly the accesses `wrLog` (see `bone_write_access`: `L` writes, word `j` at `(base + j·incr) mod 2^aw`,
    `dat_w` = the big-endian word, all byte lanes), has sent nothing to the source, and is back in RECEIVE-CMD. -/
theorem bone_write_burst (c : BoneCfg) (s : BoneCore) (hs : s.fsm = .recvCmd) (gc gl : Seg) (gas : List Seg)
    (ws : List WrWord) (hc : gc.waits (·.sinkValid)) (hcmd : gc.fire.sinkData = 1 ∨ gc.fire.sinkData = 3)
    (hl : gl.waits (·.sinkValid)) (hL1 : ws ≠ []) (hL : ws.length = gl.fire.sinkData) (hL2 : gl.fire.sinkData ≤ 255)
    (ha : SinkSegs gas) (hal : gas.length = c.nA) (hok : ∀ w ∈ ws, w.ok c) :
    ∃ f, boneObs c s (headCycles gc gl gas (wrCycles ws))
           = (f, wrLog c (gc.fire.sinkData == 1) (beVal (bytesOf gas)) (ws.map (bytesOf ·.bytes)), []) ∧
         f.fsm = .recvCmd ∧ (boneCoreOut c f).sinkReady = true :=
  let ⟨f, h1, h2⟩ := write_command c s hs gc gl gas ws hc hcmd hl hL1 hL hL2 ha hal hok
  ⟨f, h1, h2, (out_recvCmd c f h2).1⟩

/-- The accesses of a write burst: as many as words, access `j` is a write of the big-endian value of the bytes
    of word `j` at `(base + j·incr) mod 2^address_width` (shown on the `adrW` address lines), all lanes selected. -/
theorem bone_write_access (c : BoneCfg) (incr : Bool) (words : List (List Nat)) (base : Nat) :
    (wrLog c incr (base % 2 ^ c.aw) words).length = words.length ∧
    ∀ j (h : j < words.length), (wrLog c incr (base % 2 ^ c.aw) words)[j]? =
      some { we := true, adr := ((base + j * b2n incr) % 2 ^ c.aw) % 2 ^ c.adrW, datW := beVal words[j],
             sel := 2 ^ c.nB - 1 } :=
  ⟨wrLog_length c incr words _, fun j h => wrLog_get c incr words base j h⟩

/-- Read burst (cmd 2 = incrementing, 4 = fixed), any gaps, ack delays and source stalls: exactly `L` read
    accesses `rdLog` (see `bone_read_access`); after each the word read goes out on the source, most significant
    byte first, `last` exactly on the final byte of the final word (`rdSrc`, `bone_read_bytes`); then RECEIVE-CMD. -/
theorem bone_read_burst (c : BoneCfg) (s : BoneCore) (hs : s.fsm = .recvCmd) (gc gl : Seg) (gas : List Seg)
    (ws : List RdWord) (hc : gc.waits (·.sinkValid)) (hcmd : gc.fire.sinkData = 2 ∨ gc.fire.sinkData = 4)
    (hl : gl.waits (·.sinkValid)) (hL1 : ws ≠ []) (hL : ws.length = gl.fire.sinkData) (hL2 : gl.fire.sinkData ≤ 255)
    (ha : SinkSegs gas) (hal : gas.length = c.nA) (hok : ∀ w ∈ ws, w.ok c) :
    ∃ f, boneObs c s (headCycles gc gl gas (rdCycles ws))
           = (f, rdLog c (gc.fire.sinkData == 2) (beVal (bytesOf gas)) ws.length,
                 rdSrc c.nB (ws.map (·.bus.fire.datR))) ∧
         f.fsm = .recvCmd ∧ (boneCoreOut c f).sinkReady = true :=
  let ⟨f, h1, h2⟩ := read_command c s hs gc gl gas ws hc hcmd hl hL1 hL hL2 ha hal hok
  ⟨f, h1, h2, (out_recvCmd c f h2).1⟩

theorem bone_read_access (c : BoneCfg) (incr : Bool) (L base : Nat) :
    (rdLog c incr (base % 2 ^ c.aw) L).length = L ∧
    ∀ j, j < L → (rdLog c incr (base % 2 ^ c.aw) L)[j]? =
      some { we := false, adr := ((base + j * b2n incr) % 2 ^ c.aw) % 2 ^ c.adrW, datW := 0, sel := 2 ^ c.nB - 1 } :=
  ⟨rdLog_length c incr L _, fun j h => rdLog_get c incr L base j h⟩

/-- The bytes of one word on the source: byte `k` is bits `8(nB-1-k) …` of the word (MSB first); `last` only on
    byte `nB-1` of the final word. -/
theorem bone_read_bytes (nB d : Nat) (ds : List Nat) :
    rdSrc nB (d :: ds) = ((List.range nB).map fun k =>
      ((d / 256 ^ (nB - 1 - k)) % 256, (k == nB - 1) && ds.isEmpty)) ++ rdSrc nB ds := by
  simp [rdSrc, sendBytes_eq]

/-- Any other command byte: after the address bytes the bridge is back in RECEIVE-CMD and has touched neither
    the bus nor the source. -/
theorem bone_bad_cmd (c : BoneCfg) (s : BoneCore) (hs : s.fsm = .recvCmd) (gc gl : Seg) (gas : List Seg)
    (hc : gc.waits (·.sinkValid))
    (hcmd : gc.fire.sinkData ≠ 1 ∧ gc.fire.sinkData ≠ 2 ∧ gc.fire.sinkData ≠ 3 ∧ gc.fire.sinkData ≠ 4)
    (hl : gl.waits (·.sinkValid)) (ha : SinkSegs gas) (hal : gas.length = c.nA) :
    ∃ f, boneObs c s (headCycles gc gl gas []) = (f, [], []) ∧ f.fsm = .recvCmd :=
  bad_command c s hs gc gl gas hc hcmd hl ha hal

/-- No timeout: for every input sequence no longer than the current timer count the machine with the timer
    behaves as the FSM without reset (outputs are functions of the registers).  In RECEIVE-CMD the timer is
    reloaded with `t`, and it never exceeds `t`. -/
theorem bone_no_timeout (c : BoneCfg) (ins : List BoneIn) (s : BoneSt) (h : ins.length ≤ s.timer)
    (ht : s.timer ≤ c.t) : ((bone c).runFrom s ins).core = boneCoreRun c s.core ins :=
  no_timeout c ins s h ht

/-- Never stuck: from ANY state (any registers, any timer count `n`) and under ANY inputs the FSM is in
    RECEIVE-CMD at least once within `n + 1` cycles; in RECEIVE-CMD the timer is reloaded with `t`, and `n ≤ t` is
    preserved by every step — so a machine started from reset is never outside RECEIVE-CMD for more than `t + 1`
    consecutive cycles. -/
theorem bone_never_stuck (c : BoneCfg) (s : BoneSt) (ins : List BoneIn) (hlen : s.timer + 1 ≤ ins.length) :
    (∃ k, k ≤ s.timer + 1 ∧ ((bone c).runFrom s (ins.take k)).core.fsm = .recvCmd) ∧
    (∀ i, s.core.fsm = .recvCmd → (boneNext c s i).timer = c.t) ∧
    (∀ i, s.timer ≤ c.t → (boneNext c s i).timer ≤ c.t) :=
  ⟨never_stuck c s.timer s ins rfl hlen, fun i h => timer_reload c s i h, fun i h => timer_le c s i h⟩

section BoneExamples
/-- data_width = 16, address_width = 16, t = 12. -/
private def boneExCfg : BoneCfg := { dbW := 1, abW := 1, t := 12 }
private def boneExB (b : Nat) : BoneIn := { sinkValid := true, sinkData := b, sourceReady := false, ack := false, datR := 0 }
private def boneExIdle : BoneIn := { sinkValid := false, sinkData := 0, sourceReady := false, ack := false, datR := 0 }
private def boneExAck (d : Nat) : BoneIn := { sinkValid := false, sinkData := 0, sourceReady := false, ack := true, datR := d }
private def boneExRdy : BoneIn := { sinkValid := false, sinkData := 0, sourceReady := true, ack := false, datR := 0 }

/-- Non-vacuity (write): cmd 1, length 2, address 0xFFFF (wraps), words 0x1234 and 0xABCD, with a gap and an
    ack delay: two writes at 0x7FFF (15 address lines) and 0x0000. -/
example : boneObs boneExCfg boneCoreInit
    [boneExB 1, boneExIdle, boneExB 2, boneExB 0xFF, boneExB 0xFF, boneExB 0x12, boneExIdle, boneExB 0x34, boneExIdle, boneExAck 0, boneExB 0xAB, boneExB 0xCD, boneExAck 0]
    = ({ boneCoreInit with cmd := 1, incr := true, length := 2, address := 1, data := 0xABCD, wc := 2 },
       [{ we := true, adr := 0x7FFF, datW := 0x1234, sel := 3 }, { we := true, adr := 0, datW := 0xABCD, sel := 3 }],
       []) := by decide

/-- Non-vacuity (read, fixed address): cmd 4, length 2, address 0x0102: two reads at 0x0102, the words go out MSB
    first, `last` on the fourth byte only. -/
example : (boneObs boneExCfg boneCoreInit
    [boneExB 4, boneExB 2, boneExB 1, boneExB 2, boneExAck 0xBEEF, boneExRdy, boneExIdle, boneExRdy, boneExIdle, boneExAck 0x1234, boneExRdy, boneExRdy]).2
    = ([{ we := false, adr := 0x0102, datW := 0, sel := 3 }, { we := false, adr := 0x0102, datW := 0, sel := 3 }],
       [(0xBE, false), (0xEF, false), (0x12, false), (0x34, true)]) := by decide

/-- Non-vacuity (bad command 7): back in RECEIVE-CMD after the address, nothing on the bus. -/
example : boneObs boneExCfg boneCoreInit [boneExB 7, boneExB 1, boneExB 0, boneExB 0]
    = ({ boneCoreInit with cmd := 7, length := 1 }, [], []) := by decide

/-- Negative fact (simulator semantics of `words_count == length - 1`): with `length = 0` a write burst does not
    end after any word — here after the first word the FSM asks for more data (RECEIVE-DATA) instead of returning
    to RECEIVE-CMD, and the complete machine only returns to RECEIVE-CMD by the timeout, 13 = t + 1 cycles after the
    command byte, whatever the host does (here: it keeps feeding words). -/
example : (boneCoreRun boneExCfg boneCoreInit [boneExB 1, boneExB 0, boneExB 0, boneExB 0, boneExB 5, boneExB 6, boneExAck 0]).fsm = .recvData := by
  decide

private def boneExLen0 : List BoneIn :=
  [boneExB 1, boneExB 0, boneExB 0, boneExB 0, boneExB 5, boneExB 6, boneExAck 0, boneExB 5, boneExB 6, boneExAck 0, boneExB 5, boneExB 6, boneExAck 0, boneExB 5]

example : (List.range 13).all (fun k => ((bone boneExCfg).runFrom (boneInit boneExCfg) (boneExLen0.take (k + 1))).core.fsm != .recvCmd)
    = true ∧ ((bone boneExCfg).runFrom (boneInit boneExCfg) boneExLen0).core.fsm = .recvCmd := by decide

/-- The byte offered in the cycle after the timeout is accepted (`sink.ready = 1`) but does not start a command:
    `done` is still asserted in that cycle. -/
example : let s := (bone boneExCfg).runFrom (boneInit boneExCfg) boneExLen0
    (boneCoreOut boneExCfg s.core).sinkReady = true ∧ s.timer = 0 ∧ (boneNext boneExCfg s (boneExB 1)).core.fsm = .recvCmd := by
  decide

/-- The same happens after a command that completes normally in exactly `t` cycles after its command byte (here a
    one-word write whose ack arrives in cycle 12 = t): the write is done, the FSM is in RECEIVE-CMD, but the timer has
    reached 0 in the same cycle, so the first byte of an immediately following command is accepted and lost. -/
example : let s := (bone boneExCfg).runFrom (boneInit boneExCfg)
                     ([boneExB 1, boneExB 1, boneExB 0, boneExB 0, boneExB 5, boneExB 6] ++ List.replicate 6 boneExIdle ++ [boneExAck 0])
    s.core.fsm = .recvCmd ∧ s.core.wc = 1 ∧ s.timer = 0 ∧ (boneCoreOut boneExCfg s.core).sinkReady = true ∧
    (boneNext boneExCfg s (boneExB 2)).core.fsm = .recvCmd ∧ (boneNext boneExCfg s (boneExB 2)).core.cmd = 2 := by
  decide

/-- Non-vacuity of `bone_no_timeout` / `bone_never_stuck`: an abandoned command (the host stops after the length
    byte) is left after exactly t + 1 = 13 cycles. -/
example : ((bone boneExCfg).runFrom (boneInit boneExCfg) ([boneExB 1, boneExB 2] ++ List.replicate 11 boneExIdle)).core.fsm = .recvAddr ∧
    ((bone boneExCfg).runFrom (boneInit boneExCfg) ([boneExB 1, boneExB 2] ++ List.replicate 12 boneExIdle)).core.fsm = .recvCmd := by
  decide
end BoneExamples

/-! ## `split`, a polling writer on a dead PHY, `UARTCrossover` (lemmas in `LitexProofs/Periph/Glue2.lean`) -/

/-- **split_concat.**  `split(v, *counts)` on a `w`-bit `v` with `sum(counts) ≤ w` (the real function just slices
    consecutive ranges; bits above the sum are left over): the parts, part `j` placed at bit offset `sum(counts[:j])`
    (`cat` of (count, part) pairs), give back `v mod 2^sum(counts)` — all of `v` when the counts add up to `w`; there is
    one part per count, part `j < 2^counts[j]`, and a zero count gives 0 (`None` in the real code). -/
theorem split_concat (w v : Nat) (counts : List Nat) (hv : v < 2 ^ w) (hs : counts.sum ≤ w) :
    cat (counts.zip (split w v counts)) = v % 2 ^ counts.sum ∧
    (counts.sum = w → cat (counts.zip (split w v counts)) = v) ∧
    (split w v counts).length = counts.length ∧
    (∀ (j p c : Nat), (split w v counts)[j]? = some p → counts[j]? = some c → p < 2 ^ c ∧ (c = 0 → p = 0)) := by
  have h := splitFrom_cat w (trunc w v) 0 counts (by omega)
  rw [trunc_of_lt hv] at h
  have e : cat (counts.zip (split w v counts)) = v % 2 ^ counts.sum := by
    unfold split; rw [trunc_of_lt hv, h]; simp [slice]
  refine ⟨e, fun hw => by rw [e, hw, Nat.mod_eq_of_lt hv], splitFrom_length _ _ _ _, fun j p c hp hc => ?_⟩
  have hlt := splitFrom_part_lt w (trunc w v) 0 counts j p c hp hc
  exact ⟨hlt, fun h0 => by subst h0; omega⟩

example : split 7 0b1011101 [2, 0, 3, 1] = [1, 0, 7, 0] ∧
    cat ([2, 0, 3, 1].zip (split 7 0b1011101 [2, 0, 3, 1])) = 0b011101 ∧
    cat ([2, 0, 3, 2].zip (split 7 0b1011101 [2, 0, 3, 2])) = 0b1011101 := by decide

/-- **uart_auto_flush_unblocks.**  PHY dead (`source.ready` low in every cycle), software doing anything it likes
    (writing whenever it sees `txfull = 0`, or blindly): once the timeout has elapsed (`n ≥` the timer's count, at most
    `T` from any reachable state) every window of `2^k + 1` consecutive cycles contains one with `txfull = 0` — `txfull`
    is never high for more than `2^k` consecutive cycles, a polling writer is never blocked for ever. -/
theorem uart_auto_flush_unblocks (dtx drx : Nat) (rxWe : Bool) (T k : Nat) (hd : 0 < dtx) (s : UartFlushSt)
    (f : Nat → UartTopIn) (hf : ∀ t, (f t).srcRdy = false) (hfc : s.fc < 2 ^ k) (n : Nat) (hn : s.cnt ≤ n) :
    ∃ j, j ≤ 2 ^ k ∧
      ((uartFlush dtx drx rxWe T k).out (runFn (uartFlush dtx drx rxWe T k) s f (n + j)) (f (n + j))).txfull = false :=
  flush_unblocks dtx drx rxWe T k hd s f hf hfc n hn

/-- Non-vacuity (timeout 3, `flush_count` 2 bits, depth 2, software writing in every cycle): `txfull` is high in cycles
    3–4, 6–8, 10–12 and low in cycles 5 and 9 — runs of at most `2^k - 1 = 3` here, never more than `2^k`. -/
example :
    let m := uartFlush 2 2 false 3 2
    let f : Nat → UartTopIn := fun t => ⟨true, 0x41 + t, false, false, false, 0, false⟩
    (List.range 14).map (fun t => (m.out (runFn m m.init f t) (f t)).txfull) =
      [false, false, false, true, true, false, true, true, true, false, true, true, true, false] := by decide

/-- **uart_crossover_no_loss.**  `UARTCrossover` (main `UART(dtx, drx, rx_fifo_rx_we)`, `xover = UART(1, 16, True)`,
    cross-connected), every history of software accesses on both CSR sides from reset:
      * main → xover: the characters written to the main `rxtx` while its `txfull = 0` = the characters taken from the
        xover `rxtx` ++ what waits in the xover RX FIFO ++ what waits in the main TX FIFO — in order, nothing lost or
        duplicated, at most `16 + 1 + dtx + 1` in flight;
      * xover → main: the characters written to the xover `rxtx` while its `txfull = 0` = the characters taken from the
        main `rxtx` ++ what waits in the main RX FIFO ++ the xover TX register (`SyncFIFO(depth=1)` = `PipeValid`). -/
theorem uart_crossover_no_loss (dtx drx : Nat) (rxWe : Bool) (ins : List (CsrIn × CsrIn)) :
    let m := uartCrossover dtx drx rxWe
    let s := m.run ins
    xoWritten dtx drx rxWe m.init ins =
      xoRead dtx drx rxWe m.init ins ++ dataOf (fbInflight s.xrx) ++ dataOf (fbInflight s.main.tx) ∧
    s.main.tx.q.length ≤ dtx ∧ s.xrx.q.length ≤ 16 ∧
    xoWrittenX dtx drx rxWe m.init ins =
      xoReadM dtx drx rxWe m.init ins ++ dataOf (fbInflight s.main.rx) ++ dataOf (pvInflight s.xtx) ∧
    s.main.rx.q.length ≤ drx := by
  intro m s
  have h1 := xover_run dtx drx rxWe ins m.init (by simp [m, uartCrossover, xoverInit, Stream.syncFifoBuffered])
    (by simp [m, uartCrossover, xoverInit, Stream.syncFifoBuffered])
  have h2 := xover_run_back dtx drx rxWe ins m.init (by simp [m, uartCrossover, xoverInit, Stream.syncFifoBuffered])
    (by simp [m, uartCrossover, xoverInit, Stream.pipeValid, zTokN])
  refine ⟨?_, h1.2.1, h1.2.2, ?_, h2.2.1⟩
  · have := h1.1
    have e0 : dataOf (fbInflight m.init.xrx) ++ dataOf (fbInflight m.init.main.tx) = [] := rfl
    rw [e0, List.nil_append] at this
    exact this
  · have := h2.1
    have e0 : dataOf (fbInflight m.init.main.rx) ++ dataOf (pvInflight m.init.xtx) = [] := rfl
    rw [e0, List.nil_append] at this
    exact this

example :
    let m := uartCrossover 2 2 false
    let wr : Nat → Nat → CsrIn × CsrIn := fun a b => (⟨true, a, false, false⟩, ⟨true, b, false, false⟩)
    let rd : CsrIn × CsrIn := (⟨false, 0, false, true⟩, ⟨false, 0, true, false⟩)
    let idle : CsrIn × CsrIn := (⟨false, 0, false, false⟩, ⟨false, 0, false, false⟩)
    let ins := [wr 0x41 0x61, wr 0x42 0x62, wr 0x43 0x63, idle, idle, idle, rd, idle, rd]
    xoWritten 2 2 false m.init ins = [0x41, 0x42, 0x43] ∧ xoRead 2 2 false m.init ins = [0x41, 0x42] ∧
    (xoWrittenX 2 2 false m.init ins, xoReadM 2 2 false m.init ins) = ([0x61, 0x62, 0x63], [0x61, 0x62]) := by decide

/-! ## `add_auto_tx_flush` after the fix: delivered exactly once, or flushed (lemmas in `LitexProofs/Periph/Glue2.lean`) -/

/-- **uart_auto_flush_exactly_once.**  `UART.add_auto_tx_flush` with the pop strobe
    `timer.done ? (source.ready | flush_count == 0) : source.ready`, from any state with at most `dtx` queued characters
    (in particular from reset) and for EVERY input history — all schedules of `source.ready`, any software writes:
      1. the characters accepted from `rxtx` (`re ∧ ¬txfull`) = the pop log of the TX FIFO ++ what still waits in it
         (`s` not at reset: preceded by what waited before): nothing lost, duplicated or reordered;
      2. the characters handed to the PHY (`source.valid ∧ source.ready`) are exactly the pops with `source.ready`, the
         flushed characters exactly the pops without: every character is delivered once or flushed, never both, never
         twice;
      3. per cycle: a PHY handshake always pops (the fact that fails for the old strobe, see below), and a pop without
         `source.ready` happens only with the timer expired (`cnt = 0`: no `source.ready` for the last `T` cycles or
         more, `WaitTimer`) and `flush_count = 0`. -/
theorem uart_auto_flush_exactly_once (dtx drx : Nat) (rxWe : Bool) (T k : Nat) (s : UartFlushSt) (ins : List UartTopIn)
    (h : s.top.tx.q.length ≤ dtx) :
    let s' := (uartFlush dtx drx rxWe T k).runFrom s ins
    let pops := flPops dtx drx rxWe T k s ins
    dataOf (fbInflight s.top.tx) ++ flWritten dtx drx rxWe T k s ins = pops.map (·.1) ++ dataOf (fbInflight s'.top.tx) ∧
    s'.top.tx.q.length ≤ dtx ∧
    flPhy dtx drx rxWe T k s ins = (pops.filter (·.2)).map (·.1) ∧
    flFlushed dtx drx rxWe T k s ins = (pops.filter (!·.2)).map (·.1) ∧
    (∀ st : UartFlushSt, flushPop st true = true) ∧
    (∀ st : UartFlushSt, flushPop st false = true → st.cnt = 0 ∧ st.fc = 0) := by
  intro s' pops
  obtain ⟨h1, h2⟩ := flush_pops_run dtx drx rxWe T k ins s h
  obtain ⟨h3, h4⟩ := flush_pops_split dtx drx rxWe T k ins s
  exact ⟨h1, h2, h3, h4, flushPop_of_ready, flushPop_flush⟩

/-- From reset: `flWritten = pops ++ waiting`. -/
theorem uart_auto_flush_exactly_once_reset (dtx drx : Nat) (rxWe : Bool) (T k : Nat) (ins : List UartTopIn) :
    let m := uartFlush dtx drx rxWe T k
    flWritten dtx drx rxWe T k m.init ins =
      (flPops dtx drx rxWe T k m.init ins).map (·.1) ++ dataOf (fbInflight (m.run ins).top.tx) := by
  intro m
  have h := (flush_pops_run dtx drx rxWe T k ins m.init (Nat.zero_le _)).1
  have e0 : dataOf (fbInflight m.init.top.tx) = [] := rfl
  rw [e0, List.nil_append] at h
  exact h

/-- Non-vacuity (timeout 3, `flush_count` 2 bits): three writes, the PHY silent for five cycles — 0x41 is flushed in cycle
    4 (`flush_count = 0`) — then the PHY recovers in cycle 5 with the timer expired and `flush_count = 1`: 0x42 and 0x43
    are each handed over once.  With the strobe before the fix (`flushPopOld`) that very state breaks fact 3: the PHY
    takes 0x42 (`source.valid ∧ source.ready`) but the FIFO does not pop and still offers 0x42 in the next cycle. -/
example :
    let m := uartFlush 2 2 false 3 2
    let w : Nat → UartTopIn := fun d => ⟨true, d, false, false, false, 0, false⟩
    let q : UartTopIn := ⟨false, 0, false, false, false, 0, false⟩
    let r : UartTopIn := ⟨false, 0, false, false, false, 0, true⟩
    let ins := [w 0x41, w 0x42, w 0x43, q, q, r, r, q, r]
    flWritten 2 2 false 3 2 m.init ins = [0x41, 0x42, 0x43] ∧
    flPops 2 2 false 3 2 m.init ins = [(0x41, false), (0x42, true), (0x43, true)] ∧
    flPhy 2 2 false 3 2 m.init ins = [0x42, 0x43] ∧ flFlushed 2 2 false 3 2 m.init ins = [0x41] ∧
    (let s5 := m.run (ins.take 5)
     (s5.cnt, s5.fc, (m.out s5 r).srcV, (m.out s5 r).srcD) = (0, 1, true, 0x42) ∧
     flushPop s5 true = true ∧ (uartFlushNext 2 2 false 3 2 s5 r).top.tx.dout.data = 0x43 ∧
     flushPopOld s5 true = false ∧ (uartFlushNextOld 2 2 false 3 2 s5 r).top.tx.dout.data = 0x42 ∧
     (uartFlushNextOld 2 2 false 3 2 s5 r).top.tx.readable = true) := by decide +kernel

/-- Negative witness for the old strobe: `source.valid ∧ source.ready` does not imply a pop. -/
example : ¬ ∀ st : UartFlushSt, flushPopOld st true = true :=
  fun h => absurd (h ⟨⟨⟨[], true, tokN 0x42⟩, ⟨[], false, zTokN⟩⟩, 0, 1⟩) (by decide)

/-! ## SPI slave: the received word is untouched while the slave is deselected -/

/-- **spi_slave_word_stable_while_deselected.**  Shared bus: once chip select has been seen released through the
    synchroniser (`s0 = s1 = 0`, i.e. `cs_n` high on the pads for the last two cycles — `spi_slave_pads`), **any** activity
    on `pads.clk` / `pads.mosi` (traffic to another slave), any `loopback` and any word-to-send, for as long as `cs_n` stays
    high: the received word `self.mosi` keeps its value, the slave stays deselected, and once the FSM is back in IDLE
    (`xfer = 0`, from the second cycle on in any case) `length` keeps its value too: what software reads after `irq` is
    the word of *that* transfer until the next one starts.  (`spi_slave_xfer` / `spi_slave_capture` quantify over the
    cycles in which chip select is asserted; this theorem covers all the others.) -/
theorem spi_slave_word_stable_while_deselected (dw : Nat) (s : SlvSt) (hs0 : s.s0 = false) (hs1 : s.s1 = false)
    (ins : List SlvIn) (h : ∀ i ∈ ins, i.csN = true) :
    let e := (spiSlave dw).runFrom s ins
    e.rx = s.rx ∧ e.s0 = false ∧ e.s1 = false ∧ (s.xfer = false → e.length = s.length ∧ e.xfer = false) ∧
    (ins ≠ [] → e.xfer = false) ∧
    (∀ j, ((spiSlave dw).out e j).rx = s.rx ∧ ((spiSlave dw).out e j).start = false) := by
  induction ins generalizing s with
  | nil =>
    refine ⟨rfl, hs0, hs1, fun hx => ⟨rfl, hx⟩, fun hne => absurd rfl hne, fun j => ⟨rfl, ?_⟩⟩
    show (!s.xfer && s.s1) = false
    rw [hs1]; simp
  | cons i is ih =>
    have hi := h i (by simp)
    have n0 : (slvNext dw s i).s0 = false := by simp [slvNext, hi]
    have n1 : (slvNext dw s i).s1 = false := by simp [slvNext, hs0]
    have nrx : (slvNext dw s i).rx = s.rx := by simp [slvNext, hs1]
    have nx : (slvNext dw s i).xfer = false := by simp [slvNext, hs1]
    have nl : s.xfer = false → (slvNext dw s i).length = s.length := by
      intro hx; simp [slvNext, hx, hs1]
    have := ih (slvNext dw s i) n0 n1 (fun j hj => h j (by simp [hj]))
    simp only at this
    obtain ⟨a, b, c, d, _, f⟩ := this
    show _ ∧ _
    rw [slv_runFrom_cons]
    refine ⟨by rw [a, nrx], b, c, fun hx => ?_, fun _ => (d nx).2, fun j => ?_⟩
    · have := d nx
      exact ⟨by rw [this.1, nl hx], this.2⟩
    · have := f j
      exact ⟨by rw [this.1, nrx], this.2⟩

/-- Non-vacuity: a received word 0b101 survives eight cycles of foreign clock/MOSI activity with `cs_n` high. -/
example :
    let s : SlvSt := ⟨false, false, false, false, false, false, false, false, 3, 0, 0b101⟩
    let foreign : List SlvIn := (List.range 8).map fun k => ⟨k % 2 == 1, true, k % 3 == 0, 7, false⟩
    ((spiSlave 3).runFrom s foreign).rx = 0b101 ∧ ((spiSlave 3).runFrom s foreign).length = 3 := by decide

end Litex.C19
