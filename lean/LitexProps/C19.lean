import LitexProofs.Periph.Timers
import LitexProofs.Periph.UartRx
import LitexProofs.Periph.Spi
import LitexProofs.Periph.I2c
import LitexProofs.Periph.Loopback
import LitexProofs.Periph.Tolerance
import LitexProofs.Periph.UartIdle
import LitexProofs.Periph.SpiCount
import LitexProofs.Periph.SpiSlave
import LitexProofs.Periph.I2cWrite
import LitexProofs.Periph.I2cPad
import LitexProofs.Periph.UartSys
import LitexProofs.Periph.SpiSeq
import LitexProofs.Periph.GlueMisc
/-
  C19 — Serial peripherals and timers produce exact waveforms and always finish.

  Models: `LitexModel/Periph/*` (Timer, Watchdog, WaitTimer, PWM, timeline, RS232 phase accumulator / TX / RX,
  SPIMaster, SPISlave, I2CMasterMachine), compared with the real cores on every run.  Every theorem quantifies over
  all input histories (`List` of per-cycle inputs, or a function `Nat → input` for the cycles of a frame), all data
  values and all parameters (tuning word, divider, load values, widths) subject to the stated side conditions.
-/
namespace Litex.C19
open Litex Litex.Periph

/-! ## Timer -/

/-- **One-shot.**  After any history, a disabled cycle loads `load = L`; from the next cycle on (the first in which
    the enable is visible), with `reload = 0`, the zero event is raised exactly `L` cycles later — not earlier —
    and stays (the counter stops at 0). -/
theorem timer_oneshot (pre : List TimerIn) (d : TimerIn) (run : List TimerIn) (i : TimerIn)
    (hd : d.en = false) (hrun : ∀ j ∈ run, j.en = true ∧ j.reload = 0) :
    (timer.out (timer.run (pre ++ d :: run)) i).zero = decide (d.load ≤ run.length) := by
  simp only [Machine.run, Machine.runFrom_append, timer_runFrom_cons]
  show ((timer.runFrom _ run).value == 0) = _
  rw [timer_countdown run hrun, timer_disabled_loads _ d hd]
  by_cases h : d.load ≤ run.length
  · simp [h, Nat.sub_eq_zero_of_le h]
  · have : d.load - run.length ≠ 0 := by omega
    simp [h, this]

example : (timer.trace [⟨3, 0, false, false⟩, ⟨9, 0, true, false⟩, ⟨9, 0, true, false⟩, ⟨9, 0, true, false⟩,
    ⟨9, 0, true, false⟩, ⟨9, 0, true, false⟩]).map (·.zero) = [true, false, false, false, true, true] := by decide

/-- **One step per enabled cycle**, whatever `reload` says, until 0 is reached. -/
theorem timer_counts (s : TimerSt) (ins : List TimerIn) (h : ∀ i ∈ ins, i.en = true) (hlen : ins.length ≤ s.value) :
    (timer.runFrom s ins).value = s.value - ins.length :=
  timer_countdown_any_reload ins h s hlen

/-- **Periodic.**  From a zero event, with `reload = R` and the timer enabled, the next zero events come exactly
    every `R + 1` cycles: zero is raised `k` cycles later iff `R + 1` divides `k`. -/
theorem timer_periodic (R : Nat) (s : TimerSt) (hs : s.value = 0) (ins : List TimerIn)
    (h : ∀ i ∈ ins, i.en = true ∧ i.reload = R) (i : TimerIn) :
    (timer.out (timer.runFrom s ins) i).zero = true ↔ (R + 1) ∣ ins.length := by
  have hinv := timer_periodic_inv R ins h s 0 (by omega) (by simp [hs])
  show ((timer.runFrom s ins).value == 0) = true ↔ _
  simp only [Nat.zero_add, beq_iff_eq] at *
  constructor
  · intro h0; rw [h0] at hinv; simpa using hinv.2
  · intro hdvd
    have hv : (R + 1) ∣ (timer.runFrom s ins).value := (Nat.dvd_add_right hdvd).mp hinv.2
    exact Nat.eq_zero_of_dvd_of_lt hv (by omega)

example : (timer.traceFrom ⟨0, 0⟩ (List.replicate 7 ⟨0, 2, true, false⟩)).map (·.zero) =
    [true, false, false, true, false, false, true] := by decide

/-- **Value latch.**  `value` holds the count of the last cycle in which `update_value` was written. -/
theorem timer_latch (pre : List TimerIn) (u : TimerIn) (post : List TimerIn)
    (hu : u.upd = true) (hpost : ∀ j ∈ post, j.upd = false) :
    (timer.run (pre ++ u :: post)).status = (timer.run pre).value := by
  simp only [Machine.run, Machine.runFrom_append, timer_runFrom_cons]
  rw [timer_status_hold post hpost]
  simp [timerNext, hu]

example : (timer.run [⟨5, 0, false, false⟩, ⟨0, 0, true, false⟩, ⟨0, 0, true, true⟩, ⟨0, 0, true, false⟩]).status = 4 := by
  decide

/-! ## Watchdog -/

/-- **Counting and saturation.**  Enabled and not fed, `remaining` goes down one step per cycle and saturates at 0;
    `execute` is raised the cycle after an enabled cycle that saw `remaining == 0`, i.e. after `remaining + 1`
    enabled cycles, and not earlier. -/
theorem watchdog_counts (d : Nat) (s : WdSt) (ins : List WdIn) (h : ∀ i ∈ ins, i.enable = true ∧ i.feed = false) :
    ((watchdog d).runFrom s ins).remaining = s.remaining - ins.length ∧
    (ins ≠ [] → ((watchdog d).runFrom s ins).execute = decide (s.remaining < ins.length)) :=
  wd_countdown d ins h s

/-- **Feed** reloads `remaining` with `cycles` (also while disabled or halted). -/
theorem watchdog_feed (d : Nat) (s : WdSt) (i : WdIn) (h : i.feed = true) :
    (wdNext d s i).remaining = i.cycles ∧ (wdNext d s i).execute = s.execute := by
  simp [wdNext, h]

/-- After a feed with `cycles ≠ 0` the next enabled cycle withdraws the timeout. -/
theorem watchdog_feed_clears (d : Nat) (s : WdSt) (i j : WdIn) (h : i.feed = true) (hc : i.cycles ≠ 0)
    (hj : j.enable = true) (hjf : j.feed = false) : (wdNext d (wdNext d s i) j).execute = false := by
  simp [wdNext, h, hj, hjf, hc]

/-- **Pause.**  Disabled, or halted with `pause_halted`, and not fed: nothing moves. -/
theorem watchdog_paused (d : Nat) (s : WdSt) (ins : List WdIn) (h : ∀ i ∈ ins, i.enable = false ∧ i.feed = false) :
    ((watchdog d).runFrom s ins).remaining = s.remaining ∧ ((watchdog d).runFrom s ins).execute = s.execute :=
  wd_frozen d ins h s

/-- **Reset delay.**  After every history from reset the reset output is high iff the timeout condition
    (`enable ∧ execute ∧ reset mode`) holds now and has held for the `reset_delay` cycles before. -/
theorem watchdog_reset_delay (d : Nat) (ins : List WdIn) (i : WdIn) :
    ((watchdog d).out ((watchdog d).run ins) i).crgRst =
      (wdWait ((watchdog d).run ins) i && decide (d ≤ WaitTimer.streak (wdWaits d (watchdog d).init ins))) := by
  have h := wd_rcount d ins (watchdog d).init 0 (by simp [watchdog])
  show (wdWait _ i && WaitTimer.done ((watchdog d).runFrom (watchdog d).init ins).rcount) = _
  rw [h]
  congr 1
  simp only [WaitTimer.done, WaitTimer.streak]
  by_cases hle : d ≤ WaitTimer.streakFrom 0 (wdWaits d (watchdog d).init ins)
  · simp [hle, Nat.sub_eq_zero_of_le hle]
  · have : d - WaitTimer.streakFrom 0 (wdWaits d (watchdog d).init ins) ≠ 0 := by omega
    simp [hle, this]

/-- **No reset without a timeout**, for every `reset_delay` (also 0, the constructor default): the reset output is
    high only in a cycle in which the watchdog is enabled, has timed out and is in reset mode. -/
theorem watchdog_no_spurious_reset (d : Nat) (ins : List WdIn) (i : WdIn)
    (h : ((watchdog d).out ((watchdog d).run ins) i).crgRst = true) :
    i.enable = true ∧ ((watchdog d).run ins).execute = true ∧ i.resetF = true := by
  rw [watchdog_reset_delay] at h
  simp only [wdWait, Bool.and_eq_true] at h
  exact ⟨h.1.1.1, h.1.1.2, h.1.2⟩

/-- `reset_delay = 0`: quiet in the reset state, reset in the very cycle of a timeout in reset mode. -/
example : ((watchdog 0).out (watchdog 0).init ⟨false, false, false, false, false, 0⟩).crgRst = false ∧
    (((watchdog 0).trace (List.replicate 3 ⟨false, true, true, false, false, 0⟩)).map (·.crgRst)) =
      [false, true, true] := by decide

example : (((watchdog 2).trace (List.replicate 6 ⟨false, true, true, false, false, 0⟩)).map (·.crgRst)) =
    [false, false, false, true, true, true] := by decide

/-! ## WaitTimer -/

/-- `done` exactly when `wait` has been held for the last `t` cycles or more — for every history. -/
theorem waittimer_done_iff (t : Nat) (ws : List Bool) :
    WaitTimer.done (WaitTimer.run t ws) = decide (t ≤ WaitTimer.streak ws) := by
  have h := waittimer_count t ws t 0 (by simp)
  simp only [WaitTimer.run, WaitTimer.runFrom, Machine.run, WaitTimer.machine] at *
  rw [h]
  simp only [WaitTimer.done, WaitTimer.streak]
  by_cases hle : t ≤ WaitTimer.streakFrom 0 ws
  · simp [hle, Nat.sub_eq_zero_of_le hle]
  · have : t - WaitTimer.streakFrom 0 ws ≠ 0 := by omega
    simp [hle, this]

example : WaitTimer.done (WaitTimer.run 3 [true, true, false, true, true, true]) = true ∧
          WaitTimer.done (WaitTimer.run 3 [true, true, true, false, true, true]) = false := by decide

/-! ## PWM -/

/-- **Waveform.**  Enabled, not reset, constant `period = P ≥ 1`: the counter is a mod-`P` counter, and the output
    one cycle later is high iff the counter is below `width`. -/
theorem pwm_wave (P : Nat) (s : PwmSt) (hs : s.counter < P) (ins : List PwmIn)
    (h : ∀ i ∈ ins, i.enable = true ∧ i.reset = false ∧ i.period = P) (i : PwmIn) (hi : i.enable = true) :
    (pwm.runFrom s ins).counter = (s.counter + ins.length) % P ∧
    (pwmNext (pwm.runFrom s ins) i).pwm = decide ((s.counter + ins.length) % P < i.width) := by
  have hc := pwm_counter P ins h s hs
  exact ⟨hc, by simp [pwmNext, hi, hc]⟩

/-- **Duty.**  Over one period (`P` cycles from counter 0, constant `width = W`) the output register is loaded with
    1 in exactly `min W P` cycles: high for `width` of every `period` cycles (always high if `width ≥ period`). -/
theorem pwm_duty (P W : Nat) (s : PwmSt) (hs : s.counter = 0) (ins : List PwmIn) (hlen : ins.length = P)
    (h : ∀ i ∈ ins, i.enable = true ∧ i.reset = false ∧ i.period = P ∧ i.width = W) :
    pwmHighs s ins = min W P := by
  rw [pwm_highs_window P W ins h s (by omega), hs, hlen, ← List.range_eq_range', count_lt_range]

example : (pwm.trace (List.replicate 9 ⟨true, false, 1, 4⟩)) =
    [false, true, false, false, false, true, false, false, false] := by decide

/-! ## timeline -/

/-- **timeline.**  `last ≥ 1` is the largest event time.  From the idle counter a trigger starts the sequence; `k`
    cycles after the trigger cycle (`1 ≤ k ≤ last`) the counter shows `k` — so the event with time `e` fires exactly
    `e` cycles after the trigger, whatever the trigger input does meanwhile — and one cycle after `last` the counter is
    idle again (also when `last + 1` is a power of two and the counter simply overflows). -/
theorem timeline_sequence (last : Nat) (hl : 1 ≤ last) (ts : List Bool) (hlen : ts.length < last) (t : Bool) :
    (timelineM last).runFrom 0 (true :: ts) = 1 + ts.length ∧
    timelineFires (1 + ts.length) ((timelineM last).runFrom 0 (true :: ts)) t = true ∧
    (ts.length + 1 = last → (timelineM last).runFrom 0 (true :: ts ++ [t]) = 0) ∧
    (timelineM last).runFrom 0 [false] = 0 := by
  have h1 : (timelineM last).runFrom 0 (true :: ts) = 1 + ts.length := by
    show (timelineM last).runFrom (timelineNext last 0 true) ts = _
    rw [timeline_next_idle last true hl]
    exact timeline_counts last hl ts 1 (by omega) (by omega)
  refine ⟨h1, ?_, ?_, ?_⟩
  · rw [h1]
    have : ¬ (1 + ts.length = 0) := by omega
    simp [timelineFires]
  · intro he
    have : (timelineM last).runFrom 0 (true :: ts ++ [t]) =
        timelineNext last ((timelineM last).runFrom 0 (true :: ts)) t := by
      rw [show true :: ts ++ [t] = (true :: ts) ++ [t] from rfl, Machine.runFrom_append]; rfl
    rw [this, h1, timeline_next_running last _ t hl (by omega) (by omega)]
    have : 1 + ts.length = last := by omega
    simp [this]
  · show timelineNext last 0 false = 0
    rw [timeline_next_idle last false hl]; rfl

example : ((List.range 9).map fun k => (timelineM 5).runFrom 0 ((true :: List.replicate 8 true).take k)) =
    [0, 1, 2, 3, 4, 5, 0, 1, 2] := by decide

/-! ## Phase accumulator, UART transmitter -/

/-- **phase_accum.**  `j` enabled cycles after a disabled one: `phase = ((j+1)·tw) mod 2^32` and the number of
    ticks produced is `⌊(j+1)·tw / 2^32⌋` (tx mode); rx mode starts from `2^31`.  `tick` is one bit, so there is
    at most one tick per cycle, and for `tw < 2^32` no carry is lost. -/
theorem phase_accum (tw : Nat) (rx : Bool) (htw : tw < M32) (a : Acc) (j : Nat) :
    let a0 := accNext tw rx a false
    (accRun tw rx a0 j).phase = (accLoad tw rx + j * tw) % M32 ∧
    accTicks tw rx a0 j = (accLoad tw rx + j * tw) / M32 := by
  intro a0
  have hl : accLoad tw rx < M32 := by
    unfold accLoad; split
    · unfold HALF32 M32; omega
    · exact htw
  have hp : a0.phase = accLoad tw rx := by simp [a0, accNext, Acc.ofNat, Nat.mod_eq_of_lt hl]
  have := acc_enabled tw rx htw j a0 (by rw [hp]; exact hl)
  rw [hp] at this
  exact this

example : accTicks 0x55555555 false (accNext 0x55555555 false ⟨0, false⟩ false) 9 = 3 := by decide

/-- **uart_tx_frame.**  For every byte `d`, every tuning word `0 < tw < 2^32`, every idle state and every input on the
    sink during the frame: `r` cycles after the byte was accepted (while `r·tw < 10·2^32`) the transmitter is in RUN
    and the pad carries bit `⌊r·tw / 2^32⌋` of the frame `start(0), d0 … d7, stop(1)` — bit `b` occupies exactly the
    cycles between tick `b` and tick `b+1`, so every bit lasts `⌊2^32/tw⌋` or `⌈2^32/tw⌉` cycles and the error never
    accumulates to a full cycle; `sink.ready` is high exactly in the last cycle of the stop bit; the next state is
    IDLE with the line high. -/
theorem uart_tx_frame (tw : Nat) (htw : tw < M32) (s : TxSt) (hs : s.run = false) (i0 : TxIn) (hv : i0.valid = true)
    (hd : i0.data < 256) (f : Nat → TxIn) (r : Nat) (hr : r * tw < 10 * M32) :
    let st := runFn (uartTx tw) (txNext tw s i0) f r
    st.run = true ∧ ((uartTx tw).out st (f r)).tx = frameBit i0.data (r * tw / M32) ∧
    (((uartTx tw).out st (f r)).ready = decide (10 * M32 ≤ (r + 1) * tw)) ∧
    (10 * M32 ≤ (r + 1) * tw → ((uartTx tw).next st (f r)).run = false ∧ ((uartTx tw).next st (f r)).tx = true) := by
  intro st
  have hst : st = txRunSt tw i0.data r := by
    simp only [st]; rw [tx_accept tw htw s i0 hs hv hd]; exact tx_run tw i0.data htw f r hr
  have hb : r * tw / M32 ≤ 10 := by unfold M32 at *; omega
  rw [hst]
  refine ⟨rfl, ?_, ?_, ?_⟩
  · show txHwBit i0.data (r * tw / M32) = _
    exact txHwBit_eq_frameBit _ _ hd hb
  · show txReady (txRunSt tw i0.data r) = _
    by_cases hl : 10 * M32 ≤ (r + 1) * tw
    · simp [hl, (tx_last tw i0.data r htw hd (f r) hr hl).1]
    · simp [hl, tx_not_ready tw i0.data r (by omega)]
  · intro hl
    exact (tx_last tw i0.data r htw hd (f r) hr hl).2

/-- **The frame always ends** (for `tw ≥ 1`), after exactly `⌈10·2^32 / tw⌉` cycles. -/
theorem uart_tx_finishes (tw : Nat) (h0 : 0 < tw) (htw : tw < M32) (s : TxSt) (hs : s.run = false) (i0 : TxIn)
    (hv : i0.valid = true) (hd : i0.data < 256) (f : Nat → TxIn) :
    let r := (10 * M32 - 1) / tw
    ((uartTx tw).out (runFn (uartTx tw) (txNext tw s i0) f r) (f r)).ready = true ∧
    (runFn (uartTx tw) (txNext tw s i0) f (r + 1)).run = false := by
  intro r
  have hdm := Nat.div_add_mod (10 * M32 - 1) tw
  have hml := Nat.mod_lt (10 * M32 - 1) h0
  have hc : r * tw = tw * ((10 * M32 - 1) / tw) := Nat.mul_comm _ _
  have e1 : (r + 1) * tw = r * tw + tw := Nat.succ_mul r tw
  have hM : 0 < M32 := by unfold M32; omega
  have h1 : r * tw < 10 * M32 := by omega
  have h2 : 10 * M32 ≤ (r + 1) * tw := by omega
  have h := uart_tx_frame tw htw s hs i0 hv hd f r h1
  simp only at h
  refine ⟨by rw [h.2.2.1]; simp [h2], ?_⟩
  exact (h.2.2.2 h2).1

example : (10 * M32 - 1) / 0x55555555 + 1 = 31 := by decide

/-! ## UART receiver -/

/-- **uart_rx_sample_points.**  `ln k` is the synchronised line in RUN cycle `k` (RUN cycle 0 is the cycle after the
    start edge `rx = 0 ∧ rx_d = 1` was seen; the pad is two synchroniser registers earlier).  For every line, every
    `tw < 2^32` and every cycle `r` up to the end of the frame: a tick in cycle `r` takes sample number `count + 1` and
    `r` is that sample's nominal cycle `⌈(n − ½)·2^32/tw⌉`; the shift register holds the samples taken so far; the frame
    completes exactly when `2^31 + r·tw ≥ 10·2^32`. -/
theorem uart_rx_sample_points (tw : Nat) (htw : tw < M32) (ln : Nat → Bool) (s0 : RxSt) (hrun : s0.run = true)
    (hc : s0.count = 0) (hacc : s0.acc = ⟨HALF32, false⟩) (hrx : s0.rx = ln 0) (hr0 : s0.r0 = ln 1)
    (r : Nat) (hr : HALF32 + r * tw < 10 * M32 + tw) :
    let st := runFn (uartRx tw) s0 (fun k => ln (k + 2)) r
    st.run = true ∧ st.rx = ln r ∧
    (st.acc.tick = true → r = rxSampleCycle tw (st.count + 1)) ∧
    st.data = rxData ln tw s0.data st.count ∧
    (rxDone st = true ↔ 10 * M32 ≤ HALF32 + r * tw) := by
  intro st
  have hinv : RxInv tw ln s0.data r st := rx_run tw htw ln s0.data s0 (rx_inv_entry tw ln s0 hrun hc hacc hrx hr0) r hr
  exact ⟨hinv.run, hinv.rx, rx_tick_cycle tw ln s0.data r st hinv, hinv.data, rx_done_iff tw ln s0.data r st hinv⟩

/-- **The received byte.**  The frame ends in the cycle of the tenth sample, `R = ⌈9.5·2^32/tw⌉` (it always ends for
    `tw ≥ 1`); there `source.valid` is the line value (the stop-bit check), bit `k` of `source.data` is the line at
    sample `k + 2` (LSB first), no byte was produced earlier, and the receiver returns to IDLE. -/
theorem uart_rx_frame (tw : Nat) (h0 : 0 < tw) (htw : tw < M32) (ln : Nat → Bool) (s0 : RxSt) (hrun : s0.run = true)
    (hc : s0.count = 0) (hacc : s0.acc = ⟨HALF32, false⟩) (hrx : s0.rx = ln 0) (hr0 : s0.r0 = ln 1)
    (hdat : s0.data < 256) :
    let R := rxSampleCycle tw 10
    let st := runFn (uartRx tw) s0 (fun k => ln (k + 2)) R
    ((uartRx tw).out st (ln (R + 2))).valid = ln R ∧
    (∀ k, k < 8 → ((uartRx tw).out st (ln (R + 2))).data.testBit k = ln (rxSampleCycle tw (k + 2))) ∧
    ((uartRx tw).out st (ln (R + 2))).data < 256 ∧
    ((uartRx tw).next st (ln (R + 2))).run = false ∧
    (∀ r, r < R → ((uartRx tw).out (runFn (uartRx tw) s0 (fun k => ln (k + 2)) r) (ln (r + 2))).valid = false) := by
  intro R st
  have hl := rx_last_cycle tw h0
  have h := uart_rx_sample_points tw htw ln s0 hrun hc hacc hrx hr0 R hl.2
  simp only at h
  obtain ⟨hrun', hrx', htk, hdata, hdone⟩ := h
  have hd : rxDone st = true := hdone.mpr hl.1
  have hd' := hd
  simp only [rxDone, Bool.and_eq_true, beq_iff_eq] at hd'
  obtain ⟨⟨_, htick⟩, hc9⟩ := hd'
  refine ⟨?_, ?_, ?_, ?_, ?_⟩
  · show (rxDone st && st.rx) = ln R
    rw [hd, hrx']; simp
  · intro k hk
    show st.data.testBit k = _
    rw [hdata, hc9, rxData_testBit ln tw s0.data hdat 9 k hk (by omega)]
    congr 2; omega
  · show st.data < 256
    rw [hdata]; exact rxData_lt ln tw s0.data hdat _
  · show (rxNext tw st _).run = false
    rw [rxNext_tick tw st _ hrun' htick]; simp [hc9]
  · intro r hr
    have e : r + 1 ≤ R := hr
    have hmul : (r + 1) * tw ≤ rxSampleCycle tw 10 * tw := Nat.mul_le_mul_right tw e
    have e1 : (r + 1) * tw = r * tw + tw := Nat.succ_mul r tw
    have hlt : HALF32 + r * tw < 10 * M32 := by omega
    have h := uart_rx_sample_points tw htw ln s0 hrun hc hacc hrx hr0 r (by omega)
    simp only at h
    show (rxDone _ && _) = false
    cases hdd : rxDone (runFn (uartRx tw) s0 (fun k => ln (k + 2)) r) with
    | false => rfl
    | true => have := h.2.2.2.2.mp hdd; omega

/-- **uart_rx_recovers_partial.**  Hypothesis: the synchronised line carries bit `b` of the frame of byte `d` at
    sample point `b + 1`, for `b = 0 … 9` (what "line constant around each sample point" gives).  Then the byte is
    produced, with the right value.  (Without the hypothesis the statement is false — any other line, see below.) -/
theorem uart_rx_recovers_partial (tw : Nat) (h0 : 0 < tw) (htw : tw < M32) (ln : Nat → Bool) (s0 : RxSt)
    (hrun : s0.run = true) (hc : s0.count = 0) (hacc : s0.acc = ⟨HALF32, false⟩) (hrx : s0.rx = ln 0)
    (hr0 : s0.r0 = ln 1) (hdat : s0.data < 256) (d : Nat) (hd : d < 256)
    (hline : ∀ b, b ≤ 9 → ln (rxSampleCycle tw (b + 1)) = frameBit d b) :
    let R := rxSampleCycle tw 10
    let o := (uartRx tw).out (runFn (uartRx tw) s0 (fun k => ln (k + 2)) R) (ln (R + 2))
    o.valid = true ∧ o.data = d := by
  intro R o
  have h := uart_rx_frame tw h0 htw ln s0 hrun hc hacc hrx hr0 hdat
  simp only at h
  obtain ⟨hv, hbits, hlt, _, _⟩ := h
  refine ⟨?_, ?_⟩
  · show ((uartRx tw).out _ _).valid = true
    rw [hv, hline 9 (by omega)]; rfl
  · apply Nat.eq_of_testBit_eq
    intro k
    by_cases hk : k < 8
    · show ((uartRx tw).out _ _).data.testBit k = _
      rw [hbits k hk, hline (k + 1) (by omega)]
      simp [frameBit]; omega
    · have hk8 : 8 ≤ k := by omega
      have p1 : (256 : Nat) ≤ 2 ^ k := by
        have : (2 : Nat) ^ 8 ≤ 2 ^ k := Nat.pow_le_pow_right (by omega) hk8
        omega
      rw [Nat.testBit_lt_two_pow (Nat.lt_of_lt_of_le hlt p1), Nat.testBit_lt_two_pow (Nat.lt_of_lt_of_le hd p1)]

/-- Negative witness for the unconditioned statement: a line stuck low after the start edge yields no byte
    (`tw = 2^30`, four cycles per bit; the stop-bit check fails at the tenth sample). -/
example :
    let s0 : RxSt := ⟨false, false, false, true, 0, 0, ⟨HALF32, false⟩⟩
    ((uartRx (2 ^ 30)).out (runFn (uartRx (2 ^ 30)) s0 (fun _ => false) (rxSampleCycle (2 ^ 30) 10)) false).valid = false := by
  decide

/-- Non-vacuity: the line of byte 0xA5 at four cycles per bit, seen one cycle late, is received as 0xA5. -/
example :
    let ln : Nat → Bool := fun k => frameBit 0xA5 ((k + 1) / 4)
    let s0 : RxSt := ⟨ln 1, ln 0, true, true, 0, 0, ⟨HALF32, false⟩⟩
    (uartRx (2 ^ 30)).out (runFn (uartRx (2 ^ 30)) s0 (fun k => ln (k + 2)) (rxSampleCycle (2 ^ 30) 10)) true
      = ⟨true, 0xA5⟩ := by
  decide

/-! ## SPI master

  Parameters: `c.dw` = data_width, `c.aligned` = mode, `div` = clk_divider (constant, `2 ≤ div < 2^16`), `L` = length
  with `1 ≤ L ≤ data_width`, `w` = the word in `mosi` when `start` was given.  During the transfer `start`, `mosi` and
  `pads.miso` are arbitrary in every cycle (`SpiHold` fixes only divider, length, `cs = 1`, `cs_mode = 0`, no loopback):
  overlapping start pulses and later writes to `mosi` are covered.  `length = 0` or `length > data_width` never
  leaves RUN and `div < 2` never leaves START/STOP — outside the property's quantifier. -/

/-- **Start, for every divider phase.**  From IDLE (divider counter anywhere inside its period), the cycle with
    `start = 1` drops `done` and latches the word; the master then waits `n + 1 = div − cnt` START cycles — clock low,
    chip select released — for the divider's next fall strobe and enters RUN in the state `RunInv … 0 0`: chip select
    asserted, bit counter 0, first MOSI bit on the pad. -/
theorem spi_master_start (c : SpiCfg) (div L : Nat) (hdiv : 2 ≤ div) (hd16 : div < 65536) (hL : 1 ≤ L) (hLw : L ≤ c.dw)
    (smp : Nat → Bool) (s : SpiSt) (hs : IdleOk div s) (x0 : SpiIn) (hx0 : SpiHold div L x0) (hst : x0.start = true)
    (n : Nat) (ins : List SpiIn) (hlen : ins.length = n + 1) (hins : ∀ x ∈ ins, SpiHold div L x)
    (hn : (spiNext c s x0).cnt + n + 1 = div) :
    ((spiMaster c).out s x0).done = false ∧
    (∀ o ∈ (spiMaster c).traceFrom (spiNext c s x0) ins, o.clk = false ∧ o.csN = true ∧ o.done = false ∧ o.irq = false) ∧
    RunInv c div L x0.mosi ((spiMaster c).runFrom (spiNext c s x0) ins).misoData smp 0 0
      ((spiMaster c).runFrom (spiNext c s x0) ins) := by
  have ha := spi_accept c div L hd16 hL hLw s x0 hx0 hst hs
  have hw := spi_start_wait c div L x0.mosi smp hdiv hd16 hL hLw n ins hlen hins (spiNext c s x0) ha.2.2.2 hn
  exact ⟨ha.1, hw.1, hw.2⟩

/-- **spi_master_xfer.**  From the first RUN cycle (time 0), for every pulse `i < L` and position `k < div`:
    in cycle `i·div + k` the clock pad is high iff `k ≥ div/2` (so exactly `L` pulses, period `div`, high for
    `div − div/2` cycles), chip select is asserted, MOSI carries bit `data_width−1−i` (raw) / `L−1−i` (aligned) of the
    word, `done = 0`, `irq = 0`.  Then `div/2` STOP cycles with the clock low and chip select still asserted, `irq`
    exactly in the last of them.  Then IDLE: `done` returns, and bit `k < L` of the received word is `pads.miso`
    sampled in the cycle of the rise strobe of pulse `L−1−k` (MSB first). -/
theorem spi_master_xfer (c : SpiCfg) (div L w m0 : Nat) (hdiv : 2 ≤ div) (hd16 : div < 65536) (hL : 1 ≤ L)
    (hLw : L ≤ c.dw) (f : Nat → SpiIn) (hf : ∀ t, SpiHold div L (f t)) (s0 : SpiSt)
    (h0 : RunInv c div L w m0 (spiSmp f div) 0 0 s0) :
    let st := fun t => runFn (spiMaster c) s0 f t
    let o := fun t => (spiMaster c).out (st t) (f t)
    (∀ i, i < L → ∀ k, k < div →
        (o (i * div + k)).clk = decide (div / 2 ≤ k) ∧ (o (i * div + k)).csN = false ∧
        (o (i * div + k)).mosi = w.testBit ((if c.aligned then L - 1 else c.dw - 1) - i) ∧
        (o (i * div + k)).done = false ∧ (o (i * div + k)).irq = false) ∧
    (∀ k, k < div / 2 →
        (o (L * div + k)).clk = false ∧ (o (L * div + k)).csN = false ∧ (o (L * div + k)).done = false ∧
        (o (L * div + k)).irq = decide (k + 1 = div / 2)) ∧
    ((o (L * div + div / 2)).done = !(f (L * div + div / 2)).start ∧ (o (L * div + div / 2)).clk = false ∧
     (o (L * div + div / 2)).irq = false ∧
     ∀ k, k < L → (o (L * div + div / 2)).miso.testBit k = (f ((L - 1 - k) * div + (div / 2 - 1))).miso) := by
  intro st o
  have hrun := spi_run c div L w m0 hdiv hd16 hL hLw f hf s0 h0
  have hstop := spi_stop c div L w m0 hdiv hd16 hL hLw f hf s0 h0
  refine ⟨?_, ?_, ?_⟩
  · intro i hi k hk
    have h := hrun i hi k hk
    have hrise : spiRise (st (i * div + k)) (f (i * div + k)) = decide (k + 1 = div / 2) :=
      spiRise_eq _ _ k div h.cnt (hf _).div
    have hidle : ((st (i * div + k)).fsm == SpiFsm.idle) = false := by rw [h.fsm]; rfl
    have hstp : ((st (i * div + k)).fsm == SpiFsm.stop) = false := by rw [h.fsm]; rfl
    refine ⟨h.clk, h.csN, ?_, ?_, ?_⟩
    · show (st (i * div + k)).mosi = _
      rw [h.mosi]; rfl
    · show ((st (i * div + k)).fsm == SpiFsm.idle && _) = false
      simp [hidle]
    · show ((st (i * div + k)).fsm == SpiFsm.stop && _) = false
      simp [hstp]
  · intro k hk
    have h := hstop.1 k hk
    have hs := spi_stop_step c div L m0 (spiSmp f div) hdiv hd16 k hk _ (f (L * div + k)) (hf _) h
    exact ⟨h.clk, h.csN, hs.2.1, hs.1⟩
  · have h := hstop.2
    have hidle : ((st (L * div + div / 2)).fsm == SpiFsm.idle) = true := by rw [h.fsm]; rfl
    have hstp : ((st (L * div + div / 2)).fsm == SpiFsm.stop) = false := by rw [h.fsm]; rfl
    refine ⟨?_, h.clk, ?_, ?_⟩
    · show ((st (L * div + div / 2)).fsm == SpiFsm.idle && _) = _
      simp [hidle]
    · show ((st (L * div + div / 2)).fsm == SpiFsm.stop && _) = false
      simp [hstp]
    · intro k hk
      show (st (L * div + div / 2)).miso.testBit k = _
      rw [h.miso, spiCap_testBit _ _ _ _ hLw k hk]
      rfl

/-- Non-vacuity and a complete concrete waveform: data_width 4, raw, divider 3, 2 bits of the word 0b1001 — two
    clock pulses inside chip select, MOSI = bits 3, 2, irq in the cycle before `done` returns. -/
example :
    let x : SpiIn := ⟨false, 2, 0b1001, true, false, false, 3, true⟩
    ((spiMaster ⟨4, false⟩).trace ({ x with start := true } :: List.replicate 11 x)).map
      (fun o => (o.clk, o.csN, o.mosi, o.done, o.irq)) =
    [(false, false, false, false, false), (false, true, false, false, false), (false, true, false, false, false),
     (false, false, true, false, false), (true, false, true, false, false), (true, false, true, false, false),
     (false, false, false, false, false), (true, false, false, false, false), (true, false, false, false, false),
     (false, false, false, false, true), (false, false, false, true, false), (false, true, false, true, false)] := by
  decide

/-! ## I2C master machine -/

/-- **i2c_legal.**  For every command/SDA/poke history from reset and every next input, the transition of the bus
    lines is legal: SDA changes while SCL stays high only as START (falling, in START0) or STOP (rising, in STOP2);
    SCL and SDA change in the same edge only when SCL falls (never when it rises) — `I2CMaster`'s pad stage holds
    SDA for one cycle after an SCL change, so on the pads SDA then moves while SCL is low.
    The stronger "at most one of SCL/SDA changes per transition" is false for the machine, see the witness. -/
theorem i2c_legal (cw : Nat) (ins : List I2cIn) (i : I2cIn) :
    I2cLegal ((i2cMachine cw).run ins) ((i2cMachine cw).next ((i2cMachine cw).run ins) i) :=
  (i2c_next_legal cw _ i (i2c_inv_reachable cw ins)).2

/-- Negative witness for "at most one line changes": WRITE0 lowers SCL and puts the next data bit on SDA in the
    same edge. -/
example :
    let s : I2cSt := ⟨.write0, true, false, 0x80, false, 8, 0⟩
    let s' := i2cNext 2 s ⟨false, false, false, false, true, 1, false, 0, false⟩
    s.scl ≠ s'.scl ∧ s.sda ≠ s'.sda := by decide

/-- **Commands always finish (ticks).**  Outside IDLE every enabled FSM step (a clk2x tick; since fix 86eb66e command
    strobes advance the FSM only from IDLE) lowers the rank by exactly one and rank 0 is IDLE; the rank after a
    command accepted in IDLE is
    write 19, read 18, start 1 (SCL high) / restart 3 (SCL low), stop 3 — the number of ticks until IDLE. -/
theorem i2c_command_ticks (s : I2cSt) (i : I2cIn) (hb : s.bits < 16) :
    (s.fsm ≠ .idle → i2cRank (i2cFsmStep s i) + 1 = i2cRank s) ∧ (i2cRank s = 0 ↔ s.fsm = .idle) ∧ i2cRank s ≤ 34 ∧
    (s.fsm = .idle → i.start = false → i.write = true → i2cRank (i2cFsmStep s i) = 19) ∧
    (s.fsm = .idle → i.start = false → i.write = false → i.read = true → i2cRank (i2cFsmStep s i) = 18) ∧
    (s.fsm = .idle → i.start = true → i2cRank (i2cFsmStep s i) = if s.scl then 1 else 3) ∧
    (s.fsm = .idle → i.start = false → i.write = false → i.read = false → i.stop = true → s.scl = false →
       i2cRank (i2cFsmStep s i) = 3) := by
  refine ⟨fun hn => i2c_rank_step s i hb hn, i2c_rank_zero_iff s, i2c_rank_le s hb, ?_, ?_, ?_, ?_⟩
  · intro h1 h2 h3; simp [i2cFsmStep, i2cRank, h1, h2, h3]
  · intro h1 h2 h3 h4; simp [i2cFsmStep, i2cRank, h1, h2, h3, h4]
  · intro h1 h2; cases hs : s.scl <;> simp [i2cFsmStep, i2cRank, h1, h2, hs]
  · intro h1 h2 h3 h4 h5 h6; simp [i2cFsmStep, i2cRank, h1, h2, h3, h4, h5, h6]

/-- **Commands always finish (cycles).**  With a constant clock-divider load `l`, from any state reachable with that
    load (`cnt ≤ l`), whatever inputs follow — further command strobes, bus writes to data/ack, any SDA — the machine is
    back in IDLE within `rank·(l+1) ≤ 34·(l+1)` cycles: no command sequence leaves it stuck. -/
theorem i2c_returns_idle (cw l : Nat) (s : I2cSt) (f : Nat → I2cIn) (hf : ∀ t, (f t).load = l) (hb : s.bits < 16)
    (hc : s.cnt ≤ l) :
    ∃ k, k ≤ i2cRank s * (l + 1) ∧ k ≤ 34 * (l + 1) ∧ (runFn (i2cMachine cw) s f k).fsm = .idle := by
  obtain ⟨k, hk, hidle⟩ := i2c_reaches_idle cw l (i2cMu l s) s f hf hb hc (Nat.le_refl _)
  have h1 := i2c_mu_le l s hc
  have h2 : i2cRank s * (l + 1) ≤ 34 * (l + 1) := Nat.mul_le_mul_right _ (i2c_rank_le s hb)
  exact ⟨k, by omega, by omega, hidle⟩

/-- Non-vacuity: a write command issued in IDLE (SCL low, load 1) needs the full 19 ticks. -/
example :
    let idle : I2cIn := ⟨false, false, false, false, true, 1, false, 0, false⟩
    let s0 : I2cSt := ⟨.idle, false, true, 0xA5, false, 0, 1⟩
    let s1 := i2cNext 2 s0 { idle with write := true }
    i2cRank s1 = 19 ∧ (runFn (i2cMachine 2) s1 (fun _ => idle) 36).fsm ≠ .idle ∧
    (runFn (i2cMachine 2) s1 (fun _ => idle) 37).fsm = .idle := by decide +kernel

/-! ## UART: idle level, loopback, rate tolerance -/

/-- In every reachable state of the transmitter: IDLE ⇒ the line is high (the line is low only inside a frame; between
    back-to-back bytes there is the full stop bit plus at least one idle cycle, by `uart_tx_frame`). -/
theorem uart_tx_idle_high (tw : Nat) (ins : List TxIn) (h : ((uartTx tw).run ins).run = false) :
    ((uartTx tw).out ((uartTx tw).run ins) ⟨false, 0⟩).tx = true :=
  tx_idle_high tw ins h

/-- **uart_loopback_partial.**  TX pad wired to RX pad, same clock, equal tuning words, at least four cycles per
    bit (`4·tw ≤ 2^32`).  The transmitter accepts byte `d` in cycle 0 (any later sink inputs, also a back-to-back next
    byte); the receiver was idle with the line high.  Then the receiver produces exactly one byte, `d`, in cycle
    `4 + ⌈9.5·2^32/tw⌉`, and nothing before.
    Full statement (any `tw`) is false: at two cycles per bit the sample points land in the neighbouring bit, see
    the witness below. -/
theorem uart_loopback_partial (tw : Nat) (h0 : 0 < tw) (h4 : 4 * tw ≤ M32) (sT : TxSt) (hTrun : sT.run = false)
    (hTtx : sT.tx = true) (f : Nat → TxIn) (hv : (f 0).valid = true) (hd : (f 0).data < 256)
    (sR : RxSt) (hRrun : sR.run = false) (hr0 : sR.r0 = true) (hrx : sR.rx = true) (hrxd : sR.rxD = true)
    (hdat : sR.data < 256) :
    let pad := txPad tw sT f
    let o := fun t => (uartRx tw).out (runFn (uartRx tw) sR pad t) (pad t)
    let R := 4 + rxSampleCycle tw 10
    (o R).valid = true ∧ (o R).data = (f 0).data ∧ ∀ t, t < R → (o t).valid = false := by
  intro pad o R
  have htw : tw < M32 := by unfold M32 at *; omega
  have hp := txPad_frame tw htw sT hTrun hTtx f hv hd
  have hp1 : pad 1 = false := by
    have := hp.2 0 (by unfold M32; omega)
    simp only [Nat.zero_mul, Nat.zero_div] at this
    exact this
  obtain ⟨hidle, hrun4, hc4, hacc4, hrx4, hr04, hdat4⟩ := rx_detect tw sR pad hRrun hr0 hrx hrxd hp.1 hp1
  -- the line as the receiver's RUN phase sees it
  let ln : Nat → Bool := fun k => pad (k + 2)
  have hline : ∀ b, b ≤ 9 → ln (rxSampleCycle tw (b + 1)) = frameBit (f 0).data b :=
    fun b hb => loopback_line tw h0 h4 sT hTrun hTtx f hv hd b hb
  have hsplit : ∀ k, runFn (uartRx tw) sR pad (4 + k) =
      runFn (uartRx tw) (runFn (uartRx tw) sR pad 4) (fun j => ln (j + 2)) k := by
    intro k
    rw [runFn_add]
    congr 1
    funext j
    show pad (4 + j) = pad (j + 2 + 2)
    congr 1; omega
  have hrec := uart_rx_recovers_partial tw h0 htw ln (runFn (uartRx tw) sR pad 4) hrun4 hc4 hacc4
    (by rw [hrx4]) (by rw [hr04]) (by rw [hdat4]; exact hdat) (f 0).data hd hline
  have hfr := uart_rx_frame tw h0 htw ln (runFn (uartRx tw) sR pad 4) hrun4 hc4 hacc4
    (by rw [hrx4]) (by rw [hr04]) (by rw [hdat4]; exact hdat)
  simp only at hrec hfr
  have hoR : ∀ k, o (4 + k) = (uartRx tw).out
      (runFn (uartRx tw) (runFn (uartRx tw) sR pad 4) (fun j => ln (j + 2)) k) (ln (k + 2)) := by
    intro k
    show (uartRx tw).out (runFn (uartRx tw) sR pad (4 + k)) (pad (4 + k)) = _
    rw [hsplit k]
    congr 1
    show pad (4 + k) = pad (k + 2 + 2)
    congr 1; omega
  refine ⟨?_, ?_, ?_⟩
  · show (o (4 + rxSampleCycle tw 10)).valid = true
    rw [hoR]; exact hrec.1
  · show (o (4 + rxSampleCycle tw 10)).data = _
    rw [hoR]; exact hrec.2
  · intro t ht
    by_cases h3 : t ≤ 3
    · show (rxDone (runFn (uartRx tw) sR pad t) && _) = false
      simp [rxDone, hidle t h3]
    · obtain ⟨k, rfl⟩ : ∃ k, t = 4 + k := ⟨t - 4, by omega⟩
      rw [hoR]
      exact hfr.2.2.2.2 k (by omega)

/-- Negative witness outside the hypothesis: two cycles per bit (`tw = 2^31`), byte 0x55 — the receiver's byte differs. -/
example :
    let sT : TxSt := ⟨false, 0, 0, true, ⟨0, false⟩⟩
    let sR : RxSt := ⟨true, true, true, false, 0, 0, ⟨0, false⟩⟩
    let f : Nat → TxIn := fun t => ⟨t == 0, 0x55⟩
    let pad := txPad (2 ^ 31) sT f
    let R := 4 + rxSampleCycle (2 ^ 31) 10
    (uartRx (2 ^ 31)).out (runFn (uartRx (2 ^ 31)) sR pad R) (pad R) ≠ ⟨true, 0x55⟩ := by decide +kernel

/-- Non-vacuity: four cycles per bit, byte 0xA5 loops back. -/
example :
    let sT : TxSt := ⟨false, 0, 0, true, ⟨0, false⟩⟩
    let sR : RxSt := ⟨true, true, true, false, 0, 0, ⟨0, false⟩⟩
    let f : Nat → TxIn := fun t => ⟨t == 0, 0xA5⟩
    let pad := txPad (2 ^ 30) sT f
    let R := 4 + rxSampleCycle (2 ^ 30) 10
    (uartRx (2 ^ 30)).out (runFn (uartRx (2 ^ 30)) sR pad R) (pad R) = ⟨true, 0xA5⟩ := by decide +kernel

/-- **rx_tolerance.**  A transmitter with bit period `P/Q` clock cycles within ±2 % of the receiver's `2^32/tw`
    (`98·2^32·Q ≤ 100·P·tw ≤ 102·2^32·Q`), any sub-cycle phase `ε/Q` of its start edge relative to the receiver's
    clock, at least 16 cycles per bit: the synchronised line in RUN cycle `k` is bit `⌊((k+1)·Q + ε)/P⌋` of the frame,
    and every byte is recovered. -/
theorem uart_rx_tolerates_2pct (tw P Q ε : Nat) (h0 : 0 < tw) (h16 : 16 * tw ≤ M32) (hε : ε < Q)
    (hlo : 98 * M32 * Q ≤ 100 * (P * tw)) (hhi : 100 * (P * tw) ≤ 102 * M32 * Q)
    (d : Nat) (hd : d < 256) (ln : Nat → Bool) (hln : ∀ k, ln k = frameBit d (((k + 1) * Q + ε) / P))
    (s0 : RxSt) (hrun : s0.run = true) (hc : s0.count = 0) (hacc : s0.acc = ⟨HALF32, false⟩) (hrx : s0.rx = ln 0)
    (hr0 : s0.r0 = ln 1) (hdat : s0.data < 256) :
    let R := rxSampleCycle tw 10
    let o := (uartRx tw).out (runFn (uartRx tw) s0 (fun k => ln (k + 2)) R) (ln (R + 2))
    o.valid = true ∧ o.data = d := by
  have htw : tw < M32 := by unfold M32 at *; omega
  apply uart_rx_recovers_partial tw h0 htw ln s0 hrun hc hacc hrx hr0 hdat d hd
  intro b hb
  have h := rx_tolerance_arith tw P Q ε b h0 h16 hε hlo hhi hb
  rw [hln]
  congr 1
  apply Nat.div_eq_of_lt_le
  · exact h.1
  · exact h.2

/-! ## SPI: pulse count, slave -/

/-- **Exactly `length` clock pulses.**  Counting rising edges of the clock pad from the first RUN cycle to the return
    to IDLE gives exactly `L`. -/
theorem spi_master_pulse_count (c : SpiCfg) (div L w m0 : Nat) (hdiv : 2 ≤ div) (hd16 : div < 65536) (hL : 1 ≤ L)
    (hLw : L ≤ c.dw) (f : Nat → SpiIn) (hf : ∀ t, SpiHold div L (f t)) (s0 : SpiSt)
    (h0 : RunInv c div L w m0 (spiSmp f div) 0 0 s0) :
    countEdges (fun t => ((spiMaster c).out (runFn (spiMaster c) s0 f t) (f t)).clk) (L * div + div / 2) = L := by
  have h := spi_master_xfer c div L w m0 hdiv hd16 hL hLw f hf s0 h0
  simp only at h
  apply pulse_count _ div L hdiv
  · intro i hi k hk; exact (h.1 i hi k hk).1
  · intro k hk
    by_cases hlt : k < div / 2
    · exact (h.2.1 k hlt).1
    · have : k = div / 2 := by omega
      subst this; exact h.2.2.2.1

/-- **spi_slave_xfer.**  While the synchronised chip select is asserted: `length` counts the synchronised rising clock
    edges (mod 256), the receive register holds the synchronised MOSI values of those edges shifted in MSB first, the
    transmit register has moved one position per falling edge; `start` is shown when the frame begins (length
    cleared, word to send loaded) and `irq` when chip select is released. -/
theorem spi_slave_xfer (dw : Nat) (s : SlvSt) (i0 : SlvIn) (hx : s.xfer = false) (hc : s.s1 = true)
    (ins : List SlvIn) (hcs : slvCsHeld dw (slvNext dw s i0) ins) :
    let s1 := slvNext dw s i0
    let e := (spiSlave dw).runFrom s1 ins
    ((spiSlave dw).out s i0).start = true ∧
    e.length = (slvSamples dw s1 ins).length % 256 ∧
    e.rx = shiftIn dw s1.rx (slvSamples dw s1 ins) ∧
    e.misoData % 2 ^ dw = (i0.tx * 2 ^ slvFalls dw s1 ins) % 2 ^ dw ∧
    (e.s1 = false → ∀ j, ((spiSlave dw).out e j).irq = true ∧ (slvNext dw e j).xfer = false) := by
  intro s1 e
  obtain ⟨hst, _, hx1, hl1, hm1⟩ := slv_frame_start dw s i0 hx hc
  have h := slv_frame_run dw ins s1 hx1 (by rw [hl1]; omega) hcs
  refine ⟨hst, ?_, h.2.2.1, ?_, ?_⟩
  · rw [h.2.1, hl1, Nat.zero_add]
  · rw [h.2.2.2, hm1]
  · intro he j
    have := slv_frame_end dw e j h.1 he
    exact ⟨this.1, this.2.1⟩

/-! ## I2C: the write command bit by bit -/

/-- **Write.**  From WRITE0 with 8 bits to go (the state right after a write command), counting enabled FSM steps:
    for `j < 8`, step `2j+1` has SCL low and SDA = bit `7 − j` of the byte (MSB first), step `2j+2` has SCL high with
    SDA unchanged; step 17 releases SDA (SCL low), step 18 raises SCL for the acknowledge, step 19 lowers it, stores
    `ack = ¬sda_i` and is back in IDLE. -/
theorem i2c_write_sequence (s : I2cSt) (f : Nat → I2cIn) (hf : s.fsm = .write0) (hb : s.bits = 8) (hd : s.data < 256) :
    (∀ j, j < 8 →
      (i2cSteps s f (2 * j + 1)).scl = false ∧ (i2cSteps s f (2 * j + 1)).sda = s.data.testBit (7 - j) ∧
      (i2cSteps s f (2 * j + 2)).scl = true ∧ (i2cSteps s f (2 * j + 2)).sda = s.data.testBit (7 - j)) ∧
    (i2cSteps s f 17).scl = false ∧ (i2cSteps s f 17).sda = true ∧
    (i2cSteps s f 18).scl = true ∧ (i2cSteps s f 18).sda = true ∧
    (i2cSteps s f 19).scl = false ∧ (i2cSteps s f 19).ack = !(f 18).sdaI ∧ (i2cSteps s f 19).fsm = .idle :=
  ⟨fun j hj => i2c_write_bits s f hf hb hd j hj, i2c_write_ack s f hf hb⟩

/-! ## I2CMaster: legality at the pads -/

/-- **i2c_pad_legal.**  `I2CMaster` = Wishbone registers + bit machine + the stage that lets SDA follow `sda_o` only
    when the SCL seen in the previous cycle equals `scl_o`.  Start: any state in which the machine is still as after
    reset (idle, both lines released) and the divider has been programmed with a value ≥ 1; then **every** sequence of
    bus cycles (commands while busy, back-to-back and compound commands, data and divider writes — the divider never
    written with 0) and **every** behaviour of the rest of the bus (`ext_scl`: clock stretching, `ext_sda`).
    Whenever the SDA driver changes between two consecutive cycles, either
      * the SCL line is low in both cycles (a data change), or
      * the SCL line was high, the master keeps SCL released, the driver now shows `sda_o`, and `sda_o` was last
        assigned by START0 or STOP2 (ghost bit of `i2cmAug`): a START or STOP condition, possibly deferred by clock
        stretching — and by `i2c_legal` the machine assigns `sda_o` under released SCL only there.
    Before fix 86eb66e a command written while busy broke this (spurious STOP inside a byte; replayed by the probe
    `C19-i2c-busy-command-glitch`).  Divider 0 (the reset value) is outside the range: SCL then toggles every cycle and
    the stage never lets SDA follow (example below). -/
theorem i2c_pad_legal (s0 : I2cmSt) (hf : s0.m.fsm = .idle) (hscl : s0.m.scl = true) (hb : s0.m.bits < 16)
    (hl : 1 ≤ s0.load) (ins : List I2cmIn) (hins : ∀ j ∈ ins, LoadOk j) (i : I2cmIn) (hi : LoadOk i) :
    let sg := i2cmAug.runFrom (s0, true) ins
    let s := sg.1
    let s' := i2cmNext s i
    s = i2cMaster.runFrom s0 ins ∧
    (s.sdaOe ≠ s'.sdaOe →
      (s.padScl i = false ∧ ∀ j, s'.padScl j = false) ∨
      (s.padScl i = true ∧ s'.m.scl = true ∧ s'.sdaOe = !s'.m.sda ∧ sdaKind s.m s.stepped sg.2 = true)) := by
  intro sg s s'
  have h0 : PadInv s0 true :=
    ⟨⟨by simp [hf], by simp [hf], hb⟩, fun _ _ => rfl, by simp [hscl], hl⟩
  have hinv := pad_inv_run ins hins (s0, true) h0
  have hstep := (pad_step sg.1 sg.2 i hinv hi).2
  refine ⟨i2cmAug_fst ins (s0, true), fun hch => ?_⟩
  rcases hstep.sda hch with ⟨h1, h2⟩ | ⟨_, h2, h3, h4, h5⟩
  · left
    refine ⟨h1, fun j => ?_⟩
    show (if (!s'.m.scl) then false else j.extScl) = false
    rw [show s'.m.scl = false from h2]; rfl
  · right; exact ⟨h3, h2, h4, h5⟩

/-- Non-vacuity (divider 1: START, then WRITE 0x55 — in cycle 18 the driver has released SDA for the first 1-bit while
    SCL is low) and the divider-0 remark (the driver stays low during the whole byte: 0x55 goes out as 0x00). -/
example :
    let idl : I2cmIn := ⟨false, false, false, false, 0, true, true⟩
    let wrx : Nat → I2cmIn := fun d => ⟨true, true, true, false, d, true, true⟩
    let ins := [wrx 2048] ++ List.replicate 9 idl ++ [wrx (1024 + 0x55)] ++ List.replicate 40 idl
    let st := fun (l k : Nat) => i2cMaster.runFrom { i2cMaster.init with load := l } (ins.take k)
    ((st 1 17).sdaOe = true ∧ (st 1 18).sdaOe = false ∧ (st 1 17).m.scl = false ∧ (st 1 18).m.scl = false) ∧
    (List.range 29).all (fun k => (st 0 (k + 3)).sdaOe) = true := by decide +kernel

/-! ## UART top level (CSR side, the two buffered FIFOs, the PHY) -/

/-- **uart_top_no_loss_in_order.**  `UART(tx_fifo_depth = dtx, rx_fifo_depth = drx, rx_fifo_rx_we)`, every history of
    software accesses and PHY handshakes from reset (the two FIFOs are the C03 element `syncFifoBuffered`, whose history
    relation is reused):
      * the bytes written to `rxtx` while `txfull = 0` = the bytes handed to the PHY ++ what waits in the TX FIFO (output
        register, then queue): nothing lost, duplicated or reordered, at most `dtx + 1` waiting;
      * the bytes accepted from the PHY (`rxfull = 0`) = the bytes software took from `rxtx` ++ what waits in the RX FIFO;
      * `txfull/txempty/rxfull/rxempty`, the two event triggers, `source.valid`, `sink.ready`, `rxtx.w` and `source.data`
        are the stated functions of the FIFO levels and output registers. -/
theorem uart_top_no_loss_in_order (dtx drx : Nat) (rxWe : Bool) (ins : List UartTopIn) (i : UartTopIn) :
    let m := uartTopM dtx drx rxWe
    let s := m.run ins
    utWritten dtx drx rxWe m.init ins = utSent dtx drx rxWe m.init ins ++ (fbInflight s.tx).map (·.data) ∧
    s.tx.q.length ≤ dtx ∧
    utReceived dtx drx rxWe m.init ins = utRead dtx drx rxWe m.init ins ++ (fbInflight s.rx).map (·.data) ∧
    s.rx.q.length ≤ drx ∧
    (let o := m.out s i
     o.txfull = (s.tx.q.length == dtx) ∧ o.txempty = !s.tx.readable ∧ o.rxfull = (s.rx.q.length == drx) ∧
     o.rxempty = !s.rx.readable ∧ o.trigTx = !o.txfull ∧ o.trigRx = !o.rxempty ∧ o.sinkRdy = !o.rxfull ∧
     o.srcV = !o.txempty ∧ o.srcD = s.tx.dout.data ∧ o.w = s.rx.dout.data) := by
  intro m s
  have htx := fb_token_rel dtx (ins.map utTxIn)
  have hrx := fb_token_rel drx (ins.map (utRxIn rxWe))
  simp only at htx hrx
  have etx : s.tx = (Stream.syncFifoBuffered dtx zTokN).runFrom (Stream.syncFifoBuffered dtx zTokN).init (ins.map utTxIn) :=
    uartTop_tx_run dtx drx rxWe ins m.init
  have erx : s.rx = (Stream.syncFifoBuffered drx zTokN).runFrom (Stream.syncFifoBuffered drx zTokN).init
      (ins.map (utRxIn rxWe)) := uartTop_rx_run dtx drx rxWe ins m.init
  refine ⟨?_, by rw [etx]; exact htx.2, ?_, by rw [erx]; exact hrx.2, uartTop_flags dtx drx s i⟩
  · rw [utWritten_eq, utSent_eq, etx, ← List.map_append]
    exact congrArg _ htx.1
  · rw [utReceived_eq, utRead_eq, erx, ← List.map_append]
    exact congrArg _ hrx.1

example :
    let m := uartTopM 2 2 false
    let w : Nat → UartTopIn := fun d => ⟨true, d, false, false, false, 0, false⟩
    let ins := [w 0x41, w 0x42, w 0x43, w 0x44, ⟨false, 0, false, false, false, 0, true⟩]
    utWritten 2 2 false m.init ins = [0x41, 0x42, 0x43] ∧ utSent 2 2 false m.init ins = [0x41] := by decide

/-- **The byte on the wire is the byte popped, once.**  In `UART(RS232PHY)`: a byte `d` in the TX FIFO's output
    register while the transmitter idles — `1 + r` cycles later (`r·tw < 10·2^32`, any software and pad activity) the
    pad carries bit `⌊r·tw/2^32⌋` of the frame of `d`, the FIFO still offers the same byte, and the FIFO's pop strobe
    (`sink.ready` of the transmitter) is high exactly in the last cycle of the stop bit: together with
    `uart_top_no_loss_in_order` every written byte is framed exactly once, in order. -/
theorem uart_sys_tx_once (tw dtx drx : Nat) (rxWe : Bool) (htw : tw < M32) (s : UartSysSt) (f : Nat → UartSysIn)
    (hidle : s.txp.run = false) (hv : s.top.tx.readable = true) (hd : s.top.tx.dout.data < 256) (r : Nat)
    (hr : r * tw < 10 * M32) :
    let st := runFn (uartSysM tw dtx drx rxWe) s f (1 + r)
    (uartSysM tw dtx drx rxWe).out st (f (1 + r)) = frameBit s.top.tx.dout.data (r * tw / M32) ∧
    st.top.tx.readable = true ∧ st.top.tx.dout = s.top.tx.dout ∧
    (uartSysTopIn tw st (f (1 + r))).srcRdy = decide (10 * M32 ≤ (r + 1) * tw) := by
  intro st
  obtain ⟨h1, h2, h3⟩ := uartSys_tx_frame tw dtx drx rxWe htw s f hidle hv hd r hr
  have hb : r * tw / M32 ≤ 10 := by unfold M32 at *; omega
  refine ⟨?_, h2, h3, ?_⟩
  · show st.txp.tx = _
    rw [h1]; exact txHwBit_eq_frameBit _ _ hd hb
  · rw [uartSys_pop, h1]
    by_cases hl : 10 * M32 ≤ (r + 1) * tw
    · simp [hl, (tx_last tw _ r htw hd ⟨false, 0⟩ hr hl).1]
    · simp [hl, tx_not_ready tw _ r (by omega)]

/-! ## SPI master: sequences of transfers, chip-select vector, manual CS mode -/

/-- **spi_master_idle_inv.**  When `done` returns after a transfer the state is clean (`IdleOk`: IDLE, clock low,
    divider inside its period) and stays so through any number of cycles without `start` (`done = 1`, clock low, no
    irq).  `IdleOk` is exactly the hypothesis of `spi_master_start`, which is stated for an arbitrary length: transfers
    of different lengths (and words, and start times) can follow each other, each with the waveform of
    `spi_master_xfer`. -/
theorem spi_master_idle_inv (c : SpiCfg) (div L w m0 : Nat) (hdiv : 2 ≤ div) (hd16 : div < 65536) (hL : 1 ≤ L)
    (hLw : L ≤ c.dw) (f : Nat → SpiIn) (hf : ∀ t, SpiHold div L (f t)) (s0 : SpiSt)
    (h0 : RunInv c div L w m0 (spiSmp f div) 0 0 s0)
    (idle : List SpiIn) (hidle : ∀ x ∈ idle, x.div = div ∧ x.start = false) :
    let sd := runFn (spiMaster c) s0 f (L * div + div / 2)
    IdleOk div sd ∧ IdleOk div ((spiMaster c).runFrom sd idle) ∧
    ∀ o ∈ (spiMaster c).traceFrom sd idle, o.done = true ∧ o.clk = false ∧ o.irq = false := by
  intro sd
  have hstop := spi_stop c div L w m0 hdiv hd16 hL hLw f hf s0 h0
  have hk : div / 2 - 1 < div / 2 := by omega
  have hcnt := spi_stop_last_cnt c div L m0 (spiSmp f div) hdiv hd16 (div / 2 - 1) (by omega) _
    (f (L * div + (div / 2 - 1))) (hf _) (hstop.1 _ hk)
  have e2 : L * div + div / 2 = L * div + (div / 2 - 1) + 1 := by omega
  have hok : IdleOk div sd := by
    refine ⟨hstop.2.fsm, ?_, hstop.2.clk⟩
    show (runFn (spiMaster c) s0 f (L * div + div / 2)).cnt < div
    rw [e2]
    show (spiNext c _ _).cnt < div
    rw [hcnt]; omega
  have hrun := spi_idle_run c div hdiv hd16 idle hidle sd hok
  exact ⟨hok, hrun.1, hrun.2⟩

/-- **Chip-select vector and manual mode** (`len(pads.cs_n) = ncs`).  For every state, input and line `j < ncs`: after
    the clock edge line `j` is low iff chip `j` is selected in `cs` and (a transfer is in progress or `cs_mode = 1`);
    so in manual mode the lines are the registered complement of `cs`, in automatic mode all lines are high outside
    transfers; the control machine is the single-CS model (it never looks at `cs`) and line 0 is that model's `cs_n`, so
    `spi_master_start / xfer / pulse_count / idle_inv` hold unchanged with several chip selects. -/
theorem spi_master_cs_lines (c : SpiCfg) (ncs : Nat) (hn : 1 ≤ ncs) (s : SpiNSt) (i : SpiIn) (cs j : Nat) (hj : j < ncs) :
    (spiNNext c ncs s i cs).csN.testBit j = !(cs.testBit j && (spiXfer s.core i || i.csMode)) ∧
    (spiNNext c ncs s i cs).core = spiNext c s.core { i with cs := cs.testBit 0 } ∧
    (spiNNext c ncs s i cs).csN.testBit 0 = (spiNNext c ncs s i cs).core.csN :=
  ⟨csnOf_line ncs cs j _ hj, (spiN_core c ncs hn s i cs).1, (spiN_core c ncs hn s i cs).2⟩

example : csnOf 4 0b0110 true = 0b1001 ∧ csnOf 4 0b0110 false = 0b1111 := by decide

/-! ## SPI slave in pad terms -/

/-- **spi_slave_pads.**  The signals `spi_slave_xfer` speaks about are the pads two cycles earlier (`cs` inverted), and
    the edges it counts are pad edges between the third- and second-last cycle; and MISO is MSB first: after `f < dw`
    falling edges inside a frame the pad shows bit `dw − 1 − f` of the word to send (`spi_slave_xfer` gives the
    hypothesis `misoData ≡ tx·2^f`). -/
theorem spi_slave_pads (dw : Nat) (s : SlvSt) (z a b : SlvIn) (tx f : Nat) (hf : f < dw) :
    let e := slvNext dw (slvNext dw (slvNext dw s z) a) b
    (e.c1 = a.clk ∧ e.s1 = !a.csN ∧ e.m1 = a.mosi ∧ e.rise = (a.clk && !z.clk) ∧ e.fall = (!a.clk && z.clk)) ∧
    (∀ st : SlvSt, ∀ j : SlvIn, j.loopback = false → st.misoData % 2 ^ dw = (tx * 2 ^ f) % 2 ^ dw →
       ((spiSlave dw).out st j).miso = tx.testBit (dw - 1 - f)) := by
  intro e
  have h1 := slv_sync dw s z a b
  have h2 := slv_edges dw s z a b
  simp only at h1 h2
  refine ⟨⟨h1.1, h1.2.1, h1.2.2.1, h2.1, h2.2⟩, fun st j hl hm => ?_⟩
  show (if j.loopback then st.m1 else st.misoData.testBit (dw - 1)) = _
  simp only [hl, Bool.false_eq_true, if_false]
  exact slv_miso_bit dw tx f st.misoData hf hm

/-! ## Timer.add_uptime, MultiChannelPWM -/

/-- **uptime.**  The free-running counter shows the number of cycles since reset (mod 2^64), and `uptime_cycles` holds
    its value of the last cycle in which `uptime_latch` was written. -/
theorem timer_uptime (pre post : List Bool) (hpost : ∀ l ∈ post, l = false) :
    (uptimeM.run pre).cycles = pre.length % 2 ^ 64 ∧
    (uptimeM.run (pre ++ true :: post)).latched = pre.length % 2 ^ 64 := by
  have hc : (uptimeM.run pre).cycles = pre.length % 2 ^ 64 := by
    rcases uptime_cycles pre uptimeM.init with h | h
    · simpa [Machine.run, uptimeM] using h
    · subst h; rfl
  refine ⟨hc, ?_⟩
  simp only [Machine.run, Machine.runFrom_append]
  show (uptimeM.runFrom (uptimeNext (uptimeM.runFrom uptimeM.init pre) true) post).latched = _
  rw [uptime_hold post hpost]
  simp only [uptimeNext, if_true]
  exact hc

/-- **MultiChannelPWM.**  The shared counter is the counter of a single `PWM` driven with channel 0's enable and period
    (so `pwm_wave` / `pwm_duty` describe it), and every channel's output register is loaded with
    `enable_k ∧ counter < width_k`. -/
theorem multichannel_pwm (s : McPwmSt) (period : Nat) (chans : List (Bool × Nat)) (k : Nat) (hk : k < chans.length) :
    (mcPwmNext s period chans).counter =
      (pwmNext { counter := s.counter, pwm := false }
        { enable := (chans.headD (false, 0)).1, reset := false, width := 0, period := period }).counter ∧
    (mcPwmNext s period chans).pwm[k]? = some (chans[k].1 && decide (s.counter < chans[k].2)) :=
  ⟨mcpwm_counter s period chans false, mcpwm_channel s period chans k hk⟩

end Litex.C19
