import LitexProofs.Cdc.AsyncFifo
import LitexProofs.Cdc.BusSync
import LitexProofs.Cdc.Reset
import LitexProofs.Cdc.AxiLite
import LitexProofs.Cdc.Wrapper
import LitexModel.Cdc.Glue
import LitexProofs.Cdc.Monitor
import LitexProofs.Stream.Basic
import LitexProofs.Cdc.PulseSync
import LitexProofs.Cdc.Capacity
import LitexProofs.Cdc.Periodic
import LitexProofs.Cdc.SyncReset
/-
  ══ INVENTORY of the code C05 is anchored in (session 2) ═══════════════════════════════════════════════════════
  M = Lean model, T = theorems (this file), tie = how model and /repo are compared on every run
  (A = exhaustive co-exploration of the reachable product, B = seeded lock-step co-simulation with edge-level
  driving and injected per-bit resolutions, C = `call` comparison of a Python-level decision, S = structural).

  litex/soc/interconnect/stream.py
    _FIFOWrapper (record packing)      M Wrapper.lean packTok/unpackTok        T fifowrapper_roundtrip/_token_rel   tie A+B afifo_tok
    AsyncFIFO.__init__ (depth rules)   M Glue.lean afifoCtor/afifoCapacity     T afifo_ctor_spec/_refuses/_capacity tie C afifo_ctor (grid 0..256,
                                       (no rounding: non-2^k or <4 refused)                                            capacity MEASURED on the real module)
    AsyncFIFO / migen AsyncFIFO(Buffered), GrayCounter, MultiReg
                                       M AsyncFifo.lean afStep (any k, b)      T gray_*, afifo_inv, _no_rw_collision, _token_rel, _delivered_prefix,
                                                                                 _capacity, _capacity_tight, _writable_exact, _eventually_readable(_buffered),
                                                                                 _eventually_writable — all parametric in depth 2^k and payload type
                                                                               tie A depth 4 (±buffered), B depths 4..128
    ClockDomainCrossing: same domain   M Stream wire / pipeValid (C03 models)  T cdc_same_domain_wire_rel/_buffered_rel, cdc_kind_spec  tie A + C cdc_kind
    ClockDomainCrossing: cd_from≠cd_to M afStep (renamed domains)              T as AsyncFIFO                         tie A/B through the real constructor
      independent domain resets        M afStepR2 (rw, rr separately)          T (afStepR2_common: = afStepR when equal)  tie B afifo_rst2 [new]
      with_common_rst, simulator's DummyAsyncResetSynchronizer (one level)
                                       M afStepR / runRst                      T cdc_common_rst_inv, _token_rel (+ witness: one-edge pulse)  tie B afifo_rst
      with_common_rst, vendor AsyncResetSynchronizer (two FDPE, async preset), ANY pulse length
                                       M arsStep, crStep, crMasked             T ars_stretch, cdc_sync_rst_sim, cdc_sync_rst_token_rel (+ witness: pulse
                                                                                 missing one clock)   tie B cdc_sync: real wiring + interpreted
                                                                                 XilinxAsyncResetSynchronizerImpl flops (FDPE semantics trusted) [new]
    Monitor(clock_domain ≠ sys)        M Monitor.lean monStep                  T monitor_latch_no_spurious, _exactly_once_partial, _latch_spacing,
                                                                                 monitor_status_partial, _status_mixture (full), _status_coherent_partial
                                                                                 (exactly which reads can be torn), monitor_torn_read_hull   tie A w=1, B w=4,32
    Monitor(clock_domain = sys)        no crossing (C03/C12)
  litex/gen/genlib/cdc.py
    BusSynchronizer (width ≥ 2)        M BusSync.lean bsStep                   T bussync_coherent_partial, _no_spurious_timeout (4R+7, exact: witnesses
                                                                                 at 4R+6), _coherent_of_ratio, _coherent_periodic (po ≤ R·pi),
                                                                                 _coherent_default (t=128 ⇒ R=30), bussync_eventually   tie A w=2,3; B w=2..64
    BusSynchronizer (width 1)          M bs1Step                               T bussync_width1                        tie A
    users of BusSynchronizer           NONE in /repo (out-of-tree PHY cores; all rely on timeout=128) — see bussync_coherent_default
    ElasticBuffer                      NOT modelled: no handshake, correct only for equal-frequency clocks within depth/2 of skew; no user in /repo
    (migen) PulseSynchronizer          M psStep                                T pulsesync_no_spurious, _partial, _drain, _spacing (period ≥ R+2 i-cycles),
                                                                                 _spacing_tight (exact for every R)     tie A; B spaced + minimum-gap [new];
                                                                                 witness psTight replayed on the real module
  litex/soc/interconnect/axi/axi_lite.py
    AXILiteClockDomainCrossing         M AxiLite.lean axStep (5 FIFOs)         T axilite_cdc_rel, _direction, _channels_independent   tie B (two configs)
    AXI (full) / Wishbone CDC          do not exist in /repo (AXI-full has no ClockDomainCrossing class; wishbone has none)
  litex/soc/cores/uart.py
    _get_uart_fifo, UART(phy_cd)       M Glue.lean uartFifoKind/uartTx/RxFifo  T uart_fifo_async_iff, uart_fifos_cross_iff   tie C + B through UART()
    UARTBone / UARTWishboneBridge(cd)  M Glue.lean uartBoneDomains (who lives in which domain)   T uartbone_ports_in_own_domain, uartbone_crossing_rel
                                                                               tie C uartbone_domains vs domains MEASURED on the lowered module +
                                                                               end-to-end byte-order oracle with unrelated clocks + domain audit [r5]
    JTAG/video/hyperbus/icap           plain users of ClockDomainCrossing/AsyncFIFO with default or 2^k depths: domain audit where they elaborate
  Plain MultiReg users (GPIO, SPI, I2S, video timing CSRs, freqmeter Gray counter): single-bit or quasi-static
    buses, no coherence claimed by the code; not part of C05 (the only multi-bit dynamic one, Monitor's status, is).
  ═══════════════════════════════════════════════════════════════════════════════════════════════════════════════
-/
/-
  C05 — Clock-domain crossings never corrupt, drop, duplicate or reorder data.

  Model: `LitexModel/Cdc/AsyncFifo.lean` (Migen `AsyncFIFO`/`AsyncFIFOBuffered` behind LiteX's `_FIFOWrapper`:
  `stream.AsyncFIFO`, `stream.ClockDomainCrossing`, `uart._get_uart_fifo`, `AXILiteClockDomainCrossing`).

  Every theorem quantifies over `ins : List (AFIn α)`: an arbitrary sequence of instants, each choosing
    * which clocks have a rising edge (`tw`, `tr`: write only, read only, or both — any frequency ratio, any
      phase, any drift, coincident edges included),
    * for each of the two synchronisers a mask saying, bit by bit, whether its first flop catches the old or
      the new value of a Gray pointer that changes in the same instant (`mw`, `mr`),
    * the producer (`valid`, `tok`) and the consumer (`ready`),
  and over the depth `2^k` (`k ≥ 1`; LiteX asserts depth ≥ 4) and the buffered/unbuffered variant `b`.
-/
namespace Litex.C05
open Litex.Cdc
variable {α : Type}

/-! ### Gray code (unbounded width) -/

/-- Successive Gray codes differ in exactly one bit. -/
theorem gray_succ_one_bit (n : Nat) : ∃ j, gray (n + 1) ^^^ gray n = 2 ^ j := by
  obtain ⟨j, hj⟩ := gray_succ_flip n
  refine ⟨j, Nat.eq_of_testBit_eq fun i => ?_⟩
  rw [Nat.testBit_xor, hj i, Nat.testBit_two_pow]
  by_cases h : i = j
  · subst h; cases (gray n).testBit i <;> simp
  · have h' : ¬ j = i := fun e => h e.symm
    cases (gray n).testBit i <;> simp [h, h']

/-- The same for a wrapping `w`-bit counter (`w ≥ 1`), including the wrap from `2^w - 1` to `0`. -/
theorem gray_succ_one_bit_wrap (w n : Nat) (hw : 1 ≤ w) :
    ∃ j, gray ((n + 1) % 2 ^ w) ^^^ gray (n % 2 ^ w) = 2 ^ j := by
  obtain ⟨j, hj⟩ := gray_succ_flip_mod w n hw
  refine ⟨j, Nat.eq_of_testBit_eq fun i => ?_⟩
  rw [Nat.testBit_xor, hj i, Nat.testBit_two_pow]
  by_cases h : i = j
  · subst h; cases (gray (n % 2 ^ w)).testBit i <;> simp
  · have h' : ¬ j = i := fun e => h e.symm
    cases (gray (n % 2 ^ w)).testBit i <;> simp [h, h']

/-- **Sampling a Gray pointer while it changes.**  Any word `r` each of whose bits is the corresponding bit
    of `gray n` or of `gray (n+1)` (an arbitrary per-bit old/new mixture) *is* `gray n` or `gray (n+1)`. -/
theorem gray_sample_mix (n r : Nat)
    (hr : ∀ i, r.testBit i = (gray n).testBit i ∨ r.testBit i = (gray (n + 1)).testBit i) :
    r = gray n ∨ r = gray (n + 1) := by
  obtain ⟨j, hj⟩ := gray_succ_flip n
  exact flip_mixture hj hr

/-- The same for the wrapping `w`-bit pointer actually used, with the mixture given by a mask as in the model. -/
theorem gray_sample_mix_wrap (w n m : Nat) (hw : 1 ≤ w) :
    mix m (gray (n % 2 ^ w)) (gray ((n + 1) % 2 ^ w)) = gray (n % 2 ^ w) ∨
    mix m (gray (n % 2 ^ w)) (gray ((n + 1) % 2 ^ w)) = gray ((n + 1) % 2 ^ w) :=
  gray_sample_mix_mod w n m hw

/-- `mix` really is the per-bit choice. -/
theorem mix_bitwise (m a b i : Nat) :
    (mix m a b).testBit i = if m.testBit i then b.testBit i else a.testBit i := mix_testBit m a b i

/-- Gray coding loses no information (needed for `readable`/`writable` to be exact). -/
theorem gray_inj (a b : Nat) (h : gray a = gray b) : a = b := gray_injective a b h

/-! ### The asynchronous FIFO: invariant for every step -/

/-- **afifo_inv.**  After *every* schedule there are unbounded counters `C` (words consumed), `Cw1 Cw2`
    (consume pointer as seen by the two synchroniser flops in the write domain), `Pr1 Pr2` (produce pointer as
    seen in the read domain) such that, with `P` = number of tokens accepted:
    * `Cw2 ≤ Cw1 ≤ C ≤ Pr2 ≤ Pr1 ≤ P ≤ Cw2 + 2^k` — each domain only ever sees an *older* value of the other
      domain's pointer, and never more than `2^k` words are outstanding;
    * every register holds the (Gray code of the) wrapped counter it stands for — in particular each
      synchroniser stage holds the Gray code of a genuine pointer value between its source's older and current
      value, whatever the resolution masks were;
    * every slot `j mod 2^k` with `C ≤ j < P` holds the token that was accepted as number `j`;
    * the registered read address is `C mod 2^k`;
    * the word in the output stage of the buffered variant is accepted token number `C - 1`. -/
theorem afifo_inv (k : Nat) (b : Bool) (z : α) (hk : 1 ≤ k) (ins : List (AFIn α)) :
    let s := runFrom k b z (afInit k z) ins
    let acc := accepted k b z (afInit k z) ins
    ∃ C Cw1 Cw2 Pr1 Pr2 : Nat,
      Cw2 ≤ Cw1 ∧ Cw1 ≤ C ∧ C ≤ Pr2 ∧ Pr2 ≤ Pr1 ∧ Pr1 ≤ acc.length ∧ acc.length ≤ Cw2 + 2 ^ k ∧
      s.pbin = acc.length % 2 ^ (k + 1) ∧ s.pq = gray s.pbin ∧
      s.cbin = C % 2 ^ (k + 1) ∧ s.cq = gray s.cbin ∧
      s.cw1 = gray (Cw1 % 2 ^ (k + 1)) ∧ s.cw2 = gray (Cw2 % 2 ^ (k + 1)) ∧
      s.pr1 = gray (Pr1 % 2 ^ (k + 1)) ∧ s.pr2 = gray (Pr2 % 2 ^ (k + 1)) ∧
      s.mem.length = 2 ^ k ∧ (∀ j, C ≤ j → j < acc.length → s.mem[j % 2 ^ k]? = acc[j]?) ∧
      s.radr = C % 2 ^ k ∧
      (s.bval = true → b = true ∧ 1 ≤ C ∧ acc[C - 1]? = some s.bdat) := by
  intro s acc
  obtain ⟨g, h, ha, _⟩ := run_init_facts k b z hk ins
  rw [show acc = g.acc from ha.symm]
  exact ⟨_, _, _, _, _, h.o1, h.o2, h.o3, h.o4, h.o5, h.o6, h.pbin, h.pq, h.cbin, h.cq, h.cw1, h.cw2, h.pr1,
    h.pr2, h.memlen, h.slots, h.radr, h.buf⟩

/-- **No read/write collision.**  In every reachable state, if a word is written in an instant
    (`produce.ce`), the written slot differs from the slot the synchronous read port addresses in that instant
    (`consume.q_next_binary`), unless the FIFO is completely empty after the read (the two `k+1`-bit pointers
    coincide) — and then `readable` is low after a simultaneous read edge, so the word is not used. -/
theorem afifo_no_rw_collision (k : Nat) (b : Bool) (z : α) (hk : 1 ≤ k) (ins : List (AFIn α)) (i : AFIn α) :
    let s := runFrom k b z (afInit k z) ins
    wce k s i = true → s.pbin % 2 ^ k = cbinN k b s i % 2 ^ k →
      s.pbin = cbinN k b s i ∧ (i.tr = true → ireadable (afStep k b z s i) = false) := by
  intro s hw hslot
  exact no_rw_collision_aux z hk (inv_run k b z hk ins _ _ (inv_init k b z)) i hw hslot

/-! ### Token relation: for every interleaving, resolution and producer/consumer schedule -/

/-- **afifo_token_rel.**  What has been handed over at `source` is exactly the first `n` tokens accepted at
    `sink`, where `n` is the number of hand-overs: nothing lost, duplicated, reordered or altered. -/
theorem afifo_token_rel (k : Nat) (b : Bool) (z : α) (hk : 1 ≤ k) (ins : List (AFIn α)) :
    delivered k b z (afInit k z) ins =
      (accepted k b z (afInit k z) ins).take (delivered k b z (afInit k z) ins).length := by
  obtain ⟨g, _, ha, hd⟩ := run_init_facts k b z hk ins
  rw [← ha, ← hd]
  simp

/-- The usual reading: delivered is a prefix of accepted. -/
theorem afifo_delivered_prefix (k : Nat) (b : Bool) (z : α) (hk : 1 ≤ k) (ins : List (AFIn α)) :
    delivered k b z (afInit k z) ins <+: accepted k b z (afInit k z) ins := by
  rw [afifo_token_rel k b z hk ins]
  exact List.take_prefix _ _

/-- **afifo_capacity.**  Never more than `2^k` tokens (one more with the output stage) are in flight. -/
theorem afifo_capacity (k : Nat) (b : Bool) (z : α) (hk : 1 ≤ k) (ins : List (AFIn α)) :
    (accepted k b z (afInit k z) ins).length ≤
      (delivered k b z (afInit k z) ins).length + 2 ^ k + (if b then 1 else 0) := by
  obtain ⟨g, hi, ha, hd⟩ := run_init_facts k b z hk ins
  rw [← ha, ← hd]
  exact capacity_aux hi

/-! ### Progress: "after the input has been stable for long enough the output reflects it" -/

/-- **afifo_eventually_readable** (unbuffered).  Take any schedule `x`, then any continuation `y` that
    contains at least two read-clock edges (no assumption on the write clock, the clock ratio or the
    resolutions).  Then every token accepted during `x` has been handed over, or `source.valid` is high. -/
theorem afifo_eventually_readable (k : Nat) (z : α) (hk : 1 ≤ k) (x y : List (AFIn α))
    (hy : 2 ≤ readTicks y) :
    (accepted k false z (afInit k z) x).length ≤ (delivered k false z (afInit k z) (x ++ y)).length ∨
      srcValid false (runFrom k false z (afInit k z) (x ++ y)) = true := by
  obtain ⟨g1, g2, h1, ha, hg, h2, hd⟩ := run_split_facts k false z hk x y
  have hp := (pr2_progress z hk g1.acc.length y _ _ h1 (le_refl _)).2.2 hy
  rw [← hg] at hp
  rw [← ha, ← hd, List.length_take, Nat.min_eq_left (dcount_le_acc h2)]
  cases hr : ireadable (runFrom k false z (afInit k z) (x ++ y))
  · left
    have hC := not_ireadable_eq h2 hr
    have hbv : (runFrom k false z (afInit k z) (x ++ y)).bval = false := by
      cases hv : (runFrom k false z (afInit k z) (x ++ y)).bval
      · rfl
      · have := (h2.buf hv).1; simp at this
    unfold dcount; rw [hbv]; simp; omega
  · right; simpa [srcValid] using hr

/-- The buffered variant needs one more read-clock edge (the output register). -/
theorem afifo_eventually_readable_buffered (k : Nat) (z : α) (hk : 1 ≤ k) (x y : List (AFIn α))
    (hy : 3 ≤ readTicks y) :
    (accepted k true z (afInit k z) x).length ≤ (delivered k true z (afInit k z) (x ++ y)).length ∨
      srcValid true (runFrom k true z (afInit k z) (x ++ y)) = true := by
  obtain ⟨g1, g2, h1, ha, hg, h2, hd⟩ := run_split_facts k true z hk x y
  have hp := (buf_progress z hk g1.acc.length y _ _ h1 (le_refl _)).2.2.2 hy
  rw [← hg, ← runFrom_append] at hp
  rw [← ha, ← hd, List.length_take, Nat.min_eq_left (dcount_le_acc h2)]
  rcases hp with hv | hd'
  · right; simpa [srcValid] using hv
  · left; exact hd'


/-! ### The write side: `sink.ready` is exact, progresses, and the requested depth is really available -/

/-- **afifo_writable_exact.**  After every schedule: `sink.ready` is low if and only if exactly `2^k` tokens are
    outstanding with respect to the consume pointer *as seen through the write-side synchroniser* (`Cw2`, a
    genuine earlier value of the consume counter).  The FIFO never refuses a token for any other reason
    (no capacity is lost to the Gray comparison) and never accepts one beyond it. -/
theorem afifo_writable_exact (k : Nat) (b : Bool) (z : α) (hk : 1 ≤ k) (ins : List (AFIn α)) :
    let s := runFrom k b z (afInit k z) ins
    let acc := accepted k b z (afInit k z) ins
    ∃ C Cw2 : Nat, Cw2 ≤ C ∧ C ≤ acc.length ∧ s.cbin = C % 2 ^ (k + 1) ∧ s.cw2 = gray (Cw2 % 2 ^ (k + 1)) ∧
      (writable k s = false ↔ acc.length = Cw2 + 2 ^ k) := by
  intro s acc
  obtain ⟨g, h, ha, _⟩ := run_init_facts k b z hk ins
  rw [show acc = g.acc from ha.symm]
  exact ⟨g.C, g.Cw2, le_trans h.o1 h.o2, le_trans h.o3 (le_trans h.o4 h.o5), h.cbin, h.cw2, writable_exact hk h⟩

/-- **afifo_eventually_writable.**  Mirror image of `afifo_eventually_readable`: take any schedule `x`, then any
    continuation `y` with at least two write-clock edges (nothing assumed about the read clock, the ratio or the
    resolutions).  Then `sink.ready` is high, or at least `2^k` tokens have been accepted beyond those handed
    over during `x` (the storage really is full). -/
theorem afifo_eventually_writable (k : Nat) (b : Bool) (z : α) (hk : 1 ≤ k) (x y : List (AFIn α))
    (hy : 2 ≤ writeTicks y) :
    writable k (runFrom k b z (afInit k z) (x ++ y)) = true ∨
      (delivered k b z (afInit k z) x).length + 2 ^ k ≤ (accepted k b z (afInit k z) (x ++ y)).length := by
  have h1 := inv_run k b z hk x _ _ (inv_init k b z)
  have hnil : (gInit (α := α)).acc = [] := rfl
  have hd := del_run k b z hk x _ _ (inv_init k b z)
  rw [hnil] at hd
  simp only [List.take_nil, List.nil_append] at hd
  have h2 := inv_run k b z hk (x ++ y) _ _ (inv_init k b z)
  have ha := acc_run k b z (x ++ y) (afInit k z) gInit
  rw [hnil] at ha
  simp only [List.nil_append] at ha
  have hp := (cw2_progress z hk (gRun k b z (afInit k z) gInit x).C y _ _ h1 (le_refl _)).2.2 hy
  rw [← gRun_append] at hp
  cases hw : writable k (runFrom k b z (afInit k z) (x ++ y))
  · right
    have he := (writable_exact hk h2).1 hw
    have hdl : (delivered k b z (afInit k z) x).length ≤ (gRun k b z (afInit k z) gInit x).C := by
      rw [← hd, List.length_take]
      have : dcount (runFrom k b z (afInit k z) x) (gRun k b z (afInit k z) gInit x) ≤
          (gRun k b z (afInit k z) gInit x).C := by unfold dcount; omega
      omega
    rw [← ha, he]
    omega
  · left; rfl

/-- **afifo_capacity_tight.**  The bound of `afifo_capacity` is reached, for every depth: `2^k` write-clock
    edges without any read-clock edge accept `2^k` tokens, the next one is refused (`sink.ready` low), and
    nothing is handed over.  Together with `afifo_capacity`: the capacity is exactly the depth. -/
theorem afifo_capacity_tight (k : Nat) (b : Bool) (z : α) (hk : 1 ≤ k) (toks : List α) (d : α)
    (hn : toks.length = 2 ^ k) :
    accepted k b z (afInit k z) (toks.map wOnly ++ [wOnly d]) = toks ∧
    delivered k b z (afInit k z) (toks.map wOnly ++ [wOnly d]) = [] ∧
    writable k (runFrom k b z (afInit k z) (toks.map wOnly)) = false := by
  obtain ⟨f1, f2, f3, f4⟩ := fill_accepts k b z hk toks _ _ (inv_init k b z) (by simp [gInit])
    (by simp [gInit, hn])
  have hi := inv_run k b z hk (toks.map wOnly) _ _ (inv_init k b z)
  have hCw2 : (gRun k b z (afInit k z) gInit (toks.map wOnly)).Cw2 = 0 := by
    have := hi.o1; have := hi.o2; omega
  have hw : writable k (runFrom k b z (afInit k z) (toks.map wOnly)) = false :=
    (writable_exact hk hi).2 (by rw [f4, hCw2]; simp [gInit, hn])
  have hacc := acc_run k b z (toks.map wOnly ++ [wOnly d]) (afInit k z) gInit
  have hsplit : ∀ (u v : List (AFIn α)) (s : AFState α),
      accepted k b z s (u ++ v) = accepted k b z s u ++ accepted k b z (runFrom k b z s u) v ∧
      delivered k b z s (u ++ v) = delivered k b z s u ++ delivered k b z (runFrom k b z s u) v := by
    intro u v
    induction u with
    | nil => intro s; simp [accepted, delivered, runFrom]
    | cons i is ih => intro s; simp [accepted, delivered, runFrom, ih, List.append_assoc]
  obtain ⟨s1, s2⟩ := hsplit (toks.map wOnly) [wOnly d] (afInit k z)
  refine ⟨?_, ?_, hw⟩
  · rw [s1, f1]; simp [accepted, accNow, wce, hw]
  · rw [s2, f2]; simp [delivered, delNow, wOnly]

/-- Non-vacuity / the statement on depth 4: four tokens go in, the fifth does not. -/
example : accepted 2 false 0 (afInit 2 0) ([1, 2, 3, 4, 5].map wOnly) = [1, 2, 3, 4] := by decide

/-! ### Constructor arithmetic (`stream.AsyncFIFO.__init__` → Migen `AsyncFIFO.__init__`)

  The constructor does NOT round: `depth=None` means 4, `depth < 4` fails the assertion, and a depth that is not a
  power of two makes `log2_int(depth, need_pow2=True)` raise.  `afifoCtor` is compared with the real constructor
  over a grid of requested depths on every run (`call afifo_ctor`). -/

/-- **afifo_ctor_spec.**  The constructor builds a FIFO with `depth_bits = k` exactly when the requested depth
    (4 when omitted) equals `2^k` with `k ≥ 2`; every other request is refused. -/
theorem afifo_ctor_spec (depth : Option Nat) (k : Nat) :
    afifoCtor depth = some k ↔ 2 ≤ k ∧ depth.getD 4 = 2 ^ k := afifoCtor_spec depth k

/-- No rounding: a requested depth that is not a power of two (or is below 4) is refused. -/
theorem afifo_ctor_refuses (depth : Option Nat) (h : ∀ k, 2 ≤ k → depth.getD 4 ≠ 2 ^ k) :
    afifoCtor depth = none := by
  cases e : afifoCtor depth with
  | none => rfl
  | some k => exact absurd ((afifoCtor_spec depth k).1 e).2 (h k ((afifoCtor_spec depth k).1 e).1)

/-- **afifo_ctor_capacity.**  Whatever depth the constructor accepts is really available: the FIFO it builds
    takes exactly that many tokens with the consumer idle (and by `afifo_capacity` never holds more, plus the one
    word of the output register when buffered). -/
theorem afifo_ctor_capacity (depth : Option Nat) (b : Bool) (z : α) (k : Nat) (h : afifoCtor depth = some k)
    (toks : List α) (d : α) (hn : toks.length = depth.getD 4) :
    accepted k b z (afInit k z) (toks.map wOnly ++ [wOnly d]) = toks ∧
    afifoCapacity k b = depth.getD 4 + (if b then 1 else 0) := by
  obtain ⟨hk, hd⟩ := (afifoCtor_spec depth k).1 h
  exact ⟨(afifo_capacity_tight k b z (by omega) toks d (by rw [hn, hd])).1, by simp [afifoCapacity, hd]⟩

example : afifoCtor none = some 2 ∧ afifoCtor (some 64) = some 6 ∧ afifoCtor (some 2) = none ∧
    afifoCtor (some 12) = none ∧ afifoCtor (some 0) = none := by decide


/-! ### BusSynchronizer (`litex/gen/genlib/cdc.py`)

  Schedules are `List BSIn`: per instant which of the two clocks tick (`ti`, `tO`), how the first flop of the
  request, acknowledge and data synchronisers resolves if its source changes in that instant (`mPing`, `mPong`,
  `mBuf` per bit), and the word on `i`.

  Full statement (false, see the negative witness below):
    ∀ w t ins, (bsRun w t (bsInit t) ins).o ∈ 0 :: (bsInputs ins).map (· % 2 ^ w)
  It holds whenever the retry timer does not expire spuriously (`NoTimeout`), and that is guaranteed by a bound
  on the clock drift together with a long enough time-out. -/

/-- **bussync_coherent_partial.**  As long as the retry timer never expires, every word shown on `o` is the
    reset value or a word that was present on `i` at one i-clock edge — never a bit-wise mixture — for every
    interleaving of the clocks and every per-bit resolution of all three synchronisers. -/
theorem bussync_coherent_partial (w t : Nat) (ins : List BSIn) (h : NoTimeout w t (bsInit t) ins) :
    (bsRun w t (bsInit t) ins).o ∈ 0 :: (bsInputs ins).map (· % 2 ^ w) := by
  simpa using bsInv_run w t ins (bsInit t) [0] (bsInv_init t) h

/-- **bussync_no_spurious_timeout.**  If the i clock never has more than `R` consecutive edges without an
    o-clock edge (i up to `R+1` times faster than o; no assumption in the other direction) and the time-out is
    at least `4R + 7` i-cycles, the timer never expires.  (`R = 1..3` with the default `t = 128` qualify.) -/
theorem bussync_no_spurious_timeout (w t R : Nat) (ht : 4 * R + 7 ≤ t) (ins : List BSIn)
    (hb : IBurst R 0 ins) : NoTimeout w t (bsInit t) ins :=
  noTimeout_of_burst w t R ht ins _ _ (tInv_init t R ht) hb

/-- The property as stated: bounded drift and a time-out longer than the round trip give coherence. -/
theorem bussync_coherent_of_ratio (w t R : Nat) (ht : 4 * R + 7 ≤ t) (ins : List BSIn)
    (hb : IBurst R 0 ins) :
    (bsRun w t (bsInit t) ins).o ∈ 0 :: (bsInputs ins).map (· % 2 ^ w) :=
  bussync_coherent_partial w t ins (bussync_no_spurious_timeout w t R ht ins hb)

/-! #### The drift bound in terms of clock frequencies, the default time-out, and the users in the tree

  `IBurst R` is a property of the edge interleaving.  For two free-running periodic clocks (`perClocks pi po`:
  i-clock period `pi`, o-clock period `po`, any phase `no < ni + po`) it follows from `po ≤ R * pi`, i.e. from
  "the i clock is at most `R` times faster than the o clock" — no assumption in the other direction.
  With the default `timeout = 128` the largest admissible `R` is 30 (`4 * 30 + 7 = 127 ≤ 128`).
  LiteX itself contains NO instantiation of `BusSynchronizer` (nor of `ElasticBuffer`); every user is out of
  tree (LiteDRAM/LiteEth/LitePCIe/… PHYs) and passes the default time-out: each such site is covered by
  `bussync_coherent_default` whenever its i clock is at most 30 times faster than its o clock. -/

/-- **bussync_coherent_periodic.**  Free-running clocks with `po ≤ R * pi` and a time-out of at least `4R + 7`
    i-cycles: every word on `o` is a word that was on `i`, for every phase, every resolution and every input. -/
theorem bussync_coherent_periodic (w t R pi po n ni no : Nat) (hpi : 1 ≤ pi) (hr : po ≤ R * pi)
    (hph : no < ni + po) (ht : 4 * R + 7 ≤ t) (ins : List BSIn)
    (hclk : bsClocks ins = perClocks pi po n ni no) :
    (bsRun w t (bsInit t) ins).o ∈ 0 :: (bsInputs ins).map (· % 2 ^ w) :=
  bussync_coherent_of_ratio w t R ht ins
    (iburst_of_periodic pi po R hpi hr n ins ni no 0 hclk (by omega))

/-- The default `timeout = 128`: coherent whenever the i clock is at most 30 times faster than the o clock. -/
theorem bussync_coherent_default (w pi po n ni no : Nat) (hpi : 1 ≤ pi) (hr : po ≤ 30 * pi)
    (hph : no < ni + po) (ins : List BSIn) (hclk : bsClocks ins = perClocks pi po n ni no) :
    (bsRun w 128 (bsInit 128) ins).o ∈ 0 :: (bsInputs ins).map (· % 2 ^ w) :=
  bussync_coherent_periodic w 128 30 pi po n ni no hpi hr hph (by omega) ins hclk

/-- The time-out bound `4R + 7` of `bussync_no_spurious_timeout` is exact (kernel-checked for `R = 1, 2, 3`; an
    exhaustive search of the model's control state confirms `R = 0..5`): with `t = 4R + 6` and the i clock exactly
    `R + 1` times faster than the o clock, coincident edges resolving to the old value, the timer expires. -/
def bsTightSched (R : Nat) : List BSIn :=
  (List.replicate 6 (⟨true, true, false, false, 0, 0⟩ :: List.replicate R ⟨true, false, false, false, 0, 0⟩)).flatten

example : IBurst 1 0 (bsTightSched 1) ∧ ¬ NoTimeout 2 (4 * 1 + 6) (bsInit (4 * 1 + 6)) (bsTightSched 1) := by decide
example : IBurst 2 0 (bsTightSched 2) ∧ ¬ NoTimeout 2 (4 * 2 + 6) (bsInit (4 * 2 + 6)) (bsTightSched 2) := by decide
example : IBurst 3 0 (bsTightSched 3) ∧ ¬ NoTimeout 2 (4 * 3 + 6) (bsInit (4 * 3 + 6)) (bsTightSched 3) := by decide

/-- Non-vacuity of the periodic-clock hypothesis: `pi = 10`, `po = 30`, phase 7 is a `perClocks` schedule with
    `R = 3`, on which a word crosses with `t = 19`. -/
example :
    let cl := perClocks 10 30 40 0 7
    let ins : List BSIn := cl.map fun c => ⟨c.1, c.2, true, true, 3, 2⟩
    bsClocks ins = cl ∧ (bsRun 2 19 (bsInit 19) ins).o = 2 := by decide

/-- **bussync_eventually.**  "After the input has been stable for long enough the output reflects it":
    after any prefix `x`, let the input word be held at `v` during a continuation that consists of at least 12
    consecutive blocks in each of which both clocks have at least one edge (any interleaving, any resolution;
    12 ring advances = finishing the hand-shake in progress, one full round that loads `v`, and the four
    output-side steps).  If the retry timer does not expire, `o = v` at the end. -/
theorem bussync_eventually (w t v : Nat) (x : List BSIn) (blocks : List (List BSIn))
    (hn : NoTimeout w t (bsInit t) (x ++ blocks.flatten))
    (hb : ∀ blk ∈ blocks, 1 ≤ bsITicks blk ∧ 1 ≤ bsOTicks blk) (hlen : 12 ≤ blocks.length)
    (hv : ∀ e ∈ blocks.flatten, e.i % 2 ^ w = v) :
    (bsRun w t (bsInit t) (x ++ blocks.flatten)).o = v := by
  obtain ⟨hn1, hn2⟩ := noTimeout_append w t x blocks.flatten _ hn
  obtain ⟨p, hp⟩ := invP_run w t x _ _ (bsInvP_init t) hn1
  have hok : GOk p 0 = true := (by decide : ∀ q : Fin 8, GOk q 0 = true) p
  obtain ⟨h1, h2⟩ := dg_run w t v blocks.flatten _ p 0 hp ⟨by simp, by simp⟩ hn2 hv
  obtain ⟨b1, b2⟩ := blocks_progress blocks (p, 0) hok hb
  have hz : todo (arun (p, 0) blocks.flatten).1 (arun (p, 0) blocks.flatten).2 = 0 := by
    rcases b2 with h | h
    · have := todo_le p 0
      dsimp only at h
      omega
    · exact h
  have hG := todo_zero _ _ b1 hz
  rw [bsRun_append]
  exact h2.2 (by rw [hG]; rfl)

/-- Non-vacuity: a schedule with drift bound `R = 1`, time-out 11, on which a word really crosses
    (`i = 2` is loaded into `ibuffer` and appears on `o`). -/
example :
    let e : Nat → BSIn := fun v => ⟨true, true, true, true, 3, v⟩
    let ins := List.replicate 20 (e 2)
    IBurst 1 0 ins ∧ (bsRun 2 11 (bsInit 11) ins).o = 2 := by decide

/-- **Negative witness** for the region excluded by the hypothesis (`t = 1`: the retry time-out is shorter than
    one request/acknowledge round trip).  Requests are re-sent while one is in flight; `ibuffer` is reloaded
    (0 → 3) in the very instant in which the output side samples it for the word it shows next, and `o`
    becomes 1 although `i` only ever carried 0 and 3.  The same schedule is replayed on the real module on every
    run (`corpus/C05/bussync_t1_incoherent.json`). -/
example :
    let ins : List BSIn :=
      [⟨true, true, true, false, 0, 0⟩, ⟨false, true, false, false, 0, 0⟩, ⟨false, true, false, false, 0, 0⟩,
       ⟨true, true, false, true, 0, 0⟩, ⟨true, true, true, false, 0, 0⟩, ⟨true, true, false, false, 1, 3⟩,
       ⟨false, true, false, false, 0, 0⟩, ⟨false, true, false, false, 0, 0⟩]
    ¬ ((bsRun 2 1 (bsInit 1) ins).o ∈ 0 :: (bsInputs ins).map (· % 2 ^ 2)) ∧
      ¬ NoTimeout 2 1 (bsInit 1) ins := by
  decide

/-- **bussync_width1.**  With `width = 1` the module is a bare two-flop `MultiReg`: `o` is the reset value or
    the value `i` had at an earlier o-clock edge; a single bit cannot be torn. -/
theorem bussync_width1 (ins : List (Bool × Bool)) :
    (ins.foldl (fun s x => bs1Step s x.1 x.2) ⟨false, false⟩).r2 ∈
      false :: (ins.filter (·.1)).map (·.2) := by
  suffices h : ∀ (s : BS1State) (L : List Bool), s.r1 ∈ L → s.r2 ∈ L →
      (ins.foldl (fun s x => bs1Step s x.1 x.2) s).r2 ∈ L ++ (ins.filter (·.1)).map (·.2) by
    simpa using h ⟨false, false⟩ [false] (by simp) (by simp)
  induction ins with
  | nil => intro s L _ h2; simpa using h2
  | cons x xs ih =>
    intro s L h1 h2
    obtain ⟨tO, i⟩ := x
    cases tO
    · simpa [bs1Step] using ih s L h1 h2
    · have := ih (bs1Step s true i) (L ++ [i]) (by simp [bs1Step]) (by simp [bs1Step, h1])
      simpa [List.append_assoc] using this

/-! ### PulseSynchronizer (used by `stream.Monitor` for its reset/latch pulses, and inside BusSynchronizer) -/

/-- For every schedule and resolution: the synchroniser never invents a pulse (output pulses so far plus toggles
    still in the chain never exceed the input pulses). -/
theorem pulsesync_no_spurious (ins : List PSIn) :
    psSeen psInit ins + psFlight (psRun psInit ins) ≤ psSent ins := by
  simpa [psFlight, psInit] using ps_seen_le ins psInit

/-- **pulsesync_partial.**  If every input pulse comes only after the previous one was caught by the first
    flop (`PSpaced`; implied by "separated by ≥ 3 destination edges"), every pulse is delivered exactly once:
    input pulses = output pulses + toggles in flight, at most 3 in flight, and none in flight after three
    o-clock edges without a new pulse (`ps_drain`).
    Full statement without the spacing hypothesis is false: two pulses between two o-clock edges cancel. -/
theorem pulsesync_partial (ins : List PSIn) (h : PSpaced false ins) :
    psSent ins = psSeen psInit ins + psFlight (psRun psInit ins) ∧ psFlight (psRun psInit ins) ≤ 3 := by
  refine ⟨?_, psFlight_le _⟩
  have := ps_seen_eq ins psInit false (by simp [psInit]) h
  simpa [psFlight, psInit] using this.symm

/-- Draining: three o-clock edges without a new input pulse empty the chain. -/
theorem pulsesync_drain (s : PSState) (x1 x2 x3 : PSIn) (h1 : x1.tO = true ∧ (x1.ti && x1.i) = false)
    (h2 : x2.tO = true ∧ (x2.ti && x2.i) = false) (h3 : x3.tO = true ∧ (x3.ti && x3.i) = false) :
    psFlight (psStep (psStep (psStep s x1) x2) x3) = 0 := ps_drain s x1 x2 x3 h1 h2 h3

/-- Negative witness: two input pulses with no o-clock edge in between are both lost. -/
example :
    let ins : List PSIn := [⟨true, false, false, true⟩, ⟨true, false, false, true⟩,
                            ⟨false, true, false, false⟩, ⟨false, true, false, false⟩, ⟨false, true, false, false⟩]
    psSent ins = 2 ∧ psSeen psInit ins = 0 ∧ psFlight (psRun psInit ins) = 0 := by decide

/-! #### Exact minimum pulse spacing as a function of the clock ratio

  `PBurst R`: at most `R` i-clock edges fall between two o-clock edges (the i clock is at most `R` times faster
  than the o clock, any phase; `R = 1` covers every o clock that is at least as fast as the i clock).
  `PGap n`: two pulses are separated by at least `n` pulse-free i-clock edges (pulse period ≥ `n + 1` i-cycles). -/

/-- **pulsesync_spacing.**  Under drift bound `R`, pulses separated by at least `R + 1` pulse-free i-clock edges
    (pulse period ≥ `R + 2` i-cycles) are each delivered exactly once, whatever the phase, the coincidences and the
    resolutions. -/
theorem pulsesync_spacing (R : Nat) (ins : List PSIn) (hb : PBurst R 0 ins) (hg : PGap (R + 1) (R + 1) ins) :
    psSent ins = psSeen psInit ins + psFlight (psRun psInit ins) ∧ psFlight (psRun psInit ins) ≤ 3 :=
  pulsesync_partial ins (pspaced_of_gap R ins 0 (R + 1) false (Nat.zero_le _) (by simp) hb hg)

/-- **pulsesync_spacing_tight.**  The bound is exact for every `R`: with one pulse-free i-edge fewer (`PGap R`)
    there is a schedule inside the same drift bound on which two pulses are sent and none ever comes out
    (`psTight R`, replayed on the real `PulseSynchronizer` for several `R` on every run). -/
theorem pulsesync_spacing_tight (R : Nat) :
    PBurst R 0 (psTight R) ∧ PGap R R (psTight R) ∧ psSent (psTight R) = 2 ∧
    psSeen psInit (psTight R) = 0 ∧ psFlight (psRun psInit (psTight R)) = 0 := ps_tight R

/-- Non-vacuity of `pulsesync_spacing` (`R = 1`, pulses two pulse-free i-edges apart, both delivered). -/
example :
    let p : PSIn := ⟨true, true, false, true⟩
    let n : PSIn := ⟨true, false, false, false⟩
    let o : PSIn := ⟨false, true, false, false⟩
    let ins := [p, n, o, n, p, o, o, o, o]
    PBurst 1 0 ins ∧ PGap 2 2 ins ∧ psSent ins = 2 ∧ psSeen psInit ins = 2 := by decide

/-- The Monitor's latch strobe under the same spacing rule. -/
theorem monitor_latch_spacing (w R : Nat) (ins : List MonIn) (hb : PBurst R 0 (ins.map monLatIn))
    (hg : PGap (R + 1) (R + 1) (ins.map monLatIn)) :
    psSent (ins.map monLatIn) = monLatches w monInit ins + psFlight (monRun w monInit ins).lat := by
  rw [mon_latches, mon_lat_run]
  exact (pulsesync_spacing R (ins.map monLatIn) hb hg).1

/-! ### Common reset (`ClockDomainCrossing(with_common_rst=True)`)

  `runRst` runs instants in which the common reset (`ResetSignal(cd_from) | ResetSignal(cd_to)`) is high;
  `afStepR … false = afStep` (`afStepR_false`), so everything above applies between resets. -/

/-- **cdc_common_rst_inv.**  From ANY state `s` (reachable or not — e.g. in the middle of traffic): if the common
    reset is held while each clock has one edge (`x`) and then two more edges each (`y`) — in any interleaving and
    with any resolution of the synchroniser flops, which are reset-less and keep sampling — the FIFO is exactly in
    its initial state (only the reset-less output register of the buffered variant keeps a stale word, with
    `valid` low). -/
theorem cdc_common_rst_inv (k : Nat) (b : Bool) (z : α) (s : AFState α) (x y : List (AFIn α))
    (hx : 1 ≤ writeTicks x ∧ 1 ≤ readTicks x) (hy : 2 ≤ writeTicks y ∧ 2 ≤ readTicks y) :
    runRst k b z s (x ++ y) = { afInit k z with bdat := (runRst k b z s (x ++ y)).bdat } := by
  rw [runRst_append]
  obtain ⟨hw, hr⟩ := rst_zero k b z x s (Or.inl hx.1) (Or.inl hx.2)
  obtain ⟨⟨hw', hr'⟩, hp, hc⟩ := rst_flush k b z y _ hw hr
  obtain ⟨p1, p2⟩ := hp (Or.inr (Or.inr hy.2))
  obtain ⟨c1, c2⟩ := hc (Or.inr (Or.inr hy.1))
  obtain ⟨w1, w2, w3⟩ := hw'
  obtain ⟨r1, r2, r3, r4⟩ := hr'
  generalize runRst k b z (runRst k b z s x) y = e at *
  cases e
  simp_all [afInit]

/-- … hence after such a reset the crossing again delivers exactly the tokens accepted after the reset, in
    order, for every continuation. -/
theorem cdc_common_rst_token_rel (k : Nat) (b : Bool) (z : α) (hk : 1 ≤ k) (s : AFState α)
    (x y ins : List (AFIn α))
    (hx : 1 ≤ writeTicks x ∧ 1 ≤ readTicks x) (hy : 2 ≤ writeTicks y ∧ 2 ≤ readTicks y) :
    delivered k b z (runRst k b z s (x ++ y)) ins <+: accepted k b z (runRst k b z s (x ++ y)) ins := by
  have hi := rst_inv k b z x y s hx hy
  have hd := del_run k b z hk ins _ _ hi
  have ha := acc_run k b z ins (runRst k b z s (x ++ y)) gInit
  simp only [gInit, List.nil_append, List.take_nil] at hd ha
  rw [← hd, ha]
  exact List.take_prefix _ _

/-- Negative witness: a reset pulse lasting a single coincident edge leaves the old produce pointer in the
    reset-less synchroniser flops; `source.valid` rises and a word is handed over although nothing has been
    accepted since the reset.  (Replayed on the real module, which uses the simulator's combinational stand-in
    for `AsyncResetSynchronizer`; a real reset synchroniser stretches the pulse.) -/
example :
    let w (d : Nat) : AFIn Nat := ⟨true, false, 0, 0, true, d, false⟩
    let r : AFIn Nat := ⟨false, true, 0, 0, false, 0, true⟩
    let s1 := runFrom 2 false 0 (afInit 2 0) [w 5, w 6, ⟨false, true, 0, 0, false, 0, false⟩,
                                               ⟨false, true, 0, 0, false, 0, false⟩]
    let s2 := runRst 2 false 0 s1 [⟨true, true, 0, 0, false, 0, false⟩]
    accepted 2 false 0 s2 [r] = [] ∧ delivered 2 false 0 s2 [r] = [0] := by decide

/-! #### Reset pulses of ARBITRARY length: the two domains are released by their own reset synchronisers

  On hardware each private domain's reset is the output of a vendor `AsyncResetSynchronizer` (two flops preset
  asynchronously by `ResetSignal(cd_from) | ResetSignal(cd_to)`, modelled by `arsStep`; structure compared with
  `XilinxAsyncResetSynchronizerImpl` on every run).  It stretches any pulse to two edges of its own clock, so the
  two sides leave reset at DIFFERENT times, and the reset-less synchroniser flops of the slower side are still
  stale when the faster side is already running.  `crStep` composes the FIFO with per-domain reset levels
  (`afStepR2`, tied to `ClockDomainCrossing` with independently driven domain resets) and the two synchronisers. -/

/-- Any pulse, however short (even one that covers no clock edge), holds the domain in reset through the next two
    edges of its clock and releases it synchronously after the second. -/
theorem ars_stretch (s : ARSState) (t : Bool) :
    let s0 := arsStep s t true
    arsOut s0 false = true ∧ arsOut (arsStep s0 true false) false = true ∧
    arsOut (arsStep (arsStep s0 true false) true false) false = false ∧
    arsStep s0 false false = s0 := by
  cases t <;> simp [arsStep, arsOut]

/-- **cdc_sync_rst_sim.**  From ANY state of FIFO and synchronisers: if the raw common reset is high while each
    clock has at least one edge (`x`; nothing more is asked of the pulse length) and then low (`y`, arbitrary
    traffic, any interleaving and resolution), the crossing — with the not-yet-flushed synchroniser flops of a
    domain still in reset read as 0 (`patch`) — is, instant by instant, a freshly initialised FIFO whose producer
    is held off while the write domain is in reset and whose consumer is held off while the read domain is
    (`crMasked`).  Two edges of each clock after the pulse both domains are released and the states coincide
    exactly, so every theorem above (token relation, capacity, progress) applies from the reset on. -/
theorem cdc_sync_rst_sim (k : Nat) (b : Bool) (z : α) (S0 : CRState α) (x y : List (AFIn α))
    (hx : 1 ≤ writeTicks x ∧ 1 ≤ readTicks x) :
    let S1 := crRun k b z true S0 x
    let S2 := crRun k b z false S1 y
    let fresh := runFrom k b z { afInit k z with bdat := S1.f.bdat } (crMasked ⟨true, true⟩ ⟨true, true⟩ y)
    patch S2.aw S2.ar S2.f = fresh ∧
    (2 ≤ writeTicks y → 2 ≤ readTicks y → S2.f = fresh ∧ S2.aw = ⟨false, false⟩ ∧ S2.ar = ⟨false, false⟩) := by
  intro S1 S2 fresh
  have hne : x ≠ [] := by rintro rfl; simp [writeTicks] at hx
  obtain ⟨hf, hars⟩ := crRun_true k b z x S0
  obtain ⟨haw, har⟩ := hars hne
  obtain ⟨hwz, hrz⟩ := rst_zero k b z x S0.f (Or.inl hx.1) (Or.inl hx.2)
  rw [← hf] at hwz hrz
  have hrun := sync_run k b z y S1 (by simp [S1, haw, ARSOk]) (by simp [S1, har, ARSOk])
    (fun _ => hwz) (fun _ => hrz)
  have e1 : patch S1.aw S1.ar S1.f = { afInit k z with bdat := S1.f.bdat } := by
    simp only [S1, haw, har]; exact patch_zero k z _ hwz hrz
  have hp : patch S2.aw S2.ar S2.f = fresh := by
    simp only [S2, fresh]; rw [hrun, e1]; simp only [S1, haw, har]
  refine ⟨hp, fun h2w h2r => ?_⟩
  have rw' := ars_release_w k b z y S1 (Or.inl h2w)
  have rr' := ars_release_r k b z y S1 (Or.inl h2r)
  refine ⟨?_, rw', rr'⟩
  have := hp
  simp only [S2] at this ⊢
  rw [rw', rr', patch_released] at this
  exact this

/-- … hence, counted from the reset, what is handed over is a prefix of what was accepted (hand-shakes while the
    respective domain is still in reset are masked, i.e. not counted), for every continuation. -/
theorem cdc_sync_rst_token_rel (k : Nat) (b : Bool) (z d : α) (hk : 1 ≤ k) (ins : List (AFIn α)) :
    delivered k b z { afInit k z with bdat := d } ins <+: accepted k b z { afInit k z with bdat := d } ins := by
  have hi := inv_init' k b z d
  have hd := del_run k b z hk ins _ _ hi
  have ha := acc_run k b z ins { afInit k z with bdat := d } gInit
  simp only [gInit, List.nil_append, List.take_nil] at hd ha
  rw [← hd, ha]
  exact List.take_prefix _ _

/-- Negative witness for the hypothesis "the pulse covers an edge of EACH clock" (depth 4): three tokens cross,
    then a reset pulse covers one write edge but no read edge.  The write side is released after two write edges
    while the read side has not even been reset: it compares its fresh pointer with the stale consume pointer 3
    and accepts SEVEN tokens into four slots before any read edge. -/
example :
    let wr (d : Nat) : AFIn Nat := ⟨true, false, 0, 0, true, d, false⟩
    let rd : AFIn Nat := ⟨false, true, 0, 0, false, 0, true⟩
    let S0 : CRState Nat := ⟨runFrom 2 false 0 (afInit 2 0)
      [wr 1, wr 2, wr 3, rd, rd, rd, rd, rd, ⟨true, false, 0, 0, false, 0, false⟩,
       ⟨true, false, 0, 0, false, 0, false⟩], ⟨false, false⟩, ⟨false, false⟩⟩
    let S1 := crRun 2 false 0 true S0 [⟨true, false, 0, 0, false, 0, false⟩]
    let S2 := crRun 2 false 0 false S1 ((List.range 10).map fun n => wr (10 + n))
    S0.f.cbin = 3 ∧ S1.f.pbin = 0 ∧ S2.f.pbin = 7 ∧ S2.f.cbin = 3 ∧ S2.aw = ⟨false, false⟩ := by decide

/-- Non-vacuity of `cdc_sync_rst_sim`: a pulse of one coincident edge, then traffic; after release the token
    written after the reset comes out. -/
example :
    let both (v : Bool) (d : Nat) (r : Bool) : AFIn Nat := ⟨true, true, 0, 0, v, d, r⟩
    let S1 := crRun 2 false 0 true ⟨afInit 2 0, ⟨false, false⟩, ⟨false, false⟩⟩ [both false 0 false]
    let y := [both true 9 true, both true 9 true, both true 5 true, both false 0 true, both false 0 true,
              both false 0 true]
    let S2 := crRun 2 false 0 false S1 y
    S2.aw = ⟨false, false⟩ ∧ delivered 2 false 0 (afInit 2 0) (crMasked ⟨true, true⟩ ⟨true, true⟩ y) = [5] := by
  decide

/-! ### `_FIFOWrapper`: payload AND param (and first/last) cross unaltered

  `FTok` is the endpoint token; `packTok`/`unpackTok` are `fifo_in.raw_bits()` / `fifo_out.raw_bits()` with the
  field order payload, param, first, last.  The driver's `afifo_tok` machine is compared field by field with the
  real `stream.AsyncFIFO` built from an `EndpointDescription` with payload and param layouts. -/

/-- Packing is lossless up to the truncation of the fields to their widths. -/
theorem fifowrapper_roundtrip (wp wq : Nat) (t : FTok) : unpackTok wp wq (packTok wp wq t) = normTok wp wq t :=
  unpack_pack wp wq t

/-- **fifowrapper_token_rel.**  For every schedule the endpoint tokens handed over at the source are exactly
    the first `n` endpoint tokens accepted at the sink — payload, param, first and last, each truncated to its
    width (inputs that fit their signals are unchanged: `normTok` is then the identity). -/
theorem fifowrapper_token_rel (k : Nat) (b : Bool) (wp wq : Nat) (hk : 1 ≤ k) (ins : List (AFIn FTok)) :
    wrapDelivered k b wp wq (afInit k 0) ins =
      ((wrapAccepted k b wp wq (afInit k 0) ins).map (normTok wp wq)).take
        (wrapDelivered k b wp wq (afInit k 0) ins).length := by
  have hd := wrap_delivered k b wp wq ins (afInit k 0)
  have ha := wrap_accepted k b wp wq ins (afInit k 0)
  have hrel := afifo_token_rel k b (0 : Nat) hk (ins.map (wrapIn wp wq))
  rw [hd, List.length_map]
  conv => lhs; rw [hrel, ← ha]
  rw [← List.map_take, ← List.map_take, List.map_map]
  congr 1
  funext t
  exact unpack_pack wp wq t

theorem normTok_id (wp wq : Nat) (t : FTok) (h1 : t.payload < 2 ^ wp) (h2 : t.param < 2 ^ wq) :
    normTok wp wq t = t := by
  obtain ⟨a, c, f, l⟩ := t
  simp only [normTok] at *
  rw [Nat.mod_eq_of_lt h1, Nat.mod_eq_of_lt h2]

/-- Non-vacuity: a token with a non-zero param crosses with its param. -/
example :
    let t : FTok := ⟨5, 3, true, false⟩
    let ins : List (AFIn FTok) := [⟨true, false, 0, 0, true, t, false⟩, ⟨false, true, 0, 0, false, t, true⟩,
      ⟨false, true, 0, 0, false, t, true⟩, ⟨false, true, 0, 0, false, t, true⟩]
    wrapDelivered 2 false 4 2 (afInit 2 0) ins = [t] := by decide

/-! ### AXILiteClockDomainCrossing: five crossings, the response channels in the opposite direction -/

/-- **axilite_cdc_rel.**  For every interleaving of the two clocks, every resolution of all ten synchronisers
    and every behaviour of master and slave: on each of the five channels the tokens handed over are a prefix of
    the tokens accepted (exactly once, in order, unaltered), with at most `2^k` in flight. -/
theorem axilite_cdc_rel (k : Nat) (z : α) (hk : 1 ≤ k) (c : AxChan) (ins : List (AxIn α)) :
    axDelivered k z c (axInit k z) ins <+: axAccepted k z c (axInit k z) ins ∧
    (axAccepted k z c (axInit k z) ins).length ≤ (axDelivered k z c (axInit k z) ins).length + 2 ^ k := by
  rw [ax_accepted_ch, ax_delivered_ch, ax_init_ch]
  refine ⟨afifo_delivered_prefix k false z hk _, ?_⟩
  simpa using afifo_capacity k false z hk (ins.map (axChanIn c))

/-- **Direction of every channel, as coded.**  AW, W and AR accept at `cd_from` edges and hand over at `cd_to`
    edges; B and R accept at `cd_to` edges (slave side) and hand over at `cd_from` edges (master side). -/
theorem axilite_direction (k : Nat) (z : α) (c : AxChan) (s : AxState α) (x : AxIn α) :
    (accNow k (s.ch c) (axChanIn c x) ≠ [] → (if c.fwd then x.tf else x.tt) = true) ∧
    (delNow false z (s.ch c) (axChanIn c x) ≠ [] → (if c.fwd then x.tt else x.tf) = true) := by
  constructor
  · intro h
    by_contra hn
    apply h
    have : (axChanIn c x).tw = false := by simpa [axChanIn] using hn
    simp [accNow, this]
  · intro h
    by_contra hn
    apply h
    have : (axChanIn c x).tr = false := by simpa [axChanIn] using hn
    simp [delNow, this]

example : AxChan.fwd .aw = true ∧ AxChan.fwd .w = true ∧ AxChan.fwd .ar = true ∧
    AxChan.fwd .b = false ∧ AxChan.fwd .r = false := by decide

/-- The product really is a product: channel `c` evolves as a single FIFO on its own projection of the
    schedule, whatever happens on the other four channels. -/
theorem axilite_channels_independent (k : Nat) (z : α) (c : AxChan) (ins : List (AxIn α)) :
    (axRun k z (axInit k z) ins).ch c = runFrom k false z (afInit k z) (ins.map (axChanIn c)) := by
  rw [ax_run_ch, ax_init_ch]

/-! ### `stream.Monitor` in a foreign clock domain: strobes out by PulseSynchronizer, count back by MultiReg -/

/-- The latch strobe never fires more often in the monitored domain than software issued it … -/
theorem monitor_latch_no_spurious (w : Nat) (ins : List MonIn) :
    monLatches w monInit ins ≤ psSent (ins.map monLatIn) := by
  rw [mon_latches]
  have := pulsesync_no_spurious (ins.map monLatIn)
  simp only [monInit] at *
  omega

/-- … and, if strobes are spaced (`PSpaced`), every strobe latches exactly once (at most 3 still in flight). -/
theorem monitor_latch_exactly_once_partial (w : Nat) (ins : List MonIn)
    (h : PSpaced false (ins.map monLatIn)) :
    psSent (ins.map monLatIn) = monLatches w monInit ins + psFlight (monRun w monInit ins).lat ∧
    psFlight (monRun w monInit ins).lat ≤ 3 := by
  rw [mon_latches, mon_lat_run]
  exact pulsesync_partial (ins.map monLatIn) h

/-- **monitor_status_partial.**  After any history `x`: if the latched count does not change during `y` (no
    latch or reset event lands) and `y` contains two sys-clock edges, the CSR status is exactly the latched count
    — for every interleaving and every per-bit resolution of the status synchroniser.
    Full statement ("the status is always a value the counter has held") is false: the count crosses through a
    plain `MultiReg`, see the witness below. -/
theorem monitor_status_partial (w : Nat) (x y : List MonIn)
    (hs : LatchedStable w (monRun w monInit x) y) (hy : 2 ≤ monSysTicks y) :
    (monRun w (monRun w monInit x) y).s2 = (monRun w monInit x).latd ∧
    (monRun w (monRun w monInit x) y).latd = (monRun w monInit x).latd := by
  obtain ⟨h1, h2⟩ := mon_status_progress w y _ hs
  exact ⟨(h2 (Or.inr (Or.inr hy))).2, h1⟩

/-- Negative witness (replayed on the real `Monitor`, `corpus/C05/monitor_torn_status.json`): the latched count
    goes 1 → 2 (`01 → 10`) at a latch event that coincides with a sys edge whose first flop catches bit 1 new and
    bit 0 old; software then reads 3 although only two tokens were ever counted and no reset occurred. -/
example :
    let e (ts tc : Bool) (mc : Nat) (la en : Bool) : MonIn := ⟨ts, tc, false, false, mc, false, la, en⟩
    let tr : List MonIn := [e false true 0 false true, e true false 0 true false, e false true 0 false false,
      e false true 0 false false, e false true 0 false false, e false true 0 false true, e true false 0 false false,
      e true false 0 false false, e true false 0 true false, e false true 0 false false, e false true 0 false false,
      e true true 2 false false, e true false 0 false false]
    (monRun 2 monInit tr).s2 = 3 ∧ (monRun 2 monInit tr).cnt = 2 ∧ (monRun 2 monInit tr).latd = 2 := by decide

/-- **monitor_status_mixture** (full statement, no hypothesis): whatever software reads is, bit by bit, taken from
    two values the latched count has really held — `status = mix m a b` with `a`, `b` in the history of
    `_count_latched` (reset value included).  In particular every bit that is equal in `a` and `b` is read
    correctly (`monitor_torn_read_hull`), and the status never shows a bit pattern foreign to both. -/
theorem monitor_status_mixture (w : Nat) (ins : List MonIn) :
    ∃ a b m, a ∈ monLatdHist w monInit ins ∧ b ∈ monLatdHist w monInit ins ∧
      (monRun w monInit ins).s2 = mix m a b := by
  have h0 : IsMix ([] ++ [monInit.latd]) 0 := isMix_mem (by simp [monInit])
  simpa [IsMix] using mon_status_mix w ins monInit [] h0 h0

/-- Bounded error of a torn read: every bit set in both `a` and `b` is set in the mixture, every bit set in the
    mixture is set in `a` or `b` (so `a &&& b ≤ status ≤ a ||| b` bit-wise). -/
theorem monitor_torn_read_hull (m a b i : Nat) :
    ((a &&& b).testBit i = true → (mix m a b).testBit i = true) ∧
    ((mix m a b).testBit i = true → (a ||| b).testBit i = true) := mix_hull m a b i

/-- **monitor_status_coherent_partial** — exactly which observations can be torn: only those sampled at a sys-clock
    edge that coincides with an edge of the monitored clock at which a latch or reset event changes the latched
    count.  On every schedule without such a coincidence (`NoCoincidentChange`; any interleaving and any resolution
    otherwise) the status is always a value the latched count really held.  The negative witness above has such a
    coincidence (checked below). -/
theorem monitor_status_coherent_partial (w : Nat) (ins : List MonIn) (h : NoCoincidentChange w monInit ins) :
    (monRun w monInit ins).s2 ∈ monLatdHist w monInit ins := by
  simpa using mon_status_coherent w ins monInit [] h (by simp [monInit]) (by simp [monInit])

/-- The torn-read witness violates exactly that hypothesis, and its torn value 3 is the mixture of the two
    consecutive latched values 1 and 2 (`01`, `10`): inside the AND/OR hull `[0, 3]`, outside the history. -/
example :
    let e (ts tc : Bool) (mc : Nat) (la en : Bool) : MonIn := ⟨ts, tc, false, false, mc, false, la, en⟩
    let tr : List MonIn := [e false true 0 false true, e true false 0 true false, e false true 0 false false,
      e false true 0 false false, e false true 0 false false, e false true 0 false true, e true false 0 false false,
      e true false 0 false false, e true false 0 true false, e false true 0 false false, e false true 0 false false,
      e true true 2 false false, e true false 0 false false]
    ¬ NoCoincidentChange 2 monInit tr ∧ (monRun 2 monInit tr).s2 ∉ monLatdHist 2 monInit tr ∧
      (monRun 2 monInit tr).s2 = mix 2 1 2 := by decide

/-- Non-vacuity of `monitor_status_coherent_partial`: a latch of count 1 crosses without coincidence. -/
example :
    let e (ts tc : Bool) (la en : Bool) : MonIn := ⟨ts, tc, false, false, 0, false, la, en⟩
    let tr : List MonIn := [e false true false true, e true false true false, e false true false false,
      e false true false false, e false true false false, e false true false false, e true false false false,
      e true false false false]
    NoCoincidentChange 1 monInit tr ∧ (monRun 1 monInit tr).s2 = 1 := by decide

/-! ### Which primitive is selected (Python-level glue, tied through the driver's `call`) -/

/-- `ClockDomainCrossing` builds an asynchronous FIFO exactly when the two domains differ — with the requested
    depth (4 by default) and the requested output stage; otherwise a wire, or a `Buffer` when `buffered`. -/
theorem cdc_kind_spec (a b : String) (d : Option Nat) (buf : Bool) :
    (a ≠ b → cdcKind a b d buf = .afifo (d.getD 2) buf) ∧
    (a = b → cdcKind a b d buf = if buf then .buffer else .wire) := by
  constructor <;> intro h <;> simp [cdcKind, h]

open Litex.Stream Litex.Stream.Elem in
/-- Same-domain crossing, unbuffered (`sink.connect(source)`): every schedule delivers exactly what it accepts,
    in the same cycle. -/
theorem cdc_same_domain_wire_rel (ins : List (Stream.In α)) :
    (wire (α := α)).accepted () ins = (wire (α := α)).delivered () ins :=
  rel_run_init (wire (α := α)) wireRel rfl wire_step ins

open Litex.Stream Litex.Stream.Elem in
/-- Same-domain crossing, buffered (`Buffer(layout)` = `PipeValid`): accepted = delivered ++ (the token in the
    register), so delivered is a prefix of accepted and at most one token is in flight. -/
theorem cdc_same_domain_buffered_rel (z : Stream.Tok α) (ins : List (Stream.In α)) :
    (pipeValid z).accepted (pipeValid z).init ins =
      (pipeValid z).delivered (pipeValid z).init ins ++ ((pipeValid z).runFrom (pipeValid z).init ins).inflight ∧
    (pipeValid z).delivered (pipeValid z).init ins <+: (pipeValid z).accepted (pipeValid z).init ins ∧
    ((pipeValid z).runFrom (pipeValid z).init ins).inflight.length ≤ 1 := by
  have h := rel_run_init (pipeValid z) pvRel (by simp [pvRel, pipeValid, PVState.inflight]) (pipeValid_step z) ins
  refine ⟨h, ?_, ?_⟩
  · rw [h]; exact List.prefix_append _ _
  · simp only [PVState.inflight]; split <;> simp

/-- **`uart._get_uart_fifo`**: an asynchronous FIFO if and only if the two domains differ (otherwise the
    buffered synchronous FIFO), with the requested depth. -/
theorem uart_fifo_async_iff (d : Nat) (a b : String) :
    (uartFifoKind d a b = .async d ↔ a ≠ b) ∧ (uartFifoKind d a b = .syncBuffered d ↔ a = b) := by
  by_cases h : a = b <;> simp [uartFifoKind, h]

/-- `UART(phy_cd)`: both FIFOs are crossings exactly when the PHY domain is not `sys` — TX from `sys` to
    `phy_cd`, RX from `phy_cd` to `sys`; the token relation of each is then `afifo_token_rel`. -/
theorem uart_fifos_cross_iff (dt dr : Nat) (p : String) :
    (uartTxFifo dt p = .async dt ∧ uartRxFifo dr p = .async dr ↔ p ≠ "sys") ∧
    (uartTxFifo dt p = .syncBuffered dt ∧ uartRxFifo dr p = .syncBuffered dr ↔ p = "sys") := by
  by_cases h : p = "sys"
  · subst h; simp [uartTxFifo, uartRxFifo, uartFifoKind]
  · have h' : ¬ "sys" = p := fun e => h e.symm
    simp [uartTxFifo, uartRxFifo, uartFifoKind, h, h']

/-! ### Users of the crossing: `UARTBone` / `UARTWishboneBridge` with `cd ≠ "sys"`

  The async-FIFO theorems assume that the sink handshake happens at write-clock edges and the source handshake at
  read-clock edges, i.e. that whatever drives a port of the crossing lives in that port's domain.  `uartBoneDomains`
  is the domain assignment `UARTBone.__init__` makes (compared on every run with the domains measured on the
  lowered real module: which clock the PHY's registers, the bridge's registers and each FIFO side really have),
  and the harness additionally audits every user's lowered fragment (no register of one domain is read by sync
  logic of another except through a synchroniser or FIFO storage) and drives `UARTBone(cd="uart")` end to end with
  unrelated clocks. -/

/-- **uartbone_ports_in_own_domain.**  With the assignment the code makes, every port of both crossings is driven
    from its own domain: `rx_cdc` is written in the PHY's domain and read in the bridge's, `tx_cdc` the other way
    round; there is a crossing exactly when the two domains differ, and then it is an asynchronous FIFO. -/
theorem uartbone_ports_in_own_domain (cd : String) :
    let d := uartBoneDomains cd
    (∀ p, d.rx = some p → p.1 = d.phy ∧ p.2 = d.bridge) ∧
    (∀ p, d.tx = some p → p.1 = d.bridge ∧ p.2 = d.phy) ∧
    (d.rx = none ↔ d.phy = d.bridge) ∧ (d.tx = none ↔ d.phy = d.bridge) ∧
    (d.phy ≠ d.bridge → cdcKind d.phy d.bridge none false = .afifo 2 false ∧
                        cdcKind d.bridge d.phy none false = .afifo 2 false) := by
  by_cases h : cd = "sys"
  · subst h; simp [uartBoneDomains]
  · have h' : ¬ "sys" = cd := fun e => h e.symm
    simp [uartBoneDomains, h, h', cdcKind]

/-- **uartbone_crossing_rel.**  Hence (`cd ≠ "sys"`), with `tw` = edges of the PHY clock and `tr` = edges of the sys
    clock for the received bytes (and the other way round for the bytes to transmit), both byte streams satisfy the
    FIFO theorem: what the bridge (resp. the PHY) takes is a prefix of what the PHY (resp. the bridge) handed in —
    for every relation of the two clocks. -/
theorem uartbone_crossing_rel (cd : String) (hcd : cd ≠ "sys") (z : α) (ins : List (AFIn α)) :
    (uartBoneDomains cd).rx = some ((uartBoneDomains cd).phy, (uartBoneDomains cd).bridge) ∧
    (uartBoneDomains cd).tx = some ((uartBoneDomains cd).bridge, (uartBoneDomains cd).phy) ∧
    delivered 2 false z (afInit 2 z) ins <+: accepted 2 false z (afInit 2 z) ins := by
  refine ⟨by simp [uartBoneDomains, hcd], by simp [uartBoneDomains, hcd], afifo_delivered_prefix 2 false z (by omega) ins⟩

example : (uartBoneDomains "uart").show = "phy=uart bridge=sys rx=uart>sys tx=sys>uart" ∧
    (uartBoneDomains "sys").show = "phy=sys bridge=sys rx=none tx=none" := by decide

/-! ### Non-vacuity: a concrete schedule with coincident edges and both resolutions, on which tokens move -/

example :
    let ins : List (AFIn Nat) :=
      [⟨true, false, 0, 0, true, 5, false⟩,      -- write edge: token 5 accepted
       ⟨true, true, 0, 7, true, 6, true⟩,        -- both edges: token 6 accepted, read side catches the new pointer
       ⟨false, true, 0, 0, false, 0, true⟩,      -- read edges: pointer reaches produce_rdomain
       ⟨true, true, 7, 0, true, 7, true⟩,        -- both edges: 5 delivered, 7 accepted
       ⟨false, true, 0, 0, false, 0, true⟩]      -- 6 delivered
    accepted 2 false 0 (afInit 2 0) ins = [5, 6, 7] ∧ delivered 2 false 0 (afInit 2 0) ins = [5, 6] := by
  decide

end Litex.C05
