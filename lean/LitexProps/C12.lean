import LitexProofs.Csr.Atomic
import LitexProofs.Csr.Fields
import LitexProofs.Csr.Array
import LitexProofs.Csr.Gather
import LitexProofs.Csr.Sram
import LitexProofs.Csr.Glue
import LitexProofs.Csr.Scan
import LitexProofs.Csr.Auto
/-
  C12 — CSR banks give software exact, side-effect-free register semantics.

  INVENTORY of the anchor files against the model (csr_eventmanager.py belongs to C15).  "tie" = how the model function is
  compared with the real code on every run (A/B = co-exploration / co-simulation of real netlists, C = Python-level
  differential in harness/props/c12.py).

  csr.py                                   | model (LitexModel/Csr/…)               | theorems here                      | tie
  -----------------------------------------+----------------------------------------+------------------------------------+-----------
  _CSRBase (size, name, n, fixed)          | RegSpec.size/.fixed (names: C14)       | sorted_items*                      | C sort
  CSRConstant (value, n, read)             | ObjDesc.consts, GItem, scanConstants   | scan_constants_complete, gather_*  | C scan, members
  CSR (r/re/w/we, combinational strobes)   | Kind.raw, regOut, wordVal              | raw_strobes_exact                  | A/B bank
  CSRAccess, CSRField (size/offset/reset/  | FieldDecl, FieldSpec, resolveFields,   | field_offsets, field_overlap_      | C fields,
    pulse/access; description/values are   |   fieldsSize, fieldsReset, fieldOut,   |   rejected, field_values, pulse_   |   access,
    documentation only: no behaviour)      |   Access, resolveAccess, checkNames     |   field_one_cycle, field_access_*, |   A/B bank
  CSRFieldAggregate (check_names, check_   |                                        |   field_names_unique               |
    ordering_overlap, get_size, get_reset, |                                        |                                    |
    access resolution)                     |                                        |                                    |
  CSRStatus (status, fields → status       | Kind.status, statusOfFields, wordVal,  | bank_read_next_cycle, read_strobe_ | A/B bank,
    slices, we/re, read_only=False → r,    |   regNext (.status), regOut            |   exact, status_write_exact,       |   directed
    reset)                                 |                                        |   status_fields_bits               |   status reset
  CSRStorage (storage, reset, fields,      | Kind.storage, initReg, devVal, regNext,| bank_write_exact, bank_atomic_*,   | A/B bank
    atomic_write back-store, write_from_   |   backPairs, isAtomic, fieldOut        |   strobe_*, storage_reset,         |
    dev we/dat_w, re, reset_less: sim-     |                                        |   bus_write_overrides_device_write,|
    identical)                             |                                        |   storage_in_range                 |
  do_finalize (word split, big/little)     | simpleCsrs, wordOrder, lastWord, addrOf| addresses_injective, decode_exact  | C layout
  csrprefix/memprefix, _make_gatherer,     | GItem (path/name/duid), gatherOrder,   | gather_creation_order, gather_     | C gather,
    AutoCSR.get_csrs/get_memories/         |   gatherSorted                         |   names_injective, gather_sorted_  |   members
    get_constants (nested, prefix once,    |                                        |   fixed                            |
    DUID order, autocsr_exclude)           |                                        |                                    |
  _sort_gathered_items                     | sortGathered                           | sorted_items, sorted_items_partial | C sort
  GenericBank                              | simpleCsrs                             | (layout lemmas)                    | C layout
  read()/write() simulation helpers        | — (simulation-only; directed check     | —                                  | C sim helpers
                                           |   under the real run_simulation)       |                                    |

  csr_bus.py                               |                                        |                                    |
  -----------------------------------------+----------------------------------------+------------------------------------+-----------
  Interface (data/address width), like     | IfW, IfW.like, IfW.clip                | interface_like_carries_widths      | C glue
  Interface.write/read helpers             | — (see above)                          | —                                  | C sim helpers
  Interconnect, InterconnectShared         | GlueCfg, slaveBus, viaInter, glueArray | glue_transparent*, glue_access_    | A/B glue*,
                                           |                                        |   reaches_exactly_addressed_bank,  |   socglue*
                                           |                                        |   glue_no_alias                    |
  SRAM (word/page addressing, read_only,   | SramCfg, sram, sramDatR, pageBits,     | sram_* (6), sram_paged_address,    | A/B sram*
    init, sub-word staging, _page)         |   portAdr, clampAdr                    |   sram_staging_order_any_ratio     |
  CSRBank (sel, decode, registered mux)    | BankCfg, bank                          | all "bank_*" theorems              | A/B bank*
  CSRBankArray.scan (registers + memories  | ObjDesc, MemDesc, scan, pageReg,       | scan_banks, scan_keeps_registers,  | C scan,
    + constants, address_map, get_buses)   |   objSlots, scanConstants              |   scan_page_link, scan_constants_  |   A/B via-scan
                                           |                                        |   complete                         |
  SoCCSRHandler.n_locs / SoC.do_finalize   | csrNLocs, socGlue                      | soc_locations                      | C glue, B socglue*
    (soc.py glue)                          |                                        |                                    |

  Not modelled: out-of-window SRAM accesses (simulator clamps the index: unspecified), exported names/addresses (C14),
  `description`/`values` of fields (documentation), `reset_less` (no reset pin in this simulation model).
-/
/-
  Notation.    `c : BankCfg` is an arbitrary bank: any bus width `bw`, ordering, page size `2^pbits`, bank number and ANY list
  of registers (storages with/without atomic write and device write, statuses, raw CSRs, any sizes).
  `s : BankState` is an arbitrary state (in particular every state reached by any history of bus accesses and
  device-side updates), `i : BankIn` an arbitrary cycle input: bus `adr/re/we/dat_w` plus the device-side inputs
  of every register.  `c.wordAdr k j` is the bus address of word `j` (bits `[j*bw, j*bw+wordBits)`) of
  register `k`; `c.Fits` says the bank's words fit into its page (`len(simple_csrs) ≤ paging/4`).
-/
namespace Litex.C12
open Litex Litex.Csr

/-! ## Addresses -/

/-- No two words (hence no two registers) of a bank share a bus address. -/
theorem addresses_injective (c : BankCfg) (k j k' j' : Nat) (hv : c.ValidWord k j) (hv' : c.ValidWord k' j')
    (h : c.wordAdr k j = c.wordAdr k' j') : k = k' ∧ j = j' :=
  c.wordAdr_injective k j k' j' hv hv' h

/-- Words of banks with different bank numbers never share a bus address. -/
theorem addresses_injective_banks (c c' : BankCfg) (hp : c.pbits = c'.pbits) (hfit : c.Fits) (hfit' : c'.Fits)
    (hne : c.address ≠ c'.address) (k j k' j' : Nat) (hv : c.ValidWord k j) (hv' : c'.ValidWord k' j') :
    c.wordAdr k j ≠ c'.wordAdr k' j' := by
  intro h
  have h1 := (c.wordAdr_div k j hfit hv).1
  have h2 := (c'.wordAdr_div k' j' hfit' hv').1
  rw [h, hp, h2] at h1
  exact hne h1.symm

/-- The decode is exact: an access hits word `j` of register `k` iff its address is `wordAdr k j`. -/
theorem decode_exact (c : BankCfg) (hfit : c.Fits) (a k j : Nat) (hv : c.ValidWord k j) :
    c.hit a = some (c.simple k j) ↔ a = c.wordAdr k j := by
  constructor
  · intro h
    obtain ⟨k', j', hv', hsc, ha⟩ := c.hit_inv a _ h
    have hk : k = k' := by
      have := congrArg Simple.reg hsc
      simpa [BankCfg.simple_reg] using this
    subst hk
    have hj : j = j' := by
      have := congrArg Simple.word hsc
      rwa [c.simple_word k j hv, c.simple_word k j' hv'] at this
    subst hj
    exact ha
  · intro h
    rw [h]
    exact c.hit_wordAdr k j hfit hv

/-! ## Writes -/

/-- **A bus write changes exactly the addressed bits** (non-atomic storage): after a write of `dat_w` to word
    `j` of storage `k`, bits `[j*bw, j*bw+wordBits)` hold `dat_w` and every other bit of the register holds
    what it would hold without the bus write (`devVal`: the device-written value if the device writes in the
    same cycle, otherwise the old value). -/
theorem bank_write_exact (c : BankCfg) (hfit : c.Fits) (s : BankState) (i : BankIn) (k j : Nat)
    (hv : c.ValidWord k j) (hkind : (c.spec k).kind = .storage) (hna : isAtomic c.bw (c.spec k) = false)
    (hwe : i.bus.we = true) (hadr : i.bus.adr = c.wordAdr k j) :
    let v' := (((bank c).next s i).reg k).val
    let v0 := devVal (c.spec k) (s.reg k) (i.devOf k)
    let nb := wordBits c.bw (c.spec k).size j
    slice (j * c.bw) nb v' = trunc nb i.bus.datW ∧
    ∀ b, ¬ (j * c.bw ≤ b ∧ b < j * c.bw + nb) → v'.testBit b = v0.testBit b := by
  have hraw : (c.spec k).kind ≠ .raw := by rw [hkind]; decide
  obtain ⟨hlo, hnb⟩ := simple_lo c k j hraw
  intro v' v0 nb
  have hv'eq : v' = setSlice (j * c.bw) nb v0 i.bus.datW := by
    simp only [v', next_reg c s i k hv.1, hwe, hadr, if_true, c.hitReg_wordAdr k j hfit hv, regNext, hkind,
      hna, hlo, hnb]
    rfl
  rw [hv'eq]
  exact ⟨slice_setSlice_same _ _ _ _, fun b hb => testBit_setSlice_outside _ _ _ _ _ hb⟩

/-- **Accesses to other addresses or banks have no effect**: if the cycle is not a bus write to a word of
    register `k` (it is a read, an idle cycle, a write to another register, to an unpopulated word or to
    another bank), then a storage keeps its value (up to its own device write), its back-store is unchanged
    and no write strobe is produced. -/
theorem bank_access_elsewhere_no_effect (c : BankCfg) (s : BankState) (i : BankIn) (k : Nat)
    (hk : k < c.regs.length) (hkind : (c.spec k).kind ≠ .raw)
    (h : i.bus.we = false ∨ ∀ j, c.ValidWord k j → i.bus.adr ≠ c.wordAdr k j) :
    let r' := ((bank c).next s i).reg k
    r'.re = false ∧ r'.back = (s.reg k).back ∧
    r'.val = (if (c.spec k).kind = .storage then devVal (c.spec k) (s.reg k) (i.devOf k) else (s.reg k).val) := by
  have hnone : (if i.bus.we then c.hitReg i.bus.adr k else none) = none := by
    cases h with
    | inl h => simp [h]
    | inr h => simp [c.hitReg_none_of_ne _ _ h]
  intro r'
  have : r' = regNext c.bw (c.spec k) (s.reg k) none i.bus.datW (i.devOf k) := by
    simp only [r', next_reg c s i k hk, hnone]
  rw [this]
  unfold regNext
  cases hkd : (c.spec k).kind <;> simp_all

/-- Reads never change any register state: a cycle with `we = 0` leaves the registers exactly as an idle bus
    cycle with the same device inputs would. -/
theorem bank_read_side_effect_free (c : BankCfg) (s : BankState) (i : BankIn) (hwe : i.bus.we = false) :
    ((bank c).next s i).regs =
      ((bank c).next s { i with bus := { i.bus with re := false } }).regs := by
  simp [bank, hwe]

/-! ## Atomic writes -/

/-- Atomic storage, upper word (`j ≠ 0`): the written bits go to the back-store; the visible register does not
    change (up to its own device write). -/
theorem bank_atomic_stage (c : BankCfg) (hfit : c.Fits) (s : BankState) (i : BankIn) (k j : Nat)
    (hv : c.ValidWord k j) (hkind : (c.spec k).kind = .storage) (hat : isAtomic c.bw (c.spec k) = true)
    (hj : j ≠ 0) (hwe : i.bus.we = true) (hadr : i.bus.adr = c.wordAdr k j) :
    let r' := ((bank c).next s i).reg k
    r'.val = devVal (c.spec k) (s.reg k) (i.devOf k) ∧
    r'.back = (s.reg k).back.set (j - 1) (trunc (wordBits c.bw (c.spec k).size j) i.bus.datW) := by
  have hraw : (c.spec k).kind ≠ .raw := by rw [hkind]; decide
  obtain ⟨_, hnb⟩ := simple_lo c k j hraw
  intro r'
  simp only [r', next_reg c s i k hv.1, hwe, hadr, if_true, c.hitReg_wordAdr k j hfit hv, regNext, hkind, hat,
    c.simple_word k j hv, hj, if_false, hnb, and_self]

/-- **Atomic commit**: the whole register changes in the cycle word 0 is written, to `dat_w` in the low bus
    word and the staged back-store words above it. -/
theorem bank_atomic_commit (c : BankCfg) (hfit : c.Fits) (s : BankState) (i : BankIn) (k : Nat)
    (hv : c.ValidWord k 0) (hkind : (c.spec k).kind = .storage) (hat : isAtomic c.bw (c.spec k) = true)
    (hwe : i.bus.we = true) (hadr : i.bus.adr = c.wordAdr k 0) :
    let r' := ((bank c).next s i).reg k
    r'.val = trunc (c.spec k).size (cat ((c.bw, i.bus.datW) :: backPairs c.bw (c.spec k).size (s.reg k).back 1)) ∧
    r'.back = (s.reg k).back := by
  intro r'
  simp only [r', next_reg c s i k hv.1, hwe, hadr, if_true, c.hitReg_wordAdr k 0 hfit hv, regNext, hkind, hat,
    c.simple_word k 0 hv, and_self]

/-- The value software intends when it writes the data words `ds` to the ascending addresses of an `n`-word
    register: with ordering big the lowest address carries the most significant word, with ordering little the
    least significant one. -/
def intended (ord : WordOrdering) (bw size n : Nat) (ds : List Nat) : Nat :=
  trunc size (cat (match ord with
    | .big => wordPairsBig bw size n ds
    | .little => (List.range n).map fun j => (wordBits bw size j, ds.getD j 0)))

/-
  Full statement (atomic writes as the property states them — "all of a multi-word register at once"):

  theorem bank_atomic_all_at_once : … (h : AscWrites c k (c.lowAdr k) 0 ds ins) →
      (∀ pre, pre <+: ins → val after pre = old ∨ val after pre = intended c.ord …) ∧ val after ins = intended c.ord …

  It FAILS for ordering = little (the commit word, word 0, then sits at the LOWEST address and is written first):
  see the negative witness below.  Proved under the hypothesis `c.ord = .big`.
-/

/-- **Atomic multi-word write, all at once** (ordering big).  Start in any reachable state.  Software writes the
    `n` data words `ds` of atomic storage `k` to its `n` consecutive addresses in ascending order; before, between
    and after these writes any number of other cycles may happen (reads anywhere, writes to other registers or
    banks, idle cycles, device activity on other registers — `Quiet`).  Then at every moment of the sequence the
    register holds either its complete old value or the complete new value, never a mixture, and at the end it
    holds the new value. -/
theorem bank_atomic_all_at_once_partial (c : BankCfg) (hfit : c.Fits) (hbig : c.ord = .big) (k : Nat)
    (hk : k < c.regs.length) (hkind : (c.spec k).kind = .storage) (hat : isAtomic c.bw (c.spec k) = true)
    (hist : List BankIn) (ds : List Nat) (hds : ds.length = nwords c.bw (c.spec k).size) (ins : List BankIn)
    (h : AscWrites c k (c.lowAdr k) 0 ds ins) :
    let s := (bank c).run hist
    let old := (s.reg k).val
    let new := intended c.ord c.bw (c.spec k).size (nwords c.bw (c.spec k).size) ds
    (∀ pre, pre <+: ins →
        (((bank c).runFrom s pre).reg k).val = old ∨ (((bank c).runFrom s pre).reg k).val = new) ∧
    (((bank c).runFrom s ins).reg k).val = new := by
  intro s old new
  have hraw : (c.spec k).kind ≠ .raw := by rw [hkind]; decide
  have hn1 : 1 < nwords c.bw (c.spec k).size := by
    have := hat; unfold isAtomic at this; simp at this; exact this.2
  have hlow : c.lowAdr k = c.wordAdr k (nwords c.bw (c.spec k).size - 1) := by
    unfold BankCfg.lowAdr BankCfg.wordAdr addrOf posIn
    rw [show c.regs.getD k default = c.spec k from rfl]
    cases hkd : (c.spec k).kind
    · simp [hbig, wordPos]
    · simp [hbig, wordPos]
    · exact absurd hkd hraw
  rw [hlow] at h
  have hwf := run_wf c hist k hk hkind
  have hinv : AtomicInv c k ds old 0 s :=
    ⟨hwf.2 hat, fun p hp _ => by omega, fun _ => rfl, fun h0 => by omega⟩
  have := atomic_seq c hfit k hk hkind hat hbig ds old hds 0 ds ins h s rfl (by omega) hinv
  simpa [new, intended, hbig] using this

/-! Non-vacuity: 16-bit atomic storage on an 8-bit bus, ordering big; software writes 0x12 to address 0, something
    reads elsewhere, software writes 0x34 to address 1.  The hypotheses hold and the register goes 0 → 0 → 0 → 0x1234. -/
def wr (a d : Nat) : BankIn := { bus := { adr := a, re := false, we := true, datW := d }, dev := [] }
def rd (a : Nat) : BankIn := { bus := { adr := a, re := true, we := false, datW := 0 }, dev := [] }
def atomic16 (ord : WordOrdering) : BankCfg :=
  { bw := 8, ord := ord, pbits := 9, address := 0, regs := [{ kind := .storage, size := 16, atomic := true }] }

example : AscWrites (atomic16 .big) 0 ((atomic16 .big).lowAdr 0) 0 [0x12, 0x34] [wr 0 0x12, rd 5, wr 1 0x34] :=
  .write 0 0x12 [0x34] _ _ ⟨rfl, rfl, rfl, rfl⟩
    (.quiet 1 [0x34] _ _ ⟨Or.inl rfl, rfl⟩ (.write 1 0x34 [] _ _ ⟨rfl, rfl, rfl, rfl⟩ (.done 2)))

example : (atomic16 .big).Fits ∧ isAtomic 8 ((atomic16 .big).spec 0) = true ∧
    ([[], [wr 0 0x12], [wr 0 0x12, rd 5], [wr 0 0x12, rd 5, wr 1 0x34]].map fun pre =>
      (((bank (atomic16 .big)).run pre).reg 0).val) = [0, 0, 0, 0x1234] ∧
    intended .big 8 16 2 [0x12, 0x34] = 0x1234 := by decide

/-- **Negative witness (known finding C12-atomic-little-ordering).**  Same register, ordering little: software
    writes 0x34 (low byte) to address 0 and 0x12 (high byte) to address 1, i.e. intends 0x1234.  The sequence
    satisfies `AscWrites`, but after the first write the register holds 0x0034 — neither the old value 0 nor the
    intended 0x1234 — and it still holds 0x0034 after the second write. -/
example : AscWrites (atomic16 .little) 0 ((atomic16 .little).lowAdr 0) 0 [0x34, 0x12] [wr 0 0x34, wr 1 0x12] :=
  .write 0 0x34 [0x12] _ _ ⟨rfl, rfl, rfl, rfl⟩ (.write 1 0x12 [] _ _ ⟨rfl, rfl, rfl, rfl⟩ (.done 2))

example :
    let c := atomic16 .little
    let new := intended .little 8 16 2 [0x34, 0x12]
    new = 0x1234 ∧
    ¬ ((((bank c).run [wr 0 0x34]).reg 0).val = 0 ∨ (((bank c).run [wr 0 0x34]).reg 0).val = new) ∧
    ¬ ((((bank c).run [wr 0 0x34, wr 1 0x12]).reg 0).val = new) := by decide

/-! ## Reads -/

/-- **A bus read returns the current value of the addressed word one cycle later**: whatever else happens in
    the cycle, the registered `dat_r` after an access to word `j` of register `k` is that word's value in the
    access cycle (storage bits `[j*bw, j*bw+wordBits)`, resp. the status / `w` input of that cycle). -/
theorem bank_read_next_cycle (c : BankCfg) (hfit : c.Fits) (s : BankState) (i : BankIn) (k j : Nat)
    (hv : c.ValidWord k j) (hadr : i.bus.adr = c.wordAdr k j) :
    ((bank c).next s i).datR = wordVal (c.spec k) (s.reg k) (i.devOf k) (c.simple k j) := by
  rw [next_datR, hadr, c.hit_wordAdr k j hfit hv]
  simp [BankCfg.simple_reg]

/-- …for a storage this is the slice of the stored value. -/
theorem bank_read_storage (c : BankCfg) (hfit : c.Fits) (s : BankState) (i : BankIn) (k j : Nat)
    (hv : c.ValidWord k j) (hkind : (c.spec k).kind = .storage) (hadr : i.bus.adr = c.wordAdr k j) :
    ((bank c).next s i).datR = slice (j * c.bw) (wordBits c.bw (c.spec k).size j) (s.reg k).val := by
  have hraw : (c.spec k).kind ≠ .raw := by rw [hkind]; decide
  obtain ⟨hlo, hnb⟩ := simple_lo c k j hraw
  rw [bank_read_next_cycle c hfit s i k j hv hadr]
  simp [wordVal, hkind, hlo, hnb]

/-- **A bank that is not addressed drives zero** (also for an unpopulated word of the addressed bank). -/
theorem bank_unselected_zero (c : BankCfg) (s : BankState) (i : BankIn)
    (h : i.bus.adr / 2 ^ c.pbits ≠ c.address ∨ c.simples.length ≤ i.bus.adr % 2 ^ c.pbits) :
    ((bank c).next s i).datR = 0 := by
  rw [next_datR]
  have : c.hit i.bus.adr = none := by
    cases h with
    | inl h => exact c.hit_none_of_unselected _ h
    | inr h =>
      unfold BankCfg.hit
      split
      · exact List.getElem?_eq_none h
      · rfl
  rw [this]

/-! ## Strobes -/

/-- **Write strobes are single-cycle pulses caused only by writes to that register**: the registered `re` of a
    storage/status is high in a cycle iff the previous cycle was a bus write to the register's strobe word
    (`lastWord`: the word at the register's highest address). -/
theorem strobe_single_cycle (c : BankCfg) (hfit : c.Fits) (s : BankState) (i : BankIn) (k : Nat)
    (hk : k < c.regs.length) (hkind : (c.spec k).kind ≠ .raw) (hsz : 0 < nwords c.bw (c.spec k).size) :
    (((bank c).next s i).reg k).re =
      (i.bus.we && decide (i.bus.adr = c.wordAdr k (lastWord c.ord (nwords c.bw (c.spec k).size)))) := by
  have hrw : regWords c.bw (c.spec k) = nwords c.bw (c.spec k).size := by
    unfold regWords; cases h : (c.spec k).kind <;> simp_all
  have hvl : c.ValidWord k (lastWord c.ord (nwords c.bw (c.spec k).size)) :=
    ⟨hk, by show _ < regWords c.bw (c.spec k); rw [hrw]; exact lastWord_lt _ _ hsz⟩
  rw [next_reg c s i k hk]
  cases hwe : i.bus.we
  · simp only [Bool.false_eq_true, if_false, Bool.false_and]
    unfold regNext
    cases hkd : (c.spec k).kind <;> simp_all
  · simp only [if_true, Bool.true_and]
    cases hh : c.hitReg i.bus.adr k with
    | none =>
      have hne : i.bus.adr ≠ c.wordAdr k (lastWord c.ord (nwords c.bw (c.spec k).size)) := by
        intro h
        rw [h, c.hitReg_wordAdr k _ hfit hvl] at hh
        cases hh
      simp only [hne, decide_false]
      unfold regNext
      cases hkd : (c.spec k).kind <;> simp_all
    | some sc =>
      obtain ⟨j, hv, hsc, ha⟩ := c.hitReg_inv _ _ _ hh
      have hlast : sc.last = (j == lastWord c.ord (nwords c.bw (c.spec k).size)) := by
        rw [hsc]; exact simple_last c k j hkind
      have hiff : (i.bus.adr = c.wordAdr k (lastWord c.ord (nwords c.bw (c.spec k).size))) ↔
          j = lastWord c.ord (nwords c.bw (c.spec k).size) := by
        rw [ha]
        constructor
        · intro h; exact (c.wordAdr_injective _ _ _ _ hv hvl h).2
        · intro h; rw [← h]
      have hre : (regNext c.bw (c.spec k) (s.reg k) (some sc) i.bus.datW (i.devOf k)).re = sc.last := by
        unfold regNext
        cases hkd : (c.spec k).kind
        · simp only []
          split <;> [split; skip] <;> rfl
        · rfl
        · exact absurd hkd hkind
      rw [hre, hlast]
      by_cases hj : j = lastWord c.ord (nwords c.bw (c.spec k).size)
      · simp [hj, hiff.mpr hj]
      · have : ¬ (i.bus.adr = c.wordAdr k (lastWord c.ord (nwords c.bw (c.spec k).size))) := fun h => hj (hiff.mp h)
        simp [hj, this]

/-- What the device sees of register `k` in a cycle. -/
theorem out_reg (c : BankCfg) (s : BankState) (i : BankIn) (k : Nat) (hk : k < c.regs.length) :
    ((bank c).out s i).regs.getD k default = regOut c k (c.spec k) (s.reg k) i.bus := by
  simp [bank, List.getD_eq_getElem?_getD, hk, BankCfg.spec, BankState.reg]

/-- **Read strobes are caused only by reads of that register**: the `we` strobe of a status register is high in a
    cycle iff that cycle is a bus read (`re`) of the register's strobe word; it is combinational, hence exactly as
    long as the access. -/
theorem read_strobe_exact (c : BankCfg) (hfit : c.Fits) (s : BankState) (i : BankIn) (k : Nat)
    (hk : k < c.regs.length) (hkind : (c.spec k).kind = .status) (hsz : 0 < nwords c.bw (c.spec k).size) :
    (((bank c).out s i).regs.getD k default).we =
      (i.bus.re && decide (i.bus.adr = c.wordAdr k (lastWord c.ord (nwords c.bw (c.spec k).size)))) := by
  have hraw : (c.spec k).kind ≠ .raw := by rw [hkind]; decide
  have hvl : c.ValidWord k (lastWord c.ord (nwords c.bw (c.spec k).size)) :=
    ⟨hk, by rw [show c.regs.getD k default = c.spec k from rfl, regWords_of_not_raw _ _ hraw]; exact lastWord_lt _ _ hsz⟩
  rw [out_reg c s i k hk]
  simp only [regOut, hkind]
  cases hh : c.hitReg i.bus.adr k with
  | none =>
    have hne : i.bus.adr ≠ c.wordAdr k (lastWord c.ord (nwords c.bw (c.spec k).size)) := by
      intro h
      rw [h, c.hitReg_wordAdr k _ hfit hvl] at hh
      cases hh
    simp [hne]
  | some sc =>
    obtain ⟨j, hv, hsc, ha⟩ := c.hitReg_inv _ _ _ hh
    have hlast : sc.last = (j == lastWord c.ord (nwords c.bw (c.spec k).size)) := by
      rw [hsc]; exact simple_last c k j hraw
    simp only [hlast]
    by_cases hj : j = lastWord c.ord (nwords c.bw (c.spec k).size)
    · subst hj; simp [ha]
    · have : i.bus.adr ≠ c.wordAdr k (lastWord c.ord (nwords c.bw (c.spec k).size)) := by
        rw [ha]; intro h; exact hj (c.wordAdr_injective _ _ _ _ hv hvl h).2
      simp [hj, this]

/-- Raw `CSR`: `re`/`we` are high exactly during a bus write/read of its address and `r` carries the written data. -/
theorem raw_strobes_exact (c : BankCfg) (hfit : c.Fits) (s : BankState) (i : BankIn) (k : Nat)
    (hk : k < c.regs.length) (hkind : (c.spec k).kind = .raw) :
    let o := ((bank c).out s i).regs.getD k default
    o.re = (i.bus.we && decide (i.bus.adr = c.wordAdr k 0)) ∧
    o.we = (i.bus.re && decide (i.bus.adr = c.wordAdr k 0)) ∧
    o.r = trunc (c.spec k).size i.bus.datW := by
  have hv0 : c.ValidWord k 0 := ⟨hk, by rw [show c.regs.getD k default = c.spec k from rfl]; simp [regWords, hkind]⟩
  intro o
  have ho : o = regOut c k (c.spec k) (s.reg k) i.bus := out_reg c s i k hk
  rw [ho]
  simp only [regOut, hkind]
  cases hh : c.hitReg i.bus.adr k with
  | none =>
    have hne : i.bus.adr ≠ c.wordAdr k 0 := by
      intro h
      rw [h, c.hitReg_wordAdr k _ hfit hv0] at hh
      cases hh
    simp [hne]
  | some sc =>
    obtain ⟨j, hv, _, ha⟩ := c.hitReg_inv _ _ _ hh
    have hj : j = 0 := by
      have := hv.2
      rw [show c.regs.getD k default = c.spec k from rfl] at this
      simp [regWords, hkind] at this
      exact this
    subst hj
    simp [ha]

/-- Writable status (`read_only=False`): a bus write changes exactly the addressed bits of its `r` register. -/
theorem status_write_exact (c : BankCfg) (hfit : c.Fits) (s : BankState) (i : BankIn) (k j : Nat)
    (hv : c.ValidWord k j) (hkind : (c.spec k).kind = .status) (hwfd : (c.spec k).wfd = true)
    (hwe : i.bus.we = true) (hadr : i.bus.adr = c.wordAdr k j) :
    (((bank c).next s i).reg k).val =
      setSlice (j * c.bw) (wordBits c.bw (c.spec k).size j) (s.reg k).val i.bus.datW := by
  have hraw : (c.spec k).kind ≠ .raw := by rw [hkind]; decide
  obtain ⟨hlo, hnb⟩ := simple_lo c k j hraw
  simp only [next_reg c s i k hv.1, hwe, hadr, if_true, c.hitReg_wordAdr k j hfit hv, regNext, hkind, hwfd, hlo, hnb]

/-! ## Histories

The step theorems above hold in every state.  Stated over histories (`ins` = any sequence of bus accesses
interleaved with device-side updates, from reset): -/

/-- `re` of register `k` in the cycle after history `ins ++ [i]` is high iff cycle `i` wrote the strobe word. -/
theorem strobe_history (c : BankCfg) (hfit : c.Fits) (ins : List BankIn) (i : BankIn) (k : Nat)
    (hk : k < c.regs.length) (hkind : (c.spec k).kind ≠ .raw) (hsz : 0 < nwords c.bw (c.spec k).size) :
    (((bank c).run (ins ++ [i])).reg k).re =
      (i.bus.we && decide (i.bus.adr = c.wordAdr k (lastWord c.ord (nwords c.bw (c.spec k).size)))) := by
  rw [run_snoc]
  exact strobe_single_cycle c hfit _ i k hk hkind hsz

/-- After reset no strobe is active. -/
theorem strobe_reset (c : BankCfg) (k : Nat) (hk : k < c.regs.length) : (((bank c).run []).reg k).re = false := by
  show ((bank c).init.reg k).re = false
  rw [init_reg c k hk]
  rfl

/-- The read data seen in the cycle after `ins ++ [i]` is the word addressed in cycle `i`, as it was in cycle `i`. -/
theorem read_history (c : BankCfg) (hfit : c.Fits) (ins : List BankIn) (i : BankIn) (k j : Nat)
    (hv : c.ValidWord k j) (hadr : i.bus.adr = c.wordAdr k j) :
    ((bank c).run (ins ++ [i])).datR =
      wordVal (c.spec k) (((bank c).run ins).reg k) (i.devOf k) (c.simple k j) := by
  rw [run_snoc]
  exact bank_read_next_cycle c hfit _ i k j hv hadr

/-- **Write, then read back**: a bus write of `d` to word `j` of a non-atomic storage followed by any access to the
    same address returns `d` (truncated to the word's width) as read data, from any state, whatever the device
    does to other registers. -/
theorem write_then_read (c : BankCfg) (hfit : c.Fits) (s : BankState) (iw ir : BankIn) (k j : Nat)
    (hv : c.ValidWord k j) (hkind : (c.spec k).kind = .storage) (hna : isAtomic c.bw (c.spec k) = false)
    (hwe : iw.bus.we = true) (hadr : iw.bus.adr = c.wordAdr k j) (hadr' : ir.bus.adr = c.wordAdr k j) :
    ((bank c).next ((bank c).next s iw) ir).datR = trunc (wordBits c.bw (c.spec k).size j) iw.bus.datW := by
  rw [bank_read_storage c hfit _ ir k j hv hkind hadr']
  exact (bank_write_exact c hfit s iw k j hv hkind hna hwe hadr).1

/-- In every reachable state every storage value fits its declared size. -/
theorem storage_in_range (c : BankCfg) (ins : List BankIn) (k : Nat) (hk : k < c.regs.length)
    (hkind : (c.spec k).kind = .storage) : (((bank c).run ins).reg k).val < 2 ^ (c.spec k).size :=
  (run_wf c ins k hk hkind).1

/-! ## Fields -/

/-- **Fields sit at their declared bit offsets**, in declaration order and without overlap
    (`CSRFieldAggregate.check_ordering_overlap`, whenever it accepts the field list). -/
theorem field_offsets (ds : List FieldDecl) (fs : List FieldSpec) (h : resolveFields ds = some fs) :
    List.Forall₂ FieldMatches ds fs ∧ List.Pairwise (fun f g => f.offset + f.size ≤ g.offset) fs :=
  resolve_spec ds 0 fs h

/-- A declared offset below the first free bit after the preceding fields is rejected. -/
theorem field_overlap_rejected (pre : List FieldDecl) (fs : List FieldSpec) (d : FieldDecl) (post : List FieldDecl)
    (o : Nat) (hpre : resolveFields pre = some fs) (ho : d.offset = some o) (hlt : o < fieldsSize fs) :
    resolveFields (pre ++ d :: post) = none := by
  rw [← fieldsEnd_eq_size] at hlt
  exact resolve_overlap_rejected pre 0 fs d post o hpre ho hlt

/-- What the device sees on the field signals of storage `k`: field `f` shows `storage[offset : offset+size]`;
    a pulse field only while the write strobe is high. -/
theorem field_values (c : BankCfg) (s : BankState) (i : BankIn) (k : Nat) (hk : k < c.regs.length)
    (hkind : (c.spec k).kind = .storage) :
    (((bank c).out s i).regs.getD k default).fields =
      (c.spec k).fields.map fun f => fieldOut f (s.reg k).val (s.reg k).re := by
  simp [bank, regOut, List.getD_eq_getElem?_getD, hk, BankCfg.spec, BankState.reg] at hkind ⊢
  simp [hkind]

theorem field_plain_value (f : FieldSpec) (storage : Nat) (re : Bool) (h : f.pulse = false) :
    fieldOut f storage re = slice f.offset f.size storage := fieldOut_plain f storage re h

/-- **Pulse fields last one cycle**: in any history, a pulse field (reset 0) of storage `k` can be non-zero only in
    the cycle right after a bus write to the register's strobe word — i.e. for exactly one cycle per such write —
    and then it shows its bit(s) of the value just written. -/
theorem pulse_field_one_cycle (c : BankCfg) (hfit : c.Fits) (ins : List BankIn) (i : BankIn) (k : Nat)
    (hk : k < c.regs.length) (hkind : (c.spec k).kind = .storage) (hsz : 0 < nwords c.bw (c.spec k).size)
    (f : FieldSpec) (hp : f.pulse = true) (hr : f.reset = 0) :
    let s' := (bank c).run (ins ++ [i])
    fieldOut f (s'.reg k).val (s'.reg k).re ≠ 0 →
      (i.bus.we = true ∧ i.bus.adr = c.wordAdr k (lastWord c.ord (nwords c.bw (c.spec k).size))) ∧
      fieldOut f (s'.reg k).val (s'.reg k).re = slice f.offset f.size (s'.reg k).val := by
  intro s' hne
  have hraw : (c.spec k).kind ≠ .raw := by rw [hkind]; decide
  obtain ⟨hre, hval⟩ := fieldOut_pulse f _ _ hp hr hne
  rw [strobe_history c hfit ins i k hk hraw hsz] at hre
  simp only [Bool.and_eq_true, decide_eq_true_eq] at hre
  exact ⟨hre, hval⟩

/-! ## Several banks and memory windows on one bus (`CSRBankArray`, `Interconnect`, `InterconnectShared`) -/

/-- A slave that was not addressed in a cycle contributes zero to the OR-combined read data of the next cycle. -/
theorem unselected_slaves_drive_zero (c : ArrayCfg) (s : ArrayState) (i : ArrayIn) :
    (∀ j, j < c.banks.length → (c.banks.getD j default).sel (orBus i.masters).adr = false →
        (((bankArray c).next s i).banks.getD j default).datR = 0) ∧
    (∀ j, j < c.srams.length → (c.srams.getD j default).cfg.sel (orBus i.masters).adr = false →
        sramDatR (c.srams.getD j default).cfg (((bankArray c).next s i).srams.getD j default) = 0) := by
  constructor
  · intro j hj hsel
    rw [array_next_bank c s i j hj]
    exact next_datR_unselected _ _ _ hsel
  · intro j hj hsel
    rw [array_next_sram c s i j hj]
    exact sram_next_datR_unselected _ _ _ hsel

/-- **The OR-combined bus returns the addressed bank's data**: if bank `j` is the only slave addressed in a cycle,
    the read data every master sees in the next cycle is bank `j`'s read data. -/
theorem shared_or_bus (c : ArrayCfg) (s : ArrayState) (i i' : ArrayIn) (j : Nat) (hj : j < c.banks.length)
    (hothers : ∀ j', j' < c.banks.length → j' ≠ j → (c.banks.getD j' default).sel (orBus i.masters).adr = false)
    (hsrams : ∀ m, m < c.srams.length → (c.srams.getD m default).cfg.sel (orBus i.masters).adr = false) :
    ((bankArray c).out ((bankArray c).next s i) i').datR = (((bankArray c).next s i).banks.getD j default).datR := by
  obtain ⟨hb, hm⟩ := unselected_slaves_drive_zero c s i
  rw [array_out_datR]
  unfold ArrayCfg.datR
  have h1 : orList (((bankArray c).next s i).banks.map (·.datR)) =
      (((bankArray c).next s i).banks.map (·.datR)).getD j 0 := by
    apply orList_single
    intro j' hne
    by_cases hj' : j' < c.banks.length
    · have := hb j' hj' (hothers j' hj' hne)
      simp only [List.getD_eq_getElem?_getD, List.getElem?_map] at this ⊢
      have hlen : j' < ((bankArray c).next s i).banks.length := by simp [bankArray, hj']
      simp only [List.getElem?_eq_getElem hlen, Option.map_some, Option.getD_some] at this ⊢
      exact this
    · have hlen : ((bankArray c).next s i).banks.length ≤ j' := by simp [bankArray]; omega
      simp [List.getD_eq_getElem?_getD, List.getElem?_eq_none hlen]
  have h2 : orList (c.srams.mapIdx fun k m => sramDatR m.cfg (((bankArray c).next s i).srams.getD k default)) = 0 := by
    apply orList_zero
    intro m
    by_cases hm' : m < c.srams.length
    · have := hm m hm' (hsrams m hm')
      simp only [List.getD_eq_getElem?_getD, List.getElem?_mapIdx, List.getElem?_eq_getElem hm', Option.map_some,
        Option.getD_some] at this ⊢
      exact this
    · simp [List.getD_eq_getElem?_getD, List.getElem?_eq_none (Nat.le_of_not_lt hm')]
  rw [h1, h2, Nat.or_zero]
  have hlen : j < ((bankArray c).next s i).banks.length := by simp [bankArray, hj]
  simp [List.getD_eq_getElem?_getD, List.getElem?_eq_getElem hlen]

/-- Banks with different bank numbers (and a common page size) are never selected together. -/
theorem bank_select_exclusive (c c' : BankCfg) (hp : c.pbits = c'.pbits) (hne : c.address ≠ c'.address) (adr : Nat)
    (h : c.sel adr = true) : c'.sel adr = false := by
  unfold BankCfg.sel at *
  rw [hp] at h
  simp only [beq_iff_eq] at h
  simp only [beq_eq_false_iff_ne]
  omega

/-- If no slave is addressed the bus reads zero. -/
theorem shared_or_bus_idle (c : ArrayCfg) (s : ArrayState) (i i' : ArrayIn)
    (hbanks : ∀ j, j < c.banks.length → (c.banks.getD j default).sel (orBus i.masters).adr = false)
    (hsrams : ∀ m, m < c.srams.length → (c.srams.getD m default).cfg.sel (orBus i.masters).adr = false) :
    ((bankArray c).out ((bankArray c).next s i) i').datR = 0 := by
  obtain ⟨hb, hm⟩ := unselected_slaves_drive_zero c s i
  rw [array_out_datR]
  unfold ArrayCfg.datR
  have h1 : orList (((bankArray c).next s i).banks.map (·.datR)) = 0 := by
    apply orList_zero
    intro j'
    by_cases hj' : j' < c.banks.length
    · have := hb j' hj' (hbanks j' hj')
      have hlen : j' < ((bankArray c).next s i).banks.length := by simp [bankArray, hj']
      simp only [List.getD_eq_getElem?_getD, List.getElem?_map, List.getElem?_eq_getElem hlen, Option.map_some,
        Option.getD_some] at this ⊢
      exact this
    · have hlen : ((bankArray c).next s i).banks.length ≤ j' := by simp [bankArray]; omega
      simp [List.getD_eq_getElem?_getD, List.getElem?_eq_none hlen]
  have h2 : orList (c.srams.mapIdx fun k m => sramDatR m.cfg (((bankArray c).next s i).srams.getD k default)) = 0 := by
    apply orList_zero
    intro m
    by_cases hm' : m < c.srams.length
    · have := hm m hm' (hsrams m hm')
      simp only [List.getD_eq_getElem?_getD, List.getElem?_mapIdx, List.getElem?_eq_getElem hm', Option.map_some,
        Option.getD_some] at this ⊢
      exact this
    · simp [List.getD_eq_getElem?_getD, List.getElem?_eq_none (Nat.le_of_not_lt hm')]
  rw [h1, h2]
  rfl

/-- `InterconnectShared`: idle (all-zero) masters do not disturb the active one. -/
theorem shared_idle_masters_transparent (b : Bus) (n : Nat) : orBus (b :: List.replicate n idleBus) = b :=
  orBus_cons_idle b n

/-! ## Memory windows (`csr_bus.SRAM`) -/

/-- A memory window that is not addressed drives zero in the next cycle and keeps its content. -/
theorem sram_unselected (c : SramCfg) (s : SramState) (i : SramIn) (h : c.sel i.bus.adr = false) :
    sramDatR c ((sram c).next s i) = 0 ∧ ((sram c).next s i).mem = s.mem := by
  refine ⟨sram_next_datR_unselected c s i h, ?_⟩
  rw [sram_next_mem]
  simp [h]

/-- A write changes exactly the addressed memory word; reads and accesses of a read-only window change nothing. -/
theorem sram_write_exact (c : SramCfg) (s : SramState) (i : SramIn) (a : Nat)
    (ha : a ≠ c.clampAdr (c.portAdr i.bus.adr i.page)) :
    ((sram c).next s i).mem.getD a 0 = s.mem.getD a 0 := by
  rw [sram_next_mem]
  split
  · simp only [List.getD_eq_getElem?_getD]
    rw [List.getElem?_set_ne (Ne.symm ha)]
  · rfl

theorem sram_read_side_effect_free (c : SramCfg) (s : SramState) (i : SramIn)
    (h : i.bus.we = false ∨ c.readOnly = true) : ((sram c).next s i).mem = s.mem := by
  rw [sram_next_mem]
  cases h with
  | inl h => simp [h]
  | inr h => simp [h]

/-- One-word-per-bus-word window (`mem.width ≤ bus width`): a write of `d` is read back in the next cycle
    (Migen write-first port), truncated to the memory width. -/
theorem sram_write_read (c : SramCfg) (s : SramState) (i : SramIn) (hcpm : c.cpm = 1) (hw : c.width ≤ c.bw)
    (hro : c.readOnly = false) (hsel : c.sel i.bus.adr = true) (hwe : i.bus.we = true)
    (hin : c.clampAdr (c.portAdr i.bus.adr i.page) < s.mem.length) :
    sramDatR c ((sram c).next s i) = trunc c.width i.bus.datW := by
  have hwb : c.wb = 0 := by simp [SramCfg.wb, hcpm, log2ceil]
  rw [sram_next_read, sram_next_mem]
  simp only [hsel, hwe, hro, hcpm, hwb, Nat.pow_zero, Nat.mod_one, Bool.not_false, Bool.and_self,
    Nat.sub_self, beq_self_eq_true, if_true, Nat.zero_mul, Nat.one_mul]
  rw [List.getD_eq_getElem?_getD, List.getElem?_set_self hin, Option.getD_some]
  rw [slice_zero, trunc_trunc, trunc_trunc_le _ _ _ hw]
  have hwr : s.wregs.reverse.map (fun w => (c.bw, w)) = [] ∨ True := Or.inr trivial
  -- Cat(dat_w, staged words…) truncated to the memory width only keeps dat_w's low bits
  have : trunc c.width (cat ((c.bw, i.bus.datW) :: s.wregs.reverse.map fun w => (c.bw, w))) = trunc c.width i.bus.datW := by
    simp only [cat, trunc]
    rw [Nat.add_mod, Nat.mul_mod, Nat.mod_eq_zero_of_dvd (Nat.pow_dvd_pow 2 hw)]
    simp only [Nat.zero_mul, Nat.zero_mod, Nat.add_zero, Nat.mod_mod]
    exact Nat.mod_mod_of_dvd _ (Nat.pow_dvd_pow 2 hw)
  rw [this]

/-- **Paging**: with a page register of `pageBits` bits, the memory word addressed is selected by the page value in
    the upper address bits and by the bus address in the lower ones. -/
theorem sram_paged_address (c : SramCfg) (adr pv : Nat) (hp : c.pageBits ≠ 0) :
    c.portAdr adr pv =
      slice c.wb (c.abits - c.pageBits) adr + 2 ^ (c.abits - c.pageBits) * (pv % 2 ^ c.pageBits) := by
  simp [SramCfg.portAdr, hp, cat, Nat.mod_eq_of_lt (slice_lt _ _ _)]

/-- **Sub-word staging order for any ratio** (memory word = `cpm` bus words; 32-bit words on an 8-bit bus: 4,
    128-bit on 32-bit: 4, 64-bit on 8-bit: 8 …): when the last sub-word of a memory word is written the word becomes
    `Cat(dat_w, wregs[cpm-2], …, wregs[0])`, so a later read of sub-word `k` (which `sram_next_read` takes from bits
    `[(cpm-1-k)*bw, +bw)`) returns exactly what the write to sub-word `k` staged, and the last sub-word `dat_w`. -/
theorem sram_staging_order_any_ratio (c : SramCfg) (s : SramState) (i : SramIn)
    (hw : c.width = c.cpm * c.bw) (hcpm : 0 < c.cpm) (hlen : s.wregs.length = c.cpm - 1)
    (hro : c.readOnly = false) (hsel : c.sel i.bus.adr = true) (hwe : i.bus.we = true)
    (hsub : i.bus.adr % 2 ^ c.wb = c.cpm - 1)
    (hin : c.clampAdr (c.portAdr i.bus.adr i.page) < s.mem.length) :
    let word := ((sram c).next s i).mem.getD (c.clampAdr (c.portAdr i.bus.adr i.page)) 0
    slice 0 c.bw word = i.bus.datW % 2 ^ c.bw ∧
    ∀ k, k < c.cpm - 1 → slice ((c.cpm - 1 - k) * c.bw) c.bw word = (s.wregs.getD k 0) % 2 ^ c.bw :=
  sram_staging_order c s i hw hcpm hlen hro hsel hwe hsub hin

/-- Ratio 4 (2x32 memory on an 8-bit bus, window 1 of 16-word pages): the four bytes written to addresses 16..19
    are read back from the same addresses (big-endian sub-word order inside the memory word 0x11223344). -/
example :
    let c : SramCfg := { bw := 8, pbits := 4, address := 1, width := 32, depth := 2, readOnly := false, init := [] }
    let w := fun (a d : Nat) => ({ bus := { adr := a, re := false, we := true, datW := d }, page := 0 } : SramIn)
    let r := fun (a : Nat) => ({ bus := { adr := a, re := true, we := false, datW := 0 }, page := 0 } : SramIn)
    let fill := [w 16 0x11, w 17 0x22, w 18 0x33, w 19 0x44]
    ((sram c).run fill).mem = [0x11223344, 0] ∧
    [16, 17, 18, 19].map (fun a => sramDatR c ((sram c).run (fill ++ [r a]))) = [0x11, 0x22, 0x33, 0x44] := by
  decide

/-! ## Gathering: `_sort_gathered_items` -/

/-- **Fixed and automatic locations**: whenever `_sort_gathered_items` returns, the slot list is a permutation of
    the items (each exactly once; the other slots hold `reserved` fillers), every item with a fixed location `n`
    is in slot `n`, and no item is dropped.

    Totality does not hold: `sorted_items_rejects_n_eq_len` — a fixed location equal to the running length raises
    `IndexError` (the extension test is `item.n > items_length`); two items fixed at one location raise the
    documented `ValueError`.  Both are rejections, not mis-built banks. -/
theorem sorted_items (fx : List (Option Nat)) (slots : List (Option Nat)) (h : sortGathered fx = .ok slots) :
    (somes slots).Perm (List.range fx.length) ∧
    (∀ (i n : Nat), fx[i]? = some (some n) → slots[n]? = some (some i)) ∧
    fx.length ≤ slots.length :=
  sortGathered_spec fx slots h

/-- `sorted_items_partial` — the function returns (hence the statement above applies) whenever the fixed locations are
    pairwise distinct and inside the allocated slot list; in particular whenever every fixed `n < len(items)`.
    The full "returns for every conflict-free input" is false: see `sorted_items_rejects_n_eq_len`. -/
theorem sorted_items_partial (fx : List (Option Nat)) (hd : (fx.filterMap id).Nodup)
    (hin : ∀ n : Nat, some n ∈ fx → n < fx.length) : ∃ slots, sortGathered fx = .ok slots :=
  sortGathered_ok fx (fun n hn => Nat.lt_of_lt_of_le (hin n hn) (itemsLength_ge fx fx.length)) hd

theorem sorted_items_rejects_n_eq_len : sortGathered [some 1] = .indexError := by decide

/-! ## Non-vacuity

A bank with a 17-bit storage (3 words), a 9-bit device-writable status… on an 8-bit bus, bank number 1 of 8-word
pages: the hypotheses of the theorems above are satisfiable and the conclusions are non-trivial. -/

def demo (ord : WordOrdering) : BankCfg :=
  { bw := 8, ord := ord, pbits := 3, address := 1,
    regs := [{ kind := .storage, size := 17, reset := 0x1ABCD, wfd := true,
               fields := [{ size := 1, offset := 0, pulse := true }, { size := 3, offset := 9 }] },
             { kind := .status, size := 9 },
             { kind := .raw, size := 8 }] }

example : (demo .big).Fits ∧ (demo .little).Fits := by decide
/-- addresses: big → word 2 @8, word 1 @9, word 0 @10, status words @11,@12, raw @13 -/
example : ((demo .big).wordAdr 0 2, (demo .big).wordAdr 0 0, (demo .big).wordAdr 1 0, (demo .big).wordAdr 2 0) = (8, 10, 12, 13) ∧
    ((demo .little).wordAdr 0 2, (demo .little).wordAdr 0 0) = (10, 8) := by decide
example : (demo .big).ValidWord 0 2 ∧ ((demo .big).spec 0).kind = .storage ∧ isAtomic 8 ((demo .big).spec 0) = false := by
  decide
/-- a write of 0xFF to the top word (1 bit wide) changes exactly bit 16; `re` pulses only for word 0 (address 10);
    the pulse field follows `re`; the read data appears one cycle later -/
example :
    let c := demo .big
    let run := fun ins => (bank c).run ins
    ((run [wr 8 0x00]).reg 0).val = 0x0ABCD ∧ ((run [wr 8 0x00]).reg 0).re = false ∧
    ((run [wr 10 0xFF]).reg 0).val = 0x1ABFF ∧ ((run [wr 10 0xFF]).reg 0).re = true ∧
    ((run [wr 10 0xFF, rd 9]).reg 0).re = false ∧ (run [wr 10 0xFF, rd 9]).datR = 0xAB ∧
    (run [wr 10 0xFF, rd 17]).datR = 0 ∧
    fieldOut { size := 1, offset := 0, pulse := true } ((run [wr 10 0xFF]).reg 0).val ((run [wr 10 0xFF]).reg 0).re = 1 ∧
    fieldOut { size := 1, offset := 0, pulse := true } ((run [wr 10 0xFF, rd 9]).reg 0).val ((run [wr 10 0xFF, rd 9]).reg 0).re = 0 := by
  decide

example : resolveFields [{ size := 1 }, { size := 2, offset := some 4 }, { size := 3 }] =
    some [{ size := 1, offset := 0 }, { size := 2, offset := 4 }, { size := 3, offset := 6 }] ∧
    resolveFields [{ size := 4 }, { size := 2, offset := some 3 }] = none := by decide

example : sortGathered [none, some 3, none, some 0] = .ok [some 3, some 0, some 2, some 1] ∧
    sortGathered [some 5, none] = .ok [some 1, none, none, none, none, some 0] := by decide

/-- Two banks (numbers 1 and 2) and a 4x8 memory window (number 3) on one bus: a read of bank 2 returns bank 2's
    register although bank 1 holds non-zero data; an access to an unmapped page reads 0; the memory reads back. -/
def demoArray : ArrayCfg :=
  { banks := [{ bw := 8, ord := .big, pbits := 3, address := 1, regs := [{ kind := .storage, size := 8, reset := 0x11 }] },
              { bw := 8, ord := .big, pbits := 3, address := 2, regs := [{ kind := .storage, size := 8, reset := 0x22 }] }],
    srams := [{ cfg := { bw := 8, pbits := 3, address := 3, width := 8, depth := 4, readOnly := false, init := [] },
                page := none }] }

def abus (a : Nat) (we : Bool) (d : Nat) : ArrayIn :=
  { masters := [{ adr := a, re := !we, we := we, datW := d }], dev := [] }

example :
    let m := bankArray demoArray
    (m.out (m.run [abus 16 false 0]) (abus 0 false 0)).datR = 0x22 ∧
    (m.out (m.run [abus 8 false 0]) (abus 0 false 0)).datR = 0x11 ∧
    (m.out (m.run [abus 40 false 0]) (abus 0 false 0)).datR = 0 ∧
    (m.out (m.run [abus 26 true 0x5A, abus 16 false 0, abus 26 false 0]) (abus 0 false 0)).datR = 0x5A := by decide

/-! ## The bus glue: `Interface` widths, `Interface.like`, `Interconnect`, `InterconnectShared`, SoC locations

`g : GlueCfg` = master interfaces, the intermediate interface `Interface.like(masters[0])`, slave interfaces and the
bank array, each interface with its own address/data width (assignments truncate).  `g.Uniform w`: all of them have
the widths `w` (what `SoC.do_finalize` builds: every interface gets the handler's `address_width`/`data_width`). -/

/-- `Interface.like` carries BOTH widths of the interface it copies. -/
theorem interface_like_carries_widths (w : IfW) : IfW.like w = w := IfW.like_eq w

/-- **The glue is transparent** for every address and data width: whatever the masters drive (values that fit their
    interfaces), every slave sees exactly the OR of the master signals — no address bit is lost on the way. -/
theorem glue_transparent (g : GlueCfg) (w : IfW) (hu : g.Uniform w) (hk : g.kind = .shared) (ms : List Bus)
    (hl : ms.length = g.masters.length) (hb : ∀ b ∈ ms, b.adr < 2 ^ w.aw ∧ b.datW < 2 ^ w.dw) :
    g.slaveBus ms = orBus ms := g.slaveBus_shared w hu hk ms hl hb

theorem glue_transparent_direct (g : GlueCfg) (w : IfW) (hu : g.Uniform w) (hk : g.kind = .direct) (b : Bus)
    (ms : List Bus) (hl : (b :: ms).length = g.masters.length)
    (hb : ∀ x ∈ b :: ms, x.adr < 2 ^ w.aw ∧ x.datW < 2 ^ w.dw) : g.slaveBus (b :: ms) = b :=
  g.slaveBus_direct w hu hk b ms hl hb

/-- Why the intermediate interface must carry the address width (negative witness on the model's `viaInter`): with a
    15-bit CSR address space and 2 KiB pages, an intermediate interface of only 14 address bits delivers the write to
    bank 33 (address 33·512) at address 1·512, i.e. to bank 1; `Interface.like` of the 15-bit master does not. -/
example :
    let w : IfW := { aw := 15, dw := 8 }
    let b : Bus := { adr := 33 * 512, re := false, we := true, datW := 5 }
    (viaInter { aw := 14, dw := 8 } w b).adr = 1 * 512 ∧ (viaInter (IfW.like w) w b).adr = 33 * 512 := by decide

/-- The banks of an array sit at pairwise different locations (`SoCCSRHandler` hands out each location once). -/
def DistinctLocs (a : ArrayCfg) : Prop :=
  ∀ j j', j < a.banks.length → j' < a.banks.length → j ≠ j' →
    (a.banks.getD j default).address ≠ (a.banks.getD j' default).address

/-- A bank that is not selected behaves as in a bus-idle cycle: no strobe, back-store unchanged, value changed at most
    by the register's own device-side write. -/
theorem bank_unselected_no_effect (c : BankCfg) (s : BankState) (i : BankIn) (k : Nat) (hk : k < c.regs.length)
    (hkind : (c.spec k).kind ≠ .raw) (h : c.sel i.bus.adr = false) :
    let r' := ((bank c).next s i).reg k
    r'.re = false ∧ r'.back = (s.reg k).back ∧
    r'.val = (if (c.spec k).kind = .storage then devVal (c.spec k) (s.reg k) (i.devOf k) else (s.reg k).val) := by
  have hnone : (if i.bus.we then c.hitReg i.bus.adr k else none) = none := by
    have : c.hitReg i.bus.adr k = none := by simp [BankCfg.hitReg, BankCfg.hit, h]
    simp [this]
  intro r'
  have : r' = regNext c.bw (c.spec k) (s.reg k) none i.bus.datW (i.devOf k) := by
    simp only [r', next_reg c s i k hk, hnone]
  rw [this]
  unfold regNext
  cases hkd : (c.spec k).kind <;> simp_all

/-- **An access through the glue reaches exactly the addressed bank's register and no other** — for every address
    width `w.aw`, page size `2^p` words and every location below `2^(w.aw-p)` (= `n_locs`, see `soc_locations`):
    master 0 accesses word `wd` of register `k` of bank `j` while the other masters idle.  Then (1) every bank sees
    exactly that access on its bus (so all single-bank theorems above apply to it), (2) bank `j` decodes it to the
    addressed word, and (3) no other bank is selected (hence keeps its registers, produces no strobe and drives 0:
    `bank_unselected_no_effect`, `bank_unselected_zero`). -/
theorem glue_access_reaches_exactly_addressed_bank (g : GlueCfg) (w : IfW) (hu : g.Uniform w) (hk : g.kind = .shared)
    (p : Nat) (hpb : ∀ j, j < g.array.banks.length → (g.array.banks.getD j default).pbits = p)
    (hdist : DistinctLocs g.array) (hp : p ≤ w.aw)
    (s : ArrayState) (i : ArrayIn) (b : Bus) (n : Nat) (hi : i.masters = b :: List.replicate n zeroBus)
    (hn : n + 1 = g.masters.length) (hdat : b.datW < 2 ^ w.dw)
    (j k wd : Nat) (hj : j < g.array.banks.length)
    (hfit : (g.array.banks.getD j default).Fits) (hv : (g.array.banks.getD j default).ValidWord k wd)
    (hloc : (g.array.banks.getD j default).address < 2 ^ (w.aw - p))
    (hadr : b.adr = (g.array.banks.getD j default).wordAdr k wd) :
    (∀ j', j' < g.array.banks.length →
        ((glueArray g).next s i).banks.getD j' default =
          (bank (g.array.banks.getD j' default)).next (s.banks.getD j' default)
            { bus := b, dev := i.dev.getD j' [] }) ∧
    (g.array.banks.getD j default).hit b.adr = some ((g.array.banks.getD j default).simple k wd) ∧
    (∀ j', j' < g.array.banks.length → j' ≠ j → (g.array.banks.getD j' default).sel b.adr = false) := by
  have hpj := hpb j hj
  have hlt : b.adr < 2 ^ w.aw := by
    rw [hadr]
    exact BankCfg.wordAdr_lt _ k wd w.aw hfit hv (by rw [hpj]; exact hp) (by rw [hpj]; exact hloc)
  have hsb : g.slaveBus i.masters = b := by
    rw [hi, g.slaveBus_shared w hu hk _ (by simp; omega) (by
      intro x hx
      rcases List.mem_cons.mp hx with rfl | hx
      · exact ⟨hlt, hdat⟩
      · rw [List.eq_of_mem_replicate hx]
        exact ⟨Nat.two_pow_pos _, Nat.two_pow_pos _⟩)]
    exact orBus_cons_zero b n
  refine ⟨fun j' hj' => by rw [glue_next_bank g s i j' hj', hsb], ?_, ?_⟩
  · rw [hadr]; exact BankCfg.hit_wordAdr _ k wd hfit hv
  · intro j' hj' hne
    have hd := (BankCfg.wordAdr_div _ k wd hfit hv).1
    unfold BankCfg.sel
    rw [hpb j' hj', hadr, ← hpj, hd]
    simp only [beq_eq_false_iff_ne]
    exact fun h => hdist j' j hj' hj hne h.symm

/-- **No aliasing**: two accesses that reach the same word of the same register of a bank carry the same address —
    so (with `glue_transparent`) no two different master addresses below `2^aw` ever reach one register word, and
    (by `glue_access_reaches_exactly_addressed_bank`) one address never reaches two banks. -/
theorem glue_no_alias (c : BankCfg) (adr adr' : Nat) (sc sc' : Simple)
    (h : c.hit adr = some sc) (h' : c.hit adr' = some sc') (hr : sc.reg = sc'.reg) (hw : sc.word = sc'.word) :
    adr = adr' := by
  obtain ⟨k, j, hv, hsc, ha⟩ := c.hit_inv adr sc h
  obtain ⟨k', j', hv', hsc', ha'⟩ := c.hit_inv adr' sc' h'
  have hk : k = k' := by rw [hsc, hsc', c.simple_reg, c.simple_reg] at hr; exact hr
  have hj : j = j' := by rw [hsc, hsc', c.simple_word k j hv, c.simple_word k' j' hv'] at hw; exact hw
  rw [ha, ha', hk, hj]

/-- **Locations of a SoC** (`SoCCSRHandler`: `n_locs = alignment//8 * 2**address_width // paging`, 32-bit alignment,
    `paging = 4·2^p`): there are exactly `2^(aw-p)` locations, and every word of a bank at a location `< n_locs` has a
    bus address that fits the `aw` address bits — the range in which the theorem above holds is the whole range the SoC
    hands out. -/
theorem soc_locations (aw p : Nat) (hp : p ≤ aw) :
    csrNLocs 32 aw (4 * 2 ^ p) = 2 ^ (aw - p) ∧
    ∀ loc word, loc < csrNLocs 32 aw (4 * 2 ^ p) → word < 2 ^ p → loc * 2 ^ p + word < 2 ^ aw := by
  refine ⟨csrNLocs_eq aw p hp, fun loc word hl hw => ?_⟩
  rw [csrNLocs_eq aw p hp] at hl
  exact loc_adr_lt aw p loc word hp hl hw

/-! Non-vacuity: 15 address bits, 2 KiB pages, banks at locations 1 and 33 behind `InterconnectShared`: a write to bank
    33 changes bank 33's register only; reading it back returns the value; bank 1 reads its own. -/
def demoGlue : GlueCfg :=
  { kind := .shared, masters := [{ aw := 15, dw := 8 }], slave := { aw := 15, dw := 8 },
    array := { banks := [{ bw := 8, ord := .big, pbits := 9, address := 1, regs := [{ kind := .storage, size := 8, reset := 0x11 }] },
                          { bw := 8, ord := .big, pbits := 9, address := 33, regs := [{ kind := .storage, size := 8, reset := 0x22 }] }],
               srams := [] } }

example : demoGlue.Uniform { aw := 15, dw := 8 } := ⟨by decide, by decide, rfl⟩
example : DistinctLocs demoGlue.array := by
  intro j j' hj hj' hne
  have h2 : demoGlue.array.banks.length = 2 := rfl
  rw [h2] at hj hj'
  match j, j', hj, hj' with
  | 0, 0, _, _ => exact absurd rfl hne
  | 0, 1, _, _ => decide
  | 1, 0, _, _ => decide
  | 1, 1, _, _ => exact absurd rfl hne
example :
    let m := glueArray demoGlue
    let s := m.run [abus (33 * 512) true 0x5A]
    ((s.banks.getD 0 default).reg 0).val = 0x11 ∧ ((s.banks.getD 1 default).reg 0).val = 0x5A ∧
    (m.out (m.run [abus (33 * 512) true 0x5A, abus (33 * 512) false 0]) (abus 0 false 0)).datR = 0x5A ∧
    (m.out (m.run [abus (33 * 512) true 0x5A, abus (1 * 512) false 0]) (abus 0 false 0)).datR = 0x11 := by decide

/-! ## `CSRBankArray.scan`: from objects to banks, memory windows and constants -/

/-- The banks are exactly the objects with a non-empty description (gathered registers + page registers of their
    memories), in scan order, each at its own location. -/
theorem scan_banks (bw : Nat) (ord : WordOrdering) (pbits : Nat) (objs : List ObjDesc) :
    (scan bw ord pbits objs).banks =
      (objs.filter fun o => !(objRegs bw pbits o).isEmpty).map (objBank bw ord pbits) :=
  scanFrom_banks bw ord pbits objs 0

/-- **Memories never drop or displace registers**: every object that has registers gets a bank at its location whose
    description starts with exactly those registers (register `k` of the object is register `k` of the bank), followed
    by the page registers of its memories. -/
theorem scan_keeps_registers (bw : Nat) (ord : WordOrdering) (pbits : Nat) (objs : List ObjDesc) (o : ObjDesc)
    (ho : o ∈ objs) (hr : o.regs ≠ []) :
    ∃ c ∈ (scan bw ord pbits objs).banks, c.address = o.loc ∧ c.regs = o.regs ++ pageRegs bw pbits o.mems ∧
      ∀ k, k < o.regs.length → c.regs[k]? = o.regs[k]? := by
  refine ⟨objBank bw ord pbits o, ?_, rfl, rfl, fun k hk => ?_⟩
  · rw [scan_banks]
    refine List.mem_map.mpr ⟨o, List.mem_filter.mpr ⟨ho, ?_⟩, rfl⟩
    cases h : o.regs with
    | nil => exact absurd h hr
    | cons x xs => simp [objRegs, h]
  · show (o.regs ++ _)[k]? = _
    exact List.getElem?_append_left hk

/-- **Page links**: a memory window that spans more than one page points at a storage register of exactly `pageBits`
    bits in an existing bank (the bank of its own object). -/
theorem scan_page_link (bw : Nat) (ord : WordOrdering) (pbits : Nat) (objs : List ObjDesc) (slot : SramSlot)
    (b r : Nat) (hs : slot ∈ (scan bw ord pbits objs).srams) (hp : slot.page = some (b, r)) :
    slot.cfg.pageBits ≠ 0 ∧
    ((scan bw ord pbits objs).banks[b]?).bind (fun c => c.regs[r]?) =
      some { kind := .storage, size := slot.cfg.pageBits } := by
  obtain ⟨_, hz, h⟩ := scanFrom_page bw ord pbits objs 0 slot b r hs hp
  exact ⟨hz, by simpa [scan] using h⟩

/-- Non-vacuity: an object with two registers and a 4x8 memory on 2-word pages (one page bit), then a memory-only
    object: one bank `[r0, r1, page]` at location 33, the first window paged by register 2 of bank 0. -/
example :
    let objs : List ObjDesc :=
      [{ regs := [{ kind := .storage, size := 1 }, { kind := .status, size := 1 }],
         mems := [{ width := 8, depth := 4, readOnly := false, init := [], loc := 32 }], consts := [7], loc := 33 },
       { regs := [], mems := [{ width := 8, depth := 2, readOnly := false, init := [3], loc := 63 }], consts := [], loc := 0 }]
    let a := scan 8 .big 1 objs
    a.banks.map (fun c => (c.address, c.regs.map (·.size))) = [(33, [1, 1, 1])] ∧
    a.srams.map (fun m => (m.cfg.address, m.page)) = [(32, some (0, 2)), (63, none)] ∧
    scanConstants 0 objs = [(0, 7)] := by decide

/-! ## Constants, field access modes and names, status fields, reset values, device-write priority, gathering -/

/-- Every constant of every object is collected exactly once, in scan order (`CSRBankArray.constants`). -/
theorem scan_constants_complete (objs : List ObjDesc) (t : Nat) :
    (scanConstants t objs).map (·.2) = objs.flatMap (·.consts) := by
  induction objs generalizing t with
  | nil => rfl
  | cons o os ih => simp [scanConstants, List.flatMap_cons, ih (t + 1), Function.comp_def]

/-- All fields of a `CSRStatus` end up `ReadOnly`. -/
theorem field_access_status (fs : List FieldAcc) (as : List Access) (h : resolveAccess .readOnly fs = some as)
    (k : Nat) (a : Access) (hk : as[k]? = some a) : a = .readOnly := by
  have hlen := resolveAccess_length _ fs as h
  have hkl : k < fs.length := by rw [← hlen]; exact (List.getElem?_eq_some_iff.mp hk).1
  have := resolveAccess_getElem _ fs as k fs[k] h (List.getElem?_eq_getElem hkl)
  rw [hk] at this
  simp only [Option.bind_some] at this
  unfold resolveAccess1 at this
  cases hacc : fs[k].access with
  | none => simp [hacc] at this; exact this
  | some x =>
    simp only [hacc] at this
    split at this
    · rename_i hc
      simp only [Bool.and_eq_true, beq_iff_eq] at hc
      rw [Option.some.inj this]; exact hc.2
    · cases this

/-- All fields of a `CSRStorage` end up `ReadWrite` or `WriteOnly`. -/
theorem field_access_storage (fs : List FieldAcc) (as : List Access) (h : resolveAccess .readWrite fs = some as)
    (k : Nat) (a : Access) (hk : as[k]? = some a) : a = .readWrite ∨ a = .writeOnly := by
  have hlen := resolveAccess_length _ fs as h
  have hkl : k < fs.length := by rw [← hlen]; exact (List.getElem?_eq_some_iff.mp hk).1
  have := resolveAccess_getElem _ fs as k fs[k] h (List.getElem?_eq_getElem hkl)
  rw [hk] at this
  simp only [Option.bind_some] at this
  unfold resolveAccess1 at this
  cases hacc : fs[k].access with
  | none => simp [hacc] at this; exact Or.inl this
  | some x =>
    simp only [hacc] at this
    split at this
    · rename_i hc
      simp only [Bool.or_eq_true, beq_iff_eq] at hc
      have := Option.some.inj this
      by_cases hp : fs[k].pulse = true
      · simp [hp] at this; exact Or.inr this
      · simp [hp] at this; rw [this]; exact hc
    · cases this

/-
  Full statement ("a pulse field of a storage is WriteOnly" — what `if field.pulse: field.access = WriteOnly` intends):

  theorem field_access_pulse : resolveAccess .readWrite fs = some as → fs[k]? = some f → f.pulse = true → as[k]? = some .writeOnly

  It FAILS for a pulse field declared without `access=` (the `if field.access is None` branch is taken and the `elif`
  that rewrites pulse fields is skipped): negative witness below.  Proved for fields with an explicit access.
-/
theorem field_access_pulse_partial (fs : List FieldAcc) (as : List Access) (h : resolveAccess .readWrite fs = some as)
    (k : Nat) (f : FieldAcc) (hf : fs[k]? = some f) (hp : f.pulse = true) (hexp : f.access ≠ none) :
    as[k]? = some .writeOnly := by
  have := resolveAccess_getElem _ fs as k f h hf
  have hlen := resolveAccess_length _ fs as h
  have hkl : k < as.length := by rw [hlen]; exact (List.getElem?_eq_some_iff.mp hf).1
  rw [List.getElem?_eq_getElem hkl] at this ⊢
  simp only [Option.bind_some] at this
  unfold resolveAccess1 at this
  cases hacc : f.access with
  | none => exact absurd hacc hexp
  | some x =>
    simp only [hacc, hp, if_true] at this
    split at this
    · exact this
    · cases this

example : resolveAccess .readWrite [{ access := none, pulse := true }] = some [.readWrite] ∧
    resolveAccess .readWrite [{ access := some .readWrite, pulse := true }] = some [.writeOnly] ∧
    resolveAccess .readOnly [{ access := some .readWrite, pulse := false }] = none := by decide

/-- `check_names` accepts exactly the field lists without a repeated name. -/
theorem field_names_unique (ns : List Nat) : checkNames [] ns = true ↔ ns.Nodup := by
  rw [checkNames_iff]; simp

/-- **Status with fields**: bit `b` of the value a `CSRStatus(fields=…)` presents to the bus is the bit the field
    covering `b` drives; bits outside every field read 0 (the reset composition is 0 there). -/
theorem status_fields_bits (fs : List FieldSpec) (v b : Nat) :
    (statusOfFields fs v).testBit b =
      fs.any fun f => decide (f.offset ≤ b ∧ b < f.offset + f.size) && v.testBit b := by
  induction fs with
  | nil => simp [statusOfFields]
  | cons f fs ih =>
    simp only [statusOfFields, Nat.testBit_or, ih, List.any_cons, Nat.testBit_shiftLeft, testBit_slice]
    congr 1
    by_cases h1 : f.offset ≤ b
    · by_cases h2 : b < f.offset + f.size
      · have : b - f.offset < f.size := by omega
        simp [h1, h2, this, Nat.add_sub_cancel' h1]
      · have : ¬ (b - f.offset < f.size) := by omega
        simp [h1, h2, this]
    · simp [h1]

/-- **Reset values**: after reset every storage holds its declared reset value (truncated to its size; for a storage
    with fields the OR of the fields' resets at their offsets: `fieldsReset`), no strobe is active. -/
theorem storage_reset (c : BankCfg) (k : Nat) (hk : k < c.regs.length) (hkind : (c.spec k).kind = .storage) :
    (((bank c).run []).reg k).val = trunc (c.spec k).size (c.spec k).reset ∧ (((bank c).run []).reg k).re = false := by
  show ((bank c).init.reg k).val = _ ∧ ((bank c).init.reg k).re = false
  rw [init_reg c k hk]
  simp [initReg, hkind]

/-- **Bus write beats device write**: when the device (`we`/`dat_w` of a `write_from_dev` storage) and the bus write
    the same one-word storage in the same cycle, the register takes the bus data — in any reachable state. -/
theorem bus_write_overrides_device_write (c : BankCfg) (hfit : c.Fits) (hist : List BankIn) (i : BankIn) (k : Nat)
    (hv : c.ValidWord k 0) (hkind : (c.spec k).kind = .storage) (h1 : (c.spec k).size ≤ c.bw)
    (hwe : i.bus.we = true) (hadr : i.bus.adr = c.wordAdr k 0) :
    (((bank c).run (hist ++ [i])).reg k).val = trunc (c.spec k).size i.bus.datW := by
  have hna : isAtomic c.bw (c.spec k) = false := by
    unfold isAtomic nwords
    have : ((c.spec k).size + c.bw - 1) / c.bw < 2 := by
      by_cases hb : c.bw = 0
      · simp [hb]
      · exact Nat.div_lt_of_lt_mul (by omega)
    simp; intro _; omega
  rw [run_snoc]
  have hw := (bank_write_exact c hfit ((bank c).run hist) i k 0 hv hkind hna hwe hadr).1
  have hwf := next_wf c _ i (run_wf c hist) k hv.1 hkind
  have hnb : wordBits c.bw (c.spec k).size 0 = (c.spec k).size := by simp [wordBits]; omega
  simp only [Nat.zero_mul, hnb, slice_zero] at hw
  rw [← hw, trunc_of_lt hwf.1]

/-- and when only the device writes, the register takes the device data. -/
theorem device_write_alone (c : BankCfg) (s : BankState) (i : BankIn) (k : Nat) (hk : k < c.regs.length)
    (hkind : (c.spec k).kind = .storage) (hwfd : (c.spec k).wfd = true) (hdev : (i.devOf k).we = true)
    (hbus : i.bus.we = false) :
    (((bank c).next s i).reg k).val = trunc (c.spec k).size (i.devOf k).dat := by
  have hraw : (c.spec k).kind ≠ .raw := by rw [hkind]; decide
  have := (bank_access_elsewhere_no_effect c s i k hk hraw (Or.inl hbus)).2.2
  simp only [hkind, if_true] at this
  rw [this]
  simp [devVal, hwfd, hdev]

/-- **Gathering** (`AutoCSR.get_csrs/get_memories/get_constants`): the result contains every item of every nested
    module exactly once, in creation (DUID) order. -/
theorem gather_creation_order (items : List GItem) :
    (gatherOrder items).Perm items ∧ (gatherOrder items).Pairwise (fun a b => a.duid ≤ b.duid) :=
  ⟨gatherOrder_perm items, gatherOrder_sorted items⟩

/-- The gathered name (prefix path + own name, as token lists) determines the module path and the own name.
    (As *strings* joined by "_" this is not injective — `a` → `b_c` and `a_b` → `c` collide; exported names are C14's.) -/
theorem gather_names_injective (a b : GItem) (h : a.fullName = b.fullName) : a.path = b.path ∧ a.name = b.name := by
  unfold GItem.fullName at h
  have := List.append_inj' h rfl
  exact ⟨this.1, by simpa using this.2⟩

/-- `sort=True`: in the slot list, every item with a fixed location `n` sits in slot `n`; indices refer to the
    DUID-ordered list. -/
theorem gather_sorted_fixed (items : List GItem) (slots : List (Option Nat)) (h : gatherSorted items = .ok slots)
    (i n : Nat) (hi : ((gatherOrder items)[i]?).map (·.fixed) = some (some n)) : slots[n]? = some (some i) := by
  have := (sorted_items _ slots h).2.1 i n
  apply this
  simpa [List.getElem?_map] using hi

example : (gatherOrder [{ duid := 7, path := [1], name := 0 }, { duid := 3, path := [], name := 1, fixed := some 2 },
                        { duid := 5, path := [1, 2], name := 2 }]).map (·.duid) = [3, 5, 7] ∧
    gatherSorted [{ duid := 7, path := [1], name := 0 }, { duid := 3, path := [], name := 1, fixed := some 2 },
                  { duid := 5, path := [1, 2], name := 2 }] = .ok [some 1, some 2, some 0] := by decide

/-- **Reset of a register with fields** (`CSRFieldAggregate.get_reset`): bit `b` of the composed reset value is set iff
    some field has the corresponding bit of its own reset value set at its offset. -/
theorem fields_reset_bits (fs : List FieldSpec) (b : Nat) :
    (fieldsReset fs).testBit b = fs.any fun f => decide (f.offset ≤ b) && f.reset.testBit (b - f.offset) := by
  induction fs with
  | nil => simp [fieldsReset]
  | cons f fs ih => simp only [fieldsReset, Nat.testBit_or, ih, List.any_cons, Nat.testBit_shiftLeft, ge_iff_le]

/-! ### Memory windows over whole histories -/

/-- **Initial contents**: after reset, word `a` of the window holds `init[a]` truncated to the memory width (0 beyond
    the initialiser). -/
theorem sram_init (c : SramCfg) (a : Nat) (ha : a < c.depth) :
    ((sram c).run []).mem.getD a 0 = trunc c.width (c.init.getD a 0) := by
  show (sram c).init.mem.getD a 0 = _
  simp [sram, List.getD_eq_getElem?_getD, ha]

/-- **A read-only window never changes**, whatever the bus does, for every history. -/
theorem sram_read_only_history (c : SramCfg) (hro : c.readOnly = true) (ins : List SramIn) :
    ((sram c).run ins).mem = ((sram c).run []).mem := by
  show ((sram c).runFrom (sram c).init ins).mem = (sram c).init.mem
  exact Machine.invariant_runFrom (sram c) (fun s => s.mem = (sram c).init.mem)
    (fun s i h => by rw [sram_read_side_effect_free c s i (Or.inr hro)]; exact h) ins _ rfl

/-- **A memory word keeps its value over any stretch of cycles that does not complete a write to it** (reads anywhere,
    accesses to other windows or banks, writes to other words, staged sub-word writes), from any state. -/
theorem sram_word_stable (c : SramCfg) (a : Nat) (quiet : List SramIn) (s : SramState)
    (hq : ∀ i ∈ quiet, ((c.sel i.bus.adr && i.bus.we && !c.readOnly) && (i.bus.adr % 2 ^ c.wb == c.cpm - 1)) = true →
      c.clampAdr (c.portAdr i.bus.adr i.page) ≠ a) :
    ((sram c).runFrom s quiet).mem.getD a 0 = s.mem.getD a 0 := by
  induction quiet generalizing s with
  | nil => rfl
  | cons i is ih =>
    show ((sram c).runFrom ((sram c).next s i) is).mem.getD a 0 = _
    rw [ih _ (fun j hj => hq j (List.mem_cons_of_mem _ hj)), sram_next_mem]
    split
    · rename_i hw
      have hne := hq i (List.mem_cons_self ..) hw
      simp only [List.getD_eq_getElem?_getD]
      rw [List.getElem?_set_ne hne]
    · rfl

/-- **Write, any quiet stretch, read back** (one bus word per memory word): the value written to a word is what a read
    of that word returns after any number of cycles that do not write it — over all such schedules. -/
theorem sram_write_quiet_read (c : SramCfg) (s : SramState) (iw ir : SramIn) (quiet : List SramIn)
    (hcpm : c.cpm = 1) (hw : c.width ≤ c.bw) (hro : c.readOnly = false)
    (hsel : c.sel iw.bus.adr = true) (hwe : iw.bus.we = true)
    (hin : c.clampAdr (c.portAdr iw.bus.adr iw.page) < s.mem.length)
    (hq : ∀ i ∈ quiet, ((c.sel i.bus.adr && i.bus.we && !c.readOnly) && (i.bus.adr % 2 ^ c.wb == c.cpm - 1)) = true →
      c.clampAdr (c.portAdr i.bus.adr i.page) ≠ c.clampAdr (c.portAdr iw.bus.adr iw.page))
    (hrsel : c.sel ir.bus.adr = true) (hrwe : ir.bus.we = false)
    (hsame : c.clampAdr (c.portAdr ir.bus.adr ir.page) = c.clampAdr (c.portAdr iw.bus.adr iw.page)) :
    sramDatR c ((sram c).next ((sram c).runFrom ((sram c).next s iw) quiet) ir) = trunc c.width iw.bus.datW := by
  have hwb : c.wb = 0 := by simp [SramCfg.wb, hcpm, log2ceil]
  have h1 := sram_write_read c s iw hcpm hw hro hsel hwe hin
  rw [sram_next_read] at h1
  simp only [hsel, if_true, hcpm, hwb, Nat.pow_zero, Nat.mod_one, Nat.sub_self, Nat.zero_mul, Nat.one_mul] at h1
  rw [sram_next_read, sram_read_side_effect_free c _ ir (Or.inl hrwe)]
  simp only [hrsel, if_true, hcpm, hwb, Nat.pow_zero, Nat.mod_one, Nat.sub_self, Nat.zero_mul, Nat.one_mul]
  rw [hsame, sram_word_stable c _ quiet _ hq]
  exact h1

end Litex.C12
