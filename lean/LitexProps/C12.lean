import LitexProofs.Csr.Bank
/-
  C12 — CSR banks give software exact, side-effect-free register semantics.

  `c : BankCfg` is an arbitrary bank: any bus width `bw`, ordering, page size `2^pbits`, bank number and ANY list
  of registers (storages with/without atomic write and device write, statuses, raw CSRs, any sizes).
  `s : BankState` is an arbitrary state (in particular every state reached by any history of bus accesses and
  device-side updates), `i : BankIn` an arbitrary cycle input: bus `adr/re/we/dat_w` plus the device-side inputs
  of every register.  `c.wordAdr k j` is the bus address of word `j` (bits `[j*bw, j*bw+wordBits)`) of
  register `k`; `c.Fits` says the bank's words fit into its page (`len(simple_csrs) ≤ paging/4`).
-/
namespace Litex.C12
open Litex Litex.Csr

/-! ## Addresses -/

/-- No two words (hence no two registers) of a bank share a bus address. -/
theorem addresses_injective (c : BankCfg) (k j k' j' : Nat) (hv : c.ValidWord k j) (hv' : c.ValidWord k' j')
    (h : c.wordAdr k j = c.wordAdr k' j') : k = k' ∧ j = j' :=
  c.wordAdr_injective k j k' j' hv hv' h

/-- Words of banks with different bank numbers never share a bus address. -/
theorem addresses_injective_banks (c c' : BankCfg) (hp : c.pbits = c'.pbits) (hfit : c.Fits) (hfit' : c'.Fits)
    (hne : c.address ≠ c'.address) (k j k' j' : Nat) (hv : c.ValidWord k j) (hv' : c'.ValidWord k' j') :
    c.wordAdr k j ≠ c'.wordAdr k' j' := by
  intro h
  have h1 := (c.wordAdr_div k j hfit hv).1
  have h2 := (c'.wordAdr_div k' j' hfit' hv').1
  rw [h, hp, h2] at h1
  exact hne h1.symm

/-- The decode is exact: an access hits word `j` of register `k` iff its address is `wordAdr k j`. -/
theorem decode_exact (c : BankCfg) (hfit : c.Fits) (a k j : Nat) (hv : c.ValidWord k j) :
    c.hit a = some (c.simple k j) ↔ a = c.wordAdr k j := by
  constructor
  · intro h
    obtain ⟨k', j', hv', hsc, ha⟩ := c.hit_inv a _ h
    have hk : k = k' := by
      have := congrArg Simple.reg hsc
      simpa [BankCfg.simple_reg] using this
    subst hk
    have hj : j = j' := by
      have := congrArg Simple.word hsc
      rwa [c.simple_word k j hv, c.simple_word k j' hv'] at this
    subst hj
    exact ha
  · intro h
    rw [h]
    exact c.hit_wordAdr k j hfit hv

/-! ## Writes -/

/-- **A bus write changes exactly the addressed bits** (non-atomic storage): after a write of `dat_w` to word
    `j` of storage `k`, bits `[j*bw, j*bw+wordBits)` hold `dat_w` and every other bit of the register holds
    what it would hold without the bus write (`devVal`: the device-written value if the device writes in the
    same cycle, otherwise the old value). -/
theorem bank_write_exact (c : BankCfg) (hfit : c.Fits) (s : BankState) (i : BankIn) (k j : Nat)
    (hv : c.ValidWord k j) (hkind : (c.spec k).kind = .storage) (hna : isAtomic c.bw (c.spec k) = false)
    (hwe : i.bus.we = true) (hadr : i.bus.adr = c.wordAdr k j) :
    let v' := (((bank c).next s i).reg k).val
    let v0 := devVal (c.spec k) (s.reg k) (i.devOf k)
    let nb := wordBits c.bw (c.spec k).size j
    slice (j * c.bw) nb v' = trunc nb i.bus.datW ∧
    ∀ b, ¬ (j * c.bw ≤ b ∧ b < j * c.bw + nb) → v'.testBit b = v0.testBit b := by
  have hraw : (c.spec k).kind ≠ .raw := by rw [hkind]; decide
  obtain ⟨hlo, hnb⟩ := simple_lo c k j hraw
  intro v' v0 nb
  have hv'eq : v' = setSlice (j * c.bw) nb v0 i.bus.datW := by
    simp only [v', next_reg c s i k hv.1, hwe, hadr, if_true, c.hitReg_wordAdr k j hfit hv, regNext, hkind,
      hna, hlo, hnb]
    rfl
  rw [hv'eq]
  exact ⟨slice_setSlice_same _ _ _ _, fun b hb => testBit_setSlice_outside _ _ _ _ _ hb⟩

/-- **Accesses to other addresses or banks have no effect**: if the cycle is not a bus write to a word of
    register `k` (it is a read, an idle cycle, a write to another register, to an unpopulated word or to
    another bank), then a storage keeps its value (up to its own device write), its back-store is unchanged
    and no write strobe is produced. -/
theorem bank_access_elsewhere_no_effect (c : BankCfg) (s : BankState) (i : BankIn) (k : Nat)
    (hk : k < c.regs.length) (hkind : (c.spec k).kind ≠ .raw)
    (h : i.bus.we = false ∨ ∀ j, c.ValidWord k j → i.bus.adr ≠ c.wordAdr k j) :
    let r' := ((bank c).next s i).reg k
    r'.re = false ∧ r'.back = (s.reg k).back ∧
    r'.val = (if (c.spec k).kind = .storage then devVal (c.spec k) (s.reg k) (i.devOf k) else (s.reg k).val) := by
  have hnone : (if i.bus.we then c.hitReg i.bus.adr k else none) = none := by
    cases h with
    | inl h => simp [h]
    | inr h => simp [c.hitReg_none_of_ne _ _ h]
  intro r'
  have : r' = regNext c.bw (c.spec k) (s.reg k) none i.bus.datW (i.devOf k) := by
    simp only [r', next_reg c s i k hk, hnone]
  rw [this]
  unfold regNext
  cases hkd : (c.spec k).kind <;> simp_all

/-- Reads never change any register state: a cycle with `we = 0` leaves the registers exactly as an idle bus
    cycle with the same device inputs would. -/
theorem bank_read_side_effect_free (c : BankCfg) (s : BankState) (i : BankIn) (hwe : i.bus.we = false) :
    ((bank c).next s i).regs =
      ((bank c).next s { i with bus := { i.bus with re := false } }).regs := by
  simp [bank, hwe]

/-! ## Atomic writes -/

/-- Atomic storage, upper word (`j ≠ 0`): the written bits go to the back-store; the visible register does not
    change (up to its own device write). -/
theorem bank_atomic_stage (c : BankCfg) (hfit : c.Fits) (s : BankState) (i : BankIn) (k j : Nat)
    (hv : c.ValidWord k j) (hkind : (c.spec k).kind = .storage) (hat : isAtomic c.bw (c.spec k) = true)
    (hj : j ≠ 0) (hwe : i.bus.we = true) (hadr : i.bus.adr = c.wordAdr k j) :
    let r' := ((bank c).next s i).reg k
    r'.val = devVal (c.spec k) (s.reg k) (i.devOf k) ∧
    r'.back = (s.reg k).back.set (j - 1) (trunc (wordBits c.bw (c.spec k).size j) i.bus.datW) := by
  have hraw : (c.spec k).kind ≠ .raw := by rw [hkind]; decide
  obtain ⟨_, hnb⟩ := simple_lo c k j hraw
  intro r'
  simp only [r', next_reg c s i k hv.1, hwe, hadr, if_true, c.hitReg_wordAdr k j hfit hv, regNext, hkind, hat,
    c.simple_word k j hv, hj, if_false, hnb, and_self]

/-- **Atomic commit**: the whole register changes in the cycle word 0 is written, to `dat_w` in the low bus
    word and the staged back-store words above it. -/
theorem bank_atomic_commit (c : BankCfg) (hfit : c.Fits) (s : BankState) (i : BankIn) (k : Nat)
    (hv : c.ValidWord k 0) (hkind : (c.spec k).kind = .storage) (hat : isAtomic c.bw (c.spec k) = true)
    (hwe : i.bus.we = true) (hadr : i.bus.adr = c.wordAdr k 0) :
    let r' := ((bank c).next s i).reg k
    r'.val = trunc (c.spec k).size (cat ((c.bw, i.bus.datW) :: backPairs c.bw (c.spec k).size (s.reg k).back 1)) ∧
    r'.back = (s.reg k).back := by
  intro r'
  simp only [r', next_reg c s i k hv.1, hwe, hadr, if_true, c.hitReg_wordAdr k 0 hfit hv, regNext, hkind, hat,
    c.simple_word k 0 hv, and_self]

/-! ## Reads -/

/-- **A bus read returns the current value of the addressed word one cycle later**: whatever else happens in
    the cycle, the registered `dat_r` after an access to word `j` of register `k` is that word's value in the
    access cycle (storage bits `[j*bw, j*bw+wordBits)`, resp. the status / `w` input of that cycle). -/
theorem bank_read_next_cycle (c : BankCfg) (hfit : c.Fits) (s : BankState) (i : BankIn) (k j : Nat)
    (hv : c.ValidWord k j) (hadr : i.bus.adr = c.wordAdr k j) :
    ((bank c).next s i).datR = wordVal (c.spec k) (s.reg k) (i.devOf k) (c.simple k j) := by
  rw [next_datR, hadr, c.hit_wordAdr k j hfit hv]
  simp [BankCfg.simple_reg]

/-- …for a storage this is the slice of the stored value. -/
theorem bank_read_storage (c : BankCfg) (hfit : c.Fits) (s : BankState) (i : BankIn) (k j : Nat)
    (hv : c.ValidWord k j) (hkind : (c.spec k).kind = .storage) (hadr : i.bus.adr = c.wordAdr k j) :
    ((bank c).next s i).datR = slice (j * c.bw) (wordBits c.bw (c.spec k).size j) (s.reg k).val := by
  have hraw : (c.spec k).kind ≠ .raw := by rw [hkind]; decide
  obtain ⟨hlo, hnb⟩ := simple_lo c k j hraw
  rw [bank_read_next_cycle c hfit s i k j hv hadr]
  simp [wordVal, hkind, hlo, hnb]

/-- **A bank that is not addressed drives zero** (also for an unpopulated word of the addressed bank). -/
theorem bank_unselected_zero (c : BankCfg) (s : BankState) (i : BankIn)
    (h : i.bus.adr / 2 ^ c.pbits ≠ c.address ∨ c.simples.length ≤ i.bus.adr % 2 ^ c.pbits) :
    ((bank c).next s i).datR = 0 := by
  rw [next_datR]
  have : c.hit i.bus.adr = none := by
    cases h with
    | inl h => exact c.hit_none_of_unselected _ h
    | inr h =>
      unfold BankCfg.hit
      split
      · exact List.getElem?_eq_none h
      · rfl
  rw [this]

/-! ## Strobes -/

/-- **Write strobes are single-cycle pulses caused only by writes to that register**: the registered `re` of a
    storage/status is high in a cycle iff the previous cycle was a bus write to the register's strobe word
    (`lastWord`: the word at the register's highest address). -/
theorem strobe_single_cycle (c : BankCfg) (hfit : c.Fits) (s : BankState) (i : BankIn) (k : Nat)
    (hk : k < c.regs.length) (hkind : (c.spec k).kind ≠ .raw) (hsz : 0 < nwords c.bw (c.spec k).size) :
    (((bank c).next s i).reg k).re =
      (i.bus.we && decide (i.bus.adr = c.wordAdr k (lastWord c.ord (nwords c.bw (c.spec k).size)))) := by
  have hrw : regWords c.bw (c.spec k) = nwords c.bw (c.spec k).size := by
    unfold regWords; cases h : (c.spec k).kind <;> simp_all
  have hvl : c.ValidWord k (lastWord c.ord (nwords c.bw (c.spec k).size)) :=
    ⟨hk, by show _ < regWords c.bw (c.spec k); rw [hrw]; exact lastWord_lt _ _ hsz⟩
  rw [next_reg c s i k hk]
  cases hwe : i.bus.we
  · simp only [Bool.false_eq_true, if_false, Bool.false_and]
    unfold regNext
    cases hkd : (c.spec k).kind <;> simp_all
  · simp only [if_true, Bool.true_and]
    cases hh : c.hitReg i.bus.adr k with
    | none =>
      have hne : i.bus.adr ≠ c.wordAdr k (lastWord c.ord (nwords c.bw (c.spec k).size)) := by
        intro h
        rw [h, c.hitReg_wordAdr k _ hfit hvl] at hh
        cases hh
      simp only [hne, decide_false]
      unfold regNext
      cases hkd : (c.spec k).kind <;> simp_all
    | some sc =>
      obtain ⟨j, hv, hsc, ha⟩ := c.hitReg_inv _ _ _ hh
      have hlast : sc.last = (j == lastWord c.ord (nwords c.bw (c.spec k).size)) := by
        rw [hsc]; exact simple_last c k j hkind
      have hiff : (i.bus.adr = c.wordAdr k (lastWord c.ord (nwords c.bw (c.spec k).size))) ↔
          j = lastWord c.ord (nwords c.bw (c.spec k).size) := by
        rw [ha]
        constructor
        · intro h; exact (c.wordAdr_injective _ _ _ _ hv hvl h).2
        · intro h; rw [← h]
      have hre : (regNext c.bw (c.spec k) (s.reg k) (some sc) i.bus.datW (i.devOf k)).re = sc.last := by
        unfold regNext
        cases hkd : (c.spec k).kind
        · simp only []
          split <;> [split; skip] <;> rfl
        · rfl
        · exact absurd hkd hkind
      rw [hre, hlast]
      by_cases hj : j = lastWord c.ord (nwords c.bw (c.spec k).size)
      · simp [hj, hiff.mpr hj]
      · have : ¬ (i.bus.adr = c.wordAdr k (lastWord c.ord (nwords c.bw (c.spec k).size))) := fun h => hj (hiff.mp h)
        simp [hj, this]

end Litex.C12
