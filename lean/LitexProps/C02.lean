import LitexProofs.Namer.GetName
import LitexProofs.Namer.KeywordFacts
import LitexModel.Namer.Tree
import LitexModel.Generated.Keywords
/-
  C02 — Verilog identifiers are unique, legal and reproducible.

  `answers kw base reqs` is the list of `(signal, identifier)` pairs returned by `SignalNamespace.get_name`
  for the request sequence `reqs` (any order, any repetitions) on a namespace seeded with the keyword set
  `kw`, where `base s` is the signal's base name (`name_override`, else its hierarchical dictionary name;
  memories and instances take part through their `name_override`).  All theorems quantify over every base-name
  assignment and every request sequence.
-/
namespace Litex.C02
open Litex.Namer

/-- Every entry of the regenerated keyword table is a non-empty identifier without blanks, and none ends in
    `_<digits>` (so no generated suffixed name can be a keyword).  Re-checked by the kernel over the whole
    regenerated table (`decide +kernel` in LitexProofs/Namer/KeywordFacts.lean). -/
theorem keywords_wellformed : kwWellformed keywords = true := keywords_wellformed_table

/-- The regenerated table contains the whole IEEE 1364-2005 keyword list (`Namer.ieee1364_2005`, a fixed list
    written from the standard). -/
theorem keywords_cover_1364 : ∀ k ∈ ieee1364_2005, k ∈ keywords := keywords_cover_1364_table

/-! ## Stability -/

/-- Once named, a signal keeps its identifier: request `s` after any history `pre`, serve any further
    requests `post`, request `s` again — the answer is the same. -/
theorem getName_stable (kw : List String) (base : SigId → String) (pre post : List SigId) (s : SigId) :
    (getName (runFrom base (getName (run kw base pre) (base s) s).1 post) (base s) s).2 =
      (getName (run kw base pre) (base s) s).2 := by
  obtain ⟨n, hn, ha⟩ := getName_answer (run kw base pre) (base s) s
  rw [ha, getName_named (runFrom_keeps post hn)]

/-- Over a whole request sequence: all answers given for one signal are the same identifier. -/
theorem answers_functional (kw : List String) (base : SigId → String) (reqs : List SigId)
    (s : SigId) (a b : String) (ha : (s, a) ∈ answers kw base reqs) (hb : (s, b) ∈ answers kw base reqs) :
    a = b := by
  obtain ⟨n, hn, rfl⟩ := answersFrom_spec _ reqs s a ha
  obtain ⟨m, hm, rfl⟩ := answersFrom_spec _ reqs s b hb
  rw [hn] at hm
  cases hm
  rfl

/-! ## Uniqueness

  Full statement (FALSE on the current code, see `getName_collision`):

      theorem getName_injective (kw base reqs s t a) :
          (s, a) ∈ answers kw base reqs → (t, a) ∈ answers kw base reqs → s = t

  It holds for the repaired `get_name` (`getNameFixed_injective` below) and, for the code as it is, under the
  decidable hypothesis that no requested base name looks like another requested base name plus a generated
  suffix. -/

/-- Two different signals never receive the same identifier, provided no requested base name equals another
    requested base name followed by `_k` (`1 ≤ k ≤ number of requests`). -/
theorem getName_injective_partial (kw : List String) (base : SigId → String) (reqs : List SigId)
    (hshape : noSuffixShapedBase (reqs.map base) = true)
    (s t : SigId) (a : String) (hs : (s, a) ∈ answers kw base reqs) (ht : (t, a) ∈ answers kw base reqs) :
    s = t := by
  obtain ⟨n, hn, rfl⟩ := answersFrom_spec _ reqs s a hs
  obtain ⟨m, hm, heq⟩ := answersFrom_spec _ reqs t _ ht
  have inv : Inv kw base reqs (run kw base reqs) := Inv.run reqs
  by_cases hne : s = t
  · exact hne
  exfalso
  have hsb : base s ∈ reqs.map base := List.mem_map_of_mem (inv.named s n hn)
  have htb : base t ∈ reqs.map base := List.mem_map_of_mem (inv.named t m hm)
  have hnb : n ≤ (reqs.map base).length := by
    have h1 := inv.lt_count s n hn
    have h2 := inv.bound (base s)
    simp only [List.length_map]; omega
  have hmb : m ≤ (reqs.map base).length := by
    have h1 := inv.lt_count t m hm
    have h2 := inv.bound (base t)
    simp only [List.length_map]; omega
  rcases collision_shape inv hn hm hne heq with ⟨_, hpos, hb⟩ | ⟨_, hpos, hb⟩
  · exact noSuffixShapedBase_spec hshape hsb htb hpos hmb hb
  · exact noSuffixShapedBase_spec hshape htb hsb hpos hnb hb

/-- The exact shape of every collision of the current code: two different signals share an identifier iff one
    of them carries number 0 and its base name is the other one's base name plus the other one's suffix. -/
theorem getName_collision_iff (kw : List String) (base : SigId → String) (reqs : List SigId)
    (s t : SigId) (n m : Nat) (hne : s ≠ t)
    (hs : (run kw base reqs).sigs s = some n) (ht : (run kw base reqs).sigs t = some m) :
    suffixed (base s) n = suffixed (base t) m ↔
      (n = 0 ∧ 0 < m ∧ base s = base t ++ "_" ++ toString m) ∨
      (m = 0 ∧ 0 < n ∧ base t = base s ++ "_" ++ toString n) := by
  constructor
  · exact collision_shape (Inv.run reqs) hs ht hne
  · rintro (⟨rfl, hm, hb⟩ | ⟨rfl, hn, hb⟩)
    · rw [suffixed_zero, suffixed_pos _ hm, hb]
    · rw [suffixed_zero, suffixed_pos _ hn, hb]

/-- Negative witness (the defect C02-suffix-collision): bases `x, x, x_1` requested in this order receive
    `x, x_1, x_1` — signals 1 and 2 share an identifier. -/
example : answers ["if", "wire"] (fun s => if s = 2 then "x_1" else "x") [0, 1, 2] =
    [(0, "x"), (1, "x_1"), (2, "x_1")] := by decide +kernel

/-- … hence the full injectivity statement is refutable for the current code. -/
theorem getName_collision :
    ¬ ∀ (kw : List String) (base : SigId → String) (reqs : List SigId) (s t : SigId) (a : String),
        (s, a) ∈ answers kw base reqs → (t, a) ∈ answers kw base reqs → s = t := by
  intro h
  have := h [] (fun s => if s = 2 then "x_1" else "x") [0, 1, 2] 1 2 "x_1" (by decide) (by decide)
  exact absurd this (by decide)

/-- The same through a reserved word: `if` is renamed `if_1`, which a signal called `if_1` also keeps. -/
example : answers ["if", "wire"] (fun s => if s = 0 then "if" else "if_1") [0, 1] =
    [(0, "if_1"), (1, "if_1")] := by decide +kernel

/-- Non-vacuity of `getName_injective_partial`: a request sequence with repeated names, a reserved word and a
    repeated request satisfies the hypothesis, and suffixes are really handed out. -/
example :
    let base : SigId → String := fun s => if s = 3 then "wire" else if s = 4 then "y" else "x"
    noSuffixShapedBase ([2, 0, 3, 1, 0, 4].map base) = true ∧
    answers ["if", "wire"] base [2, 0, 3, 1, 0, 4] =
      [(2, "x"), (0, "x_1"), (3, "wire_1"), (1, "x_2"), (0, "x_1"), (4, "y")] := by decide +kernel

/-! ## Reserved words -/

/-- No issued identifier is a reserved word of the table the namespace was seeded with, provided the table is
    well formed (no entry ends in `_<digits>`). -/
theorem name_not_reserved (kw : List String) (hw : kwWellformed kw = true) (base : SigId → String)
    (reqs : List SigId) (s : SigId) (a : String) (h : (s, a) ∈ answers kw base reqs) : a ∉ kw := by
  obtain ⟨n, hn, rfl⟩ := answersFrom_spec _ reqs s a h
  have inv : Inv kw base reqs (run kw base reqs) := Inv.run reqs
  intro hk
  by_cases hpos : 0 < n
  · have h1 := endsInSuffix_suffixed (base s) hpos
    simp only [kwWellformed, List.all_eq_true, Bool.and_eq_true, Bool.not_eq_true'] at hw
    have h2 := (hw _ hk).2
    rw [h1] at h2
    exact absurd h2 (by decide)
  · have : n = 0 := by omega
    subst this
    rw [suffixed_zero] at hk
    have := inv.kw_pos s 0 hn hk
    omega

/-- With the regenerated LiteX table: no issued identifier is an IEEE 1364-2005 keyword. -/
theorem name_not_reserved_1364 (base : SigId → String) (reqs : List SigId) (s : SigId) (a : String)
    (h : (s, a) ∈ answers keywords base reqs) : a ∉ ieee1364_2005 :=
  fun hk => name_not_reserved keywords keywords_wellformed base reqs s a h (keywords_cover_1364 a hk)

/-- Non-vacuity: reserved words are requested and renamed (`repeat`, `union`, `uwire` are in the regenerated
    table — the entries that carried leading blanks before fix F2). -/
example : "repeat" ∈ keywords ∧ "union" ∈ keywords ∧ "uwire" ∈ keywords ∧
    answers ["repeat", "uwire"] (fun s => if s = 0 then "repeat" else "uwire") [0, 1] =
      [(0, "repeat_1"), (1, "uwire_1")] := by decide +kernel

/-! ## Legality -/

/-- If every requested base name matches `[A-Za-z_][A-Za-z0-9_]*`, so does every issued identifier. -/
theorem name_legal (kw : List String) (base : SigId → String) (reqs : List SigId)
    (hb : ∀ s ∈ reqs, isIdent (base s) = true)
    (s : SigId) (a : String) (h : (s, a) ∈ answers kw base reqs) : isIdent a = true := by
  obtain ⟨n, _, rfl⟩ := answersFrom_spec _ reqs s a h
  exact isIdent_suffixed (hb s (answersFrom_mem_reqs _ reqs s _ h)) n

end Litex.C02
