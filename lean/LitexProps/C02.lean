import LitexProofs.Namer.GetName
import LitexProofs.Namer.KeywordFacts
import LitexProofs.Namer.Fixed
import LitexProofs.Namer.Conservative
import LitexProofs.Namer.Tree
import LitexProofs.Namer.Perm
import LitexModel.Namer.Tree
import LitexModel.Generated.Keywords
/-
  C02 — Verilog identifiers are unique, legal and reproducible.

  `answers kw base reqs` is the list of `(signal, identifier)` pairs returned by `SignalNamespace.get_name`
  for the request sequence `reqs` (any order, any repetitions) on a namespace seeded with the keyword set
  `kw`, where `base s` is the signal's base name (`name_override`, else its hierarchical dictionary name;
  memories and instances take part through their `name_override`).  All theorems quantify over every base-name
  assignment and every request sequence.
-/
namespace Litex.C02
open Litex.Namer

/-- Every entry of the regenerated keyword table is a non-empty identifier without blanks, and none ends in
    `_<digits>` (so no generated suffixed name can be a keyword).  Re-checked by the kernel over the whole
    regenerated table (`decide +kernel` in LitexProofs/Namer/KeywordFacts.lean). -/
theorem keywords_wellformed : kwWellformed keywords = true := keywords_wellformed_table

/-- The regenerated table contains the whole IEEE 1364-2005 keyword list (`Namer.ieee1364_2005`, a fixed list
    written from the standard). -/
theorem keywords_cover_1364 : ∀ k ∈ ieee1364_2005, k ∈ keywords := keywords_cover_1364_table

/-! ## Stability -/

/-- Once named, a signal keeps its identifier: request `s` after any history `pre`, serve any further
    requests `post`, request `s` again — the answer is the same. -/
theorem getName_stable (kw : List String) (base : SigId → String) (pre post : List SigId) (s : SigId) :
    (getName (runFrom base (getName (run kw base pre) (base s) s).1 post) (base s) s).2 =
      (getName (run kw base pre) (base s) s).2 := by
  obtain ⟨n, hn, ha⟩ := getName_answer (run kw base pre) (base s) s
  rw [ha, getName_named (runFrom_keeps post hn)]

/-- Over a whole request sequence: all answers given for one signal are the same identifier. -/
theorem answers_functional (kw : List String) (base : SigId → String) (reqs : List SigId)
    (s : SigId) (a b : String) (ha : (s, a) ∈ answers kw base reqs) (hb : (s, b) ∈ answers kw base reqs) :
    a = b := by
  obtain ⟨n, hn, rfl⟩ := answersFrom_spec _ reqs s a ha
  obtain ⟨m, hm, rfl⟩ := answersFrom_spec _ reqs s b hb
  rw [hn] at hm
  cases hm
  rfl

/-! ## Uniqueness

  Full statement (FALSE on the current code, see `getName_collision`):

      theorem getName_injective (kw base reqs s t a) :
          (s, a) ∈ answers kw base reqs → (t, a) ∈ answers kw base reqs → s = t

  It holds for the repaired `get_name` (`getNameFixed_injective` below) and, for the code as it is, under the
  decidable hypothesis that no requested base name looks like another requested base name plus a generated
  suffix. -/

/-- Two different signals never receive the same identifier, provided no requested base name equals another
    requested base name followed by `_k` (`1 ≤ k ≤ number of requests`). -/
theorem getName_injective_partial (kw : List String) (base : SigId → String) (reqs : List SigId)
    (hshape : noSuffixShapedBase (reqs.map base) = true)
    (s t : SigId) (a : String) (hs : (s, a) ∈ answers kw base reqs) (ht : (t, a) ∈ answers kw base reqs) :
    s = t := by
  obtain ⟨n, hn, rfl⟩ := answersFrom_spec _ reqs s a hs
  obtain ⟨m, hm, heq⟩ := answersFrom_spec _ reqs t _ ht
  have inv : Inv kw base reqs (run kw base reqs) := Inv.run reqs
  by_cases hne : s = t
  · exact hne
  exfalso
  have hsb : base s ∈ reqs.map base := List.mem_map_of_mem (inv.named s n hn)
  have htb : base t ∈ reqs.map base := List.mem_map_of_mem (inv.named t m hm)
  have hnb : n ≤ (reqs.map base).length := by
    have h1 := inv.lt_count s n hn
    have h2 := inv.bound (base s)
    simp only [List.length_map]; omega
  have hmb : m ≤ (reqs.map base).length := by
    have h1 := inv.lt_count t m hm
    have h2 := inv.bound (base t)
    simp only [List.length_map]; omega
  rcases collision_shape inv hn hm hne heq with ⟨_, hpos, hb⟩ | ⟨_, hpos, hb⟩
  · exact noSuffixShapedBase_spec hshape hsb htb hpos hmb hb
  · exact noSuffixShapedBase_spec hshape htb hsb hpos hnb hb

/-- The exact shape of every collision of the current code: two different signals share an identifier iff one
    of them carries number 0 and its base name is the other one's base name plus the other one's suffix. -/
theorem getName_collision_iff (kw : List String) (base : SigId → String) (reqs : List SigId)
    (s t : SigId) (n m : Nat) (hne : s ≠ t)
    (hs : (run kw base reqs).sigs s = some n) (ht : (run kw base reqs).sigs t = some m) :
    suffixed (base s) n = suffixed (base t) m ↔
      (n = 0 ∧ 0 < m ∧ base s = base t ++ "_" ++ toString m) ∨
      (m = 0 ∧ 0 < n ∧ base t = base s ++ "_" ++ toString n) := by
  constructor
  · exact collision_shape (Inv.run reqs) hs ht hne
  · rintro (⟨rfl, hm, hb⟩ | ⟨rfl, hn, hb⟩)
    · rw [suffixed_zero, suffixed_pos _ hm, hb]
    · rw [suffixed_zero, suffixed_pos _ hn, hb]

/-- Negative witness (the defect C02-suffix-collision): bases `x, x, x_1` requested in this order receive
    `x, x_1, x_1` — signals 1 and 2 share an identifier. -/
example : answers ["if", "wire"] (fun s => if s = 2 then "x_1" else "x") [0, 1, 2] =
    [(0, "x"), (1, "x_1"), (2, "x_1")] := by decide +kernel

/-- … hence the full injectivity statement is refutable for the current code. -/
theorem getName_collision :
    ¬ ∀ (kw : List String) (base : SigId → String) (reqs : List SigId) (s t : SigId) (a : String),
        (s, a) ∈ answers kw base reqs → (t, a) ∈ answers kw base reqs → s = t := by
  intro h
  have := h [] (fun s => if s = 2 then "x_1" else "x") [0, 1, 2] 1 2 "x_1" (by decide) (by decide)
  exact absurd this (by decide)

/-- The same through a reserved word: `if` is renamed `if_1`, which a signal called `if_1` also keeps. -/
example : answers ["if", "wire"] (fun s => if s = 0 then "if" else "if_1") [0, 1] =
    [(0, "if_1"), (1, "if_1")] := by decide +kernel

/-- Non-vacuity of `getName_injective_partial`: a request sequence with repeated names, a reserved word and a
    repeated request satisfies the hypothesis, and suffixes are really handed out. -/
example :
    let base : SigId → String := fun s => if s = 3 then "wire" else if s = 4 then "y" else "x"
    noSuffixShapedBase ([2, 0, 3, 1, 0, 4].map base) = true ∧
    answers ["if", "wire"] base [2, 0, 3, 1, 0, 4] =
      [(2, "x"), (0, "x_1"), (3, "wire_1"), (1, "x_2"), (0, "x_1"), (4, "y")] := by decide +kernel

/-! ## Reserved words -/

/-- No issued identifier is a reserved word of the table the namespace was seeded with, provided the table is
    well formed (no entry ends in `_<digits>`). -/
theorem name_not_reserved (kw : List String) (hw : kwWellformed kw = true) (base : SigId → String)
    (reqs : List SigId) (s : SigId) (a : String) (h : (s, a) ∈ answers kw base reqs) : a ∉ kw := by
  obtain ⟨n, hn, rfl⟩ := answersFrom_spec _ reqs s a h
  have inv : Inv kw base reqs (run kw base reqs) := Inv.run reqs
  intro hk
  by_cases hpos : 0 < n
  · have h1 := endsInSuffix_suffixed (base s) hpos
    simp only [kwWellformed, List.all_eq_true, Bool.and_eq_true, Bool.not_eq_true'] at hw
    have h2 := (hw _ hk).2
    rw [h1] at h2
    exact absurd h2 (by decide)
  · have : n = 0 := by omega
    subst this
    rw [suffixed_zero] at hk
    have := inv.kw_pos s 0 hn hk
    omega

/-- With the regenerated LiteX table: no issued identifier is an IEEE 1364-2005 keyword. -/
theorem name_not_reserved_1364 (base : SigId → String) (reqs : List SigId) (s : SigId) (a : String)
    (h : (s, a) ∈ answers keywords base reqs) : a ∉ ieee1364_2005 :=
  fun hk => name_not_reserved keywords keywords_wellformed base reqs s a h (keywords_cover_1364 a hk)

/-- Non-vacuity: reserved words are requested and renamed (`repeat`, `union`, `uwire` are in the regenerated
    table — the entries that carried leading blanks before fix F2). -/
example : "repeat" ∈ keywords ∧ "union" ∈ keywords ∧ "uwire" ∈ keywords ∧
    answers ["repeat", "uwire"] (fun s => if s = 0 then "repeat" else "uwire") [0, 1] =
      [(0, "repeat_1"), (1, "uwire_1")] := by decide +kernel

/-! ## Legality -/

/-- If every requested base name matches `[A-Za-z_][A-Za-z0-9_]*`, so does every issued identifier. -/
theorem name_legal (kw : List String) (base : SigId → String) (reqs : List SigId)
    (hb : ∀ s ∈ reqs, isIdent (base s) = true)
    (s : SigId) (a : String) (h : (s, a) ∈ answers kw base reqs) : isIdent a = true := by
  obtain ⟨n, _, rfl⟩ := answersFrom_spec _ reqs s a h
  exact isIdent_suffixed (hb s (answersFrom_mem_reqs _ reqs s _ h)) n

/-! ## The repaired `get_name` (proposed fix F7, `getNameFixed`: skip numbered candidates already in use and
    record a numbered name as used).  NOT the code of the current tree: the harness ties this model to a
    harness-side copy of the patched method, so that the fix can be adopted by switching the correspondence.
    For it the full statements hold, without any hypothesis on the base names or the keyword table. -/

/-- Full uniqueness: two different signals never receive the same identifier. -/
theorem getNameFixed_injective (kw : List String) (base : SigId → String) (reqs : List SigId)
    (s t : SigId) (a : String) (hs : (s, a) ∈ answersFixed kw base reqs) (ht : (t, a) ∈ answersFixed kw base reqs) :
    s = t := by
  obtain ⟨n, hn, rfl⟩ := answersFromF_spec _ reqs s a hs
  obtain ⟨m, hm, heq⟩ := answersFromF_spec _ reqs t _ ht
  exact ((InvF.init (kw := kw) (base := base)).runFrom reqs).distinct s t n m hn hm heq

/-- Stability of the repaired method. -/
theorem getNameFixed_stable (kw : List String) (base : SigId → String) (pre post : List SigId) (s : SigId) :
    (getNameFixed (runFromF base (getNameFixed (runFixed kw base pre) (base s) s).1 post) (base s) s).2 =
      (getNameFixed (runFixed kw base pre) (base s) s).2 := by
  obtain ⟨n, hn, ha⟩ := getNameFixed_answer (runFixed kw base pre) (base s) s
  rw [ha, getNameFixed_named (runFromF_keeps post hn)]

/-- No issued identifier is in the keyword set the namespace was seeded with — for every keyword set. -/
theorem getNameFixed_not_reserved (kw : List String) (base : SigId → String) (reqs : List SigId)
    (s : SigId) (a : String) (h : (s, a) ∈ answersFixed kw base reqs) : a ∉ kw := by
  obtain ⟨n, hn, rfl⟩ := answersFromF_spec _ reqs s a h
  exact ((InvF.init (kw := kw) (base := base)).runFrom reqs).not_kw s n hn

/-- Legality is preserved by the repaired method as well. -/
theorem getNameFixed_legal (kw : List String) (base : SigId → String) (reqs : List SigId)
    (hb : ∀ s ∈ reqs, isIdent (base s) = true)
    (s : SigId) (a : String) (h : (s, a) ∈ answersFixed kw base reqs) : isIdent a = true := by
  obtain ⟨n, _, rfl⟩ := answersFromF_spec _ reqs s a h
  exact isIdent_suffixed (hb s (answersFromF_mem_reqs _ reqs s _ h)) n

/-- The fix is conservative: outside the defect region (no requested base name is another requested base name
    plus `_k`; keyword table well formed) the repaired method answers exactly like the current one, so no
    design free of suffix-shaped names changes its netlist. -/
theorem getNameFixed_conservative (kw : List String) (hw : kwWellformed kw = true) (base : SigId → String)
    (reqs : List SigId) (hshape : noSuffixShapedBase (reqs.map base) = true) :
    answersFixed kw base reqs = answers kw base reqs :=
  answers_eq_of_sim hw hshape reqs [] _ _ (by simp) Sim.init

/-- Non-vacuity / the former witnesses under the repaired method: `x, x, x_1` → `x, x_1, x_1_1`, and in the
    other request order `x_1, x, x` → `x_1, x, x_2`; `if, if_1` → `if_1, if_1_1`. -/
example : answersFixed ["if", "wire"] (fun s => if s = 2 then "x_1" else "x") [0, 1, 2] =
    [(0, "x"), (1, "x_1"), (2, "x_1_1")] := by decide +kernel
example : answersFixed ["if", "wire"] (fun s => if s = 2 then "x_1" else "x") [2, 0, 1] =
    [(2, "x_1"), (0, "x"), (1, "x_2")] := by decide +kernel
example : answersFixed ["if", "wire"] (fun s => if s = 0 then "if" else "if_1") [0, 1] =
    [(0, "if_1"), (1, "if_1_1")] := by decide +kernel

/-! ## The hierarchical dictionary (`_build_signal_name_dict`) and the whole `build_signal_namespace`

  `groupName g s` is the name `_build_signal_name_dict_for_group` gives signal `s` inside its `related`-group
  `g` (hierarchy tree, `use_name` by conflicts, `use_number` second pass, DUID ranks); `buildDict sigs i` the
  final dictionary entry (`related` ancestors prefixed); `namespaceAnswers kw sigs extra reqs` the answers of
  `get_name` on the namespace built from `sigs` (memories/instances as `extra` override-only objects). -/

/-- Python iterates *sets* of signals while building a group dictionary; the result does not depend on the
    iteration order: any permutation of the group gives every signal the same name. -/
theorem buildDict_perm (g₁ g₂ : List GSig) (h : g₁.Perm g₂) (s : GSig) : groupName g₁ s = groupName g₂ s :=
  groupName_perm h s

/-- The tree node a signal ends in always has `use_name` set (it has a signal of its own), so the element
    list joined into the signal's name is never empty. -/
theorem buildDict_nonempty (g : List GSig) (s : GSig) (hs : s ∈ g) (hne : s.bt ≠ []) :
    let ps := g.map fun t => keyedPath (tagged g) t.bt
    elems (fuelOf ps) ps (keyedPath (tagged g) s.bt) ≠ [] :=
  elems_ne_nil _ _ _ (keyedPath_ne_nil _ _ hne) (List.mem_map.mpr ⟨s, hs, rfl⟩)

/-- Legality of dictionary names: if every back-trace is non-empty with legal step names, every dictionary
    entry (joined with `_`, numbered, DUID-ranked, prefixed by `related` ancestors) is a legal identifier. -/
theorem buildDict_legal (sigs : List Sig) (h : LegalSigs sigs) (i : Nat) (hi : i < sigs.length) :
    isIdent (buildDict sigs i) = true := buildDict_legal' h hi

/-- What the driver executes (and the correspondence compares with the real code) is the per-signal
    definition the theorems speak about. -/
theorem dictList_eq_buildDict (sigs : List Sig) (i : Nat) (hi : i < sigs.length) :
    (dictList sigs)[i]? = some (buildDict sigs i) := dictList_getElem? sigs i hi

theorem groupNames_eq_groupName (g : List GSig) : groupNames g = g.map (groupName g) := groupNames_eq g

/-- End to end, uniqueness: on the namespace built from any signal set, two different objects never receive
    the same identifier, provided no requested base name is another requested base name plus `_k`. -/
theorem namespace_injective_partial (kw : List String) (sigs : List Sig) (extra : List String)
    (reqs : List Nat)
    (hshape : noSuffixShapedBase (reqs.map fun i => (baseList sigs ++ extra)[i]?.getD "") = true)
    (s t : SigId) (a : String)
    (hs : (s, a) ∈ namespaceAnswers kw sigs extra reqs) (ht : (t, a) ∈ namespaceAnswers kw sigs extra reqs) :
    s = t :=
  getName_injective_partial kw _ reqs hshape s t a hs ht

/-- End to end, reserved words: no identifier issued by a namespace seeded with the regenerated LiteX table
    is an IEEE 1364-2005 keyword — whatever the back-traces and overrides are. -/
theorem namespace_not_reserved (sigs : List Sig) (extra : List String) (reqs : List Nat)
    (s : SigId) (a : String) (h : (s, a) ∈ namespaceAnswers keywords sigs extra reqs) : a ∉ ieee1364_2005 :=
  name_not_reserved_1364 _ reqs s a h

/-- End to end, legality: legal step names and legal overrides give legal identifiers. -/
theorem namespace_legal (kw : List String) (sigs : List Sig) (extra : List String) (reqs : List Nat)
    (hsigs : LegalSigs sigs) (hextra : ∀ e ∈ extra, isIdent e = true)
    (hreqs : ∀ i ∈ reqs, i < sigs.length + extra.length)
    (s : SigId) (a : String) (h : (s, a) ∈ namespaceAnswers kw sigs extra reqs) : isIdent a = true := by
  refine name_legal kw _ reqs ?_ s a h
  intro (i : Nat) hi
  have hlen : (baseList sigs).length = sigs.length := by
    simp [baseList, dictList_length]
  by_cases hlt : i < sigs.length
  · have : (baseList sigs ++ extra)[i]? = some (baseOf sigs i) := by
      rw [List.getElem?_append_left (hlen ▸ hlt)]
      exact baseList_getElem? sigs i hlt
    simp only [this, Option.getD_some]
    exact baseOf_legal hsigs hlt
  · have hi2 := hreqs i hi
    have hge : (baseList sigs).length ≤ i := by rw [hlen]; exact Nat.le_of_not_lt hlt
    have hidx : i - (baseList sigs).length < extra.length := by rw [hlen]; omega
    have : (baseList sigs ++ extra)[i]? = some (extra[i - (baseList sigs).length]) := by
      rw [List.getElem?_append_right hge]
      simp [hidx]
    simp only [this, Option.getD_some]
    exact hextra _ (List.getElem_mem _)

/-- Non-vacuity of the dictionary theorems: two sub-modules `m` (numbers 0 and 1) with signals `x`, `w` / `x`,
    a signal with a `related` parent, and an override named like a keyword — the hierarchy (`use_name`),
    number (`use_number`) and `related` paths are all taken, a memory named like a dictionary entry is
    renamed, and the group dictionary is the same for another listing order. -/
example :
    let sigs : List Sig := [
      ⟨0, [("top", 0), ("m", 0), ("x", 0)], none, none⟩,
      ⟨1, [("top", 0), ("m", 1), ("x", 1)], none, none⟩,
      ⟨2, [("top", 0), ("m", 0), ("w", 0)], none, none⟩,
      ⟨3, [("top", 0), ("y", 0)], some 0, none⟩,
      ⟨4, [("top", 0), ("z", 0)], none, some "if"⟩]
    let g : List GSig := [⟨0, [("m", 0), ("x", 0)]⟩, ⟨1, [("m", 1), ("x", 1)]⟩, ⟨2, [("m", 0), ("w", 0)]⟩]
    dictList sigs = ["m0_x", "m1_x", "m0_w", "m0_x_y", "z"] ∧
    (namespaceAnswers ["if"] sigs ["m0_x"] [4, 0, 5, 3]).map (·.2) = ["if_1", "m0_x", "m0_x_1", "m0_x_y"] ∧
    g.map (groupName g) = ["m0_x", "m1_x", "m0_w"] ∧
    g.map (groupName g.reverse) = ["m0_x", "m1_x", "m0_w"] := by
  decide +kernel

end Litex.C02
