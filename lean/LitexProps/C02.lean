import LitexProofs.Namer.GetName
import LitexProofs.Namer.KeywordFacts
import LitexProofs.Namer.Fixed
import LitexProofs.Namer.Conservative
import LitexProofs.Namer.Tree
import LitexProofs.Namer.Perm
import LitexProofs.Namer.Emit
import LitexModel.Namer.Tree
import LitexModel.Namer.Emit
import LitexModel.Generated.Keywords
/-
  ## Inventory: C02 anchors in /repo vs. model coverage  (M = modelled + theorem + tied on every run,
  V = validated by a monitor / the fresh-interpreter emission corpus only, F = reported finding, - = not applicable)

  | anchor (code that exists)                                              | model (LitexModel/Namer)          | theorems here                                   | tie (driver call / monitor)          |
  |------------------------------------------------------------------------|-----------------------------------|-------------------------------------------------|--------------------------------------|
  | namer.SignalNamespace.__init__/get_name: counts, sigs, `_n`, keyword seed | Core: Ns/getName, NsF/getNameFixed | getName_*, getNameFixed_*, name_not_reserved*   | M  getnames[_fixed], namespace[_fixed] |
  | get_name: ClockSignal/ResetSignal -> domain.clk/.rst, raises            | Emit: resolve, answersCd          | answersCd_resolved, answersCd_alias_iff, resolve_clk/rst | M  nscd (dict-typed clock_domains)  |
  |   ... on the namespace `convert()` returns (`_ClockDomainList` has no .get) | -                              | -                                               | note (outside the property statement) |
  | namer._HierarchyNode/_build_hierarchy_tree/_determine_name_usage/_set_number_usage/_build_signal_name_dict_from_tree/DUID ranks | Tree: req/useName/elems/groupName | buildDict_perm/_nonempty/_legal | M  dict |
  | namer._build_signal_groups/_build_hierarchical_name (related chains)     | Tree: depthOf/groupOf/hierName    | buildDict_legal, dictList_eq_buildDict          | M  dict                              |
  | namer.build_signal_namespace                                            | Tree: namespaceAnswers[Fixed]     | namespace_*                                     | M  namespace, convert() end to end   |
  | verilog._ieee_1800_2017_verilog_reserved_keywords                       | Generated/Keywords (regen)        | keywords_wellformed, keywords_cover_1364        | M  regen, iskw, kwcount              |
  | verilog.convert: IO naming step (`sorted(ios, key=duid)`, back-trace name) | Emit: ioOverride/ioStep         | ioStep_idem/_perm/_getElem/_legal, ioOverride_spec | M  iostep (+ monitor io_override)  |
  | verilog.convert: `ios=set()` default / platform IO merge                | -                                 | -                                               | V  repeated conversion (C02-r3m3)    |
  | verilog._generate_attribute (`sorted(attr, key=…)`, attr_translate)     | Emit: emitAttrs                   | emitAttrs_perm_partial/_strings (+ neg. witness) | M  emitattrs (11 real tables) + corpus |
  | verilog._generate_module: ports `sorted(ios, key=get_name)`             | Emit: declOrder                   | declOrder_perm_partial, declOrder_namespace_perm | M  declorder                        |
  | verilog._generate_signals: `sorted(sigs - ios, key=get_name)`           | Emit: declOrder                   | same                                            | M  declorder                         |
  | verilog._generate_combinatorial_logic_synth: default-assignment lines `sorted(g[0], key=get_name)` | Emit: declOrder | defaultLines_perm, declOrder_perm_partial | M  declorder (every multi-target always block of every convert() run) + DUID-offset corpus |
  | verilog._generate_combinatorial_logic_sim: dict of targets filled in set order of list_targets (DUID-hash order) | - | - | V  corpus across hash seeds; DUID-offset dependent on the unchanged tree: candidate C02-tie-order (b) |
  | verilog._generate_synchronous_logic: `sorted(f.sync.items())`           | Emit: declOrder (domain names)    | same                                            | V  emission corpus (3 clock domains) |
  | verilog._generate_specials: `sorted(specials, key=duid)`                | Emit: duidOrder                   | duidOrder_perm_partial                          | M  duidorder                         |
  | first-request order of get_name = iteration order of the Signal sets `ios` / `sigs - ios` (DUID-hash order) | explicit input `reqs` | (witness: suffixes swap) | candidate C02-tie-order (a): DUID-offset corpus, tie designs classified |
  | memory.py: helper registers `<mem>_adr<n>` / `<mem>_dat<n>` via get_name | Emit: memHelpers, Obj.adr/.dat   | class_injective/_legal/_not_reserved, adrBase_inj, datBase_inj, adrBase_ne_datBase | M  helpers, classanswers |
  | memory.py: data file `<top>_<mem>.init`                                 | -                                 | -                                               | V  monitor data_file_failures        |
  | instance.py: instance identifier                                        | Emit: Obj.inst                    | class_*                                         | M  classanswers                      |
  | instance.py: `.PORT` / `.PARAM` names (the foreign module's name space; order = Instance.items, sorted by Migen) | - | -                                   | V  emission corpus                   |
  | Migen ClockDomain: `<cd>_clk` / `<cd>_rst` name_overrides                | Emit: cdClkBase/cdRstBase, Obj.cdClk/.cdRst | class_*                              | M  cdbase, classanswers              |
  | hierarchy.py: `[CELL]` lines `sorted(specials, key=duid)` (was `key=str`: heap address, fixed finding C02-hierarchy-order) | Emit: duidOrder | duidOrder_perm_partial | M  duidorder (hierarchy_tie) + probe + corpus |
  | expression.py                                                           | no set/dict iteration; the printer is C01's model | -                               | -                                    |
-/
/-
  C02 — Verilog identifiers are unique, legal and reproducible.

  `answers kw base reqs` is the list of `(signal, identifier)` pairs returned by `SignalNamespace.get_name`
  for the request sequence `reqs` (any order, any repetitions) on a namespace seeded with the keyword set
  `kw`, where `base s` is the signal's base name (`name_override`, else its hierarchical dictionary name;
  memories and instances take part through their `name_override`).  All theorems quantify over every base-name
  assignment and every request sequence.
-/
namespace Litex.C02
open Litex.Namer

/-- Every entry of the regenerated keyword table is a non-empty identifier without blanks, and none ends in
    `_<digits>` (so no generated suffixed name can be a keyword).  Re-checked by the kernel over the whole
    regenerated table (`decide +kernel` in LitexProofs/Namer/KeywordFacts.lean). -/
theorem keywords_wellformed : kwWellformed keywords = true := keywords_wellformed_table

/-- The regenerated table contains the whole IEEE 1364-2005 keyword list (`Namer.ieee1364_2005`, a fixed list
    written from the standard). -/
theorem keywords_cover_1364 : ∀ k ∈ ieee1364_2005, k ∈ keywords := keywords_cover_1364_table

/-! ## Stability -/

/-- Once named, a signal keeps its identifier: request `s` after any history `pre`, serve any further
    requests `post`, request `s` again — the answer is the same. -/
theorem getName_stable (kw : List String) (base : SigId → String) (pre post : List SigId) (s : SigId) :
    (getName (runFrom base (getName (run kw base pre) (base s) s).1 post) (base s) s).2 =
      (getName (run kw base pre) (base s) s).2 := by
  obtain ⟨n, hn, ha⟩ := getName_answer (run kw base pre) (base s) s
  rw [ha, getName_named (runFrom_keeps post hn)]

/-- Over a whole request sequence: all answers given for one signal are the same identifier. -/
theorem answers_functional (kw : List String) (base : SigId → String) (reqs : List SigId)
    (s : SigId) (a b : String) (ha : (s, a) ∈ answers kw base reqs) (hb : (s, b) ∈ answers kw base reqs) :
    a = b := by
  obtain ⟨n, hn, rfl⟩ := answersFrom_spec _ reqs s a ha
  obtain ⟨m, hm, rfl⟩ := answersFrom_spec _ reqs s b hb
  rw [hn] at hm
  cases hm
  rfl

/-! ## Uniqueness

  Full statement (FALSE on the current code, see `getName_collision`):

      theorem getName_injective (kw base reqs s t a) :
          (s, a) ∈ answers kw base reqs → (t, a) ∈ answers kw base reqs → s = t

  It holds for the repaired `get_name` (`getNameFixed_injective` below) and, for the code as it is, under the
  decidable hypothesis that no requested base name looks like another requested base name plus a generated
  suffix. -/

/-- Two different signals never receive the same identifier, provided no requested base name equals another
    requested base name followed by `_k` (`1 ≤ k ≤ number of requests`). -/
theorem getName_injective_partial (kw : List String) (base : SigId → String) (reqs : List SigId)
    (hshape : noSuffixShapedBase (reqs.map base) = true)
    (s t : SigId) (a : String) (hs : (s, a) ∈ answers kw base reqs) (ht : (t, a) ∈ answers kw base reqs) :
    s = t := by
  obtain ⟨n, hn, rfl⟩ := answersFrom_spec _ reqs s a hs
  obtain ⟨m, hm, heq⟩ := answersFrom_spec _ reqs t _ ht
  have inv : Inv kw base reqs (run kw base reqs) := Inv.run reqs
  by_cases hne : s = t
  · exact hne
  exfalso
  have hsb : base s ∈ reqs.map base := List.mem_map_of_mem (inv.named s n hn)
  have htb : base t ∈ reqs.map base := List.mem_map_of_mem (inv.named t m hm)
  have hnb : n ≤ (reqs.map base).length := by
    have h1 := inv.lt_count s n hn
    have h2 := inv.bound (base s)
    simp only [List.length_map]; omega
  have hmb : m ≤ (reqs.map base).length := by
    have h1 := inv.lt_count t m hm
    have h2 := inv.bound (base t)
    simp only [List.length_map]; omega
  rcases collision_shape inv hn hm hne heq with ⟨_, hpos, hb⟩ | ⟨_, hpos, hb⟩
  · exact noSuffixShapedBase_spec hshape hsb htb hpos hmb hb
  · exact noSuffixShapedBase_spec hshape htb hsb hpos hnb hb

/-- The exact shape of every collision of the current code: two different signals share an identifier iff one
    of them carries number 0 and its base name is the other one's base name plus the other one's suffix. -/
theorem getName_collision_iff (kw : List String) (base : SigId → String) (reqs : List SigId)
    (s t : SigId) (n m : Nat) (hne : s ≠ t)
    (hs : (run kw base reqs).sigs s = some n) (ht : (run kw base reqs).sigs t = some m) :
    suffixed (base s) n = suffixed (base t) m ↔
      (n = 0 ∧ 0 < m ∧ base s = base t ++ "_" ++ toString m) ∨
      (m = 0 ∧ 0 < n ∧ base t = base s ++ "_" ++ toString n) := by
  constructor
  · exact collision_shape (Inv.run reqs) hs ht hne
  · rintro (⟨rfl, hm, hb⟩ | ⟨rfl, hn, hb⟩)
    · rw [suffixed_zero, suffixed_pos _ hm, hb]
    · rw [suffixed_zero, suffixed_pos _ hn, hb]

/-- Negative witness (the defect C02-suffix-collision): bases `x, x, x_1` requested in this order receive
    `x, x_1, x_1` — signals 1 and 2 share an identifier. -/
example : answers ["if", "wire"] (fun s => if s = 2 then "x_1" else "x") [0, 1, 2] =
    [(0, "x"), (1, "x_1"), (2, "x_1")] := by decide +kernel

/-- … hence the full injectivity statement is refutable for the current code. -/
theorem getName_collision :
    ¬ ∀ (kw : List String) (base : SigId → String) (reqs : List SigId) (s t : SigId) (a : String),
        (s, a) ∈ answers kw base reqs → (t, a) ∈ answers kw base reqs → s = t := by
  intro h
  have := h [] (fun s => if s = 2 then "x_1" else "x") [0, 1, 2] 1 2 "x_1" (by decide) (by decide)
  exact absurd this (by decide)

/-- The same through a reserved word: `if` is renamed `if_1`, which a signal called `if_1` also keeps. -/
example : answers ["if", "wire"] (fun s => if s = 0 then "if" else "if_1") [0, 1] =
    [(0, "if_1"), (1, "if_1")] := by decide +kernel

/-- Non-vacuity of `getName_injective_partial`: a request sequence with repeated names, a reserved word and a
    repeated request satisfies the hypothesis, and suffixes are really handed out. -/
example :
    let base : SigId → String := fun s => if s = 3 then "wire" else if s = 4 then "y" else "x"
    noSuffixShapedBase ([2, 0, 3, 1, 0, 4].map base) = true ∧
    answers ["if", "wire"] base [2, 0, 3, 1, 0, 4] =
      [(2, "x"), (0, "x_1"), (3, "wire_1"), (1, "x_2"), (0, "x_1"), (4, "y")] := by decide +kernel

/-! ## Reserved words -/

/-- No issued identifier is a reserved word of the table the namespace was seeded with, provided the table is
    well formed (no entry ends in `_<digits>`). -/
theorem name_not_reserved (kw : List String) (hw : kwWellformed kw = true) (base : SigId → String)
    (reqs : List SigId) (s : SigId) (a : String) (h : (s, a) ∈ answers kw base reqs) : a ∉ kw := by
  obtain ⟨n, hn, rfl⟩ := answersFrom_spec _ reqs s a h
  have inv : Inv kw base reqs (run kw base reqs) := Inv.run reqs
  intro hk
  by_cases hpos : 0 < n
  · have h1 := endsInSuffix_suffixed (base s) hpos
    simp only [kwWellformed, List.all_eq_true, Bool.and_eq_true, Bool.not_eq_true'] at hw
    have h2 := (hw _ hk).2
    rw [h1] at h2
    exact absurd h2 (by decide)
  · have : n = 0 := by omega
    subst this
    rw [suffixed_zero] at hk
    have := inv.kw_pos s 0 hn hk
    omega

/-- With the regenerated LiteX table: no issued identifier is an IEEE 1364-2005 keyword. -/
theorem name_not_reserved_1364 (base : SigId → String) (reqs : List SigId) (s : SigId) (a : String)
    (h : (s, a) ∈ answers keywords base reqs) : a ∉ ieee1364_2005 :=
  fun hk => name_not_reserved keywords keywords_wellformed base reqs s a h (keywords_cover_1364 a hk)

/-- Non-vacuity: reserved words are requested and renamed (`repeat`, `union`, `uwire` are in the regenerated
    table — the entries that carried leading blanks before fix F2). -/
example : "repeat" ∈ keywords ∧ "union" ∈ keywords ∧ "uwire" ∈ keywords ∧
    answers ["repeat", "uwire"] (fun s => if s = 0 then "repeat" else "uwire") [0, 1] =
      [(0, "repeat_1"), (1, "uwire_1")] := by decide +kernel

/-! ## Legality -/

/-- If every requested base name matches `[A-Za-z_][A-Za-z0-9_]*`, so does every issued identifier. -/
theorem name_legal (kw : List String) (base : SigId → String) (reqs : List SigId)
    (hb : ∀ s ∈ reqs, isIdent (base s) = true)
    (s : SigId) (a : String) (h : (s, a) ∈ answers kw base reqs) : isIdent a = true := by
  obtain ⟨n, _, rfl⟩ := answersFrom_spec _ reqs s a h
  exact isIdent_suffixed (hb s (answersFrom_mem_reqs _ reqs s _ h)) n

/-! ## The repaired `get_name` (proposed fix F7, `getNameFixed`: skip numbered candidates already in use and
    record a numbered name as used).  NOT the code of the current tree: the harness ties this model to a
    harness-side copy of the patched method, so that the fix can be adopted by switching the correspondence.
    For it the full statements hold, without any hypothesis on the base names or the keyword table. -/

/-- Full uniqueness: two different signals never receive the same identifier. -/
theorem getNameFixed_injective (kw : List String) (base : SigId → String) (reqs : List SigId)
    (s t : SigId) (a : String) (hs : (s, a) ∈ answersFixed kw base reqs) (ht : (t, a) ∈ answersFixed kw base reqs) :
    s = t := by
  obtain ⟨n, hn, rfl⟩ := answersFromF_spec _ reqs s a hs
  obtain ⟨m, hm, heq⟩ := answersFromF_spec _ reqs t _ ht
  exact ((InvF.init (kw := kw) (base := base)).runFrom reqs).distinct s t n m hn hm heq

/-- Stability of the repaired method. -/
theorem getNameFixed_stable (kw : List String) (base : SigId → String) (pre post : List SigId) (s : SigId) :
    (getNameFixed (runFromF base (getNameFixed (runFixed kw base pre) (base s) s).1 post) (base s) s).2 =
      (getNameFixed (runFixed kw base pre) (base s) s).2 := by
  obtain ⟨n, hn, ha⟩ := getNameFixed_answer (runFixed kw base pre) (base s) s
  rw [ha, getNameFixed_named (runFromF_keeps post hn)]

/-- No issued identifier is in the keyword set the namespace was seeded with — for every keyword set. -/
theorem getNameFixed_not_reserved (kw : List String) (base : SigId → String) (reqs : List SigId)
    (s : SigId) (a : String) (h : (s, a) ∈ answersFixed kw base reqs) : a ∉ kw := by
  obtain ⟨n, hn, rfl⟩ := answersFromF_spec _ reqs s a h
  exact ((InvF.init (kw := kw) (base := base)).runFrom reqs).not_kw s n hn

/-- Legality is preserved by the repaired method as well. -/
theorem getNameFixed_legal (kw : List String) (base : SigId → String) (reqs : List SigId)
    (hb : ∀ s ∈ reqs, isIdent (base s) = true)
    (s : SigId) (a : String) (h : (s, a) ∈ answersFixed kw base reqs) : isIdent a = true := by
  obtain ⟨n, _, rfl⟩ := answersFromF_spec _ reqs s a h
  exact isIdent_suffixed (hb s (answersFromF_mem_reqs _ reqs s _ h)) n

/-- The fix is conservative: outside the defect region (no requested base name is another requested base name
    plus `_k`; keyword table well formed) the repaired method answers exactly like the current one, so no
    design free of suffix-shaped names changes its netlist. -/
theorem getNameFixed_conservative (kw : List String) (hw : kwWellformed kw = true) (base : SigId → String)
    (reqs : List SigId) (hshape : noSuffixShapedBase (reqs.map base) = true) :
    answersFixed kw base reqs = answers kw base reqs :=
  answers_eq_of_sim hw hshape reqs [] _ _ (by simp) Sim.init

/-- Non-vacuity / the former witnesses under the repaired method: `x, x, x_1` → `x, x_1, x_1_1`, and in the
    other request order `x_1, x, x` → `x_1, x, x_2`; `if, if_1` → `if_1, if_1_1`. -/
example : answersFixed ["if", "wire"] (fun s => if s = 2 then "x_1" else "x") [0, 1, 2] =
    [(0, "x"), (1, "x_1"), (2, "x_1_1")] := by decide +kernel
example : answersFixed ["if", "wire"] (fun s => if s = 2 then "x_1" else "x") [2, 0, 1] =
    [(2, "x_1"), (0, "x"), (1, "x_2")] := by decide +kernel
example : answersFixed ["if", "wire"] (fun s => if s = 0 then "if" else "if_1") [0, 1] =
    [(0, "if_1"), (1, "if_1_1")] := by decide +kernel

/-! ## The hierarchical dictionary (`_build_signal_name_dict`) and the whole `build_signal_namespace`

  `groupName g s` is the name `_build_signal_name_dict_for_group` gives signal `s` inside its `related`-group
  `g` (hierarchy tree, `use_name` by conflicts, `use_number` second pass, DUID ranks); `buildDict sigs i` the
  final dictionary entry (`related` ancestors prefixed); `namespaceAnswers kw sigs extra reqs` the answers of
  `get_name` on the namespace built from `sigs` (memories/instances as `extra` override-only objects). -/

/-- Python iterates *sets* of signals while building a group dictionary; the result does not depend on the
    iteration order: any permutation of the group gives every signal the same name. -/
theorem buildDict_perm (g₁ g₂ : List GSig) (h : g₁.Perm g₂) (s : GSig) : groupName g₁ s = groupName g₂ s :=
  groupName_perm h s

/-- The tree node a signal ends in always has `use_name` set (it has a signal of its own), so the element
    list joined into the signal's name is never empty. -/
theorem buildDict_nonempty (g : List GSig) (s : GSig) (hs : s ∈ g) (hne : s.bt ≠ []) :
    let ps := g.map fun t => keyedPath (tagged g) t.bt
    elems (fuelOf ps) ps (keyedPath (tagged g) s.bt) ≠ [] :=
  elems_ne_nil _ _ _ (keyedPath_ne_nil _ _ hne) (List.mem_map.mpr ⟨s, hs, rfl⟩)

/-- Legality of dictionary names: if every back-trace is non-empty with legal step names, every dictionary
    entry (joined with `_`, numbered, DUID-ranked, prefixed by `related` ancestors) is a legal identifier. -/
theorem buildDict_legal (sigs : List Sig) (h : LegalSigs sigs) (i : Nat) (hi : i < sigs.length) :
    isIdent (buildDict sigs i) = true := buildDict_legal' h hi

/-- What the driver executes (and the correspondence compares with the real code) is the per-signal
    definition the theorems speak about. -/
theorem dictList_eq_buildDict (sigs : List Sig) (i : Nat) (hi : i < sigs.length) :
    (dictList sigs)[i]? = some (buildDict sigs i) := dictList_getElem? sigs i hi

theorem groupNames_eq_groupName (g : List GSig) : groupNames g = g.map (groupName g) := groupNames_eq g

/-- End to end, uniqueness: on the namespace built from any signal set, two different objects never receive
    the same identifier, provided no requested base name is another requested base name plus `_k`. -/
theorem namespace_injective_partial (kw : List String) (sigs : List Sig) (extra : List String)
    (reqs : List Nat)
    (hshape : noSuffixShapedBase (reqs.map fun i => (baseList sigs ++ extra)[i]?.getD "") = true)
    (s t : SigId) (a : String)
    (hs : (s, a) ∈ namespaceAnswers kw sigs extra reqs) (ht : (t, a) ∈ namespaceAnswers kw sigs extra reqs) :
    s = t :=
  getName_injective_partial kw _ reqs hshape s t a hs ht

/-- End to end, reserved words: no identifier issued by a namespace seeded with the regenerated LiteX table
    is an IEEE 1364-2005 keyword — whatever the back-traces and overrides are. -/
theorem namespace_not_reserved (sigs : List Sig) (extra : List String) (reqs : List Nat)
    (s : SigId) (a : String) (h : (s, a) ∈ namespaceAnswers keywords sigs extra reqs) : a ∉ ieee1364_2005 :=
  name_not_reserved_1364 _ reqs s a h

/-- End to end, legality: legal step names and legal overrides give legal identifiers. -/
theorem namespace_legal (kw : List String) (sigs : List Sig) (extra : List String) (reqs : List Nat)
    (hsigs : LegalSigs sigs) (hextra : ∀ e ∈ extra, isIdent e = true)
    (hreqs : ∀ i ∈ reqs, i < sigs.length + extra.length)
    (s : SigId) (a : String) (h : (s, a) ∈ namespaceAnswers kw sigs extra reqs) : isIdent a = true := by
  refine name_legal kw _ reqs ?_ s a h
  intro (i : Nat) hi
  have hlen : (baseList sigs).length = sigs.length := by
    simp [baseList, dictList_length]
  by_cases hlt : i < sigs.length
  · have : (baseList sigs ++ extra)[i]? = some (baseOf sigs i) := by
      rw [List.getElem?_append_left (hlen ▸ hlt)]
      exact baseList_getElem? sigs i hlt
    simp only [this, Option.getD_some]
    exact baseOf_legal hsigs hlt
  · have hi2 := hreqs i hi
    have hge : (baseList sigs).length ≤ i := by rw [hlen]; exact Nat.le_of_not_lt hlt
    have hidx : i - (baseList sigs).length < extra.length := by rw [hlen]; omega
    have : (baseList sigs ++ extra)[i]? = some (extra[i - (baseList sigs).length]) := by
      rw [List.getElem?_append_right hge]
      simp [hidx]
    simp only [this, Option.getD_some]
    exact hextra _ (List.getElem_mem _)

/-- Non-vacuity of the dictionary theorems: two sub-modules `m` (numbers 0 and 1) with signals `x`, `w` / `x`,
    a signal with a `related` parent, and an override named like a keyword — the hierarchy (`use_name`),
    number (`use_number`) and `related` paths are all taken, a memory named like a dictionary entry is
    renamed, and the group dictionary is the same for another listing order. -/
example :
    let sigs : List Sig := [
      ⟨0, [("top", 0), ("m", 0), ("x", 0)], none, none⟩,
      ⟨1, [("top", 0), ("m", 1), ("x", 1)], none, none⟩,
      ⟨2, [("top", 0), ("m", 0), ("w", 0)], none, none⟩,
      ⟨3, [("top", 0), ("y", 0)], some 0, none⟩,
      ⟨4, [("top", 0), ("z", 0)], none, some "if"⟩]
    let g : List GSig := [⟨0, [("m", 0), ("x", 0)]⟩, ⟨1, [("m", 1), ("x", 1)]⟩, ⟨2, [("m", 0), ("w", 0)]⟩]
    dictList sigs = ["m0_x", "m1_x", "m0_w", "m0_x_y", "z"] ∧
    (namespaceAnswers ["if"] sigs ["m0_x"] [4, 0, 5, 3]).map (·.2) = ["if_1", "m0_x", "m0_x_1", "m0_x_y"] ∧
    g.map (groupName g) = ["m0_x", "m1_x", "m0_w"] ∧
    g.map (groupName g.reverse) = ["m0_x", "m1_x", "m0_w"] := by
  decide +kernel

/-! ## Ordered emission (`sorted(..., key=…)` over Python sets/dicts), modelled in `LitexModel/Namer/Emit.lean`

  The generator iterates sets (attributes, IOs, signals, specials) and dicts (`f.sync`) for emission only through
  `sorted`.  `sortedBy` is that call (stable, like Python's); the harness hands the model the collection in its
  real iteration order and compares the emitted text / order exactly. -/

/-- Generic: a stable sort by a key whose order is total gives the same list for every listing order of the
    collection, provided the key identifies the element among the listed ones. -/
theorem sortedEmission_perm {α κ : Type} {leK : κ → κ → Bool} {key : α → κ}
    (trans : ∀ a b c, leK a b = true → leK b c = true → leK a c = true)
    (total : ∀ a b, leK a b = true ∨ leK b a = true)
    (antisymm : ∀ a b, leK a b = true → leK b a = true → a = b)
    {l₁ l₂ : List α} (h : l₁.Perm l₂) (hinj : ∀ a ∈ l₁, ∀ b ∈ l₁, key a = key b → a = b) :
    sortedBy leK key l₁ = sortedBy leK key l₂ := sortedBy_perm trans total antisymm h hinj

/-- The sorted list is a permutation of the collection: nothing is dropped or repeated by the ordering step. -/
theorem sortedEmission_complete {α κ : Type} (leK : κ → κ → Bool) (key : α → κ) (l : List α) :
    (sortedBy leK key l).Perm l := sortedBy_perm_list leK key l

/-  Full statement (FALSE, see the witness below):
      theorem emitAttrs_perm (tr) (h : l₁.Perm l₂) : emitAttrs tr l₁ = emitAttrs tr l₂
    A tuple attribute with an EMPTY name has the sort key `("", v)` of the string attribute `v`; Python's sort is
    stable, so the two keep their set-iteration order. -/

/-- **Attributes**: the `(* … *)` prefix `_generate_attribute` emits is the same for every iteration order of
    the attribute set, for every `attr_translate` table, provided every tuple attribute carries a non-empty
    name. -/
theorem emitAttrs_perm_partial (tr : AttrTable) {l₁ l₂ : List Attr} (h : l₁.Perm l₂)
    (hwf : ∀ a ∈ l₁, a.named = true) : emitAttrs tr l₁ = emitAttrs tr l₂ := by
  have : sortedBy keyLe Attr.key l₁ = sortedBy keyLe Attr.key l₂ :=
    sortedBy_perm keyLe_trans keyLe_total keyLe_antisymm h
      (fun a ha b hb hk => Attr.key_inj (hwf a ha) (hwf b hb) hk)
  unfold emitAttrs attrItems
  rw [this]

/-- Sets of string attributes (what LiteX's own cores attach: `keep`, `async_reg`, `mr_ff`, …): no hypothesis. -/
theorem emitAttrs_perm_strings (tr : AttrTable) {s₁ s₂ : List String} (h : s₁.Perm s₂) :
    emitAttrs tr (s₁.map Attr.name) = emitAttrs tr (s₂.map Attr.name) :=
  emitAttrs_perm_partial tr (h.map _) (by intro a ha; obtain ⟨s, _, rfl⟩ := List.mem_map.mp ha; rfl)

/-- Negative witness for the full statement: `{"k", ("", "k")}` is emitted in set-iteration order. -/
example : emitAttrs [("k", some ("k", .str "true"))] [.name "k", .pair "" (.str "k")] ≠
    emitAttrs [("k", some ("k", .str "true"))] [.pair "" (.str "k"), .name "k"] := by decide

/-- Non-vacuity: four attributes of a clock-domain-crossing register under the Vivado table, listed in two
    orders — strings first (by source name, not by translated name), then tuples, dropped entries skipped. -/
example :
    let tr : AttrTable := [("keep", some ("dont_touch", .str "true")), ("async_reg", some ("async_reg", .str "true")),
      ("mr_ff", some ("mr_ff", .str "true")), ("no_shreg_extract", none)]
    emitAttrs tr [.name "mr_ff", .pair "loc" (.str "X0"), .name "keep", .name "no_shreg_extract", .name "async_reg",
        .pair "iob" (.int 1)] =
      "(* async_reg = \"true\", dont_touch = \"true\", mr_ff = \"true\", iob = 1, loc = \"X0\" *)\n" ∧
    emitAttrs tr [.pair "iob" (.int 1), .name "async_reg", .name "no_shreg_extract", .name "keep",
        .pair "loc" (.str "X0"), .name "mr_ff"] =
      "(* async_reg = \"true\", dont_touch = \"true\", mr_ff = \"true\", iob = 1, loc = \"X0\" *)\n" ∧
    emitAttrs [] [.name "keep"] = "" := by decide

/-  Full statement (FALSE when two listed objects carry one identifier — excluded by `getNameFixed_injective`):
      theorem declOrder_perm (h : l₁.Perm l₂) : declOrder l₁ = declOrder l₂ -/

/-- **Ports / signal declarations / comb reset lines / sync blocks** (`sorted(objs, key=get_name)`,
    `sorted(f.sync.items())`): the emission order does not depend on the iteration order of the set, provided
    different listed objects carry different identifiers. -/
theorem declOrder_perm_partial {l₁ l₂ : List (Nat × String)} (h : l₁.Perm l₂)
    (hinj : ∀ a ∈ l₁, ∀ b ∈ l₁, a.2 = b.2 → a = b) : declOrder l₁ = declOrder l₂ := by
  simp only [declOrder, sortedBy_perm strLe_trans strLe_total strLe_antisymm h hinj]

example : declOrder [(0, "x"), (1, "x")] ≠ declOrder [(1, "x"), (0, "x")] := by decide
example : declOrder [(0, "sys_clk"), (1, "a"), (2, "b_1"), (3, "b")] = [1, 3, 2, 0] ∧
    declOrder [(3, "b"), (2, "b_1"), (0, "sys_clk"), (1, "a")] = [1, 3, 2, 0] := by decide

/-- … and the hypothesis is what uniqueness delivers: for the identifiers any reachable namespace state has
    issued (any base names, any request history), the declaration order of a set of named objects is the same
    for every iteration order — no hypothesis on the names left. -/
theorem declOrder_namespace_perm (kw : List String) (base : SigId → String) (reqs : List SigId)
    {objs₁ objs₂ : List SigId} (h : objs₁.Perm objs₂) (hreq : ∀ s ∈ objs₁, s ∈ reqs) :
    let nm := fun s => (((runFixed kw base reqs).sigs.lookup s).map (suffixed (base s))).getD ""
    declOrder (objs₁.map fun s => (s, nm s)) = declOrder (objs₂.map fun s => (s, nm s)) := by
  intro nm
  have inv : InvF kw base (runFixed kw base reqs) := (InvF.init (kw := kw) (base := base)).runFrom reqs
  have named : ∀ s ∈ reqs, ∃ n, (runFixed kw base reqs).sigs.lookup s = some n :=
    fun s hs => runFromF_named reqs hs
  refine declOrder_perm_partial (h.map _) ?_
  intro a ha b hb hab
  obtain ⟨s, hs, rfl⟩ := List.mem_map.mp ha
  obtain ⟨t, ht, rfl⟩ := List.mem_map.mp hb
  obtain ⟨n, hn⟩ := named s (hreq s hs)
  obtain ⟨m, hm⟩ := named t (hreq t ht)
  simp only [nm, hn, hm, Option.map_some, Option.getD_some] at hab
  have := inv.distinct s t n m hn hm hab
  subst this
  rfl


/-- **Default-assignment lines** of a multi-target `always @(*)` block (`for t in sorted(g[0], key=get_name)` in
    `_generate_combinatorial_logic_synth`): for every namespace history and every iteration order of the target set
    `g[0]` (a set of DUID-hashed Signals, so its order moves with the absolute DUIDs) the lines come out in one
    order. -/
theorem defaultLines_perm (kw : List String) (base : SigId → String) (reqs : List SigId)
    {targets₁ targets₂ : List SigId} (h : targets₁.Perm targets₂) (hreq : ∀ s ∈ targets₁, s ∈ reqs) :
    let nm := fun s => (((runFixed kw base reqs).sigs.lookup s).map (suffixed (base s))).getD ""
    declOrder (targets₁.map fun s => (s, nm s)) = declOrder (targets₂.map fun s => (s, nm s)) :=
  declOrder_namespace_perm kw base reqs h hreq

/-- **Specials** (`sorted(specials, key=duid)`, also the visiting order of the IO naming step): independent of
    the iteration order of the set; DUIDs identify the objects. -/
theorem duidOrder_perm_partial {l₁ l₂ : List (Nat × Nat)} (h : l₁.Perm l₂)
    (hinj : ∀ a ∈ l₁, ∀ b ∈ l₁, a.2 = b.2 → a = b) : duidOrder l₁ = duidOrder l₂ := by
  simp only [duidOrder, sortedBy_perm natLe_trans natLe_total natLe_antisymm h hinj]

example : duidOrder [(0, 12), (1, 3), (2, 7)] = [1, 2, 0] ∧ duidOrder [(2, 7), (0, 12), (1, 3)] = [1, 2, 0] := by decide

/-- Emission is idempotent: a collection that is already in emission order is left alone. -/
theorem sortedEmission_idem {α κ : Type} {leK : κ → κ → Bool} {key : α → κ}
    (trans : ∀ a b c, leK a b = true → leK b c = true → leK a c = true)
    (total : ∀ a b, leK a b = true ∨ leK b a = true) (l : List α) :
    sortedBy leK key (sortedBy leK key l) = sortedBy leK key l := by
  have t' : ∀ a b c : α, leK (key a) (key b) = true → leK (key b) (key c) = true → leK (key a) (key c) = true :=
    fun a b c => trans _ _ _
  have o' : ∀ a b : α, leK (key a) (key b) = true ∨ leK (key b) (key a) = true := fun a b => total _ _
  unfold sortedBy
  exact isort_of_pairwise _ (isort_pairwise t' o' l)

/-! ## ClockSignal / ResetSignal resolution in `get_name` -/

/-- A `ClockSignal(cd)` / `ResetSignal(cd)` request is answered exactly like a request for the domain's own
    clock / reset signal: the request sequence may be replaced by the resolved one. -/
theorem answersCd_resolved (kw : List String) (base : SigId → String) (cds : List Cd) (reqs : List Req)
    (ids : List Nat) (h : resolveAll cds reqs = some ids) :
    answersCd kw base cds reqs = some (answersFixed kw base ids) := by
  simp [answersCd, h]

/-- What the resolution returns is the clock (reset) signal of a domain of that name. -/
theorem resolve_clk (cds : List Cd) (c : String) (i : Nat) (h : resolve cds (.clk c) = some i) :
    ∃ d ∈ cds, d.name = c ∧ d.clk = i := resolve_clk_sound h
theorem resolve_rst (cds : List Cd) (c : String) (i : Nat) (h : resolve cds (.rst c) = some i) :
    ∃ d ∈ cds, d.name = c ∧ d.rst = some i := resolve_rst_sound h

/-- Aliases never split and never merge: in one request sequence mixing plain signals, ClockSignals and
    ResetSignals, requests that resolve to the same signal receive one identifier, and requests that resolve to
    different signals receive different identifiers. -/
theorem answersCd_alias_iff (kw : List String) (base : SigId → String) (cds : List Cd) (reqs : List Req)
    (ans : List (SigId × String)) (h : answersCd kw base cds reqs = some ans)
    (s t : SigId) (a b : String) (hs : (s, a) ∈ ans) (ht : (t, b) ∈ ans) : a = b ↔ s = t := by
  simp only [answersCd, Option.map_eq_some_iff] at h
  obtain ⟨ids, -, rfl⟩ := h
  constructor
  · rintro rfl; exact getNameFixed_injective kw base ids s t a hs ht
  · rintro rfl; exact answersFromF_functional _ ids s a b hs ht

/-- Non-vacuity: `ClockSignal("sys")` and `sys_clk` itself give one name, a user signal that is also called
    `sys_clk` gets another one; a reset-less domain's ResetSignal raises. -/
example :
    let base : SigId → String := fun s => if s = 0 then "sys_clk" else if s = 1 then "sys_rst" else "sys_clk"
    answersCd ["if"] base [⟨"sys", 0, some 1⟩, ⟨"por", 3, none⟩] [.clk "sys", .obj 2, .obj 0, .rst "sys", .clk "por"] =
      some [(0, "sys_clk"), (2, "sys_clk_1"), (0, "sys_clk"), (1, "sys_rst"), (3, "sys_clk_2")] ∧
    answersCd ["if"] base [⟨"sys", 0, some 1⟩, ⟨"por", 3, none⟩] [.rst "por"] = none ∧
    answersCd ["if"] base [⟨"sys", 0, some 1⟩] [.clk "nodomain"] = none := by decide +kernel

/-! ## The IO naming step of `convert()` -/

/-- Converting twice names the IOs once: the step is idempotent. -/
theorem ioStep_idem (ios : List Nat) (sigs : List Sig) : ioStep ios (ioStep ios sigs) = ioStep ios sigs := by
  apply List.ext_getElem
  · simp [ioStep]
  · intro i h1 h2
    simp only [ioStep, List.getElem_map, List.getElem_zipIdx] at *
    split <;> simp_all [ioOverride_idem]

/-- The step does not depend on the order in which the IO set is visited. -/
theorem ioStep_perm {ios₁ ios₂ : List Nat} (h : ios₁.Perm ios₂) (sigs : List Sig) :
    ioStep ios₁ sigs = ioStep ios₂ sigs := by
  simp only [ioStep, h.mem_iff]

/-- An IO without `name_override` is named after the last step of its back-trace (when that name is
    non-empty); an override set by the user is kept; other signals are not touched. -/
theorem ioStep_getElem (ios : List Nat) (sigs : List Sig) (i : Nat) (hi : i < sigs.length) :
    (ioStep ios sigs)[i]? = some (if i ∈ ios then ioOverride sigs[i] else sigs[i]) := by
  simp [ioStep, hi]

theorem ioOverride_spec (s : Sig) :
    (ioOverride s).override =
      match s.override with
      | some o => some o
      | none => match s.bt.getLast? with
        | some (n, _) => if n = "" then none else some n
        | none => none := ioOverride_override s

/-- Legal back-traces and overrides stay legal through the step, so the legality theorems apply to the IOs'
    new base names. -/
theorem ioStep_legal (ios : List Nat) (sigs : List Sig) (h : LegalSigs sigs) : LegalSigs (ioStep ios sigs) := by
  intro s hs
  simp only [ioStep, List.mem_map] at hs
  obtain ⟨⟨s0, i⟩, hm, rfl⟩ := hs
  have hm0 : s0 ∈ sigs := by
    have := List.mem_zipIdx hm
    simp only [Nat.zero_add] at this
    exact this.2.2 ▸ List.getElem_mem _
  by_cases hi : i ∈ ios
  · simp only [hi, if_true]; exact ioOverride_legal (h s0 hm0)
  · simp only [hi, if_false]; exact h s0 hm0

example : (ioStep [0, 2] [⟨5, [("top", 0), ("led", 1)], none, none⟩, ⟨6, [("top", 0), ("x", 0)], none, none⟩,
      ⟨7, [("top", 0), ("y", 0)], none, some "pad"⟩]).map (·.override) = [some "led", none, some "pad"] := by decide

/-! ## Every identifier class of the emitted text (signals, memories, instances, the helper registers
    `<mem>_adr<n>` / `<mem>_dat<n>` of `memory.py`, clock-domain signals `<cd>_clk` / `<cd>_rst`)

  All classes are named by ONE namespace, so the uniqueness / reserved-word / legality theorems hold across
  the classes; `Obj.base` is the base name of each class (tied to the real `convert()` by `classanswers`). -/

/-- No two different objects of any classes share an identifier — e.g. a user signal called `mem_adr0` and the
    address register of memory `mem`, or a signal `sys_clk_1` and the second clock named `sys_clk`. -/
theorem class_injective (kw : List String) (objs : List Obj) (reqs : List Nat) (s t : SigId) (a : String)
    (hs : (s, a) ∈ classAnswers kw objs reqs) (ht : (t, a) ∈ classAnswers kw objs reqs) : s = t :=
  getNameFixed_injective kw _ reqs s t a hs ht

theorem class_not_reserved (objs : List Obj) (reqs : List Nat) (s : SigId) (a : String)
    (h : (s, a) ∈ classAnswers keywords objs reqs) : a ∉ ieee1364_2005 :=
  fun hk => getNameFixed_not_reserved keywords _ reqs s a h (keywords_cover_1364 a hk)

/-- Legality of every class: when the user-chosen parts (signal names, memory / instance names, clock-domain
    names) are legal identifiers, so are all emitted identifiers, including the generated helper and clock names
    and their `_n` suffixes. -/
theorem class_legal (kw : List String) (objs : List Obj) (reqs : List Nat)
    (hobjs : ∀ o ∈ objs, o.legal = true) (hreqs : ∀ i ∈ reqs, i < objs.length)
    (s : SigId) (a : String) (h : (s, a) ∈ classAnswers kw objs reqs) : isIdent a = true := by
  refine getNameFixed_legal kw _ reqs ?_ s a h
  intro (i : Nat) hi
  have hlt := hreqs i hi
  have : objs[i]? = some objs[i] := by simp [hlt]
  simp only [this, Option.map_some, Option.getD_some]
  exact Obj.base_legal (hobjs _ (List.getElem_mem hlt))

/-- The helper registers of one memory have pairwise different base names (so without a user clash they carry
    exactly `<mem>_adr<n>` / `<mem>_dat<n>`). -/
theorem adrBase_inj (m : String) (n n' : Nat) (h : adrBase m n = adrBase m n') : n = n' := by
  have := congrArg String.toList h
  simp only [adrBase, String.toList_append, List.append_assoc, List.append_cancel_left_eq] at this
  exact toDigits_inj (by simpa [toList_toString_nat] using this)

theorem datBase_inj (m : String) (n n' : Nat) (h : datBase m n = datBase m n') : n = n' := by
  have := congrArg String.toList h
  simp only [datBase, String.toList_append, List.append_assoc, List.append_cancel_left_eq] at this
  exact toDigits_inj (by simpa [toList_toString_nat] using this)

theorem adrBase_ne_datBase (m : String) (n n' : Nat) : adrBase m n ≠ datBase m n' := by
  intro h
  have := congrArg String.toList h
  simp only [adrBase, datBase, String.toList_append, List.append_assoc, List.append_cancel_left_eq] at this
  have h2 := congrArg (fun l => l[1]?) this
  simp at h2

/-- Non-vacuity / the former C02-r3m1 witness: memory `mem` with a write-first port next to user signals called
    `mem_adr0` and `mem` — the helper register and the memory get fresh identifiers; clock-domain signals of a
    domain called like a keyword are renamed. -/
example :
    memHelpers "mem_1" [.writeFirst, .async, .dataReg] = ["mem_1_adr0", "mem_1_dat2"] ∧
    (classAnswers ["if", "wire"] [.sig "mem_adr0", .sig "mem", .mem "mem", .adr "mem" 0, .cdClk "sys", .cdRst "sys",
        .sig "sys_clk", .inst "if"] [0, 1, 2, 3, 4, 5, 6, 7, 3]).map (·.2) =
      ["mem_adr0", "mem", "mem_1", "mem_adr0_1", "sys_clk", "sys_rst", "sys_clk_1", "if_1", "mem_adr0_1"] := by
  decide +kernel


/-! ## What the first-request order does (NOT order-independent; same design in the same context = same DUIDs = same order)

  The identifiers themselves depend on the order of the FIRST requests, which in `convert()` is the iteration
  order of the sets `ios` / `sigs - ios` inside `sorted(…, key=get_name)` (Signals hash by DUID, so that order is
  a function of the absolute DUID values): objects with equal base names swap their `_n` suffixes. -/
example : answersFixed [] (fun _ => "x") [0, 1] = [(0, "x"), (1, "x_1")] ∧
    answersFixed [] (fun _ => "x") [1, 0] = [(1, "x"), (0, "x_1")] := by decide +kernel

/-  theorem names_order_independent_open (kw base reqs)
        (hkw : ∀ s ∈ reqs, base s ∉ kw) (hinj : ∀ s ∈ reqs, ∀ t ∈ reqs, base s = base t → s = t) :
        ∀ s a, (s, a) ∈ answersFixed kw base reqs → a = base s
    (pairwise different non-reserved base names are issued verbatim, whatever the request order) — not closed. -/

end Litex.C02
