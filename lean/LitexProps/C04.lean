import LitexProofs.Stream.HandshakeBasic
import LitexProofs.Stream.HandshakeStatus
/-
  C04 — Stream elements keep the handshake contract and never stall forever.

  Vocabulary (definitions in `LitexProofs/Stream/Handshake.lean`, `LitexModel/Stream/Core.lean`):
  * `In` = what the environment drives in one cycle (sink.valid, sink token, source.ready); an input list is one
    valid/ready schedule together with one token sequence (garbage tokens allowed while valid = 0).
  * `StableIn e s ins`  — along `ins`, started in state `s`, the producer keeps the contract: a token offered and
    not accepted (the element's own `sink.ready` was low) is offered again, unchanged, in the next cycle.
  * `StableOut e s ins` — the element keeps the same contract on its source: `source.valid ∧ ¬source.ready` at
    cycle `t` implies `source.valid` and the same payload/param/first/last at `t+1` (`contract_index_form`).
  * `KeepsContract e`   — `StableIn → StableOut` from **every reachable state** and for every continuation.
  * `Coop i`            — a cooperative cycle: valid = 1 and ready = 1 (any token).
  * `ProgressWithin e K`  — from every reachable state, `n*K` cooperative cycles contain ≥ `n` handshakes.
  * `DeliversWithin e K`  — from every reachable state, `n*K` cooperative cycles deliver ≥ `n` tokens.
-/
namespace Litex.C04
open Litex.Stream Litex.Stream.Elem
variable {α β γ σ τ : Type}

/-! ## Generic lifting lemmas -/

/-- (1) Stability lifting: a one-cycle lemma (`StepStable`: the invariant is inductive and `HoldsIn` between two
    consecutive cycles implies `HoldsOut` between them) gives the contract along every input list. -/
theorem stable_lifting {e : Elem α β σ} {Inv : σ → Prop} (h : StepStable e Inv)
    (s : σ) (hs : Inv s) (ins : List (In α)) : StableIn e s ins → StableOut e s ins :=
  stable_of_step h s hs ins

/-- What `StableOut` says cycle by cycle: if at cycle `t` the source offered (`o.valid`) and the consumer did not
    take (`x.ready = false`), then at `t+1` the source still offers the identical token. -/
theorem contract_index_form (e : Elem α β σ) (s : σ) (ins : List (In α)) (h : StableOut e s ins)
    (t : Nat) (o o' : Out β) (x : In α)
    (h1 : (e.outs s ins)[t]? = some o) (h2 : (e.outs s ins)[t + 1]? = some o') (h3 : ins[t]? = some x) :
    o.valid = true → x.ready = false → (o'.valid = true ∧ o'.tok = o.tok) :=
  stableOut_index e s ins h t o o' x h1 h2 h3

/-- What suffices for `StableIn`, cycle by cycle: the producer re-offers at `t+1` the token it offered at `t`
    whenever `sink.ready` was low at `t`. -/
theorem producer_index_form (e : Elem α β σ) (s : σ) (ins : List (In α))
    (h : ∀ (t : Nat) (x x' : In α) (o : Out β),
        ins[t]? = some x → ins[t + 1]? = some x' → (e.outs s ins)[t]? = some o →
        x.valid = true → o.ready = false → (x'.valid = true ∧ x'.tok = x.tok)) : StableIn e s ins :=
  stableIn_of_index e s ins h

/-- (2) Composition: the contract of `a ⟫ b` (a.source wired to b.sink as `Endpoint.connect`/`Pipeline` do)
    follows from the one-cycle lemmas of `a` and `b`; no separate proof about the composite. -/
theorem stable_composition {a : Elem α β σ} {b : Elem β γ τ} {Ia : σ → Prop} {Ib : τ → Prop}
    (ha : StepStable a Ia) (hb : StepStable b Ib) (s : σ × τ) (hsa : Ia s.1) (hsb : Ib s.2)
    (ins : List (In α)) : StableIn (a.comp b) s ins → StableOut (a.comp b) s ins :=
  comp_stable ha hb s hsa hsb ins

/-- (3) Progress lifting: if every window of `K` cooperative cycles from an invariant state contains a
    handshake, then `n*K` cooperative cycles contain at least `n`: handshakes never stop. -/
theorem progress_lifting (e : Elem α β σ) (Inv : σ → Prop) (hstep : ∀ s i, Inv s → Inv (e.step s i)) (K : Nat)
    (hwin : ∀ s ins, Inv s → (∀ i ∈ ins, Coop i) → ins.length = K → 1 ≤ e.hsCount s ins)
    (n : Nat) (s : σ) (ins : List (In α)) (hs : Inv s) (hc : ∀ i ∈ ins, Coop i) (hlen : n * K ≤ ins.length) :
    n ≤ e.hsCount s ins :=
  hsCount_ge_of_window e Inv hstep Coop K hwin n s ins hs hc hlen

/-- Same for deliveries (no livelock). -/
theorem delivery_lifting (e : Elem α β σ) (Inv : σ → Prop) (hstep : ∀ s i, Inv s → Inv (e.step s i)) (K : Nat)
    (hwin : ∀ s ins, Inv s → (∀ i ∈ ins, Coop i) → ins.length = K → 1 ≤ (e.delivered s ins).length)
    (n : Nat) (s : σ) (ins : List (In α)) (hs : Inv s) (hc : ∀ i ∈ ins, Coop i) (hlen : n * K ≤ ins.length) :
    n ≤ (e.delivered s ins).length :=
  delivered_ge_of_window e Inv hstep Coop K hwin n s ins hs hc hlen

/-! ## PipeValid -/

theorem pipeValid_stable (z : Tok α) : KeepsContract (pipeValid z) :=
  keepsContract_of_stepStable (pipeValid_stepStable z) trivial

/-- A sink handshake in every cooperative cycle (`K = 1`). -/
theorem pipeValid_progress (z : Tok α) : ProgressWithin (pipeValid z) 1 :=
  progressWithin_of_window _ (fun _ => True) trivial (fun _ _ _ => trivial) 1
    (fun s ins _ hc hl => pipeValid_hs_window z s ins hc hl)

/-- At least one delivery every 2 cooperative cycles from any state. -/
theorem pipeValid_no_livelock (z : Tok α) : DeliversWithin (pipeValid z) 2 :=
  deliversWithin_of_window _ (fun _ => True) trivial (fun _ _ _ => trivial) 2
    (fun s ins _ hc hl => pipeValid_del_window z s ins hc hl)

/-! ## PipeReady -/

theorem pipeReady_stable (z : Tok α) : KeepsContract (pipeReady z) :=
  keepsContract_of_stepStable (pipeReady_stepStable z) (by simp [prInv, pipeReady])

/-- A delivery (hence a handshake) in every cooperative cycle. -/
theorem pipeReady_no_livelock (z : Tok α) : DeliversWithin (pipeReady z) 1 :=
  deliversWithin_of_window _ prInv (by simp [prInv, pipeReady]) (pipeReady_inv_step z) 1
    (fun s ins hs hc hl => pipeReady_hs_window z s hs ins hc hl)

theorem pipeReady_progress (z : Tok α) : ProgressWithin (pipeReady z) 1 :=
  (pipeReady_no_livelock z).progress

/-! ## Wire (`Endpoint.connect`, `SyncFIFO(depth=0)`, same-domain unbuffered `ClockDomainCrossing`) -/

theorem wire_stable : KeepsContract (wire (α := α)) :=
  keepsContract_of_stepStable wire_stepStable trivial

theorem wire_no_livelock : DeliversWithin (wire (α := α)) 1 :=
  deliversWithin_of_window _ (fun _ => True) trivial (fun _ _ _ => trivial) 1
    (fun s ins _ hc hl => wire_del_window s ins hc hl)

theorem wire_progress : ProgressWithin (wire (α := α)) 1 := wire_no_livelock.progress

/-! ## SyncFIFO (Migen `SyncFIFO`, fwft) -/

theorem syncFifo_stable (depth : Nat) (z : Tok α) : KeepsContract (syncFifo depth z) :=
  keepsContract_of_stepStable (syncFifo_stepStable depth z) (by simp [fifoInv, syncFifo])

/-- Any depth ≥ 1: a handshake in every cooperative cycle (a full FIFO is a non-empty FIFO). -/
theorem syncFifo_progress (depth : Nat) (hd : 0 < depth) (z : Tok α) : ProgressWithin (syncFifo depth z) 1 :=
  progressWithin_of_window _ (fifoInv depth) (by simp [fifoInv, syncFifo]) (syncFifo_inv_step depth z) 1
    (fun s ins _ hc hl => syncFifo_hs_window depth hd z s ins hc hl)

theorem syncFifo_no_livelock (depth : Nat) (hd : 0 < depth) (z : Tok α) :
    DeliversWithin (syncFifo depth z) 2 :=
  deliversWithin_of_window _ (fifoInv depth) (by simp [fifoInv, syncFifo]) (syncFifo_inv_step depth z) 2
    (fun s ins _ hc hl => syncFifo_del_window depth hd z s ins hc hl)

/-- The hypothesis `0 < depth` is needed: the queue model with depth 0 never accepts (LiteX builds a wire for
    depth 0 and a `Buffer` for depth 1, and never instantiates the Migen FIFO below depth 2). -/
example : (syncFifo 0 (⟨0, false, false⟩ : Tok Nat)).hsCount []
    [⟨true, ⟨1, false, false⟩, true⟩, ⟨true, ⟨1, false, false⟩, true⟩, ⟨true, ⟨1, false, false⟩, true⟩] = 0 := by
  decide

/-! ## SyncFIFOBuffered (Migen `SyncFIFOBuffered`: non-fwft FIFO + output register) -/

theorem syncFifoBuffered_stable (depth : Nat) (hd : 1 ≤ depth) (z : Tok α) :
    KeepsContract (syncFifoBuffered depth z) :=
  keepsContract_of_stepStable (syncFifoBuffered_stepStable depth hd z) (by simp [fbInv, syncFifoBuffered])

/-- Depth ≥ 2 (the only depths LiteX instantiates): a handshake in every cooperative cycle.  Uses the
    invariant "output register empty → inner FIFO holds ≤ 1 word". -/
theorem syncFifoBuffered_progress (depth : Nat) (hd : 2 ≤ depth) (z : Tok α) :
    ProgressWithin (syncFifoBuffered depth z) 1 :=
  progressWithin_of_window _ (fbInv depth) (by simp [fbInv, syncFifoBuffered])
    (syncFifoBuffered_inv_step depth (by omega) z) 1
    (fun s ins hs hc hl => syncFifoBuffered_hs_window depth hd z s hs ins hc hl)

/-- At least one delivery every 3 cooperative cycles (write, inner read, output register). -/
theorem syncFifoBuffered_no_livelock (depth : Nat) (hd : 1 ≤ depth) (z : Tok α) :
    DeliversWithin (syncFifoBuffered depth z) 3 :=
  deliversWithin_of_window _ (fbInv depth) (by simp [fbInv, syncFifoBuffered])
    (syncFifoBuffered_inv_step depth hd z) 3
    (fun s ins _ hc hl => syncFifoBuffered_del_window depth hd z s ins hc hl)

/-! ## Buffer(pipe_valid=True, pipe_ready=True) = PipeValid ⟫ PipeReady -/

/-- Obtained from the two element lemmas through `StepStable.comp`. -/
theorem bufferVR_stable (z : Tok α) : KeepsContract (bufferVR z) :=
  keepsContract_of_stepStable (bufferVR_stepStable z)
    ⟨trivial, by simp [prInv, bufferVR, Elem.comp, pipeReady]⟩

theorem bufferVR_progress (z : Tok α) : ProgressWithin (bufferVR z) 1 :=
  progressWithin_of_window _ (fun s => True ∧ prInv s.2)
    ⟨trivial, by simp [prInv, bufferVR, Elem.comp, pipeReady]⟩ (bufferVR_stepStable z).inv_step 1
    (fun s ins hs hc hl => bufferVR_hs_window z s hs.2 ins hc hl)

theorem bufferVR_no_livelock (z : Tok α) : DeliversWithin (bufferVR z) 2 :=
  deliversWithin_of_window _ (fun s => True ∧ prInv s.2)
    ⟨trivial, by simp [prInv, bufferVR, Elem.comp, pipeReady]⟩ (bufferVR_stepStable z).inv_step 2
    (fun s ins hs hc hl => bufferVR_del_window z s hs.2 ins hc hl)

/-! ## packet.Status -/

/-- `Status.first` is 1 exactly when the next beat is the first of a packet — no beat transferred yet, or the
    latest transferred beat carried `last` — and the `ongoing` register is 1 exactly when `valid` was seen since
    the most recent last-beat handshake; for every history of the observed endpoint. -/
theorem status_first_last (ins : List StatusIn) :
    (status.run ins).first = (((beats ins).getLast?).map (·.last)).getD true ∧
    (status.run ins).ongoing = (sinceLast ins).any (·.valid) :=
  ⟨status_first_run ins, status_ongoing_run ins⟩

/-- The combinational outputs in a cycle with inputs `i` after history `ins`: `last` flags the transfer of a last
    beat, `ongoing` = (valid now or seen since the last packet end) and not ending now. -/
theorem status_outputs (ins : List StatusIn) (i : StatusIn) :
    (status.out (status.run ins) i).last = (i.valid && i.last && i.ready) ∧
    (status.out (status.run ins) i).ongoing =
      ((i.valid || (sinceLast ins).any (·.valid)) && !(i.valid && i.last && i.ready)) ∧
    (status.out (status.run ins) i).first = (((beats ins).getLast?).map (·.last)).getD true := by
  refine ⟨rfl, ?_, status_first_run ins⟩
  show ((i.valid || (status.run ins).ongoing) && !i.lastHs) = _
  rw [status_ongoing_run]; rfl

/-! ## Non-vacuity and negative witnesses -/

/-- The hypotheses are satisfiable on a run in which the contract actually bites: the consumer stalls a valid
    token for two cycles, the producer (which must hold: PipeValid is full) holds, and both contracts hold. -/
example :
    let z : Tok Nat := ⟨0, false, false⟩
    let ins : List (In Nat) :=
      [⟨true, ⟨5, true, false⟩, false⟩, ⟨true, ⟨6, false, true⟩, false⟩, ⟨true, ⟨6, false, true⟩, false⟩,
       ⟨true, ⟨6, false, true⟩, true⟩, ⟨false, ⟨9, true, true⟩, true⟩]
    StableIn (pipeValid z) (pipeValid z).init ins ∧ StableOut (pipeValid z) (pipeValid z).init ins ∧
    ((pipeValid z).outs (pipeValid z).init ins).map (·.valid) = [false, true, true, true, true] := by
  simp [StableIn, StableInFrom, StableOut, StableOutFrom, HoldsIn, HoldsOut, pipeValid, Elem.out, Elem.step,
    Elem.outs, Machine.traceFrom, Elem.toMachine]

/-- The producer hypothesis is necessary: a wire driven by a producer that retracts shows a retraction. -/
example :
    let ins : List (In Nat) := [⟨true, ⟨5, false, false⟩, false⟩, ⟨false, ⟨5, false, false⟩, false⟩]
    ¬ StableOut (wire (α := Nat)) () ins := by
  simp [StableOut, StableOutFrom, HoldsOut, wire, Elem.out]

/-- Progress is not vacuous: three cooperative cycles through a depth-2 FIFO from reset give 3 sink handshakes
    and 2 deliveries. -/
example :
    let e := syncFifo 2 (⟨0, false, false⟩ : Tok Nat)
    let ins : List (In Nat) := [⟨true, ⟨1, true, false⟩, true⟩, ⟨true, ⟨2, false, false⟩, true⟩, ⟨true, ⟨3, false, true⟩, true⟩]
    (e.accepted [] ins).length = 3 ∧ (e.delivered [] ins).length = 2 := by decide

/-- Status on a two-packet history: beats (f l) = (1 0) (0 1) | (1 1); `first` is back to 1 after each `last`. -/
example :
    let ins : List StatusIn := [⟨true, false, true⟩, ⟨true, true, false⟩, ⟨true, true, true⟩]
    (status.run ins).first = true ∧ (status.run (ins.take 1)).first = false ∧
    (status.run (ins.take 2)).ongoing = true ∧ (status.run ins).ongoing = false := by decide

end Litex.C04
